import OV.Lemmas.C17
import OV.Gen.C17Grid
import OV.Gen.C17CoverS
import OV.Gen.C17CoverM
import OV.Gen.C17CoverK
import OV.Gen.C17Checks
import OV.Gen.C17IrMap
import OV.Gen.C17ChecksNames
/-!
# C17 — generated opset classes mirror the ONNX operator schemas exactly

Property theorems only.  Model: `OV.Model.C17OpsetGen`; tables `OV.Gen.C17*` are regenerated on every
run from `/repo/onnxscript/onnx_opset/_impl/*.py` (parsed with `ast`) and the installed `onnx.defs`.
Names are numbers (`enc`), see the model file.

The table facts the kernel evaluates (`decide +kernel`, in `OV/Gen`): `gridChunks_ok` (every cell
(domain, operator, class) of the grid), `schemas_covered`/`methods_covered` (the grid contains every
registered and every generated name), `chain_ok`, `exports_ok`, `classes_generated`,
`schemas_have_class`.  Everything below is derived from them for **all** operator names.
-/
namespace OV.Props.C17
open OV.C17 OV.Gen.C17

/-- **Every cell, for every name whatsoever.**  For each generated class `c` and each operator name `n`
(in the tables or not), what `getattr(c, n)` resolves to on the generated classes and what
`onnx.defs.get_schema(n, c.version, c.domain)` answers stand in the relation `cellOk` — no exception list
(finding C17-F1 was repaired in /repo 52a48cf: a deprecated schema in force is paired with no method or a
raising stub only). -/
theorem cell_all (c : Cls) (hc : c ∈ classes) (n : Nat) :
    cellOk false (lookup schemas c.domain c.version n) (resolve classes c.domain c.version n) = true := by
  have hgen : ungeneratedDomains.contains c.domain = false := by
    have := List.all_eq_true.mp classes_generated c hc
    simpa using this
  by_cases hg : inGrid gridChunks c.domain n = true
  · rcases inGrid_iff.mp hg with ⟨g, hgm, hg1, hg2⟩
    have hrow := List.all_eq_true.mp (gridChunks_ok g hgm) n hg2
    rw [hg1] at hrow
    have := rowOk_cell hrow hc rfl
    rw [hgen] at this
    exact this
  · have h1 : lookup schemas c.domain c.version n = none := by
      cases h : lookup schemas c.domain c.version n with
      | none => rfl
      | some s =>
        exfalso; apply hg
        have hs := lookup_some h
        have := List.all_eq_true.mp schemas_covered s hs.1
        rw [hs.2.1, hs.2.2.1] at this
        exact this
    have h2 : resolve classes c.domain c.version n = none := by
      cases h : resolve classes c.domain c.version n with
      | none => rfl
      | some m =>
        exfalso; apply hg
        rcases resolve_some h with ⟨c', hc', hd, _, hm, hn⟩
        have := List.all_eq_true.mp (List.all_eq_true.mp methods_covered c' hc') m hm
        rw [hd, hn] at this
        exact this
    rw [h1, h2]; rfl

/-- **methods_mirror.**  Whatever method `OpsetN.n` resolves to (own or inherited), `get_schema(n, N, domain)`
finds a schema in force at `N`, and — unless that schema is marked deprecated — the method is a live one
(not a raising stub) and exactly what the generator's rule yields for *that* schema: it calls `get_schema`
with that schema's name, since_version and domain, takes the inputs in order then the attributes as
keyword-only parameters, optional inputs default to `None`, attribute defaults equal the schema defaults,
and every argument is forwarded under its own name (`mirrors`). -/
theorem methods_mirror (c : Cls) (hc : c ∈ classes) (n : Nat) (m : Method)
    (hm : resolve classes c.domain c.version n = some m) :
    ∃ s, lookup schemas c.domain c.version n = some s ∧
      (s.deprecated = false → m.stub = false ∧ mirrors m s = true) := by
  have h := cell_all c hc n
  rw [hm] at h
  cases hl : lookup schemas c.domain c.version n with
  | none => rw [hl] at h; simp [cellOk] at h
  | some s =>
    refine ⟨s, rfl, ?_⟩
    intro hd
    rw [hl] at h
    simpa [cellOk, hd] using h

/-- **methods_complete.**  Every non-deprecated schema in force at the version of a generated class has a
live method on that class, and it mirrors the schema.  (The only domain of `onnx.defs` without classes is
the listed `ungeneratedDomains` = `ai.onnx.preview.training`, see `domains_complete`.) -/
theorem methods_complete (c : Cls) (hc : c ∈ classes) (n : Nat) (s : Schema)
    (hs : lookup schemas c.domain c.version n = some s) (hd : s.deprecated = false) :
    ∃ m, resolve classes c.domain c.version n = some m ∧ m.stub = false ∧ mirrors m s = true := by
  have h := cell_all c hc n
  rw [hs] at h
  cases hr : resolve classes c.domain c.version n with
  | none => rw [hr] at h; simp [cellOk, hd] at h
  | some m =>
    refine ⟨m, rfl, ?_⟩
    rw [hr] at h
    simpa [cellOk, hd] using h

/-- Every registered schema (any version, any domain **except** the regenerated list `ungeneratedDomains` =
`[ai.onnx.preview.training]`, which `opgen` is told to exclude: hypothesis `hu`) has a class of exactly
its domain and since_version among the generated classes. -/
theorem domains_complete (s : Schema) (hs : s ∈ schemas) (hu : s.domain ∉ ungeneratedDomains) :
    ∃ c ∈ classes, c.domain = s.domain ∧ c.version = s.since := by
  have := List.all_eq_true.mp schemas_have_class s hs
  simp only [Bool.or_eq_true, List.contains_iff_mem, List.any_eq_true, Bool.and_eq_true,
    beq_iff_eq] at this
  rcases this with h | ⟨c, hc, h1, h2⟩
  · exact absurd h hu
  · exact ⟨c, hc, h1, h2⟩

/-- **dynamic_eq_static.**  For every generated class (every domain: `''`, `ai.onnx.ml`, `ai.onnx.preview`)
and every operator name, without exception: what `Opset.__getitem__/__getattr__/__contains__` answer
(`get_schema(n, version, domain)`) and what the class offers statically `agree` — both nothing; or a live
method binding exactly that schema's name, since_version and domain; or, for a schema marked deprecated,
nothing callable (no method, or a raising stub).  (Until /repo 52a48cf this failed on 37 cells where the last
live definition of `Upsample`, `Scatter`, `TreeEnsembleClassifier/Regressor` was still inherited — finding
C17-F1, now fixed; the witness is kept as the `example` below and as a must-pass case of the harness.) -/
theorem dynamic_eq_static (c : Cls) (hc : c ∈ classes) (n : Nat) :
    agrees (lookup schemas c.domain c.version n) (resolve classes c.domain c.version n) = true := by
  have h := cell_all c hc n
  cases hlk : lookup schemas c.domain c.version n with
  | none =>
    rw [hlk] at h
    cases hr : resolve classes c.domain c.version n with
    | none => rfl
    | some m => rw [hr] at h; simp [cellOk] at h
  | some s =>
    rw [hlk] at h
    cases hr : resolve classes c.domain c.version n with
    | none =>
      rw [hr] at h
      simpa [cellOk, agrees] using h
    | some m =>
      rw [hr] at h
      cases hd : s.deprecated with
      | true => simpa [cellOk, agrees, hd] using h
      | false =>
        simp only [cellOk, hd, Bool.false_eq_true, if_false, Bool.and_eq_true, Bool.not_eq_true'] at h
        have hmir := h.2
        simp only [mirrors, Bool.and_eq_true, beq_iff_eq] at hmir
        rcases hmir with ⟨⟨⟨⟨⟨⟨⟨⟨⟨⟨⟨⟨_, _⟩, _⟩, h1⟩, h2⟩, h3⟩, _⟩, _⟩, _⟩, _⟩, _⟩, _⟩, _⟩
        simp [agrees, hd, h.1, h1, h2, h3]

/-- the former witness of C17-F1: at `Opset10` (and at the newest class) `Upsample(10)` is in force and
deprecated, and the class now resolves `Upsample` to a raising stub; at `Opset9` the live `Upsample(9)`
method is still there (`enc "Upsample"` = 24603291626610125925) -/
example :
    (match lookup schemas 1 10 24603291626610125925, resolve classes 1 10 24603291626610125925 with
     | some s, some m => s.deprecated && m.stub
     | _, _ => false) = true ∧
    (match lookup schemas 1 27 24603291626610125925, resolve classes 1 27 24603291626610125925 with
     | some s, some m => s.deprecated && m.stub
     | _, _ => false) = true ∧
    (match lookup schemas 1 9 24603291626610125925, resolve classes 1 9 24603291626610125925 with
     | some s, some m => !s.deprecated && !m.stub && m.call.2.1 == 9
     | _, _ => false) = true := by decide +kernel

/-- The same in the form of the property text, **under the hypothesis that the schema in force is not
deprecated** (hence the name `_partial`): the generated method and the dynamic lookup bind the same
(name, since_version, domain).  The hypothesis is forced for this *form* of the statement: for a deprecated schema
the class offers no method or a raising stub (whose `call` is empty), so the two keys cannot be equal; the
unconditional statement is `dynamic_eq_static` above (via `agrees`). -/
theorem dynamic_eq_static_partial (c : Cls) (hc : c ∈ classes) (n : Nat)
    (hdep : ∀ s, lookup schemas c.domain c.version n = some s → s.deprecated = false) :
    (resolve classes c.domain c.version n).map Method.call =
      (lookup schemas c.domain c.version n).map Schema.key := by
  have h := cell_all c hc n
  cases hl : lookup schemas c.domain c.version n with
  | none =>
    rw [hl] at h
    cases hr : resolve classes c.domain c.version n with
    | none => rfl
    | some m => rw [hr] at h; simp [cellOk] at h
  | some s =>
    have hd := hdep s hl
    rcases methods_complete c hc n s hl hd with ⟨m, hm, _, hmir⟩
    rw [hm]
    simp only [mirrors, Bool.and_eq_true, beq_iff_eq] at hmir
    simp only [Option.map_some, Schema.key, Option.some.injEq]
    rcases hmir with ⟨⟨⟨⟨⟨⟨⟨⟨⟨⟨⟨⟨_, _⟩, _⟩, h1⟩, h2⟩, h3⟩, _⟩, _⟩, _⟩, _⟩, _⟩, _⟩, _⟩
    exact Prod.ext h1 (Prod.ext h2 h3)

/-- **Every argument is forwarded under its own name, by every live generated method** (the 630 of the 634
generated `def`s that are not raising stubs — hypothesis `m.stub = false`; the 4 stubs `def Op(self, *args,
**kwargs): raise NotImplementedError` have no call to forward to — whether or not a schema is in force for the
method anywhere): the body passes the positional parameters in order, then `*vararg`, through
`self._prepare_inputs(schema, …)`, and each keyword-only parameter `k` as `k=k` — no parameter dropped, renamed,
swapped or replaced by an expression. -/
theorem every_argument_forwarded (c : Cls) (hc : c ∈ classes) (m : Method) (hm : m ∈ c.methods)
    (hs : m.stub = false) :
    m.fwdInputs = expectedFwdInputs m ∧ (m.usesPrepare = true ∨ m.fwdInputs = []) ∧
      m.fwdAttrs = m.kwonly.map (fun p => (p.1, p.1)) := by
  have h := List.all_eq_true.mp (List.all_eq_true.mp forwarding_ok c hc) m hm
  simp only [forwardsOwnParams, hs, Bool.false_or, Bool.and_eq_true, Bool.or_eq_true,
    List.isEmpty_iff] at h
  exact ⟨natBoolList_beq_eq h.1.1, h.1.2, natPairList_beq_eq h.2⟩

/-! ## dynamic lookup depends on (domain, version, name) only — over all histories, all domains -/

/-- **lookup_history_independent.**  Take any registry, any history `h₁` of `Opset(...)` constructions and
dynamic lookups from a fresh process, then obtain the opset object for `(cls, d, v)` (created now or cached
by anything in `h₁`), then let any further history `h₂` happen.  The object carries `domain = d`,
`version = v`, and `opset[n]`, `n in opset`, `Opset.__getattr__(opset, n)` answer exactly
`get_schema(n, v, d)` — a function of `(d, v, n)` alone: nothing looked up before, in this or any other
version or domain, can change the answer. -/
theorem lookup_history_independent (reg : List Schema) (h₁ h₂ : List Cmd) (cls d v n : Nat) :
    let st₁ := (run reg OState.empty h₁).1
    let r := step reg st₁ (.new cls d v)
    ∃ i, r.2 = .inst i d v ∧
      let st₂ := (run reg r.1 h₂).1
      (step reg st₂ (.getitem i n)).2 = .op ((lookup reg d v n).map Schema.key) ∧
      (step reg st₂ (.contains i n)).2 = .bool (lookup reg d v n).isSome ∧
      (step reg st₂ (.getattr i n)).2 =
        (match lookup reg d v n with | some s => .op (some s.key) | none => .attributeError) ∧
      (step reg st₂ (.new cls d v)).2 = .inst i d v := by
  intro st₁ r
  have hwf : WF st₁ := run_wf reg _ h₁ WF_empty
  rcases new_gives reg st₁ hwf cls d v with ⟨i, hr, hi, hcache⟩
  refine ⟨i, hr, ?_⟩
  intro st₂
  have hi₂ : st₂.insts[i]? = some ⟨cls, d, v⟩ := run_keeps reg _ h₂ i _ hi
  have hc₂ : cacheGet (cls, d, v) st₂.cache = some i := run_keeps_cache reg _ h₂ _ i hcache
  refine ⟨?_, ?_, ?_, ?_⟩
  · simp only [step, hi₂]
  · simp only [step, hi₂]
  · simp only [step, hi₂]
    cases lookup reg d v n <;> rfl
  · simp only [step, hc₂, hi₂]

/-- Lookups never cross domains: an answer of `get_schema(n, N, d)` is a schema registered under exactly
domain `d` and name `n`, in force at `N` … -/
theorem lookup_respects_domain (reg : List Schema) (d N n : Nat) (s : Schema)
    (h : lookup reg d N n = some s) : s ∈ reg ∧ s.domain = d ∧ s.name = n ∧ s.since ≤ N :=
  lookup_some h

/-- … so in a domain without registered schemas (a custom domain, `Opset("my.domain", 1)`) every dynamic
lookup fails, whatever the name and version — `'Abs' in Opset("my.domain", 1)` is `False`. -/
theorem lookup_unknown_domain (reg : List Schema) (d : Nat) (hd : ∀ s ∈ reg, s.domain ≠ d) (N n : Nat) :
    lookup reg d N n = none := by
  cases h : lookup reg d N n with
  | none => rfl
  | some s => exact absurd (lookup_some h).2.1 (hd s (lookup_some h).1)

/-- and a name of another domain is not found: `'Abs' in opset_ai_onnx_ml3`, `'LabelEncoder' in opset18` are
`False` exactly because no schema of that (domain, name) is registered. -/
theorem lookup_other_domains_name (reg : List Schema) (d N n : Nat)
    (h : ∀ s ∈ reg, ¬ (s.domain = d ∧ s.name = n)) : lookup reg d N n = none := by
  cases hl : lookup reg d N n with
  | none => rfl
  | some s => exact absurd ⟨(lookup_some hl).2.1, (lookup_some hl).2.2.1⟩ (h s (lookup_some hl).1)

/-- (Re-export of the kernel-evaluated table fact `OV.Gen.C17.chain_ok`, no further content.)
The generated classes of a domain form the inheritance chain `Opset_d1(Opset) ← Opset_d2 ← …` with
consecutive versions, one class per file, with `Opset.__new__(cls, d, N)` literals `(d, N)` unique per
class — which is what makes `resolve` (largest version `≤ N`) Python's attribute lookup. -/
theorem chain_is_linear : chainOk opsetBase classes = true := chain_ok

/-- (Re-export of the kernel-evaluated table fact `OV.Gen.C17.exports_ok`, no further content.)
`onnx_opset.all_opsets[(d, N)]` (and `onnxscript.opsetN`) is an instance of the class whose `__new__`
says `(d, N)`, and every generated class is exported once. -/
theorem exports_consistent : exportsOk classes exports = true := exports_ok

/-! ## `Opset._prepare_inputs` -/

/-- **prepare_trims_only_trailing.**  For every argument list: the result is a prefix of the arguments;
what was dropped is a block of `None`s at the end; the result does not end in `None` (all trailing `None`s
are gone); and trimming is idempotent. -/
theorem prepare_trims_only_trailing {α} (xs : List (Option α)) :
    prepareInputs xs <+: xs ∧
    (∃ k, xs = prepareInputs xs ++ List.replicate k none) ∧
    (prepareInputs xs).getLast? ≠ some none ∧
    prepareInputs (prepareInputs xs) = prepareInputs xs := by
  have hsuf : xs.reverse.dropWhile Option.isNone <:+ xs.reverse := List.dropWhile_suffix _
  have hpre : prepareInputs xs <+: xs := by
    unfold prepareInputs
    rw [← List.reverse_suffix, List.reverse_reverse]; exact hsuf
  have hlast : (prepareInputs xs).getLast? ≠ some none := by
    unfold prepareInputs
    rw [List.getLast?_reverse]
    have := List.head?_dropWhile_not Option.isNone xs.reverse
    intro h
    rw [h] at this
    simp at this
  refine ⟨hpre, ?_, hlast, ?_⟩
  · -- the dropped part is `takeWhile isNone` of the reversed list: all `none`
    have h1 : xs.reverse = xs.reverse.takeWhile Option.isNone ++ xs.reverse.dropWhile Option.isNone :=
      List.takeWhile_append_dropWhile.symm
    have h2 : ∀ l : List (Option α), ∃ k, l.takeWhile Option.isNone = List.replicate k none := by
      intro l
      induction l with
      | nil => exact ⟨0, rfl⟩
      | cons a as ih =>
        cases a with
        | none =>
          rcases ih with ⟨k, hk⟩
          exact ⟨k + 1, by simp [List.takeWhile, hk, List.replicate]⟩
        | some v => exact ⟨0, by simp [List.takeWhile]⟩
    rcases h2 xs.reverse with ⟨k, hk⟩
    have h3 := congrArg List.reverse h1
    rw [List.reverse_reverse, List.reverse_append, hk, List.reverse_replicate] at h3
    exact ⟨k, h3⟩
  · unfold prepareInputs
    rw [List.reverse_reverse]
    congr 1
    -- dropWhile p (dropWhile p l) = dropWhile p l
    generalize xs.reverse = l
    induction l with
    | nil => rfl
    | cons a as ih =>
      simp only [List.dropWhile]
      split
      · exact ih
      · rename_i h; simp only [List.dropWhile, h]

/-- Trimming is the *only* such decomposition: any prefix that does not end in `None` and from which the
arguments differ only by trailing `None`s is the result. -/
theorem prepare_unique {α} (xs ys : List (Option α)) (k : Nat)
    (h : xs = ys ++ List.replicate k none) (hl : ys.getLast? ≠ some none) :
    prepareInputs xs = ys := by
  subst h
  induction k with
  | zero =>
    simp only [List.replicate, List.append_nil]
    rcases List.eq_nil_or_concat ys with rfl | ⟨zs, z, rfl⟩
    · rfl
    · cases z with
      | none => simp at hl
      | some v => simpa using prepare_append_some zs v
  | succ k ih =>
    rw [List.replicate_succ', ← List.append_assoc, prepare_append_none]
    exact ih

/-- A supplied input is never dropped and keeps its position. -/
theorem prepare_keeps_supplied {α} (xs : List (Option α)) (i : Nat) (v : α)
    (h : xs[i]? = some (some v)) : (prepareInputs xs)[i]? = some (some v) := by
  rcases (prepare_trims_only_trailing xs).2.1 with ⟨k, hk⟩
  by_cases hi : i < (prepareInputs xs).length
  · rw [hk, List.getElem?_append_left hi] at h; exact h
  · rw [hk, List.getElem?_append_right (Nat.le_of_not_lt hi)] at h
    rw [List.getElem?_replicate] at h
    split at h <;> simp at h

example : prepareInputs [some 1, none, some 3, none, none] = [some 1, none, some 3] := by decide
example : prepareInputs ([none, none] : List (Option Nat)) = [] := by decide

/-! ## eager call with defaults left out = the bare node -/

/-- **eager_default_eq_bare_node.**  Let method `m` mirror schema `s`.  Whenever the eager call
`opsetN.Op(*args, **kw)` reaches the runtime, the node it builds (i) is bound to exactly the schema `s`
(name, since_version — hence the opset the one-node model imports — and domain), and (ii) denotes, for
every attribute of `s`, the same value as the *bare* node `make_node(Op, inputs, **kw)` that carries only
the attributes the caller wrote: an attribute the caller left out is either not put on the node at all
(Python default `None`, filtered by `value is not None`) or put there with the value the schema declares
as its default.  (`meaning` reads an explicit `None` like an absent attribute, as both
`_prepare_model_and_inputs_for_eager` and `onnx.helper.make_node` do.) -/
theorem eager_default_eq_bare_node {α} (m : Method) (s : Schema) (hm : mirrors m s = true)
    (args : List (Option α)) (kw : List (Nat × Dflt)) (node : Node α)
    (h : eagerNode m args kw = some node) :
    node.key = s.key ∧ meaning s node.attrs = meaning s kw := by
  simp only [mirrors, Bool.and_eq_true, beq_iff_eq] at hm
  rcases hm with ⟨⟨⟨⟨⟨⟨⟨⟨⟨⟨⟨⟨_, _⟩, _⟩, hc1⟩, hc2⟩, hc3⟩, _⟩, _⟩, _⟩, hattrs⟩, _⟩, _⟩, hfwd⟩
  have hfwd' := natPairList_beq_eq hfwd
  unfold eagerNode at h
  cases hbp : bindPos m.pos args with
  | none => rw [hbp] at h; simp at h
  | some pe =>
    rcases pe with ⟨pos, extra⟩
    rw [hbp] at h
    simp only at h
    split at h
    · simp at h
    · split at h
      · simp at h
      · cases hbk : bindKw m.kwonly kw with
        | none => rw [hbk] at h; simp at h
        | some bound =>
          rw [hbk] at h
          simp only at h
          cases hfv : fwdValues pos extra m.fwdInputs with
          | none => rw [hfv] at h; simp at h
          | some ins =>
            cases hfk : fwdKw bound m.fwdAttrs with
            | none => rw [hfv, hfk] at h; simp at h
            | some attrs =>
              rw [hfv, hfk] at h
              simp only [Option.some.injEq] at h
              subst h
              refine ⟨Prod.ext hc1 (Prod.ext hc2 hc3), ?_⟩
              simp only [meaning]
              apply List.map_congr_left
              intro a ha
              have hka := attrsOk_find hattrs a ha
              rw [hfwd'] at hfk
              have h1 := fwdKw_find hfk a.name _ hka
              have h2 := bindKw_find hbk a.name _ hka
              simp only [attrMeaning, h1, h2.1]
              cases hkw : findKw a.name kw with
              | some v => rfl
              | none =>
                have hne := h2.2 hkw
                simp only [attrDefault] at hne ⊢
                cases hreq : a.required with
                | true => simp [hreq] at hne
                | false =>
                  simp only [Bool.false_eq_true, if_false]
                  cases a.dflt <;> rfl

/-- **Inputs of the eager node.**  Let `m` mirror `s` and let its positional parameter names be pairwise
distinct (Python guarantees it: a duplicate parameter name is a `SyntaxError`, and the source parsed).
Whenever `opsetN.Op(*args, **kw)` reaches the runtime, the node's inputs are the caller's arguments in
order, padded with `None` for every omitted optional input, with only the trailing `None`s removed
(`prepare_trims_only_trailing` says what that means): no input is dropped, duplicated, or reordered,
variadic arguments follow in place. -/
theorem eager_inputs_trim_only_trailing {α} (m : Method) (s : Schema) (hm : mirrors m s = true)
    (hnd : (m.pos.map Prod.fst).Nodup)
    (args : List (Option α)) (kw : List (Nat × Dflt)) (node : Node α)
    (h : eagerNode m args kw = some node) :
    node.inputs = prepareInputs (args ++ List.replicate (m.pos.length - args.length) none) := by
  simp only [mirrors, Bool.and_eq_true, beq_iff_eq] at hm
  rcases hm with ⟨⟨⟨⟨⟨⟨⟨⟨⟨⟨⟨⟨_, _⟩, _⟩, _⟩, _⟩, _⟩, _⟩, _⟩, _⟩, _⟩, hfi⟩, hup⟩, _⟩
  have hfi' := natBoolList_beq_eq hfi
  unfold eagerNode at h
  cases hbp : bindPos m.pos args with
  | none => rw [hbp] at h; simp at h
  | some pe =>
    rcases pe with ⟨pos, extra⟩
    rw [hbp] at h
    simp only at h
    have hspec := bindPos_spec m.pos args pos extra hbp
    have hnd' : (pos.map Prod.fst).Nodup := by rw [hspec.1]; exact hnd
    have hnames : m.pos.map (fun p => (p.1, false)) = pos.map (fun p => (p.1, false)) := by
      have h1 : ∀ l : List (Nat × Dflt), l.map (fun p => (p.1, false)) = (l.map Prod.fst).map (fun n => (n, false)) := by
        intro l; simp [List.map_map]
      have h2 : ∀ l : List (Nat × Option α), l.map (fun p => (p.1, false)) = (l.map Prod.fst).map (fun n => (n, false)) := by
        intro l; simp [List.map_map]
      rw [h1, h2, hspec.1]
    split at h
    next hex => simp at h
    next hex =>
      split at h
      · simp at h
      · cases hbk : bindKw m.kwonly kw with
        | none => rw [hbk] at h; simp at h
        | some bound =>
          rw [hbk] at h
          simp only at h
          have hins : fwdValues pos extra m.fwdInputs = some (args ++ List.replicate (m.pos.length - args.length) none) := by
            rw [hfi', expectedFwdInputs, hnames,
              fwdValues_named pos extra pos _ (fun p hp => findPos_of_nodup hnd' hp)]
            cases hv : m.vararg with
            | some v =>
              simp only [fwdValues, Option.map_some, List.append_nil]
              rw [hspec.2.1]
            | none =>
              simp only [fwdValues, Option.map_some, List.append_nil]
              have : extra = [] := by
                simp only [hv, Option.isNone_none, Bool.true_and, Bool.not_eq_true', Bool.not_eq_false] at hex
                cases extra with
                | nil => rfl
                | cons a as => simp at hex
              have h2 := hspec.2.1
              rw [this, List.append_nil] at h2
              rw [h2]
          rw [hins] at h
          cases hfk : fwdKw bound m.fwdAttrs with
          | none => rw [hfk] at h; simp at h
          | some attrs =>
            rw [hfk] at h
            simp only [Option.some.injEq] at h
            subst h
            simp only
            cases hu : m.usesPrepare with
            | true => simp
            | false =>
              simp only [hu, Bool.false_or, List.isEmpty_iff] at hup
              rw [hup] at hins
              simp only [fwdValues, Option.some.injEq] at hins
              rw [← hins]
              simp [prepareInputs]


/-- Corollary, the form in the property text: **all** defaults left out ⇒ the node denotes the schema
defaults, i.e. what the node without those attributes computes. -/
theorem eager_omitted_defaults_denote_schema_defaults {α} (m : Method) (s : Schema)
    (hm : mirrors m s = true) (args : List (Option α)) (node : Node α)
    (h : eagerNode m args [] = some node) :
    node.key = s.key ∧ meaning s node.attrs = s.attrs.map (fun a => (a.name, a.dflt)) := by
  have := eager_default_eq_bare_node m s hm args [] node h
  refine ⟨this.1, ?_⟩
  rw [this.2]
  simp [meaning, attrMeaning, findKw]

/-! ## translation: `separate_input_attributes_from_arguments(…, fill_defaults=False)` (as of /repo b7afd5e) -/

/-- **translation_defaults_left_out.**  In translation (`Converter._translate_call_expr`, `tape_builder`:
`fill_defaults=False`) every attribute put on the node is a value the caller wrote — positionally or under
its own keyword; an attribute left out of the call is left out of the node (for every signature, every
call, every setting of the two `allow_extra_*` switches). -/
theorem translation_defaults_left_out (params : List SigParam) (args : List Nat)
    (kwargs : List (Nat × Nat)) (aKw aArgs : Bool) (ins : List (Option Nat)) (attrs : List (Nat × Nat))
    (h : separate params args kwargs false aKw aArgs = .ok (ins, attrs)) :
    ∀ kv ∈ attrs, kv.2 ∈ args ∨ kv ∈ kwargs := by
  unfold separate at h
  split at h
  · cases h
  · cases hl : sepLoop kwargs false params args [] [] false 0 with
    | error e => rw [hl] at h; cases h
    | ok r =>
      rcases r with ⟨i, a, hv, rest, tp⟩
      rw [hl] at h
      simp only at h
      split at h
      · cases h
      · simp only [Except.ok.injEq, Prod.mk.injEq] at h
        rcases h with ⟨_, rfl⟩
        exact sepLoop_nofill_written args kwargs params args [] [] false 0 (fun a ha => ha)
          (by intro kv hkv; cases hkv) hl

/-- **translation_inputs.**  Either mode.  The node's inputs are the slot list the loop builds — one slot
per input parameter up to the last one supplied: a value the caller wrote (positionally or by keyword) or a
`None` placeholder for an omitted optional input, so that an input given by keyword keeps its position
(`op.Clip(x, max=hi)` is `Clip(x, "", hi)`) — trimmed exactly as `Opset._prepare_inputs` trims in eager
mode: `inputs = prepareInputs slots`.  Hence (by `prepare_trims_only_trailing`) only trailing placeholders
are dropped, nothing is reordered, and the two front ends agree on the input list of the same call. -/
theorem translation_inputs (params : List SigParam) (args : List Nat) (kwargs : List (Nat × Nat))
    (fill aKw aArgs : Bool) (ins : List (Option Nat)) (attrs : List (Nat × Nat))
    (h : separate params args kwargs fill aKw aArgs = .ok (ins, attrs)) :
    ∃ slots attrs' hv rest tp,
      sepLoop kwargs fill params args [] [] false 0 = .ok (slots, attrs', hv, rest, tp) ∧
      ins = prepareInputs slots ∧
      (∀ x ∈ slots, x = none ∨ ∃ v, x = some v ∧ (v ∈ args ∨ ∃ k, (k, v) ∈ kwargs)) := by
  unfold separate at h
  split at h
  · cases h
  · cases hl : sepLoop kwargs fill params args [] [] false 0 with
    | error e => rw [hl] at h; cases h
    | ok r =>
      rcases r with ⟨i, a, hv, rest, tp⟩
      rw [hl] at h
      simp only at h
      split at h
      · cases h
      · simp only [Except.ok.injEq, Prod.mk.injEq] at h
        rcases h with ⟨rfl, rfl⟩
        refine ⟨i, a, hv, rest, tp, rfl, ?_, ?_⟩
        · rcases sepLoop_tp kwargs fill params args [] [] false 0
            ⟨[], by simp, by simp⟩ hl with ⟨pre, hpre, hlast⟩
          have h1 : i.take (i.length - tp) = pre := by
            rw [hpre]; simp
          rw [h1]
          exact (prepare_unique i pre tp hpre hlast).symm
        · exact sepLoop_inputs_written args kwargs fill params args [] [] false 0 (fun a ha => ha)
            (by intro x hx; cases hx) hl

/-- `fill_defaults=True` differs from it only by *adding* declared attribute defaults: same inputs, the
no-fill attributes are a sublist, and every additional entry is `(p.name, default of p)` for an attribute
parameter `p` of the signature.  So both denote the same node meaning wherever a default is the schema's. -/
theorem translation_fill_adds_only_defaults (params : List SigParam) (args : List Nat)
    (kwargs : List (Nat × Nat)) (aKw aArgs : Bool) (ins : List (Option Nat)) (attrsT : List (Nat × Nat))
    (h : separate params args kwargs true aKw aArgs = .ok (ins, attrsT)) :
    ∃ attrsF, separate params args kwargs false aKw aArgs = .ok (ins, attrsF) ∧
      List.Sublist attrsF attrsT ∧
      ∀ kv ∈ attrsT, kv ∈ attrsF ∨
        ∃ p ∈ params, p.isInput = false ∧ p.name = kv.1 ∧ p.dflt = some kv.2 := by
  unfold separate at h ⊢
  split at h
  · cases h
  · next hkw =>
    simp only [hkw]
    cases hl : sepLoop kwargs true params args [] [] false 0 with
    | error e => rw [hl] at h; cases h
    | ok r =>
      rcases r with ⟨i, a, hv, rest, tp⟩
      rw [hl] at h
      simp only at h
      split at h
      · cases h
      · next hx =>
        simp only [Except.ok.injEq, Prod.mk.injEq] at h
        rcases h with ⟨rfl, rfl⟩
        rcases sepLoop_fill_vs_nofill params kwargs params (fun p hp => hp) args [] [] [] false 0
          ⟨List.Sublist.refl _, by intro kv hkv; cases hkv⟩ hl with ⟨F', hF, hrel⟩
        refine ⟨F', ?_, hrel.1, hrel.2⟩
        rw [hF]
        simp only [hx]
        rfl

/-- `Gemm`-like signature `(A, B, C?, *, alpha=1.0, transA=0)`: `op.Gemm(a, b, transA=t)` in translation
gives inputs `[a, b]` and the single attribute `transA = t`; with `fill_defaults=True` also `alpha = default`.
`Clip`-like `(input, min?, max?)`: `op.Clip(x, max=hi)` gives `[x, None, hi]`; `op.Clip(x)` gives `[x]`. -/
example :
    separate [⟨1, true, false, true, none⟩, ⟨2, true, false, true, none⟩, ⟨3, true, false, false, none⟩,
              ⟨4, false, false, false, some 900⟩, ⟨5, false, false, false, some 901⟩]
      [10, 11] [(5, 12)] false false true = .ok ([some 10, some 11], [(5, 12)]) ∧
    separate [⟨1, true, false, true, none⟩, ⟨2, true, false, true, none⟩, ⟨3, true, false, false, none⟩,
              ⟨4, false, false, false, some 900⟩, ⟨5, false, false, false, some 901⟩]
      [10, 11] [(5, 12)] true false true = .ok ([some 10, some 11], [(4, 900), (5, 12)]) ∧
    separate [⟨1, true, false, true, none⟩, ⟨2, true, false, false, none⟩, ⟨3, true, false, false, none⟩]
      [10] [(3, 12)] false false true = .ok ([some 10, none, some 12], []) ∧
    separate [⟨1, true, false, true, none⟩, ⟨2, true, false, false, none⟩, ⟨3, true, false, false, none⟩]
      [10] [] false false true = .ok ([some 10], []) := ⟨rfl, rfl, rfl, rfl⟩


/-! ## which opset the exported model imports (`_set_default_opset`, `append_node`, `_to_model_proto`) -/

/-- **translated_import_is_class_version.**  Whatever `default_opset=` was declared (or none) and whatever the
body does: if translation succeeds, then for *every* call `opsetN.Op(...)` of a default-domain opset class in
the body, the function's `''` import is `N` — the version of the class the call was written with (and with
which eager mode evaluates it, `methods_mirror`). -/
theorem translated_import_is_class_version (declared : Option (Nat × Nat)) (evs : List Ev) (st : ConvState)
    (h : convert declared evs = .ok st) (v : Nat) (hv : Ev.call 1 v ∈ evs) :
    findTok 1 st.imports = some v :=
  (convRun_props (st := ⟨_, [], []⟩) (by intro v0 h0; simp [findTok] at h0) h).2.2.1 v hv

/-- **two_default_domain_versions_refused.**  A body that calls two default-domain opset classes of different
versions is never translated, for any declared default opset: the converter stops with "Two distincts opset
were used".  (Other domains only warn: the first version wins — modelled in `appendNode`, checked by the tie.) -/
theorem two_default_domain_versions_refused (declared : Option (Nat × Nat)) (evs : List Ev) (v₁ v₂ : Nat)
    (h₁ : Ev.call 1 v₁ ∈ evs) (h₂ : Ev.call 1 v₂ ∈ evs) (hne : v₁ ≠ v₂) :
    convert declared evs = .error .twoOpsets := by
  have hinv : ConvInv ⟨(match declared with | some x => some x | none => findOnnxOpset evs), [], []⟩ := by
    intro v0 h0; simp [findTok] at h0
  cases hc : convert declared evs with
  | ok st =>
    have e₁ := translated_import_is_class_version declared evs st hc v₁ h₁
    have e₂ := translated_import_is_class_version declared evs st hc v₂ h₂
    rw [e₁] at e₂
    exact absurd (Option.some.inj e₂) hne
  | error err =>
    unfold convert at hc
    have : err = .twoOpsets := by
      refine convRun_error hinv ?_ hc
      cases declared with
      | some x => rfl
      | none => exact findOnnxOpset_some h₁
    rw [this]

/-- **exported_import_means_class.**  `to_model_proto(opset_version=opt)` of a translated function whose body
calls a default-domain opset class of version `v`: the option is ignored — the exported imports are the
function's, and the `''` import is `v` for every `opt` and every installed onnx. -/
theorem exported_import_means_class (declared : Option (Nat × Nat)) (evs : List Ev) (st : ConvState)
    (h : convert declared evs = .ok st) (v : Nat) (hv : Ev.call 1 v ∈ evs) (opt : Option Nat) (current : Nat) :
    exportImports st.imports opt current = st.imports ∧
      findTok 1 (exportImports st.imports opt current) = some v := by
  have hi := translated_import_is_class_version declared evs st h v hv
  unfold exportImports
  rw [hi]
  exact ⟨rfl, hi⟩

/-- **option_applies_only_without_default_domain.**  If the body consists of calls of non-default-domain opset
classes only (no `''` call, nothing translated through the default opset), no `''` import is inferred, and the
exported model imports `''` at the `opset_version` option if given, else at the installed `onnx_opset_version()`
— appended after the function's own imports, which are unchanged. -/
theorem option_applies_only_without_default_domain (declared : Option (Nat × Nat)) (evs : List Ev)
    (st : ConvState) (h : convert declared evs = .ok st)
    (hno : ∀ e ∈ evs, ∃ d v, e = Ev.call d v ∧ d ≠ 1) (opt : Option Nat) (current : Nat) :
    exportImports st.imports opt current =
      st.imports ++ [(1, match opt with | some k => k | none => current)] := by
  have hnone : findTok 1 st.imports = none := by
    cases hf : findTok 1 st.imports with
    | none => rfl
    | some w =>
      exfalso
      have hm := (convRun_props (st := ⟨_, [], []⟩) (by intro v0 h0; simp [findTok] at h0) h).2.2.2
        (1, w) (findTok_mem hf)
      rcases hm with h1 | h1 | h1
      · cases h1
      · rcases hno _ h1 with ⟨d, v, he, hd⟩
        simp only [Ev.call.injEq] at he
        exact hd he.1.symm
      · rcases hno _ h1 with ⟨d, v, he, _⟩
        cases he
  unfold exportImports
  simp only [hnone]
  cases opt <;> rfl

/-! ## names are numbers: the encoding on the regenerated name set -/

/-- **name_codes_faithful.**  For every text that occurs in the regenerated tables — operator, class, module,
parameter, attribute and domain names, string defaults — the number the Python translator wrote for it is the
model's `enc` of that text (the kernel evaluates `enc` on each string: table fact `names_enc`). -/
theorem name_codes_faithful (p : String × Nat) (hp : p ∈ names) : enc p.1 = p.2 := by
  have := List.all_eq_true.mp names_enc p hp
  exact beq_iff_eq.mp this

/-- **name_codes_injective.**  On that name set the encoding is injective: two texts of the tables with the same
code are the same text — so every equality of codes the model tests (`s.name == n`, `m.call.1 == s.name`,
`findKw`, …) is the equality of names the Python code tests (table fact `names_increasing`). -/
theorem name_codes_injective (p q : String × Nat) (hp : p ∈ names) (hq : q ∈ names)
    (h : enc p.1 = enc q.1) : p.1 = q.1 := by
  rw [name_codes_faithful p hp, name_codes_faithful q hq] at h
  rw [increasing_inj names_increasing hp hq h]

/-- non-vacuity: the name set contains `"Clip"`, `""`, `"ai.onnx.ml"`, `"Opset13"` with the codes used everywhere -/
example : names.contains ("Clip", 5426145648) = true ∧ names.contains ("", 1) = true ∧
    names.contains ("ai.onnx.ml", 1668935622595193164688748) = true ∧
    names.contains ("Opset13", 94417758123733299) = true := by decide +kernel

/-! ## the one-node model an eager call is run as (`_prepare_model_and_inputs_for_eager`), end to end -/

/-- `aiOnnx` is the code of the text `"ai.onnx"` (the kernel evaluates `enc` on the string). -/
example : enc "ai.onnx" = aiOnnx := by decide +kernel

/-- **schema_keys_unique.**  In the installed registry a key (name, since_version, domain) names one schema
(table fact `keys_unique`: per operator name the since_versions are pairwise distinct). -/
theorem schema_keys_unique (s s' : Schema) (hs : s ∈ schemas) (hs' : s' ∈ schemas) (hk : s.key = s'.key) :
    s = s' :=
  key_unique keys_unique schemas_covered hs hs' hk

/-- **get_schema_at_since.**  If `get_schema(n, N, d)` is `s`, then `get_schema(n, s.since_version, d)` is `s`
itself: a model that imports the domain at a schema's own since_version denotes exactly that schema. -/
theorem get_schema_at_since (d N n : Nat) (s : Schema) (h : lookup schemas d N n = some s) :
    lookup schemas d s.since n = some s :=
  lookup_at_since_eq keys_unique schemas_covered h

/-- non-vacuity: `get_schema("Clip", 20, "")` is `Clip(13)`, and `get_schema("Clip", 13, "")` is the same key -/
example : (lookup schemas 1 20 5426145648).map Schema.key = some (5426145648, 13, 1) ∧
    (lookup schemas 1 13 5426145648).map Schema.key = some (5426145648, 13, 1) := by decide +kernel

/-- **eager_model_resolves_to_class_schema.**  Take any generated class `OpsetN` (any domain) and any name `n`
that resolves on it to a method `m`, and any eager call `opsetN.n(*args, **kw)` that gets as far as the runtime.
The one-node model handed to the runtime has `op_type = n`, the class's domain, and imports that domain at the
`since_version` of the schema `s = get_schema(n, N, domain)` — and the runtime, resolving the node under that
import, finds `s` itself: eager evaluation through the static
method and the dynamic lookup `opsetN[n]` (which translation uses) denote the same operator version.  A schema
marked deprecated never gets this far (the class offers a raising stub). -/
theorem eager_model_resolves_to_class_schema {α} (c : Cls) (hc : c ∈ classes) (n : Nat) (m : Method)
    (hr : resolve classes c.domain c.version n = some m) (im : List ((Nat × Nat) × Nat))
    (args : List (Option α)) (kw : List (Nat × Dflt)) (M : EagerModel α)
    (h : eagerRun schemas im m args kw = some M) :
    ∃ s, lookup schemas c.domain c.version n = some s ∧ s.deprecated = false ∧
      M.opType = n ∧ M.domain = c.domain ∧ M.opsetImport = (c.domain, s.since) ∧
      lookup schemas M.domain M.opsetImport.2 M.opType = some s := by
  rcases methods_mirror c hc n m hr with ⟨s, hs, hmir⟩
  have hsp := lookup_some hs
  unfold eagerRun at h
  cases hcall : eagerCall m args kw with
  | none => rw [hcall] at h; cases h
  | some node =>
    rw [hcall] at h
    simp only at h
    cases hdep : s.deprecated with
    | true =>
      exfalso
      have hcell := cell_all c hc n
      rw [hs, hr] at hcell
      simp only [cellOk, hdep, if_true] at hcell
      simp only [eagerCall, hcell, if_true] at hcall
      cases hcall
    | false =>
      rcases hmir hdep with ⟨hstub, hm⟩
      simp only [eagerCall, hstub, Bool.false_eq_true, if_false] at hcall
      have hkey := (eager_default_eq_bare_node m s hm args kw node hcall).1
      have hk1 : node.key.1 = n := by rw [hkey]; exact hsp.2.2.1
      have hk2 : node.key.2.1 = s.since := by rw [hkey]; rfl
      have hk3 : node.key.2.2 = c.domain := by rw [hkey]; exact hsp.2.1
      rw [hk1, hk2, hk3] at h
      have hl' := get_schema_at_since _ _ _ _ hs
      rw [hl'] at h
      simp only [Option.some.injEq] at h
      subst h
      refine ⟨s, hs, hdep, hsp.2.2.1, hsp.2.1, ?_, ?_⟩
      · simp only [modelOf, hsp.2.1]
      · simp only [modelOf]
        rw [hsp.2.1, hsp.2.2.1]; exact hl'

/-- **eager_run_reaches_runtime.**  On the generated classes the `get_schema(<literals>)` statement of a method
body never raises: whenever Python binding and forwarding succeed (`eagerCall`), the call reaches the runtime,
with the node's inputs named by position (`""` for `None`), the non-`None` keywords as attributes, and the
non-`None` inputs fed. -/
theorem eager_run_reaches_runtime {α} (c : Cls) (hc : c ∈ classes) (n : Nat) (m : Method)
    (hr : resolve classes c.domain c.version n = some m) (im : List ((Nat × Nat) × Nat))
    (args : List (Option α)) (kw : List (Nat × Dflt)) (node : Node α)
    (h : eagerCall m args kw = some node) :
    ∃ M, eagerRun schemas im m args kw = some M ∧ M.inputNames = renameFrom 0 node.inputs ∧
      M.attrs = dropNone node.attrs ∧ M.feeds = feedsFrom 0 node.inputs := by
  rcases methods_mirror c hc n m hr with ⟨s, hs, hmir⟩
  have hsp := lookup_some hs
  cases hdep : s.deprecated with
  | true =>
    exfalso
    have hcell := cell_all c hc n
    rw [hs, hr] at hcell
    simp only [cellOk, hdep, if_true] at hcell
    simp only [eagerCall, hcell, if_true] at h
    cases h
  | false =>
    rcases hmir hdep with ⟨hstub, hm⟩
    have h' := h
    simp only [eagerCall, hstub, Bool.false_eq_true, if_false] at h'
    have hkey := (eager_default_eq_bare_node m s hm args kw node h').1
    have hk1 : node.key.1 = n := by rw [hkey]; exact hsp.2.2.1
    have hk2 : node.key.2.1 = s.since := by rw [hkey]; rfl
    have hk3 : node.key.2.2 = c.domain := by rw [hkey]; exact hsp.2.1
    rcases lookup_at_since hs with ⟨s', hl', _⟩
    refine ⟨modelOf im s' node.inputs node.attrs, ?_, rfl, rfl, rfl⟩
    unfold eagerRun
    rw [h]
    simp only
    rw [hk1, hk2, hk3, hl']

/-- **eager_model_inputs.**  For the one-node model of any schema, inputs and attributes: the node has one input
name per argument; position `j` is `""` exactly when argument `j` is `None` and `input{j}` otherwise (so an inner
`None` keeps the later inputs at their schema positions); the session is fed exactly the non-empty names, in
order, and `input{k}` is fed the caller's argument number `k`. -/
theorem eager_model_inputs {α} (im : List ((Nat × Nat) × Nat)) (s : Schema) (ins : List (Option α))
    (attrs : List (Nat × Dflt)) :
    let M := modelOf im s ins attrs
    M.inputNames.length = ins.length ∧
      (∀ j (hj : j < ins.length), M.inputNames[j]? = some ((ins[j]'hj).map (fun _ => j))) ∧
      M.feeds.map Prod.fst = M.inputNames.filterMap id ∧
      (∀ k v, (k, v) ∈ M.feeds → ins[k]? = some (some v)) := by
  refine ⟨renameFrom_length 0 ins, ?_, feeds_names 0 ins, ?_⟩
  · intro j hj
    have := renameFrom_get 0 ins j hj
    simp only [Nat.zero_add] at this
    exact this
  · intro k v hkv
    have := (feedsFrom_mem 0 ins k v hkv).2
    simpa only [Nat.sub_zero] using this

/-- **eager_model_means_written_attributes.**  For every generated class and every name resolving on it: the
attributes of the one-node model an eager call is run as — the forwarded keywords minus those whose value is
`None` — mean, for every attribute of the schema in force, exactly what the bare node carrying only the
caller's own keywords means.  (`eager_default_eq_bare_node` pushed through the `value is not None` filter; the
distinctness of parameter names it needs is the kernel-checked table fact `params_distinct`.) -/
theorem eager_model_means_written_attributes {α} (c : Cls) (hc : c ∈ classes) (n : Nat) (m : Method)
    (hr : resolve classes c.domain c.version n = some m) (im : List ((Nat × Nat) × Nat))
    (args : List (Option α)) (kw : List (Nat × Dflt)) (M : EagerModel α)
    (h : eagerRun schemas im m args kw = some M) :
    ∃ s, lookup schemas c.domain c.version n = some s ∧ meaning s M.attrs = meaning s kw := by
  rcases methods_mirror c hc n m hr with ⟨s, hs, hmir⟩
  refine ⟨s, hs, ?_⟩
  unfold eagerRun at h
  cases hcall : eagerCall m args kw with
  | none => rw [hcall] at h; cases h
  | some node =>
    rw [hcall] at h
    simp only at h
    cases hl : lookup schemas node.key.2.2 node.key.2.1 node.key.1 with
    | none => rw [hl] at h; cases h
    | some s' =>
      rw [hl] at h
      simp only [Option.some.injEq] at h
      subst h
      cases hdep : s.deprecated with
      | true =>
        exfalso
        have hcell := cell_all c hc n
        rw [hs, hr] at hcell
        simp only [cellOk, hdep, if_true] at hcell
        simp only [eagerCall, hcell, if_true] at hcall
        cases hcall
      | false =>
        rcases hmir hdep with ⟨hstub, hm⟩
        simp only [eagerCall, hstub, Bool.false_eq_true, if_false] at hcall
        have hmean := (eager_default_eq_bare_node m s hm args kw node hcall).2
        -- keys of the forwarded attributes = the keyword-only parameter names, pairwise distinct
        rcases resolve_some hr with ⟨c', hc', _, _, hmem, _⟩
        have hpd := List.all_eq_true.mp (List.all_eq_true.mp params_distinct c' hc') m hmem
        have hnd : (m.kwonly.map Prod.fst).Nodup := by
          have := distinctNat_nodup hpd
          exact (List.nodup_append.mp this).2.1
        have hkeys : (node.attrs.map Prod.fst).Nodup := by
          have hm' := hm
          simp only [mirrors, Bool.and_eq_true] at hm'
          have hfwd := natPairList_beq_eq hm'.2
          -- unfold the call to reach `fwdKw`
          unfold eagerNode at hcall
          cases hbp : bindPos m.pos args with
          | none => rw [hbp] at hcall; simp at hcall
          | some pe =>
            rcases pe with ⟨pos, extra⟩
            rw [hbp] at hcall
            simp only at hcall
            split at hcall
            · simp at hcall
            · split at hcall
              · simp at hcall
              · cases hbk : bindKw m.kwonly kw with
                | none => rw [hbk] at hcall; simp at hcall
                | some bound =>
                  rw [hbk] at hcall
                  simp only at hcall
                  cases hfv : fwdValues pos extra m.fwdInputs with
                  | none => rw [hfv] at hcall; simp at hcall
                  | some ins =>
                    cases hfk : fwdKw bound m.fwdAttrs with
                    | none => rw [hfv, hfk] at hcall; simp at hcall
                    | some attrs =>
                      rw [hfv, hfk] at hcall
                      simp only [Option.some.injEq] at hcall
                      subst hcall
                      simp only
                      rw [fwdKw_keys hfk, hfwd, List.map_map]
                      exact hnd
        simp only [modelOf]
        rw [← hmean]
        simp only [meaning]
        apply List.map_congr_left
        intro a _
        rw [attrMeaning_dropNone hkeys a]

/-- **eager_and_translated_denote_same_schema** (the property's last sentence, end to end, **default domain `''`
only**: in the other domains `IRFunction.append_node` lets the first version seen win and only warns about a later
different one — `appendNode` — so the import need not be the class version there and the statement would be false;
those domains are covered by `eager_model_resolves_to_class_schema` on the eager side and by the tie T8/T11 on the
translation side).
Let `OpsetN` be a generated default-domain class, `n` a name resolving on it, and take (i) any eager call
`opsetN.n(*args, **kw)` that reaches the runtime, with its one-node model `M`, and (ii) any script function whose
body calls `opsetN` and whose translation succeeds, exported with any `opset_version` option under any installed
onnx.  Then the exported model imports `''` at `N`; `get_schema(n, N, '')` — the schema a node `n` of the exported
model denotes — is some `s`; and the runtime resolving `M`'s node under `M`'s own import finds that same `s`.  Composition of `exported_import_means_class`, `methods_mirror` and
`eager_model_resolves_to_class_schema`. -/
theorem eager_and_translated_denote_same_schema {α} (c : Cls) (hc : c ∈ classes) (hd : c.domain = 1) (n : Nat)
    (m : Method) (hr : resolve classes c.domain c.version n = some m) (im : List ((Nat × Nat) × Nat))
    (args : List (Option α)) (kw : List (Nat × Dflt)) (M : EagerModel α)
    (h : eagerRun schemas im m args kw = some M)
    (declared : Option (Nat × Nat)) (evs : List Ev) (st : ConvState)
    (ht : convert declared evs = .ok st) (hv : Ev.call 1 c.version ∈ evs) (opt : Option Nat) (current : Nat) :
    findTok 1 (exportImports st.imports opt current) = some c.version ∧
      ∃ s, lookup schemas 1 c.version n = some s ∧
        lookup schemas M.domain M.opsetImport.2 M.opType = some s := by
  rcases eager_model_resolves_to_class_schema c hc n m hr im args kw M h with ⟨s, hs, _, _, _, _, hk⟩
  refine ⟨(exported_import_means_class declared evs st ht c.version hv opt current).2, s, ?_, hk⟩
  rw [← hd]; exact hs

/-- non-vacuity and a concrete reading: `opset20.Clip(x, None, hi)` (inherited from `Opset13`) reaches the
runtime as the model `Clip`, domain `''`, inputs `input0, "", input2`, import `('', 13)`, ir_version 10 = max(7, 10),
feeds `input0, input2`; `opset_ai_onnx_ml3.LabelEncoder(x)` imports `('ai.onnx.ml', 2)` with ir_version
max(6, 10). -/
example : (match resolve classes 1 20 5426145648 with
    | some m => (eagerRun schemas irMap m ([some 7, none, some 9] : List (Option Nat)) []).map
        (fun M => (M.opType, M.domain, M.inputNames, M.opsetImport, M.irVersion, M.feeds)) ==
          some (5426145648, 1, [some 0, none, some 2], (1, 13), 10, [(0, 7), (2, 9)])
    | none => false) = true := by decide +kernel

example : (match resolve classes 1668935622595193164688748 3 102866753728027417819308385650 with
    | some m => (eagerRun schemas irMap m ([some 7] : List (Option Nat)) []).map
        (fun M => (M.inputNames, M.opsetImport, M.irVersion)) ==
          some ([some 0], (1668935622595193164688748, 2), 10)
    | none => false) = true := by decide +kernel

/-- `ir_version` floor and fallback of `select_ir_version` on the regenerated `OP_SET_ID_VERSION_MAP`: opset 1
of `''` needs ir 3 → 10; a listed newer pair keeps its own; an unlisted (domain, version) gets the newest
`ai.onnx` one. -/
example : selectIrVersion irMap 1 1 = 10 ∧ selectIrVersion irMap 25 1 = 13 ∧
    selectIrVersion irMap 999 1 = maxIrOf aiOnnx irMap ∧ 10 ≤ maxIrOf aiOnnx irMap := by decide +kernel

/-- non-vacuity (domains: `''` = 1, `ai.onnx.ml` = 1668935622595193164688748): `opset_ai_onnx_ml3.Scaler` then
`opset11.Relu` then `opset_ai_onnx_ml2.Binarizer`, no declared default: imports `[ml 3, '' 11]`, one version
conflict warning, option ignored; two `ml3` calls only: the option (15) applies; `opset11` then `opset13`: refused;
`default_opset=opset18` with `opset11.Relu`: refused; `-x` with nothing to infer a default from: refused -/
example :
    (convert none [.call 1668935622595193164688748 3, .call 1 11, .call 1668935622595193164688748 2]).map
        (fun st => (exportImports st.imports (some 15) 27, st.conflicts)) =
      .ok ([(1668935622595193164688748, 3), (1, 11)], [(1668935622595193164688748, 3, 2)]) ∧
    (convert none [.call 1668935622595193164688748 3, .call 1668935622595193164688748 3]).map
        (fun st => exportImports st.imports (some 15) 27) = .ok [(1668935622595193164688748, 3), (1, 15)] ∧
    convert none [.call 1 11, .call 1 13] = .error .twoOpsets ∧
    convert (some (1, 18)) [.call 1 11] = .error .twoOpsets ∧
    convert none [.call 1668935622595193164688748 3, .implicit] = .error .noDefault :=
  ⟨rfl, rfl, rfl, rfl, rfl⟩

/-! ### non-vacuity of the history / domain theorems (`enc "BitwiseAnd"` = 1522547307904140230880868,
`enc "ai.onnx.ml"` = 1668935622595193164688748, `enc "LabelEncoder"` = 102866753728027417819308385650,
`enc "Abs"` = 21062259, `enc "my.domain"` = 6741793614061243558254, `enc "Opset"` = 1440700654964) -/

/-- the history of seeded change C17-4, on the model: probing `BitwiseAnd` in opset 13 (absent) does not
change the later answers in opset 18 (present), nor the other way round; `Opset("", 13)` is a singleton -/
example :
    (run schemas OState.empty
      [.new 1440700654964 1 13, .contains 0 1522547307904140230880868,
       .new 1440700654964 1 18, .contains 1 1522547307904140230880868, .getitem 1 1522547307904140230880868,
       .contains 0 1522547307904140230880868, .getattr 0 1522547307904140230880868,
       .new 1440700654964 1 13]).2 =
      [.inst 0 1 13, .bool false, .inst 1 1 18, .bool true, .op (some (1522547307904140230880868, 18, 1)),
       .bool false, .attributeError, .inst 0 1 13] := by decide +kernel

/-- non-default domains: `opset_ai_onnx_ml3.LabelEncoder` — static and dynamic agree on a live schema;
`'Abs' in opset_ai_onnx_ml3` is `False`; nothing is found in the custom domain `my.domain` -/
example :
    agrees (lookup schemas 1668935622595193164688748 3 102866753728027417819308385650)
      (resolve classes 1668935622595193164688748 3 102866753728027417819308385650) = true ∧
    (lookup schemas 1668935622595193164688748 3 102866753728027417819308385650).isSome = true ∧
    lookup schemas 1668935622595193164688748 3 21062259 = none ∧
    (∀ s ∈ schemas, s.domain ≠ 6741793614061243558254) := by decide +kernel

/-! ### non-vacuity: concrete instances of the hypotheses above (names: `enc "Softmax"` = 95542502935585144,
`enc "Clip"` = 5426145648, `enc "axis"` = 5930248563, `enc "Loop"` = 5577338736) -/

/-- `Opset13.Softmax` resolves (own definition), `get_schema("Softmax", 13, "")` is in force and not
deprecated, the method mirrors it, and the eager call `opset13.Softmax(x)` with `axis` left out reaches the
runtime with the single attribute `axis = -1`, which is the schema default. -/
example :
    (match resolve classes 1 13 95542502935585144, lookup schemas 1 13 95542502935585144 with
     | some m, some s =>
       !s.deprecated && mirrors m s &&
       (match eagerNode m [some (0 : Nat)] [] with
        | some node => node.inputs.length == 1 &&
            (match node.attrs with
             | [(k, .sc (.int v))] => k == 5930248563 && v == -1
             | _ => false) &&
            (match s.attrs with
             | [a] => a.name == 5930248563 && a.dflt.beq (.sc (.int (-1)))
             | _ => false)
        | none => false)
     | _, _ => false) = true := by decide +kernel

/-- `Opset20.Clip` is *inherited* from `Opset13`; `opset20.Clip(x, None, hi)` keeps the inner `None`,
`opset20.Clip(x, lo)` and `opset20.Clip(x, lo, None)` give the same two inputs. -/
example :
    (match resolve classes 1 20 5426145648 with
     | some m =>
       m.call.2.1 == 13 &&
       ((eagerNode m [some (0 : Nat), none, some 2] []).map (·.inputs)) == some [some 0, none, some 2] &&
       ((eagerNode m [some (0 : Nat), some 1] []).map (·.inputs)) == some [some 0, some 1] &&
       ((eagerNode m [some (0 : Nat), some 1, none] []).map (·.inputs)) == some [some 0, some 1]
     | none => false) = true := by decide +kernel

example : (match resolve classes 1 20 5426145648 with
     | some m => decide ((m.pos.map Prod.fst).Nodup)
     | none => false) = true := by decide +kernel

/-- a call that does not reach the runtime: `opset13.Loop()` (required positionals missing) -/
example : (match resolve classes 1 13 5577338736 with
     | some m => (eagerNode m ([] : List (Option Nat)) []).isNone
     | none => false) = true := by decide +kernel

end OV.Props.C17
