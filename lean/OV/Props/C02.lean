import OV.Lemmas.C01Scope
import OV.Lemmas.C01SimFor
import OV.Lemmas.C01Export
import OV.Lemmas.C01Refs
import OV.Lemmas.C01Total
/-!
# C02 — every proto the converter emits is well-formed ONNX; bad programs are refused

Property theorems only.  Model: `OV.Model.C01Script`, `C01Graph`, `C01Convert` (the transcription of
`Converter` in onnxscript/_internal/converter.py); lemmas: `OV.Lemmas.C01Names`.

What is proved for ALL programs of the modelled language (straight-line code, tuple / parallel
assignment, `if`/`else`, `for`, `while`, trailing `break`, nested to any depth, any number of
parameters) — the model follows /repo including the fixes 3b56caa (returned input) and cbb81e7 (duplicate
subgraph outputs):

* `fresh_not_used`, `generate_unique_total` — `_generate_unique_name` always returns, never a used name, and
                                     records it;
* `convert_single_assignment`     — every name defined anywhere in the emitted body (inputs, node outputs,
                                     Loop-body inputs, at every depth) is defined exactly once; hence no
                                     subgraph redefines an outer name;
* `convert_wf`                    — **the whole structural property**: the emitted body passes `wfGraph` — single
                                     assignment, scoped definition-before-use with outer-scope visibility,
                                     subgraph outputs produced inside their subgraph *and pairwise distinct*,
                                     matching arities, function outputs visible, pairwise distinct, and none of
                                     them a graph input.  Only hypothesis: Python's rule that parameter names
                                     are distinct;
* `convert_opsets_single`, `mixed_default_opset_refused` — about the SOURCE guard only (`opsetsOK f`): an accepted
                                     function takes every default-domain call from the version of `default_opset`,
                                     and mixing versions is the modelled refusal (one is the contrapositive of the
                                     other); emitted nodes carry no version in the model;
* `wfGraph_sound`                  — a Bool→Prop reading of the executable checker `wfGraph` (run by the harness on
                                     the protos the REAL converter emitted, parsed back into `Graph`): Nodup / membership
                                     clauses; the scoping clause stays `wfNodes … = true` (one-step readings:
                                     `wfNodes_cons`, `wfNode_if_clauses`; none for `Loop`).  `nodupB_iff`, `allIn_iff`
                                     are its helper reflections (they sit here and are counted).

Before the two fixes `convert_wf` needed the hypothesis that no parameter is re-assigned and the
subgraph-distinctness clause was false (findings C01-D26, C01-D30); their witnesses are now positive
regression examples below (`d26`, `d30`).  Subscripts with constant indices are part of the model (the node
emission of `_translate_subscript_expr`: Constant / Concat / Slice / Squeeze / Gather and the per-expression
constant cache), so `convert_wf` and `convert_single_assignment` cover them (`subDemo`).  D19 (nested `@graph`
functions, outside the model: their parameters bypassed `_generate_unique_name`) is fixed by 9fe7eb1:
`nested_params_fresh`.  The two converter crashes found in this round are fixed as well:
`full_slice_subscript_is_identity_witness` (C01-D37, 35a0ff1), `stateless_loop_refused` (C01-D38, fc696f7).
-/
namespace OV.Props.C02
open OV.C01

/-- **`_generate_unique_name` is fresh.**  Whatever the candidate and the converter state, a returned
name was not in `_used_vars`, and `_used_vars` afterwards is exactly the old set plus that name. -/
theorem fresh_not_used (cand r : Name) (s s' : St) (h : genUnique cand s = .ok (r, s')) :
    r ∉ s.used ∧ s'.used = r :: s.used :=
  ⟨(genUnique_spec h).1, (genUnique_spec h).2.1⟩

/-- **`_generate_unique_name` always returns.**  The `while r in self._used_vars` loop tries pairwise distinct
candidates `cand_k, cand_{k+1}, …` (decimal rendering of naturals is injective), so at most `|used| + 1`
rounds are needed: the model's fuel is never exhausted, for any candidate and any state. -/
theorem generate_unique_total (cand : Name) (s : St) : ∃ r s', genUnique cand s = .ok (r, s') :=
  genUnique_total cand s

example : (match genUnique "x" { used := ["x", "x_0"], next := 0, castable := [] } with
    | .ok (r, s') => r == "x_1" && s'.used == ["x_1", "x", "x_0"] && s'.next == 2
    | .error _ => false) = true := by decide

/-- **Single assignment across the graph and all nested subgraphs.**  For every function the model
converter accepts (any nesting of if/for/while), all names defined in the emitted body — function inputs,
outputs of every node at every depth, and the inputs of every Loop body — are pairwise distinct.  In
particular no subgraph redefines a name of an enclosing scope.  The only hypothesis is Python's own
rule that parameter names are distinct. -/
theorem convert_single_assignment (f : Func) (g : Graph) (h : convert f = .ok g)
    (hparams : (tensorParams f.params).Nodup) : g.allDefs.Nodup :=
  convert_allDefs_nodup h hparams

/-- Non-vacuity: a program with an `if` inside a `for`, accepted by the model converter. -/
def demo : Func :=
  { name := "f", params := [.tensor "A", .tensor "n", .tensor "c"], retCount := none,
    body := [
      .assign "x" (.call "" "Identity" { known := true, variadic := false, homog := true, tvs := [some "V"] } [.var "A"] []),
      .for_ "i" true (.var "n") [
        .ite (.var "c")
          [.assign "x" (.binop "Add" (.var "x") (.lit (.int 1)))]
          [.assign "x" (.var "A")]],
      .ret [.var "x", .var "A"] false] }

example : (convert demo).toOption.isSome = true := by decide +kernel
example : (tensorParams demo.params).Nodup := by decide

/-- **`convert_wf`: every accepted program yields a well-formed function body.**  For every program of the
modelled language that the converter accepts (straight-line code, tuple / parallel assignment, `if`, `for`,
`while`, trailing `break`, nested to any depth), the emitted body passes the whole decision procedure
`wfGraph`:
1. every name is defined exactly once across the graph and all nested subgraphs (so no subgraph redefines
   an outer name);
2. scoped definition-before-use: every node input, at every depth, is a function input, an earlier output
   of the same graph, or a value of an enclosing graph defined before the enclosing If/Loop; every
   If-branch / Loop-body output is produced by a node *of that subgraph*; the outputs of each subgraph are
   pairwise distinct; branch and body arities match (`wfNodes`);
3. every function output is visible at the end of the body, outputs are pairwise distinct, and no graph
   input is returned directly.
The only hypothesis is Python's own rule that parameter names are distinct. -/
theorem convert_wf (f : Func) (g : Graph) (h : convert f = .ok g)
    (hnames : (f.params.map Param.name).Nodup) : wfGraph g = true :=
  convert_wfGraph h hnames

/-- The clauses of `convert_wf`, spelled out (what `wfGraph = true` means: `wfGraph_sound`). -/
theorem convert_wf_clauses (f : Func) (g : Graph) (h : convert f = .ok g)
    (hnames : (f.params.map Param.name).Nodup) :
    g.allDefs.Nodup ∧ wfNodes g.inputs g.nodes = true
      ∧ (∀ o, o ∈ g.outputs → o ∈ g.inputs ++ topDefs g.nodes) ∧ g.outputs.Nodup
      ∧ (∀ o, o ∈ g.outputs → o ∉ g.inputs) :=
  ⟨convert_allDefs_nodup h (tensorParams_nodup hnames), (convert_scoped_ok h).1, (convert_scoped_ok h).2,
    convert_outputs_nodup h, convert_no_input_returned h⟩

/-- Non-vacuity of `convert_wf`: `demo` (an `if` inside a `for`) has distinct parameter names and is accepted. -/
example : (demo.params.map Param.name).Nodup ∧ (convert demo).toOption.isSome = true := by
  constructor
  · decide
  · decide +kernel

/-- **`convert_opsets_single`: one version of the default-domain opset per accepted function — a statement about the
source guard** (`opsetsOK f = true`, the contrapositive of the refusal in `mixed_default_opset_refused`), not about
versions recorded in the emitted graph (nodes carry none in the model).  Whatever the converter accepts, every call that takes a default-domain operator from an opset object (`op.Add`,
`opset17.Abs`, …) — at top level, in `if` branches, in loop bodies, in operands of other calls — takes it from
the opset version `default_opset` has (each emitted node copies its callee's opset version, so all default-domain
nodes carry that one version).  This is the clause the code enforces (`_set_default_opset`); for other domains
`IRFunction.append_node` merely warns, and nothing is claimed. -/
theorem convert_opsets_single (f : Func) (g : Graph) (h : convert f = .ok g) : opsetsOK f = true :=
  (convert_core h).2.1

/-- … and conversely a function that mixes two versions of the default-domain opset anywhere is refused with a
`TranslationError` (given that the analyser accepted its statements). -/
theorem mixed_default_opset_refused (f : Func) (d : VSet) (ha : assignedBlock f.body = some d)
    (hmix : opsetsOK f = false) : convert f = .error .translation := by
  unfold convert
  rw [ha]
  simp [hmix]

/-- Non-vacuity: `if c: x = opset17.Abs(A) else: x = op.Neg(A)` under `default_opset = opset18` is refused;
with `opset18.Abs` it is accepted. -/
example :
    let mk (v : Nat) : Func :=
      { name := "f", params := [.tensor "A", .tensor "c"], retCount := none, opsetVer := 18,
        body := [
          .ite (.var "c")
            [.assign "x" (.call "" "Abs" { known := true, variadic := false, homog := true, tvs := [some "T"], ver := v } [.var "A"] [])]
            [.assign "x" (.call "" "Neg" { known := true, variadic := false, homog := true, tvs := [some "T"], ver := 18 } [.var "A"] [])],
          .ret [.var "x"] false] }
    opsetsOK (mk 17) = false ∧ (convert (mk 17)).toOption.isSome = false
      ∧ opsetsOK (mk 18) = true ∧ (convert (mk 18)).toOption.isSome = true := by
  refine ⟨by decide, by decide +kernel, by decide, by decide +kernel⟩

/-- Helper reflection: the Bool test `nodupB` is `List.Nodup`. -/
theorem nodupB_iff (l : List Name) : nodupB l = true ↔ l.Nodup := by
  induction l with
  | nil => simp [nodupB]
  | cons x xs ih => simp [nodupB, ih, List.nodup_cons]

/-- Helper reflection: the Bool test `allIn` is list inclusion. -/
theorem allIn_iff (xs vis : List Name) : allIn xs vis = true ↔ ∀ x ∈ xs, x ∈ vis := by
  simp [allIn, List.all_eq_true]

/-- **A Bool→Prop reading of the executable checker** (a reflection, not an independent specification: the scoping
clause below is still the recursive Bool function `wfNodes`; `wfNodes_cons` and `wfNode_if_clauses` read it one step at
a time, there is no such reading for `Loop` nodes).  `wfGraph g = true` — which the harness evaluates (in
the compiled Lean driver) on every FunctionProto the real converter emitted — implies: global single
assignment; scoped definition-before-use with subgraph outputs produced inside their subgraph
(`wfNodes`); every graph output is visible, outputs are pairwise distinct, and no graph input is
returned directly. -/
theorem wfGraph_sound (g : Graph) (h : wfGraph g = true) :
    g.allDefs.Nodup ∧ wfNodes g.inputs g.nodes = true
      ∧ (∀ o ∈ g.outputs, o ∈ g.inputs ++ topDefs g.nodes)
      ∧ g.outputs.Nodup ∧ (∀ o ∈ g.outputs, o ∉ g.inputs) := by
  unfold wfGraph at h
  simp only [Bool.and_eq_true] at h
  obtain ⟨⟨⟨⟨h1, h2⟩, h3⟩, h4⟩, h5⟩ := h
  refine ⟨(nodupB_iff _).mp h1, h2, (allIn_iff _ _).mp h3, (nodupB_iff _).mp h4, ?_⟩
  intro o ho
  have := (List.all_eq_true.mp h5) o ho
  simpa using this

/-- One step of the scoped check, spelled out: in a well-scoped node list every input of the first
node is already visible, and the rest is checked with that node's outputs added. -/
theorem wfNodes_cons (vis : List Name) (dom name : String) (ins : List (Option Name)) (outs : List Name)
    (attrs : List (String × AttrV)) (rest : List Node)
    (h : wfNodes vis (.op dom name ins outs attrs :: rest) = true) :
    (∀ i ∈ ins, ∀ n, i = some n → n ∈ vis) ∧ wfNodes (outs ++ vis) rest = true := by
  simp only [wfNodes, wfNode, Bool.and_eq_true, List.all_eq_true] at h
  refine ⟨?_, by simpa [Node.outs] using h.2⟩
  intro i hi n hn
  have := h.1 i hi
  subst hn
  simpa [optIn] using this

/-- What the scoped check says about an `If` node: its condition is visible, both branches are well scoped,
their outputs are produced inside them and are **pairwise distinct**. -/
theorem wfNode_if_clauses (vis : List Name) (c : Name) (outs : List Name) (tn : List Node) (to : List Name)
    (en : List Node) (eo : List Name) (h : wfNode vis (.ifN c outs tn to en eo) = true) :
    c ∈ vis ∧ wfNodes vis tn = true ∧ wfNodes vis en = true
      ∧ (∀ o, o ∈ to → o ∈ topDefs tn) ∧ (∀ o, o ∈ eo → o ∈ topDefs en) ∧ to.Nodup ∧ eo.Nodup := by
  simp only [wfNode, Bool.and_eq_true, List.contains_iff_mem] at h
  obtain ⟨⟨⟨⟨⟨⟨⟨⟨h1, h2⟩, h3⟩, h4⟩, h5⟩, _⟩, _⟩, h8⟩, h9⟩ := h
  exact ⟨h1, h2, h4, (allIn_iff _ _).mp h3, (allIn_iff _ _).mp h5, (nodupB_iff _).mp h8, (nodupB_iff _).mp h9⟩

/-- Regression witness of finding C01-D26 (fixed by 3b56caa): `def f(A): B = A; A = op.Neg(A); return B`.
The returned alias of the input is now copied through `Identity`. -/
def d26 : Func :=
  { name := "f", params := [.tensor "A"], retCount := none,
    body := [
      .assign "B" (.var "A"),
      .assign "A" (.call "" "Neg" { known := true, variadic := false, homog := true, tvs := [some "T"] } [.var "A"] []),
      .ret [.var "B"] false] }

example : (match convert d26 with
    | .ok g => wfGraph g && g.outputs == ["return_val"] && g.inputs == ["A"]
    | .error _ => false) = true := by decide +kernel

/-- Regression witness of finding C01-D30 (fixed by cbb81e7): `if c: x = Neg(A); z = x  else: …` with `x` and
`z` both live.  The then-branch now lists two distinct outputs (the second is an `Identity` copy). -/
def d30 : Func :=
  { name := "f", params := [.tensor "A", .tensor "c"], retCount := none,
    body := [
      .ite (.var "c")
        [.assign "x" (.call "" "Neg" { known := true, variadic := false, homog := true, tvs := [some "T"] } [.var "A"] []),
         .assign "z" (.var "x")]
        [.assign "x" (.call "" "Abs" { known := true, variadic := false, homog := true, tvs := [some "T"] } [.var "A"] []),
         .assign "z" (.call "" "Relu" { known := true, variadic := false, homog := true, tvs := [some "T"] } [.var "A"] [])],
      .ret [.var "x", .var "z"] false] }

def thenOutsOfFirstIf : List Node → List Name
  | .ifN _ _ _ to _ _ :: _ => to
  | _ :: rest => thenOutsOfFirstIf rest
  | [] => []

example : (match convert d30 with
    | .ok g => wfGraph g && thenOutsOfFirstIf g.nodes == ["x", "z"]
    | .error _ => false) = true := by decide +kernel

/-! ### Constant subscripts -/

/-- Non-vacuity of `convert_wf` / `convert_single_assignment` on subscripts: `x = A[0:1, 1]; if c: y = x[0] else:
y = A[1, 0:2][::2]; return y` — Slice+Squeeze with a per-expression constant cache (the `1` of `0:1`, of the
step and of the scalar index are ONE `Constant`), a `Gather` in one branch, two subscripts re-using the same
integers in the other: accepted, and the emitted graph passes the executable checker. -/
def subDemo : Func :=
  { name := "f", params := [.tensor "A", .tensor "c"], retCount := none,
    body := [
      .assign "x" (.subscript (.var "A") [.slice (some 0) (some 1) none, .scalar 1]),
      .ite (.var "c")
        [.assign "y" (.subscript (.var "x") [.scalar 0])]
        [.assign "y" (.subscript (.subscript (.var "A") [.scalar 1, .slice (some 0) (some 2) none])
            [.slice none none (some 2)])],
      .ret [.var "y"] false] }

example : (match convert subDemo with
    | .ok g => wfGraph g && nodupB (allDefsL g.nodes) && g.nodes.length == 11
    | .error _ => false) = true := by decide +kernel

/-- Regression witness of C01-D37 (fixed by 35a0ff1): a subscript without an effective index (`A[:]`, `A[:, :]`)
used to crash the converter with an `AttributeError` (it handed `_emit1` the name of the base value instead of
the value); now it is one `Identity` node, and the graph is well-formed. -/
theorem full_slice_subscript_is_identity_witness :
    (match convert { name := "f", params := [.tensor "A"], retCount := none,
                     body := [.assign "x" (.subscript (.var "A") [.slice none none none, .slice none none none]),
                              .ret [.var "x"] false] } with
     | .ok g => wfGraph g && (match g.nodes with
                              | [.op _ "Identity" [some a] [_] _] => a == "A"
                              | _ => false)
     | .error _ => false) = true := by
  decide +kernel

/-- **A loop that carries no state is refused** (C01-D38, fixed by fc696f7).  Nothing assigned in its body is read
in a later iteration or after the loop, so the `Loop` node would have no outputs; before the fix `_emit` evaluated
`output_values[0]` on an empty list and the converter died with an `IndexError`.  Now, whatever the scope, bound or
condition, body and converter state, `convStmt` fails (TranslationError). -/
theorem stateless_loop_refused (L : Locals) (body : List Stmt) (lo : VSet) (hs : loopState body lo = some [])
    (s : St) (r : (Locals × List Node) × St) :
    (∀ i ok b, convStmt L (.for_ i ok b body) lo s ≠ .ok r) ∧
    (∀ t, convStmt L (.while_ (.var t) body) lo s ≠ .ok r) :=
  ⟨fun i ok b => stateless_for_refused L i ok b body lo hs s r,
   fun t => stateless_while_refused L t body lo hs s r⟩

/-- Regression witness of C01-D38: `x = A; for i in range(2): x = B + 1.0; x = -B; return x`. -/
example :
    (match convert { name := "f", params := [.tensor "A", .tensor "B"], retCount := none,
                     body := [.assign "x" (.var "A"),
                              .for_ "i" true (.lit (.int 2)) [.assign "x" (.binop "Add" (.var "B") (.lit (.flt false "1.0")))],
                              .assign "x" (.unop "USub" (.var "B")),
                              .ret [.var "x"] false] } with
     | .error .translation => true
     | _ => false) = true := by
  decide +kernel

/-! ### `to_model_proto`: the body as the main graph of a model -/

/-- **A function with a required attribute parameter is not exported as a model** (`ValueError`) — a direct
restatement of the guard at the top of `exportModel` / `to_model_proto`. -/
theorem export_required_refused (ds : List (Name × Option String)) (g : Graph) (p : Name)
    (h : (p, none) ∈ ds) : exportModel ds g = .error .value := by
  unfold exportModel
  have : ds.any (fun d => d.2.isNone) = true := List.any_eq_true.mpr ⟨(p, none), h, rfl⟩
  simp [this]

/-- **The main graph of an exported model refers to no attribute parameter** (C01-D41, fixed by 3382c7a): when
every attribute parameter the body refers to is one of the function's (with a default, or the export is refused),
the exported body has no attribute reference left at any depth, and lists no attribute parameters.  Before the fix
the references stayed (`alpha = @alpha` in a main graph, where nothing binds them; onnxruntime used 0). -/
theorem export_no_attr_refs (ds : List (Name × Option String)) (g g' : Graph) (h : exportModel ds g = .ok g')
    (hrefs : ∀ p, p ∈ attrRefs g.nodes → defaultOf ds p ≠ none) :
    attrRefs g'.nodes = [] ∧ g'.attrs = [] := by
  obtain ⟨hall, rfl⟩ := exportModel_ok h
  exact ⟨exportNodes_refs ds hall g.nodes hrefs, rfl⟩

/-- **Every attribute reference in an emitted body is to an attribute parameter of the function** — for every
accepted function, at every depth (keyword arguments `alpha=alpha` via `_translate_attr`, attribute parameters read
as values via `_to_onnx_var`; `If` / `Loop` bodies included), and the function lists exactly its attribute
parameters. -/
theorem convert_attr_refs_are_params (f : Func) (g : Graph) (h : convert f = .ok g) :
    g.attrs = attrParams f.params ∧ ∀ q, q ∈ attrRefs g.nodes → q ∈ attrParams f.params :=
  convert_attr_refs h

/-- **The main graph of the model exported from any accepted function refers to no attribute parameter** (C01-D41,
unconditional form): if `ds` gives a default for every attribute parameter of `f` (otherwise the export is refused:
`export_required_refused`), then the exported body has no attribute reference at any depth. -/
theorem export_model_no_attr_refs (f : Func) (g g' : Graph) (ds : List (Name × Option String))
    (hc : convert f = .ok g) (hds : ∀ p, p ∈ attrParams f.params → defaultOf ds p ≠ none)
    (h : exportModel ds g = .ok g') : attrRefs g'.nodes = [] ∧ g'.attrs = [] :=
  export_no_attr_refs ds g g' h (fun p hp => hds p ((convert_attr_refs hc).2 p hp))

/-- **Exporting keeps the body well-formed**: together with `convert_wf`, the main graph of `to_model_proto()` of
every accepted function passes `wfGraph`. -/
theorem export_wf (f : Func) (g g' : Graph) (ds : List (Name × Option String))
    (hnames : (f.params.map Param.name).Nodup) (hc : convert f = .ok g) (h : exportModel ds g = .ok g') :
    wfGraph g' = true :=
  exportModel_wf h (convert_wf f g hc hnames)

def leakyDemo : Func :=
  { name := "f", params := [Param.tensor "A", Param.attr "alpha" AttrTy.float], retCount := none,
    body := [.ret [.call "" "LeakyRelu" { known := false, variadic := false, homog := false, tvs := [] }
      [.var "A"] [("alpha", .ref "alpha")]] false] }

/-- Non-vacuity / regression witness of C01-D41: `def f(A, alpha: float = 0.5): return LeakyRelu(A, alpha=alpha)`
— the function body refers to `@alpha`, the exported main graph carries `0.5`; without a default it is refused. -/
example :
    (match convert leakyDemo with
     | .ok g =>
       attrRefs g.nodes == ["alpha"] &&
       (match exportModel [("alpha", some "f:0.5")] g with
        | .ok g' => attrRefs g'.nodes == [] && wfGraph g' &&
            (match g'.nodes with
             | [.op _ "LeakyRelu" _ _ [("alpha", .const r)]] => r == "f:0.5"
             | _ => false)
        | .error _ => false) &&
       (match exportModel [("alpha", none)] g with
        | .error .value => true
        | _ => false)
     | .error _ => false) = true := by
  decide +kernel

/-- Finding D19 (fixed by 9fe7eb1), the decision in isolation: `_translate_function_signature_common` used to add a
nested function's parameter names to `_used_vars` and use them as the subgraph's input names *without* passing
them through `_generate_unique_name` (`def Sum(zero, nxt)` inside a function that defines `zero` gave a Scan
body redefining `zero`).  Now every parameter of a nested function goes through `_generate_unique_name`:
`nestedParams ps` is that step; it returns the input names of the subgraph. -/
def nestedParams (ps : List Name) : M (List Name) := genUniques ps

/-- **Nested-function parameters are fresh** (positive restatement after 9fe7eb1): the subgraph's input names
are pairwise distinct, none was in use in the enclosing function, and all are recorded as used. -/
theorem nested_params_fresh (ps rs : List Name) (s s' : St) (h : nestedParams ps s = .ok (rs, s')) :
    rs.Nodup ∧ (∀ r, r ∈ rs → r ∉ s.used ∧ r ∈ s'.used) ∧ rs.length = ps.length := by
  obtain ⟨_, f, l⟩ := genUniques_fresh ps h
  exact ⟨f.1, f.2, l⟩

/-- Regression witness of D19: `zero` is in use, the nested parameter `zero` becomes `zero_0`. -/
example : (match nestedParams ["zero", "nxt"] { used := ["zero", "X"], next := 0, castable := [] } with
    | .ok (rs, _) => rs == ["zero_0", "nxt"]
    | .error _ => false) = true := by decide +kernel

end OV.Props.C02
