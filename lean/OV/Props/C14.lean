import OV.Model.C14History
import OV.Lemmas.C14History
import OV.Gen.C14Stash
import OV.Gen.C14Globals
import OV.Lemmas.C14Globals
/-!
# C14 — results are deterministic and independent of what the process did before

Property theorems only.  Model: `OV.Model.C14History`; generated rows: `OV.Gen.C14Stash`
(regenerated from `/repo`'s rule classes on every run by `harness/extract_stash.py`).
-/
namespace OV.Props.C14
open OV.C14

/-! ## Rule singletons -/

/-- **Table theorem (re-checked against the current source on every run).**  In every rule class under
`rewriter/rules/common` and `rewriter/rules/fusion`, each instance field read by `rewrite()` is
definitely assigned by `check()` on every path that can return success, `check()` reads no field before
assigning it, and nothing accesses `self` dynamically.  The quantifier is the whole table. -/
theorem stash_write_before_read : ∀ r ∈ OV.Gen.C14Stash.rules, r.ok = true := by
  decide +kernel

/-- Same discipline for every class under `rewriter/ort_fusions`, except `CosSinCacheFusion`, whose
`rewrite` deliberately keeps a per-graph cache (`_inv_freq_cos_sin_cache`, cleared by `cleanup()`) and
reads the user-configurable `_max_pos_id`; that class is outside the claim. -/
theorem ort_stash_write_before_read :
    ∀ r ∈ OV.Gen.C14Stash.ortRules, r.name ≠ "cos_sin_cache.CosSinCacheFusion" → r.ok = true := by
  decide +kernel

/-- The table is not empty and contains the stashing rules the property names. -/
example : (OV.Gen.C14Stash.rules.filter (fun r => !r.rewriteReads.isEmpty)).length ≥ 6 := by decide +kernel

/-- **One `try_rewrite`**: for a rule obeying the discipline, whatever earlier matches (of this or any
other model, successful, failed half-way, or interrupted by an exception) left on the rule object, the
replacement produced for a match is the same. -/
theorem try_rewrite_history_independent {I O : Type} (spec : RuleSpec) (b : RuleBeh I O)
    (hok : spec.ok = true) (hr : Respects spec b) (s s' : Stash) (i : I)
    (hag : AgreeOn spec.consts s s') :
    (tryRewrite b s i).2 = (tryRewrite b s' i).2 :=
  tryRewrite_indep hok hr s s' i hag

/-- **History independence of rewriting.**  For every set of installed rule objects obeying the
discipline, every history `H` of rewriting operations (each an arbitrary adaptive sequence of match
attempts of arbitrary length, possibly ending in an exception) and every target operation `T`:
the result of `T` after `H` equals the result of `T` in a fresh process. -/
theorem history_independent_rules {I O : Type} (w : World I O) (hw : w.Ok)
    (H : List (RewriteOp I O)) (T : RewriteOp I O) (σ₀ : Sigma) :
    lastRes w σ₀ ((H.map ProcOp.rewrite) ++ [ProcOp.rewrite T]) = lastRes w σ₀ [ProcOp.rewrite T] := by
  unfold lastRes
  suffices h : ∀ (σ : Sigma), AgreeAll w σ₀.stashes σ.stashes →
      (run w σ ((H.map ProcOp.rewrite) ++ [ProcOp.rewrite T])).2.getLast?
        = (run w σ₀ [ProcOp.rewrite T]).2.getLast? from h σ₀ (AgreeAll.refl _ _)
  induction H with
  | nil =>
    intro σ hag
    simp only [List.map_nil, List.nil_append, run, step, List.getLast?_singleton]
    rw [runRewrite_indep hw T.strat T.fuel [] σ.stashes σ₀.stashes hag.symm]
  | cons op H ih =>
    intro σ hag
    simp only [List.map_cons, List.cons_append, run]
    have hne : (run w (step w σ (ProcOp.rewrite op)).1 (List.map ProcOp.rewrite H ++ [ProcOp.rewrite T])).2 ≠ [] := by
      cases H <;> simp [run]
    rw [List.getLast?_cons_of_ne_nil hne]
    apply ih
    simp only [step]
    exact hag.trans (runRewrite_consts hw _ _ _ _)

/-- The discipline is what makes this true: a rule whose `check` assigns `_n` only on one of its two
success paths (`check` succeeds on input 0 without assigning) and whose `rewrite` returns `_n` gives a
different replacement after a history that matched input 7. -/
theorem history_dependent_without_discipline :
    ∃ (w : World Nat Int) (H T : RewriteOp Nat Int) (σ₀ : Sigma),
      lastRes w σ₀ [ProcOp.rewrite H, ProcOp.rewrite T] ≠ lastRes w σ₀ [ProcOp.rewrite T] := by
  let b : RuleBeh Nat Int :=
    { check := fun _ i => (true, if i = 0 then [] else [("_n", (i : Int))])
      rewrite := fun s _ => (some ((s "_n").getD (-1)), []) }
  let mk (i : Nat) : RewriteOp Nat Int :=
    { strat := fun acc => if acc.isEmpty then .attempt 0 i else .done, fuel := 2 }
  refine ⟨{ rules := [({ name := "bad", rewriteReads := ["_n"] }, b)] }, mk 7, mk 0,
    ⟨fun _ => Stash.empty, {}, [], 0⟩, ?_⟩
  decide

/-! ## Constant-folding pass object -/

/-- `FoldConstantsPass.call` on a reused pass object: the result does not depend on the state the
previous call (completed or interrupted) left behind — because `call` starts with `_reset()`.
**Holds by `rfl`, i.e. by the shape of the model** (`foldCall` is defined as reset-then-body): the content is the model ↔ code tie
(entry row of `FoldConstantsPass`: no read before `_reset`; `fold` driver stream; per-call traces), not the proof. -/
theorem fold_reset (st st' : FoldState) (m : List FoldNode) : (foldCall st m).2 = (foldCall st' m).2 := rfl

/-- Without the reset the same body is history dependent (`_modified` sticks, stale symbolic values
are found): what `fold_reset` rules out. -/
theorem fold_without_reset_refuted :
    ¬ ∀ (st st' : FoldState) (m : List FoldNode), (foldBody st m).2 = (foldBody st' m).2 := by
  intro h
  have := h {} { modified := true, symMap := [(3, 9)] } [.keep 1, .useSym 3]
  revert this; decide

/-! ## Opset interning -/

/-- `values.Opset(domain, version)` returns an object whose observable fields are the requested ones,
whatever the cache holds (i.e. whatever opsets earlier scripts created). -/
theorem opset_interning_pure (cache : List OpsetKey) (k : OpsetKey) :
    (intern cache k).2 = (k.domain, k.version) := intern_fields cache k

/-- … and afterwards the key is cached, so a second request returns the first instance. -/
theorem opset_interning_cached (cache : List OpsetKey) (k : OpsetKey) : k ∈ (intern cache k).1 := by
  unfold intern
  split
  · rename_i c hc
    have h1 := List.find?_some hc
    simp only [beq_iff_eq] at h1
    exact h1 ▸ List.mem_of_find?_eq_some hc
  · simp

/-! ## `pattern_builder` -/

/-- With `try/finally` (current code) the global builder after `with pattern_builder(b): body` is the
one before it — for every body: any nesting depth, any number of sugar uses, an exception anywhere. -/
theorem pattern_builder_restored (g b : Nat) (body : List BEv) : (withBuilder true g b body).global = g := by
  unfold withBuilder
  exact runEvent_global _ _

/-- … and so is it after any sequence of such constructions, each possibly raising. -/
theorem pattern_builder_restored_seq (st : BState) (es : List BEv) : (runEvents true st es).global = st.global :=
  runEvents_global st es

/-- The code before commit 096e584 (no `try/finally`): an exception inside the body leaves the global
swapped — D12, kept as the documented refutation; the real witness is replayed on every run. -/
theorem pattern_builder_prefix_refuted :
    ¬ ∀ (g b : Nat) (body : List BEv), (withBuilder false g b body).global = g := by
  intro h
  have := h 0 5 [.sugar, .raise]
  revert this; decide

/-! ## Converter: set iteration order -/

/-- **`sorted`**: the If/Loop output order *and* the generated output names are the same for every
iteration order of the set of live definitions (= for every `PYTHONHASHSEED`), for every set. -/
theorem sorted_perm_invariant (st : NameState) (l₁ l₂ : List String) (h : l₁.Perm l₂) :
    ctrlOutputs true st l₁ = ctrlOutputs true st l₂ := by
  unfold ctrlOutputs
  simp only [if_true]
  rw [mergeSort_perm_eq h]

example : ctrlOutputs true ⟨["x", "a"], 0⟩ ["b", "a"] = (["a", "b"], ["a_0", "b"], ⟨["b", "a_0", "x", "a"], 1⟩) := by
  rw [sorted_perm_invariant _ ["b", "a"] ["a", "b"] (List.Perm.swap "a" "b" [])]
  have hs : ["a", "b"].mergeSort leStr = ["a", "b"] := List.mergeSort_of_pairwise (by decide)
  simp only [ctrlOutputs, if_true, hs]
  decide

/-- `list(set)` (the code before commit ece9697): order and names follow the iteration order — D8. -/
theorem order_independent_prefix_refuted :
    ¬ ∀ (st : NameState) (l₁ l₂ : List String), l₁.Perm l₂ → ctrlOutputs false st l₁ = ctrlOutputs false st l₂ := by
  intro h
  have := h ⟨[], 0⟩ ["a", "b"] ["b", "a"] (List.Perm.swap "b" "a" [])
  revert this; decide

/-! ## Rewriter: opset imports of a replacement -/

/-- **TABLE FACT, not a theorem about the state machine**: `decide` only reads a value the AST translator wrote into the generated file; the whole content is the translator's output (trusted, re-generated from the source on every run). Re-read from `rewriter/_rewrite_rule.py` on every run: `_update_opset_imports`
iterates `sorted(delta.used_opsets, …)` (commit 630be50).  A bare set iteration makes this theorem fail:
a regression of C14-N2. -/
theorem opset_imports_iterated_sorted : OV.Gen.C14Stash.converterFacts.opsetImportsSorted = true := by decide

/-- **Opset imports added by a rewrite do not depend on the hash seed** (the code as it is): the imports
after a replacement are the same for every iteration order of the set `TapeBuilder.used_opsets`, for every
set (any number of new domains, with or without versions) and every existing import list. -/
theorem opset_imports_sorted_perm_invariant (imports : List (String × Nat)) (l₁ l₂ : List UsedOpset)
    (h : l₁.Perm l₂) :
    updateOpsetImports true imports l₁ = updateOpsetImports true imports l₂ := by
  unfold updateOpsetImports
  simp only [if_true]
  rw [mergeSort_leOpset_perm_eq h]

example : updateOpsetImports true [("", 18)] [("custom.ext", none), ("com.microsoft", none)]
    = updateOpsetImports true [("", 18)] [("com.microsoft", none), ("custom.ext", none)] :=
  opset_imports_sorted_perm_invariant _ _ _ (List.Perm.swap _ _ [])

/-- The function BEFORE commit 630be50 (bare iteration of the set; finding C14-N2, fixed): two or more
new domains were appended in hash-seed order.  Kept as the documented refutation of the pre-fix code;
the real witness is a regression pair of every run. -/
theorem opset_imports_order_prefix_refuted :
    ¬ ∀ (imports : List (String × Nat)) (l₁ l₂ : List UsedOpset), l₁.Perm l₂ →
        updateOpsetImports false imports l₁ = updateOpsetImports false imports l₂ := by
  intro h
  have := h [("", 18)] [("com.microsoft", none), ("custom.ext", none)]
    [("custom.ext", none), ("com.microsoft", none)] (List.Perm.swap _ _ [])
  revert this; decide

/-- … and what held for that pre-fix function: with at most one used opset there is nothing to order. -/
theorem opset_imports_order_prefix_partial (imports : List (String × Nat)) (l₁ l₂ : List UsedOpset)
    (h : l₁.Perm l₂) (hlen : l₁.length ≤ 1) :
    updateOpsetImports false imports l₁ = updateOpsetImports false imports l₂ := by
  have : l₁ = l₂ := by
    match l₁, hlen with
    | [], _ => exact (List.Perm.nil_eq h)
    | [a], _ => exact List.singleton_perm.1 h
  rw [this]

/-- **Fresh value names do not depend on the models rewritten before** with the same rule set object:
`apply_to_model` recomputes the name set from the model at hand.  **Holds by `rfl`, by the shape of the model** (`applyNames true`
ignores the old state): the content is the tie (entry row of `RewriteRuleSet`, `fresh` driver stream), not the proof. -/
theorem value_names_reset (state state' modelNames : List String) (k : Nat) :
    (applyNames true state modelNames k).1 = (applyNames true state' modelNames k).1 := rfl

/-- A rule set that kept the names of earlier models would name the next model's new values differently. -/
theorem value_names_accumulating_refuted :
    ¬ ∀ (state state' modelNames : List String) (k : Nat),
        (applyNames false state modelNames k).1 = (applyNames false state' modelNames k).1 := by
  intro h
  have := h ["val_1"] [] ["x"] 1
  revert this; decide

example : (applyNames true ["val_7"] ["val_1", "x", "val_2"] 2).1 = ["val_3", "val_4"] := by decide

/-! ## Globals, protos, eager calls -/

/-- Protos are a function of the globals *at decoration*: whatever the module globals are later
(`g'`), any number `n` of `to_model_proto`/`to_function_proto` calls return the decoration-time IR. -/
theorem globals_frozen_rebinding (g : Globals) (body : SExp) (n : Nat) :
    ∀ p, p ∈ (iterProto n (decorate g body)).1 → p = translate g body :=
  (iterProto_spec n (decorate g body)).2

/-- **TABLE FACT, not a theorem about the state machine**: `decide` only reads a value the AST translator wrote into the generated file; the whole content is the translator's output (trusted, re-generated from the source on every run). Re-read from `converter.py` on every run: no method of `Converter` hands the
user's object straight to `ir.tensor(...)`; every tensor constant is snapshotted when it is created
(commit b4400e5).  A non-empty list makes this theorem fail: a regression of C14-N1. -/
theorem constants_snapshotted : OV.Gen.C14Stash.converterFacts.constByRefSites = [] := by decide

/-- **Script-time constants are fixed when the decorator runs** — full statement for the code as it is
now: globals may be numbers or *mutable objects* (numpy arrays, TensorProtos, living in a heap of cells);
whatever those objects contain later (`cells'`: any in-place mutation of any of them), the proto is the
decoration-time one. -/
theorem globals_frozen (g : RGlobals) (cells cells' : Cells) (body : SExp) :
    (translateR true g cells body).toProto cells' = (translateR true g cells body).toProto cells :=
  translateR_copy_frozen g cells cells' body

/-- The code before commit b4400e5 wrapped the user's array by reference (finding C14-N1, fixed):
`W = [1]; f = script(x + W); W[...] = 9` changed later protos.  Kept as the documented refutation; the real
witness is replayed on every run. -/
theorem globals_frozen_by_reference_prefix_refuted :
    ¬ ∀ (g : RGlobals) (cells cells' : Cells) (body : SExp),
        (translateR false g cells body).toProto cells' = (translateR false g cells body).toProto cells := by
  intro h
  have := h [("W", .ref 0)] (fun _ => 1) (fun _ => 9) (.add .x (.glob "W"))
  revert this; decide

/-- … and what held for that code: frozen when no mentioned global is a mutable object. -/
theorem globals_frozen_prefix_partial (g : RGlobals) (cells cells' : Cells) (body : SExp)
    (h : NoSharedMutablePayload g body) :
    (translateR false g cells body).toProto cells' = (translateR false g cells body).toProto cells :=
  translateR_noshared_frozen g cells cells' body h

example : NoSharedMutablePayload [("K", .imm 2), ("W", .ref 0)] (.mul .x (.glob "K")) := by
  intro n hn c
  simp only [SExp.globalsOf, List.nil_append, List.mem_singleton] at hn
  subst hn
  simp [List.lookup]

/-- `to_model_proto()ⁿ`: identical results and the function object unchanged, for every `n`. -/
theorem to_model_proto_idempotent (n : Nat) (f : OnnxFn) :
    (iterProto n f).2 = f ∧ ∀ p, p ∈ (iterProto n f).1 → p = (toProto f).1 :=
  iterProto_spec n f

/-- `to_model_proto(**overrides)` never writes the function's (decorator's) kwargs dict: after any
history of calls — on the function itself or on any other function, sharing the dict or not, with any
overrides — every dict is what it was. ("without modifying the function") -/
theorem to_model_proto_kwargs_unchanged (h : KWHeap) (H : List (PFn × KW)) : runCalls false h H = h := by
  induction H generalizing h with
  | nil => rfl
  | cons c cs ih => simp only [runCalls, callProto, Bool.false_eq_true, if_false, ih]

/-- **Overrides are per call.**  For every history `H` of `to_model_proto(**o')` calls on `f` and on
siblings created by the same decorator object (or any other function), the result of
`f.to_model_proto(**o)` is the fresh result: a function of `(f, o)` only. -/
theorem to_model_proto_override_independent (h : KWHeap) (H : List (PFn × KW)) (f : PFn) (o : KW) :
    (callProto false (runCalls false h H) f o).2 = (callProto false h f o).2 := by
  rw [to_model_proto_kwargs_unchanged]

/-- The aliasing variant (`merged = self.kwargs; merged.update(kwargs)`) is history dependent, also
across functions: `g` shares `f`'s decorator dict; `g.to_model_proto(producer_name=7)` then
`f.to_model_proto()` shows `producer_name = 7`. -/
theorem to_model_proto_override_aliasing_refuted :
    ¬ ∀ (h : KWHeap) (H : List (PFn × KW)) (f : PFn) (o : KW),
        (callProto true (runCalls true h H) f o).2 = (callProto true h f o).2 := by
  intro hh
  have := hh (fun _ => []) [(⟨.x, 0⟩, [("producer_name", 7)])] ⟨.const 1, 0⟩ []
  revert this; decide

example : (callProto false (runCalls false (fun _ => [("producer_name", 1)])
      [(⟨.x, 0⟩, [("producer_name", 7)]), (⟨.const 1, 0⟩, [("ir_version", 9)])]) ⟨.const 1, 0⟩ [("doc_string", 3)]).2
    = (.const 1, [("doc_string", 3), ("producer_name", 1)]) := by decide

/-- **Header of the emitted model**: the opset imports the function graph declares are kept, in
order, as a prefix of the model's `opset_import` — for every list of called functions and every
`opset_version` argument. -/
theorem model_header_keeps_graph_imports (g : List (String × Nat)) (fs : List SubFn) (kw : Option Nat)
    (latest : Nat) : ∃ extra, modelOpsetImports g fs kw latest = g ++ extra := by
  unfold modelOpsetImports
  obtain ⟨e, he⟩ := addFuncImports_keeps g fs
  simp only
  split
  · exact ⟨e, he⟩
  · exact ⟨e ++ [("", kw.getD latest)], by rw [he, List.append_assoc]⟩

/-- … the standard domain is always imported … -/
theorem model_header_has_standard_opset (g : List (String × Nat)) (fs : List SubFn) (kw : Option Nat)
    (latest : Nat) : hasKey (modelOpsetImports g fs kw latest) "" = true := by
  unfold modelOpsetImports
  simp only
  split
  · assumption
  · rename_i h
    unfold hasKey at h ⊢
    cases hl : (addFuncImports g fs).lookup "" with
    | some v => simp [hl] at h
    | none =>
      rw [List.lookup_append, hl]
      simp [List.lookup]

/-- … and an `opset_version=` argument never overrides a standard-opset version the graph already
declares (it is only a default for graphs that use no standard operator). -/
theorem model_header_opset_version_is_default_only (g : List (String × Nat)) (fs : List SubFn)
    (kw : Option Nat) (latest v : Nat) (h : g.lookup "" = some v) :
    (modelOpsetImports g fs kw latest).lookup "" = some v := by
  obtain ⟨e, he⟩ := model_header_keeps_graph_imports g fs kw latest
  rw [he]
  exact lookup_append_of_some h

/-- instance with the hypothesis TRUE (the graph declares the standard opset 17; `opset_version=15` does not override it) -/
example : (modelOpsetImports [("", 17), ("this", 1)] [] (some 15) 23).lookup "" = some 17 := by decide

/-- (an instance of the OTHER case: the graph declares no standard opset, so the hypothesis above is false and a function's version is used) -/
example : modelHeader [("this", 1)] [⟨"my.dom", 2, some 18⟩, ⟨"this", 1, some 17⟩] (some 15) none 23
    [(18, 8), (17, 8), (15, 7)] 11 = ([("this", 1), ("my.dom", 2), ("", 18)], 10) := by decide

/-- The proto computes what the Python body computes under the decoration-time globals. -/
theorem proto_is_decoration_time_semantics (g : Globals) (body : SExp) (x : Val) :
    (toProto (decorate g body)).1.eval x = eagerCall g (decorate g body) x :=
  translate_eval g x body

/-- "… nor later calls" — FALSE for eager calls (D15): CPython resolves the global when the body runs.
`K = 2; f = script(x * K); K = 5; f(3)` gives 15, the proto still says 6. -/
theorem eager_globals_frozen_refuted :
    ¬ ∀ (g : Globals) (n : String) (v : Val) (body : SExp) (x : Val),
        eagerCall (setGlobal g n v) (decorate g body) x = eagerCall g (decorate g body) x := by
  intro h
  have := h [("K", 2)] "K" 5 (.mul .x (.glob "K")) 3
  revert this; decide

/-- What does hold: an eager call is unaffected by rebinding a global the body does not mention. -/
theorem eager_frozen_partial (g : Globals) (n : String) (v : Val) (body : SExp) (x : Val)
    (hfree : n ∉ body.globalsOf) :
    eagerCall (setGlobal g n v) (decorate g body) x = eagerCall g (decorate g body) x := by
  unfold eagerCall decorate
  simp only []
  induction body with
  | x => rfl
  | glob m =>
    simp only [SExp.globalsOf, List.mem_singleton] at hfree
    have hb : (m == n) = false := by
      simp only [beq_eq_false_iff_ne, ne_eq]
      exact fun h => hfree h.symm
    simp only [SExp.evalPy, setGlobal, List.lookup, hb]
  | add a b iha ihb =>
    simp only [SExp.globalsOf, List.mem_append, not_or] at hfree
    simp only [SExp.evalPy, iha hfree.1, ihb hfree.2]
  | mul a b iha ihb =>
    simp only [SExp.globalsOf, List.mem_append, not_or] at hfree
    simp only [SExp.evalPy, iha hfree.1, ihb hfree.2]

example : eagerCall (setGlobal [("K", 2), ("C", 1)] "C" 9) (decorate [("K", 2), ("C", 1)] (.mul .x (.glob "K"))) 3 = some 6 := by
  decide

/-! ## Converter objects -/

/-- **TABLE FACT, not a theorem about the state machine**: `decide` only reads a value the AST translator wrote into the generated file; the whole content is the translator's output (trusted, re-generated from the source on every run). `script()` builds a fresh `Converter` for every decorated function (read off `main.script_check`
on every run), so nothing a `Converter` keeps can flow from one script to the next. -/
theorem script_translate_fresh : OV.Gen.C14Stash.converterFacts.freshPerScript = true := by decide

/-- Every per-function field `_init_function_translation`/`translate_function_def` re-initialise is not
a leak; the others (listed by the generated table, today `_castable` and `default_opset_`) survive in a
*reused* `Converter` object (internal API; the real effect is replayed by the harness).  Near-definitional: it unfolds the
definition of `leaks` (a filter); the hypothesis `_hs` is NOT used by the proof (it only names the intended domain), and there is
no separate non-vacuity example — the instance is the generated `converterFacts` (a table fact). -/
theorem converter_reuse_partial (c : ConverterFacts) (f : String) (_hs : f ∈ c.stateFields)
    (hr : f ∈ c.resetFields) : f ∉ c.leaks := by
  unfold ConverterFacts.leaks
  simp only [List.mem_filter, Bool.not_eq_true', not_and, Bool.not_eq_false]
  intro _
  exact List.contains_iff_mem.2 hr

/-- a surviving `_castable` entry changes the translation of a later function whose parameter has the
name of an earlier generated constant (`CastLike` is inserted) -/
theorem converter_castable_leak_refuted :
    ¬ ∀ (fn1 fn2 : List String) (arg : String),
        insertsCastLike (castableAfter false fn1 fn2) arg = insertsCastLike (castableAfter true fn1 fn2) arg := by
  intro h
  have := h ["const"] [] "const"
  revert this; decide

/-- **Translating a script**: the result (interned opsets' fields, If/Loop output order and names) is the
same from every process state and for every iteration order of the live-definition set — i.e. after any
history and under every `PYTHONHASHSEED`. -/
theorem translate_seed_and_history_independent {I O : Type} (w : World I O) (σ σ' : Sigma)
    (st : NameState) (ks : List OpsetKey) (l₁ l₂ : List String) (h : l₁.Perm l₂) :
    (step w σ (ProcOp.translate st ks l₁ : ProcOp I O)).2 = (step w σ' (ProcOp.translate st ks l₂)).2 := by
  simp only [step, internAll_fields, sorted_perm_invariant st l₁ l₂ h]

/-! ## Every process-wide mutable object on the property's path (generated tables) -/

/-- **Table theorem, re-read from the source on every run.**  Every module-level name or class attribute
bound to a mutable object, every `global` target and every functools cache in
`onnxscript/{_internal, rewriter, rewriter/rules/{common,fusion}, optimizer, version_converter, ir}`,
`onnx_types.py`, `values.py`, `utils/metadata_merger.py` is written after import only in a disciplined way:
never (most rows), as a memo whose key mentions every parameter the function uses, by a context manager
that restores it in `finally`, by a public `set_*` function, by `register` (import time only, next
theorem), while a class statement executes, or as a field of an entry-reset object.  One exception, named
here: `ANY_VALUE._uses` grows whenever a pattern mentions `ANY_VALUE`, but `ValuePattern.uses()` has no
reader in the rewriter (write-only). -/
theorem globals_disciplined :
    ∀ r ∈ OV.Gen.C14Globals.globalRows, r.name ≠ "_pattern_ir:ANY_VALUE" → r.ok = true := by
  decide +kernel

/-- **TABLE FACT, not a theorem about the state machine**: `decide` only reads a value the AST translator wrote into the generated file; the whole content is the translator's output (trusted, re-generated from the source on every run). Registries (`optimizer` partial evaluators, `version_converter` adapters, evaluator python ops) are
extended only by decorators executed at import time: no `register(...)` call sits inside a function body -/
theorem register_import_time_only : OV.Gen.C14Globals.registerCallsInFunctions = [] := by decide

/-- Every class whose objects outlive one operation — the matcher held by each rule, the fold pass, the
rewrite pass, rule sets, rules, patterns, the version-conversion pass — reads, in the method that starts
an operation (followed through `self.m()` calls) and in the helpers other modules call meanwhile, only
fields assigned by `__init__` or assigned earlier by this very call.  Exception, named here: `Converter`
(`_castable`, `default_opset_` survive in a reused object; `script()` builds a fresh one:
`script_translate_fresh`). -/
theorem entry_objects_reset :
    ∀ e ∈ OV.Gen.C14Globals.entryRows, e.name ≠ "Converter" → e.ok = true := by
  decide +kernel

/-- The table is closed under "keeps an object": every package class whose object an entry object builds
in `__init__` and stores on `self` (the matcher of a rule, the inner conversion pass of
`ConvertVersionPass`, …) has a row of its own — so `entry_objects_reset` also covers the objects a
persistent object owns (a pass that kept ONE stateful converter for all its calls would add the
converter's row, and that row reads its counters before assigning them). -/
theorem held_objects_have_rows :
    ∀ e ∈ OV.Gen.C14Globals.entryRows, ∀ h ∈ e.held,
      (OV.Gen.C14Globals.entryRows.any (fun r => r.name == h)) = true := by
  decide +kernel

example : (OV.Gen.C14Globals.entryRows.filter (fun e => !e.held.isEmpty)).length ≥ 2 := by decide +kernel

/-- **TABLE FACT, not a theorem about the state machine**: `decide` only reads a value the AST translator wrote into the generated file; the whole content is the translator's output (trusted, re-generated from the source on every run). `RewriteRuleSet._value_names` (the names of the model being rewritten; fresh `val_<n>` names are
drawn against it) is recomputed by `apply_to_model` from the model at the start of every call — part
of `entry_objects_reset` — and the private worker `_apply_to_graph_or_function`, which relies on it, is
called from nowhere but `apply_to_model` and itself. -/
theorem rule_set_value_names_entry_only : OV.Gen.C14Globals.privateEntryCalls = [] := by decide

/-- the table is not vacuous: the matcher and the fold pass do carry per-call fields -/
example : (OV.Gen.C14Globals.entryRows.filter (fun e => !e.mayWrite.isEmpty && e.name != "Converter")).length ≥ 2 := by
  decide +kernel

/-- Every iteration over a set-typed expression on that path feeds an order-insensitive consumer
(`sorted`, `set`/`frozenset`, `set.update`, a set comprehension, `any/all/len/min/max/sum`), except the
sites named here: `_translate_nested_function_def` iterates the outer-scope variable set into a list that
is only checked element by element (the order decides which of several errors is raised first). -/
theorem set_iteration_sanctioned :
    ∀ s ∈ OV.Gen.C14Globals.setIterSites, s.orderSensitive = true →
      s.site = "_internal/converter.py:Converter._translate_nested_function_def" := by
  decide +kernel

example : (OV.Gen.C14Globals.setIterSites.filter (fun s => s.sink == "call:sorted")).length ≥ 3 := by
  decide +kernel

/-- Object addresses (`id(x)`) and `hash(x)` differ from process to process: on the path they are used
only for membership tests (sets/dicts of ids, comparisons) or inside `__str__`/`__repr__`, never to
name or order anything that is emitted. -/
theorem id_and_hash_only_for_membership :
    ∀ s ∈ OV.Gen.C14Globals.idHashSites, s.2.2 = "membership" ∨ s.2.2 = "repr" := by
  decide +kernel

/-- **A memo keyed by every argument the value depends on is invisible**: after any history of lookups
(any keys, any unkeyed arguments) a lookup returns what a fresh computation returns.  (`Opset.cache`,
`_tensor_type_shape_cache`.) -/
theorem memo_complete_key_history_independent {K E V : Type} [BEq K] [LawfulBEq K] (f : K → E → V)
    (hcomplete : ∀ k e e', f k e = f k e') (H : List (K × E)) (k : K) (e : E) :
    (memoGet f (memoRun f [] H) k e).2 = f k e :=
  (memoGet_sound f hcomplete _ (memoRun_sound f hcomplete [] (fun _ _ h => by simp at h) H) k e).1

/-- A memo whose key omits an argument the value depends on is history dependent (seeded change C14-5:
`load_op` memoised by `(domain, op)` without the opset version; `Opset.cache` keyed without version). -/
theorem memo_incomplete_key_refuted :
    ¬ ∀ (f : String → Nat → Nat) (H : List (String × Nat)) (k : String) (e : Nat),
        (memoGet f (memoRun f [] H) k e).2 = f k e := by
  intro h
  have := h (fun _ v => v) [("Squeeze", 13)] "Squeeze" 11
  revert this; decide

/-- **An object whose entry method assigns before it reads is history independent**: for every row
obeying `EntryRow.ok`, every behaviour respecting the row, every history of earlier calls (completed or
not — a call's assignments are simply whatever it performed), the result of a call equals the result on
the object as `__init__` left it. -/
theorem entry_object_history_independent {I O : Type} (e : EntryRow) (b : ObjBeh I O)
    (hok : e.ok = true) (hr : ObjRespects e b) (s₀ : OState) (H : List I) (i : I) :
    (b.call (objRun b s₀ H) i).1 = (b.call s₀ i).1 := by
  apply hr.reads
  have hc := objRun_consts hr s₀ H
  unfold EntryRow.ok at hok
  simp only [Bool.and_eq_true, List.all_eq_true, List.contains_iff_mem] at hok
  intro f hf
  rcases List.mem_append.1 hf with hf | hf
  · rcases List.mem_append.1 hf with hf | hf
    · exact (hc f (hok.1.2 f hf)).symm
    · exact (hc f (hok.2 f hf)).symm
  · exact (hc f hf).symm

/-- … and the hypothesis is needed: an object whose call returns a field it assigns only sometimes. -/
theorem entry_object_undisciplined_refuted :
    ∃ (b : ObjBeh Nat Int) (s₀ : OState) (H : List Nat) (i : Nat),
      (b.call (objRun b s₀ H) i).1 ≠ (b.call s₀ i).1 := by
  refine ⟨⟨fun s i => ((s "_m").getD 0, if i = 0 then [] else [("_m", (i : Int))])⟩, fun _ => none, [5], 0, ?_⟩
  decide

/-- **The version-conversion pass objects** (`ConvertVersionPass` and the `_ConvertVersionPassRequiresInline`
it keeps): for the rows the translator generates for them from the current source, every behaviour
respecting the row gives, after ANY history of earlier calls on the same pass object, the result of a
call on a freshly constructed pass. -/
theorem convert_version_pass_history_independent {I O : Type} (e : EntryRow)
    (he : e ∈ OV.Gen.C14Globals.entryRows)
    (hn : e.name = "ConvertVersionPass" ∨ e.name = "_ConvertVersionPassRequiresInline")
    (b : ObjBeh I O) (hr : ObjRespects e b) (s₀ : OState) (H : List I) (i : I) :
    (b.call (objRun b s₀ H) i).1 = (b.call s₀ i).1 := by
  have hne : e.name ≠ "Converter" := by
    rcases hn with h | h <;> (rw [h]; decide)
  exact entry_object_history_independent e b (entry_objects_reset e he hne) hr s₀ H i

/-- both rows exist in the generated table, and no persistent object keeps a `_VersionConverter`
(it is built per call inside `convert_version`): the table has no row for it -/
theorem convert_version_pass_rows :
    (OV.Gen.C14Globals.entryRows.any (fun e => e.name == "ConvertVersionPass")) = true ∧
    (OV.Gen.C14Globals.entryRows.any (fun e => e.name == "_ConvertVersionPassRequiresInline")) = true ∧
    (OV.Gen.C14Globals.entryRows.all (fun e => e.name != "_VersionConverter")) = true := by
  decide +kernel

/-- non-vacuity: a behaviour that respects the generated `ConvertVersionPass` row — it reads only the
`__init__`-only field `target_version`, names the adapter-created values with a converter built for this
call, and leaves scratch state behind -/
example : ∃ (e : EntryRow) (b : ObjBeh (List String × Nat) (List String × Bool × Option Int)),
    e ∈ OV.Gen.C14Globals.entryRows ∧ e.name = "ConvertVersionPass" ∧ ObjRespects e b := by
  have hfind : ∃ e, e ∈ OV.Gen.C14Globals.entryRows ∧ e.name = "ConvertVersionPass" ∧
      "target_version" ∈ e.consts ∧ "_scratch" ∉ e.consts := by
    have h : (OV.Gen.C14Globals.entryRows.any (fun e => e.name == "ConvertVersionPass" &&
        e.consts.contains "target_version" && !e.consts.contains "_scratch")) = true := by decide +kernel
    rcases List.any_eq_true.1 h with ⟨e, he, hp⟩
    simp only [Bool.and_eq_true, beq_iff_eq, List.contains_iff_mem, Bool.not_eq_true',
      ← Bool.not_eq_true] at hp
    exact ⟨e, he, hp.1.1, hp.1.2, by simpa using hp.2⟩
  obtain ⟨e, he, hn, htv, hsc⟩ := hfind
  refine ⟨e, ⟨fun s i =>
    (((convertPassCall false {} i.1 i.2).1.1, (convertPassCall false {} i.1 i.2).1.2, s "target_version"),
      [("_scratch", 1)])⟩, he, hn, ?_, ?_⟩
  · intro s s' i hag
    have : s "target_version" = s' "target_version" :=
      hag _ (List.mem_append_right _ htv)
    simp only [this]
  · intro s i p hp
    simp only [List.mem_singleton] at hp
    subst hp
    exact hsc

/-- **Names of adapter-created values do not depend on the models converted before** with the same pass
object: the converter (its `used` names, its counter, its `_modified` flag) is built for the call.  **Holds by `rfl`, by the shape
of the model** (`convertPassCall false` ignores the old state); content = the tie (`vcnames` stream, entry rows, per-call traces). -/
theorem convert_pass_fresh_converter (st st' : VCState) (modelNames : List String) (k : Nat) :
    (convertPassCall false st modelNames k).1 = (convertPassCall false st' modelNames k).1 := rfl

/-- A pass keeping ONE converter (seeded change C14-8): the second model's new values are `val_1…`
instead of `val_0…`, and NameFixPass runs on a model that was not modified. -/
theorem convert_pass_reused_converter_refuted :
    ¬ ∀ (st st' : VCState) (modelNames : List String) (k : Nat),
        (convertPassCall true st modelNames k).1 = (convertPassCall true st' modelNames k).1 := by
  intro h
  have := h (vcVisit {} ["x"] 1).2 {} ["y"] 1
  revert this; decide

example : (convertPassCall false {} ["val_0", "x", "val_2"] 3).1 = (["val_1", "val_3", "val_4"], true) := by decide

/-- **The folder's evaluator lookup is keyed by the version**: a memo of `get_evaluator`'s "no evaluator" answers
keyed by `(domain, op, version)` — all it depends on — is invisible after any history (instance of
`memo_complete_key_history_independent`) … -/
theorem evaluator_lookup_versioned_memo_history_independent
    (H : List ((String × String × Nat) × Unit)) (k : String × String × Nat) :
    (memoGet (fun (k : String × String × Nat) (_ : Unit) => evaluatorGap k.1 k.2.1 k.2.2)
      (memoRun (fun (k : String × String × Nat) (_ : Unit) => evaluatorGap k.1 k.2.1 k.2.2) [] H) k ()).2
      = evaluatorGap k.1 k.2.1 k.2.2 :=
  memo_complete_key_history_independent _ (fun _ _ _ => rfl) H k ()

/-- … while remembering them per `(domain, op)` only (seeded change C14-11: a negative cache without the
version) makes a Softmax at opset 13 look unsupported after one at opset 12. -/
theorem evaluator_negative_cache_without_version_refuted :
    ¬ ∀ (H : List ((String × String) × Nat)) (k : String × String) (v : Nat),
        (memoGet (fun (k : String × String) (v : Nat) => evaluatorGap k.1 k.2 v)
          (memoRun (fun (k : String × String) (v : Nat) => evaluatorGap k.1 k.2 v) [] H) k v).2
          = evaluatorGap k.1 k.2 v := by
  intro h
  have := h [(("", "Softmax"), 12)] ("", "Softmax") 13
  revert this; decide

/-! ## Calls as programs of field accesses — the discipline is enough, exceptions included -/

/-- **Reset-on-failure, for every fault point.**  A call of an entry method (`FoldConstantsPass.call`,
`RewriteRuleSet.apply_to_model`, `RewriteRule.try_rewrite`, `SimplePatternMatcher.match`,
`ConvertVersionPass.call`, …) is a program of reads and writes of the object's fields (`Prog`, what the
runtime monitor records).  If on every path every read is of an `__init__`-only field or of a field this
very call assigned before (`Prog.Disc`; for the generated `EntryRow`s: `earlyReads ⊆ consts`), then after
ANY history of earlier calls on the same object — each one completed, or abandoned by an exception right
before ANY of its field accesses, leaving whatever it had assigned — a call returns (or raises) exactly
what it does on the object as `__init__` left it.  Unlike `entry_object_history_independent` nothing is
assumed about what the result depends on: that is derived from the access discipline. -/
theorem entry_call_fault_tolerant_history_independent {I O : Type} (consts : List OField)
    (body : I → Prog O) (hd : ∀ i, (body i).Disc consts [])
    (s₀ : OState) (H : List (I × Option Nat)) (p : Prog O) (hp : p.Disc consts []) :
    (p.run (faultRun body s₀ H)).2 = (p.run s₀).2 :=
  Prog.run_indep consts p [] hp _ _
    (fun f hf => (faultRun_consts consts body hd s₀ H f hf).symm) (fun _ h => by simp at h)

/-- … in particular for the target being one of the object's own calls, itself possibly abandoned at any
point (a failing target fails the same way after any history). -/
theorem entry_call_fault_tolerant_target {I O : Type} (consts : List OField)
    (body : I → Prog O) (hd : ∀ i, (body i).Disc consts [])
    (s₀ : OState) (H : List (I × Option Nat)) (i : I) (e : Int) (n : Nat) :
    ((body i).run (faultRun body s₀ H)).2 = ((body i).run s₀).2 ∧
    (((body i).cut e n).run (faultRun body s₀ H)).2 = (((body i).cut e n).run s₀).2 :=
  ⟨entry_call_fault_tolerant_history_independent consts body hd s₀ H _ (hd i),
   entry_call_fault_tolerant_history_independent consts body hd s₀ H _
     (Prog.cut_disc consts e n (body i) [] (hd i))⟩

/-- Non-vacuity, shaped like `FoldConstantsPass.call`: `_reset()` assigns `_state`/`_modified`, the visit
reads the `__init__`-only `should_fold`, may assign `_modified`, and the result reads `_modified` back.
The history contains a completed call and one abandoned after the reset and the first assignment. -/
example :
    let body : Int → Prog Int := fun i =>
      .write "_state" 0 (.write "_modified" 0 (.read "should_fold" (fun sf =>
        if sf = some 1 ∧ i ≠ 0 then .write "_modified" 1 (.write "_state" i (.read "_modified" (fun m => .ret (m.getD 7))))
        else .read "_modified" (fun m => .ret (m.getD 7)))))
    (∀ i, (body i).Disc ["should_fold"] []) ∧
    ((body 0).run (faultRun body (oSet (fun _ => none) "should_fold" 1) [(5, none), (3, some 4)])).2 = .ok 0 ∧
    (faultRun body (oSet (fun _ => none) "should_fold" 1) [(5, none), (3, some 4)]) "_modified" = some 1 := by
  refine ⟨?_, by decide, by decide⟩
  intro i
  simp only [Prog.Disc]
  refine ⟨by simp, by simp, by simp, fun v => ?_⟩
  split <;> simp [Prog.Disc]

/-- The discipline is about *entry*, not exit: an object that reads a field first and tidies it up at the
end of each call is history independent as long as every call completes — and stops being so with one
abandoned call (the `pattern_builder` of before 096e584 was of this kind). -/
theorem cleanup_at_exit_not_fault_tolerant :
    ∃ (body : Int → Prog Int) (s₀ : OState),
      (∀ (H : List Int) (i : Int),
        ((body i).run (faultRun body s₀ (H.map (fun j => (j, none))))).2 = ((body i).run s₀).2) ∧
      (∃ (H : List (Int × Option Nat)) (i : Int),
        ((body i).run (faultRun body s₀ H)).2 ≠ ((body i).run s₀).2) := by
  refine ⟨fun i => .read "_m" (fun v => .write "_m" i (.write "_m" 0 (.ret (v.getD 0)))),
    oSet (fun _ => none) "_m" 0, ?_, ⟨[(5, some 2)], 1, by decide⟩⟩
  intro H i
  suffices h : ∀ s : OState, s "_m" = some 0 →
      (faultRun (fun i => Prog.read "_m" (fun v => .write "_m" i (.write "_m" 0 (.ret (v.getD 0)))))
        s (H.map (fun j => (j, none)))) "_m" = some 0 by
    have h0 := h (oSet (fun _ => none) "_m" 0) (by simp [oSet])
    simp only [Prog.run, h0, oSet]
    simp
  induction H with
  | nil => intro s hs; exact hs
  | cons j H ih =>
    intro s hs
    simp only [List.map_cons, faultRun, Prog.run]
    exact ih _ (by simp [oSet])

/-- **An abandoned disciplined call is a disciplined call** — so the theorem above needs no separate
treatment of exceptions, and the monitor applies one check to completed and to failing calls. -/
theorem call_abandoned_anywhere_stays_disciplined {O : Type} (consts wr : List OField) (p : Prog O)
    (e : Int) (n : Nat) (hd : p.Disc consts wr) : (p.cut e n).Disc consts wr :=
  Prog.cut_disc consts e n p wr hd

/-- **The monitor's check is sound for the discipline**: every trace of a disciplined call (from any
object state) passes `traceOk` — the check the driver command `etrace` applies to the event sequences of
the real objects with the generated row's `consts`.  Read contrapositively: one rejected trace of a real
call shows the method is not disciplined. -/
theorem monitor_trace_check_sound {O : Type} (consts : List OField) (p : Prog O) (hd : p.Disc consts [])
    (s : OState) : traceOk consts [] (p.trace s) = true :=
  Prog.trace_ok consts p [] hd s

/-- **Bridge to the row-level theorem**: the big-step behaviour induced by disciplined programs satisfies
`ObjRespects` for a row with these `consts` — the hypothesis `entry_object_history_independent` assumed
is now a consequence — and its recorded assignments are the final state of the small-step run. -/
theorem disciplined_calls_respect_row {I O : Type} (e : EntryRow) (body : I → Prog O)
    (hd : ∀ i, (body i).Disc e.consts []) :
    ObjRespects e (progBeh body) ∧
    ∀ s i, oApply ((progBeh body).call s i).2 s = ((body i).run s).1 := by
  refine ⟨⟨?_, ?_⟩, fun s i => Prog.oApply_writes (body i) s⟩
  · intro s s' i hag
    exact Prog.run_indep e.consts (body i) [] (hd i) s s'
      (fun f hf => hag f (List.mem_append_right _ hf)) (fun _ h => by simp at h)
  · intro s i q hq
    exact Prog.writes_not_const e.consts (body i) [] (hd i) s q hq

/-! ## The whole process -/

/-- **History independence, all operation kinds.**  For every set of installed rule objects obeying
the discipline, every history `H` (rewriting, folding with the shared pass object, opset creation,
pattern construction under `pattern_builder` incl. bodies that raise, operator sugar, script
translation, stateless operations incl. failing ones) and every target `T`: `T` after `H` returns what `T` returns in a fresh
process.  **Hypothesis `hw : w.Ok`** = every installed rule's generated row is `ok` AND its behaviour `Respects` the row (an assumption
about Python tied by AST + monitor, not proved) AND rules sharing an object agree on const fields.  Operations modelled as `.pure`
(`convert_version` with its per-call converter, onnx_ir passes, refused scripts) are history independent BY CONSTRUCTION of the model
(assumption A-ir; the differential runs, not this theorem, are what checks them). -/
theorem history_independent {I O : Type} (w : World I O) (hw : w.Ok)
    (H : List (ProcOp I O)) (T : ProcOp I O) (σ₀ : Sigma) :
    lastRes w σ₀ (H ++ [T]) = lastRes w σ₀ [T] := by
  unfold lastRes
  suffices h : ∀ (σ : Sigma), AgreeAll w σ₀.stashes σ.stashes → σ.builder = σ₀.builder →
      (run w σ (H ++ [T])).2.getLast? = (run w σ₀ [T]).2.getLast? from h σ₀ (AgreeAll.refl _ _) rfl
  induction H with
  | nil =>
    intro σ hag hb
    simp only [List.nil_append, run, List.getLast?_singleton]
    congr 1
    cases T with
    | rewrite op =>
      simp only [step]
      rw [runRewrite_indep hw op.strat op.fuel [] σ.stashes σ₀.stashes hag.symm]
    | fold m => rfl
    | opset k => simp only [step, opset_interning_pure]
    | pattern b body => simp only [step, hb]
    | sugar => simp only [step, hb]
    | translate st ks iter => simp only [step, internAll_fields]
    | pure v e => rfl
  | cons op H ih =>
    intro σ hag hb
    simp only [List.cons_append, run]
    have hne : (run w (step w σ op).1 (H ++ [T])).2 ≠ [] := by
      cases H <;> simp [run]
    rw [List.getLast?_cons_of_ne_nil hne]
    apply ih
    · cases op with
      | rewrite op => exact hag.trans (runRewrite_consts hw _ _ _ _)
      | fold m => exact hag
      | opset k => exact hag
      | pattern b body => exact hag
      | sugar => exact hag
      | translate st ks iter => exact hag
      | pure v e => exact hag
    · cases op with
      | pattern b body => simp only [step, pattern_builder_restored, hb]
      | rewrite op => exact hb
      | fold m => exact hb
      | opset k => exact hb
      | sugar => exact hb
      | translate st ks iter => exact hb
      | pure v e => exact hb

/-- Non-vacuity: a world with a disciplined stashing rule (`check` stashes the matched value, `rewrite`
returns it), a history that leaves every component dirty (a match, a fold, an opset, a raising pattern
construction), and a target whose result is the fresh-process one. -/
example :
    let b : RuleBeh Nat Int :=
      { check := fun _ i => (i ≠ 0, [("_n", (i : Int))]), rewrite := fun s _ => (some ((s "_n").getD (-1)), []) }
    -- two commuted variants of the rule share one object (owner 0), as `RewriteRuleSet(commute=True)` makes them
    let w : World Nat Int :=
      { rules := [({ name := "good", checkWrites := ["_n"], rewriteReads := ["_n"] }, b),
                  ({ name := "good", checkWrites := ["_n"], rewriteReads := ["_n"] }, b)],
        owner := fun _ => 0 }
    let mk (i : Nat) : RewriteOp Nat Int :=
      { strat := fun acc => if acc.isEmpty then .attempt 0 i else .done, fuel := 2 }
    let σ₀ : Sigma := ⟨fun _ => Stash.empty, {}, [], 0⟩
    lastRes w σ₀ [.rewrite (mk 7), .fold [.foldable 1 4], .opset ⟨"Opset", "d", 1⟩,
        .pattern 5 [.sugar, .raise], .rewrite (mk 3)]
      = some (.rewrite ⟨[some 3], false⟩) := by
  decide

end OV.Props.C14
