import OV.Model.C05Order
import OV.Model.C05Unit
import OV.Model.C05Shape
import OV.Model.C05Linalg
import OV.Model.C05Table
import OV.Model.C05More
import OV.Lemmas.C05
import OV.Lemmas.C05Shape
import OV.Lemmas.C05Algebra
import OV.Lemmas.C05Matmul
import OV.Lemmas.C05Expand
import OV.Model.C05Chain
import OV.Lemmas.C05Chain
import OV.Props.C09
import Mathlib.Order.MinMax
import Mathlib.Tactic.Order
import Mathlib.Tactic.SplitIfs
import Mathlib.Tactic.Ring
import Mathlib.Tactic.Linarith
import Mathlib.Tactic.NormNum
import Mathlib.Tactic.FieldSimp
import Mathlib.Algebra.Order.Field.Basic
/-!
# C05 — each shipped rewrite rule preserves semantics wherever it fires

Property theorems only.  Models: `OV/Model/C05*.lean`; rule table: `OV/Gen/C05RuleTable.lean` (regenerated from
/repo on every run).  Shape of every rule theorem: `R.check p = true → ∀ x, lhs p x = rhs (R.build p) x`.
Where the unchanged code violates this, the full statement is *refuted* from a witness that is replayed on the
real code, and `…_partial` carries the hypothesis the proof forces (the complement of the finding's predicate).
-/
namespace OV.Props.C05
open OV.C05

/-! ## Rule table (translator tie) -/

/-- Every rule of the optimizer's default set `_DEFAULT_REWRITE_RULES` is either covered by a theorem below or
explicitly listed as unproved: a new, renamed or re-exported rule breaks this obligation. -/
theorem default_rules_covered :
    ∀ r ∈ OV.Gen.C05.defaultRules, r ∈ Table.provedRules ∨ r ∈ Table.listedUnproved := by decide +kernel

/-- The same for everything exported by `rules.common` / found in `rules.fusion`.  Both coverage obligations are *bookkeeping*:
they check membership of each regenerated key in the hand-written lists `Table.provedRules` / `Table.listedUnproved`; that a
listed rule really has a theorem below is by inspection (the list is not derived from the theorems). -/
theorem exported_rules_covered :
    ∀ r ∈ OV.Gen.C05.exportedRules, r ∈ Table.provedRules ∨ r ∈ Table.listedUnproved := by decide +kernel

/-- Every regenerated row still has the target-pattern skeleton (ops, literals **with their tolerances**, attribute
literals, `_allow_other_inputs/attributes`) and the `remove_nodes` flag the models were transcribed against. -/
theorem skeletons_as_modelled :
    ∀ r ∈ OV.Gen.C05.rows, Table.lookup r.key = some (r.skeleton, r.removeNodes) := by
  decide +kernel

/-- Every rule's **condition function** still makes the decisions the models were transcribed from: the hash of its decision
tokens (comparison and boolean operators, literal constants, names of called helpers — followed into module-level helper
functions — in source order; messages and variable names excluded) equals the recorded one.  A changed threshold, comparison
operator (`>` vs `>=`), default value, membership test or dropped branch breaks this obligation; the harness then prints the
token diff and searches for a failing input. -/
theorem conditions_as_modelled :
    ∀ r ∈ OV.Gen.C05.rows, Table.lookupCond r.key = some r.condHash := by
  decide +kernel

/-- Literal data the condition functions decide with, read from the live objects of /repo, equal the models' tables:
`CastCast._allowed_type2_type3`, `_BROADCAST_BINARY_OPS`, `_INT64_MAX`, the `(operand, expected, rtol)` triples of the
hard-sigmoid check, `LAYER_NORM_COMPUTE_TYPES`. -/
theorem condition_data_as_modelled :
    OV.Gen.C05.castCastAllowed = Linalg.castCastAllowed ∧
    OV.Gen.C05.broadcastBinaryOps = Linalg.broadcastBinaryOps ∧
    OV.Gen.C05.int64Max = Shape.int64Max ∧
    OV.Gen.C05.hardSigmoidConstants = More.hardSigConstants ∧
    OV.Gen.C05.layerNormComputeTypes = More.layerNormComputeTypes := by
  decide +kernel

/-- No rule is claimed both ways. -/
theorem proved_unproved_disjoint : ∀ r ∈ Table.provedRules, r ∉ Table.listedUnproved := by decide +kernel

/-! ## Order algebra (any linear order) -/
section Order
open OV.C05.Order
variable {α : Type} [LinearOrder α]

/-- `successive_relu`: `Relu(Relu(x)) = Relu(x)`. -/
theorem successive_relu_sound (zero x : α) : relu zero (relu zero x) = relu zero x := by
  unfold relu; grind

/-- The exact closed form of two successive Clips with all four bounds (what fix F3 installs). -/
theorem clip_clip_exact (a b c d x : α) :
    clip (some c) (some d) (clip (some a) (some b) x) = clip (some (max a c)) (some (min (max b c) d)) x := by
  unfold clip; grind

/-- **`successive_clip`** (`FuseSuccessiveClip` as it is after fix F3, commit b85b7db): for every combination of
present/absent constant bounds and every `x`, `Clip(Clip(x,a,b),c,d) = Clip(x, lo', hi')` with the constants
`rewrite()` computes (`lo' = max a c`, `hi' = min (max b c) d`). -/
theorem successive_clip_sound (p : ClipClip α) (_hcheck : p.check = true) (x : α) :
    p.lhs x = p.build.rhs x := by
  unfold ClipClip.lhs ClipClip.build ClipRepl.rhs clip combine
  rcases p.a.val? with _ | a <;> rcases p.b.val? with _ | b <;> rcases p.c.val? with _ | c <;>
    rcases p.d.val? with _ | d <;> simp only [] <;> grind

/-- Documentation of finding D2 (fixed): the **pre-fix** formula `hi' = min b d` agrees with the two Clips exactly
outside the region `b < c ∧ b < d` … -/
theorem successive_clip_prefix_sound_outside_d2 (p : ClipClip α) (hD2 : p.d2 = false) (x : α) :
    p.lhs x = p.buildPrefix.rhs x := by
  unfold ClipClip.d2 at hD2
  unfold ClipClip.lhs ClipClip.buildPrefix ClipRepl.rhs clip combine
  generalize p.a.val? = oa at *; generalize p.b.val? = ob at *
  generalize p.c.val? = oc at *; generalize p.d.val? = od at *
  rcases oa with _ | a <;> rcases ob with _ | b <;> rcases oc with _ | c <;> rcases od with _ | d <;>
    simp only [] at hD2 ⊢ <;>
    (try simp only [Bool.and_eq_false_iff, decide_eq_false_iff_not, not_lt, Bool.and_true] at hD2) <;> grind

/-- … and inside it was wrong **for every input** (the two Clips give `min c d`, the old fused Clip gave `b`). -/
theorem successive_clip_prefix_unsound_in_d2 (a b c d x : α) (h1 : b < c) (h2 : b < d) :
    clip (some c) (some d) (clip (some a) (some b) x) ≠ clip (some (max a c)) (some (min b d)) x := by
  unfold clip; grind

/-- Pre-fix statement refuted (witness D2: `Clip(Clip(x,0,1),5,10)` at `x = 0` over `Int`: 5 vs 1); the same witness
now satisfies the theorem above (`build` gives `[5, 5]`). -/
theorem successive_clip_prefix_refuted :
    ¬ (∀ (p : ClipClip Int), p.check = true → ∀ x, p.lhs x = p.buildPrefix.rhs x) ∧
    (ClipClip.build ({ a := .const 0, b := .const 1, c := .const 5, d := .const 10 } : ClipClip Int)) = { lo := some 5, hi := some 5 } := by
  refine ⟨?_, by decide⟩
  intro h
  have := h { a := .const 0, b := .const 1, c := .const 5, d := .const 10 } (by decide) 0
  revert this; decide

/-- `successive_clip_relu`: `Clip(Relu(x), a?, b?) = Clip(x, max 0 (a or 0), b?)` for all bounds. -/
theorem successive_clip_relu_sound (zero : α) (p : ReluClip α) (x : α) :
    p.lhsClipRelu zero x = (p.build zero).rhs x := by
  unfold ReluClip.lhsClipRelu ReluClip.build ClipRepl.rhs clip relu
  rcases p.a.val? with _ | a <;> rcases p.b.val? with _ | b <;> simp only [Option.getD] <;> grind

/-- **`successive_relu_clip`** (`FuseSuccessiveReluClip` after fix F4, commit 979daa2): for all present/absent bounds
and every `x`, `Relu(Clip(x,a,b)) = Clip(x, max 0 (a or 0), max 0 b)`. -/
theorem successive_relu_clip_sound (zero : α) (p : ReluClip α) (_hcheck : p.check = true) (x : α) :
    p.lhsReluClip zero x = (p.buildReluClip zero).rhs x := by
  unfold ReluClip.lhsReluClip ReluClip.buildReluClip ClipRepl.rhs clip relu
  rcases p.a.val? with _ | a <;> rcases p.b.val? with _ | b <;> simp only [Option.getD, Option.map] <;> grind

/-- Documentation of finding D1 (fixed): the pre-fix formula (`hi' = b`, inherited from `Clip∘Relu`) was right only
when the upper bound is absent or non-negative … -/
theorem successive_relu_clip_prefix_sound_outside_d1 (zero : α) (p : ReluClip α)
    (hD1 : p.d1 zero = false) (x : α) : p.lhsReluClip zero x = (p.build zero).rhs x := by
  unfold ReluClip.d1 at hD1
  unfold ReluClip.lhsReluClip ReluClip.build ClipRepl.rhs clip relu
  generalize p.a.val? = oa at *; generalize p.b.val? = ob at *
  rcases oa with _ | a <;> rcases ob with _ | b <;> simp only [Option.getD] at hD1 ⊢ <;>
    (try simp only [decide_eq_false_iff_not, not_lt] at hD1) <;> grind

/-- … and wrong for every input with a negative upper bound (`0` vs `b`). -/
theorem successive_relu_clip_prefix_unsound_in_d1 (zero a b x : α) (h : b < zero) :
    relu zero (clip (some a) (some b) x) ≠ clip (some (max zero a)) (some b) x := by
  unfold clip relu; grind

/-- Pre-fix statement refuted (witness D1: `Relu(Clip(x,-5,-1))` at `x = 2`: `0` vs `-1`); the same witness now
yields `Clip(x, 0, 0)`. -/
theorem successive_relu_clip_prefix_refuted :
    ¬ (∀ (p : ReluClip Int), p.check = true → ∀ x, p.lhsReluClip 0 x = (p.build 0).rhs x) ∧
    (ReluClip.buildReluClip 0 ({ a := .const (-5), b := .const (-1) } : ReluClip Int)) = { lo := some 0, hi := some 0 } := by
  refine ⟨?_, by decide⟩
  intro h
  have := h { a := .const (-5), b := .const (-1) } (by decide) 2
  revert this; decide

/-! ### Min / Max fusion -/

/-- `min_min`: `Min(Min(x, cs…), ds…) = Min(x, m)` where `m` is the reduction of all constants (per element). -/
theorem min_min_sound (p : MinMax α) (hk : p.kind = .minMin) (m : α)
    (hm : flatReduce min (flatVals p.first ++ flatVals p.second) = some m) (x : α) :
    p.lhs x = min x m := by
  unfold MinMax.lhs; simp only [hk]
  rw [← List.foldl_append, OV.Lemmas.C05.foldl_eq_flatReduce min (fun a b c => min_assoc a b c), hm]

/-- `max_max`: `Max(Max(x, cs…), ds…) = Max(x, m)`. -/
theorem max_max_sound (p : MinMax α) (hk : p.kind = .maxMax) (m : α)
    (hm : flatReduce max (flatVals p.first ++ flatVals p.second) = some m) (x : α) :
    p.lhs x = max x m := by
  unfold MinMax.lhs; simp only [hk]
  rw [← List.foldl_append, OV.Lemmas.C05.foldl_eq_flatReduce max (fun a b c => max_assoc a b c), hm]

/-- `max_min`: `Min(Max(x, lbs…), ubs…) = Clip(x, max lbs, min ubs)` — for all bounds, also `lb > ub`. -/
theorem max_min_sound (p : MinMax α) (hk : p.kind = .maxMin) (l u : α)
    (hl : flatReduce max (flatVals p.first) = some l) (hu : flatReduce min (flatVals p.second) = some u) (x : α) :
    p.lhs x = clip (some l) (some u) x := by
  unfold MinMax.lhs clip; simp only [hk]
  rw [OV.Lemmas.C05.foldl_eq_flatReduce max (fun a b c => max_assoc a b c), hl,
      OV.Lemmas.C05.foldl_eq_flatReduce min (fun a b c => min_assoc a b c), hu]

/-- `min_max`: `Max(Min(x, ubs…), lbs…) = Clip(x, max lbs, min ubs)` under the bound test of `check`
(`lower_bound ≤ upper_bound`; without it the two differ, which is why the rule tests it). -/
theorem min_max_sound (p : MinMax α) (hk : p.kind = .minMax) (l u : α)
    (hu : flatReduce min (flatVals p.first) = some u) (hl : flatReduce max (flatVals p.second) = some l)
    (hcheck : ¬ u < l) (x : α) :
    p.lhs x = clip (some l) (some u) x := by
  unfold MinMax.lhs clip; simp only [hk]
  rw [OV.Lemmas.C05.foldl_eq_flatReduce min (fun a b c => min_assoc a b c), hu,
      OV.Lemmas.C05.foldl_eq_flatReduce max (fun a b c => max_assoc a b c), hl]
  grind

/-- The bound test is what `run` establishes when it fires for `min_max`. -/
theorem min_max_fire_bounds (p : MinMax Int) (hk : p.kind = .minMax) (l u : Int)
    (hfire : p.run = .fire (.clip l u)) : ¬ u < l := by
  unfold MinMax.run at hfire
  simp only [hk] at hfire
  split at hfire
  · exact absurd hfire (by simp)
  · split at hfire
    · exact absurd hfire (by simp)
    · split at hfire
      · exact absurd hfire (by simp)
      · split at hfire
        · rename_i l' u' _ _
          split at hfire
          · exact absurd hfire (by simp)
          · rename_i hlu
            simp only [Outcome.fire.injEq, MMRepl.clip.injEq] at hfire
            obtain ⟨h1, h2⟩ := hfire
            subst h1; subst h2; exact hlu
        · exact absurd hfire (by simp)

omit [LinearOrder α] in
/-- Rank of the result when no constant outranks `x`: the original keeps the broadcast rank = `x`'s rank. -/
theorem clip_fusion_rank_of_no_outrank (p : MinMax α) (rx : Nat) (hD4 : p.consts.any (fun c => rx < c.rank) = false) :
    p.lhsRank rx = rx := by
  unfold MinMax.lhsRank
  have : ∀ (l : List (MMConst α)) (r : Nat), (l.any (fun c => r < c.rank) = false) →
      l.foldl (fun r c => if r < c.rank then c.rank else r) r = r := by
    intro l
    induction l with
    | nil => intro r _; rfl
    | cons c l ih =>
      intro r h
      simp only [List.any_cons, Bool.or_eq_false_iff, decide_eq_false_iff_not] at h
      simp only [List.foldl_cons, if_neg h.1]
      exact ih r h.2
  exact this _ _ hD4

/-- **`max_min` / `min_max` keep the rank** (after commit 1d299da): whenever a Clip fusion fires on an input of known rank
`rx`, no constant outranks `x`, so `Min/Max` broadcasting produced rank `rx` — the rank of the emitted `Clip(x, lo, hi)`. -/
theorem clip_fusion_rank_sound (p : MinMax Int) (rx : Nat) (l u : Int) (hk : p.kind.needScalars = true)
    (hx : p.xRank = some rx) (hfire : p.run = .fire (.clip l u)) : p.lhsRank rx = rx := by
  apply clip_fusion_rank_of_no_outrank
  unfold MinMax.run at hfire
  split at hfire
  · exact absurd hfire (by simp)
  · simp only at hfire
    split at hfire
    · exact absurd hfire (by simp)
    · rename_i hbad
      simp only [Bool.not_eq_true] at hbad
      rw [List.any_eq_false] at hbad ⊢
      intro c hc
      have := hbad c hc
      simp only [hk, Bool.true_and, Bool.or_eq_true, Bool.not_eq_true', not_or, Bool.not_eq_false] at this
      have hr := this.2.2
      unfold MinMax.rankBad at hr
      rw [hx] at hr
      simp only [Bool.and_eq_true, decide_eq_true_eq, not_and, Bool.not_eq_true, decide_eq_false_iff_not] at hr ⊢
      intro hlt
      exact hr (by omega) hlt

/-- Documentation of finding D4 (fixed): `Min(Max(x:[3], [[0]]), [[1]])` has rank 2 while `Clip(x, 0, 1)` would have rank 1;
the rule now refuses (also when the shape of `x` is unknown). -/
theorem clip_fusion_rank_prefix_refuted :
    MinMax.lhsRank ({ kind := .maxMin, first := [.const 2 [0]], second := [.const 2 [1]] } : MinMax Int) 1 = 2 ∧
    MinMax.run ({ kind := .maxMin, first := [.const 2 [0]], second := [.const 2 [1]], xRank := some 1 } : MinMax Int) = .nofire ∧
    MinMax.run ({ kind := .maxMin, first := [.const 1 [0]], second := [.const 0 [1]], xRank := none } : MinMax Int) = .nofire ∧
    MinMax.run ({ kind := .maxMin, first := [.const 1 [0]], second := [.const 0 [1]], xRank := some 1 } : MinMax Int) = .fire (.clip 0 1) := by
  decide

/-- Commit 625745e (finding C05-N2, fixed): below opset 11 none of the Clip-producing rules fires. -/
theorem clip_rules_need_opset_11 :
    (∀ p : ClipClip Int, p.opsetGe11 = false → p.run = .nofire) ∧
    (∀ p : ReluClip Int, p.opsetGe11 = false → p.run 0 = .nofire ∧ p.runReluClip 0 = .nofire) ∧
    (∀ p : MinMax Int, p.opsetGe11 = false → p.kind.needScalars = true → p.run = .nofire) := by
  refine ⟨?_, ?_, ?_⟩
  · intro p h; unfold ClipClip.run; simp [h]
  · intro p h; unfold ReluClip.run ReluClip.runReluClip; simp [h]
  · intro p h hk; unfold MinMax.run; simp [h, hk]

end Order

/-! ## Permutations, axes, reshape family, slices, scatter (all ranks, all dimension sizes) -/
section Shape
open OV.C05.Shape
open OV.Lemmas.C05Shape

/-- `transpose_transpose`: for every rank `n` and every two valid permutations, the single `Transpose` the rule
emits (`perm = _apply_transposes([perm1, perm2])`) moves every axis — of the shape *and of every element's
multi-index* (`s` is any list) — exactly where the two original transposes move it. -/
theorem transpose_transpose_sound (p1 p2 s : List Nat) (n : Nat) (hs : s.length = n)
    (h1 : validPerm p1 n = true) (h2 : validPerm p2 n = true) :
    specTransposeShape p2 (specTransposeShape p1 s) = specTransposeShape (composePerms p1 p2) s :=
  transpose_transpose p1 p2 s n hs h1 h2

/-- …and when the composed permutation is the identity the rule emits `Identity`, which is right. -/
theorem transpose_transpose_identity_sound (p1 p2 s : List Nat) (n : Nat) (hs : s.length = n)
    (h1 : validPerm p1 n = true) (h2 : validPerm p2 n = true) (hid : composePerms p1 p2 = List.range n) :
    specTransposeShape p2 (specTransposeShape p1 s) = s :=
  transpose_transpose_identity p1 p2 s n hs h1 h2 hid

/-- The composed permutation is `i ↦ perm1[perm2[i]]` (what ONNX `Transpose ∘ Transpose` means). -/
theorem transpose_compose_pointwise (p1 p2 : List Nat) (n : Nat) (h1 : validPerm p1 n = true)
    (h2 : validPerm p2 n = true) (i : Nat) (hi : i < n) :
    (composePerms p1 p2).getD i 0 = p1.getD (p2.getD i 0) 0 :=
  compose_getD p1 p2 n h1 h2 i hi

/-- `no_op_transpose`: when `check` passes (`perm = range(len(perm))`) the transpose is the identity on
shapes and multi-indices of that rank. -/
theorem no_op_transpose_sound (perm : List Int) (s : List Nat) (h : noOpTransposeCheck perm = true)
    (hs : s.length = perm.length) : specTransposeShape (perm.map Int.toNat) s = s :=
  noop_transpose perm s h hs

/-- `unsqueeze_unsqueeze`: for every input shape and all valid non-negative axes, the axes list the rule
computes (`[v1, v2]` if `v1 < v2` else `[v2, v1+1]`) yields the shape of the two successive Unsqueezes
(row-major data are untouched by Unsqueeze, so equal shapes mean equal tensors). -/
theorem unsqueeze_unsqueeze_sound (s : List Nat) (v1 v2 : Nat) (h1 : v1 ≤ s.length) (h2 : v2 ≤ s.length + 1) :
    specUnsqueeze1 (specUnsqueeze1 s v1) v2 = specUnsqueezeSorted s (if v1 < v2 then [v1, v2] else [v2, v1 + 1]) :=
  unsqueeze_unsqueeze s v1 v2 h1 h2

/-- The model's `rewrite` produces exactly that list (ties the theorem above to `unsqueezeUnsqueezeRun`). -/
theorem unsqueeze_unsqueeze_build (v1 v2 : Nat) :
    unsqueezeUnsqueezeRun (some (v1 : Int)) (some (v2 : Int)) =
      .fire ((if v1 < v2 then [v1, v2] else [v2, v1 + 1]).map Int.ofNat) := by
  unfold unsqueezeUnsqueezeRun
  have h1 : ¬ ((v1 : Int) < 0) := by omega
  have h2 : ¬ ((v2 : Int) < 0) := by omega
  simp only [h1, h2, decide_false, Bool.or_self, Bool.false_eq_true, if_false]
  by_cases h : v1 < v2
  · have : (v1 : Int) < v2 := by omega
    simp [h, this]
  · have : ¬ (v1 : Int) < v2 := by omega
    simp [h, this]

/-- `squeeze_reshape_1d`: for a 1-D input of any length `n` (0 and 1 included), `Reshape(Squeeze(x), [-1])` has shape `[n]`. -/
theorem squeeze_reshape_1d_sound (n : Nat) : specReshape (specSqueezeAll [n]) [-1] false = some [n] :=
  squeeze_reshape_1d n

/-- **`flatten_to_reshape`**, static shapes (after commit 02f546a): when the rule fires, no dimension is 0 … -/
theorem flatten_to_reshape_fire_pos (s : List Nat) (axis : Int) (ns : List Int)
    (h : flattenToReshapeRun (some (s.map Dim.known)) axis none = .fire ns) : ∀ d ∈ s, 0 < d :=
  flatten_fire_pos s axis ns h

/-- … it then emits the two products … -/
theorem flatten_to_reshape_fires (s : List Nat) (axis : Nat) (hax : axis ≤ s.length) (hpos : ∀ d ∈ s, 0 < d) :
    flattenToReshapeRun (some (s.map Dim.known)) (axis : Int) none =
      .fire [ (prodNat (s.take axis) : Int), (prodNat (s.drop axis) : Int) ] :=
  flatten_fires s axis hax hpos

/-- … and that target reshapes the input to exactly the Flatten result, for every rank and axis. -/
theorem flatten_to_reshape_sound (s : List Nat) (axis : Nat) (hax : axis ≤ s.length) (ns : List Int)
    (h : flattenToReshapeRun (some (s.map Dim.known)) (axis : Int) none = .fire ns) :
    specReshape s ns false = some (specFlatten s axis) := by
  have hpos := flatten_fire_pos s axis ns h
  rw [flatten_fires s axis hax hpos] at h
  cases h
  exact flatten_reshape_sound s hpos axis hax

/-- A statically zero-size dim refuses the rewrite (no output annotation, or one of rank ≤ 2). -/
theorem flatten_to_reshape_zero_refused (s : List Nat) (axis : Int) (os : Option Shape) (h0 : 0 ∈ s)
    (hos : os = none ∨ ∃ l, os = some l ∧ l.length ≤ 2) :
    flattenToReshapeRun (some (s.map Dim.known)) axis os = .nofire :=
  flatten_zero_refused s axis os h0 hos

/-- Documentation of finding D6 (fixed): for `2×0×3`, `axis = 2` the products `[0,3]` as a Reshape target (0 = "copy")
do not give the Flatten shape; the rule now refuses. -/
theorem flatten_to_reshape_prefix_refuted :
    flattenToReshapeRun (some [.known 2, .known 0, .known 3]) 2 none = .nofire ∧
    specReshape [2, 0, 3] [0, 3] false ≠ some (specFlatten [2, 0, 3] 2) :=
  flatten_refuted

/-- `reshape_reshape` (no output annotation): whatever the intermediate shape `s1` was, if the second Reshape
was valid and produced `t`, the fused `Reshape(x, shape', allowzero')` produces `t` from the original input —
covers `allowzero=1` with zeros, targets without zeros, and the single-`0`→`-1` replacement, incl. size-0 tensors. -/
theorem reshape_reshape_sound (s0 s1 : List Nat) (sh : List Int) (az : Int) (t : List Nat) (r : RRRepl)
    (h1 : specReshape s1 sh (az == 1) = some t) (hsz : prodNat s0 = prodNat s1)
    (hf : reshapeReshapeRun (some sh) none az = .fire r) :
    specReshape s0 r.shape (r.allowzero == some 1) = some t :=
  OV.Lemmas.C05Shape.reshape_reshape_sound s0 s1 sh az t r h1 hsz hf

/-- `no_op_expand`: when `check` passes on a fully static annotation, expanding to that shape is the identity. -/
theorem no_op_expand_sound (xs : Shape) (sh : List Int) (s : List Nat)
    (h : noOpExpandCheck (some xs) (some sh) = true) (hc : xs = s.map Dim.known) :
    specBroadcast s (sh.map Int.toNat) = some s :=
  expand_identity xs sh s h hc

/-- **`materialize_reshape_shape`** (after commit 49df852, which refuses a static 0 beside the symbolic dim): for every
runtime shape `s` consistent with the annotated output shape, the materialised constant (`-1` for the one symbolic dim,
`allowzero=1`) reshapes any input of the right size to `s`. -/
theorem materialize_reshape_sound (os : Shape) (r : RRRepl) (sIn s : List Nat)
    (hfire : materializeReshapeRun false (some os) = .fire r)
    (hcons : os.length = s.length ∧ ∀ i (h : i < os.length), ∀ k, os[i] = Dim.known k → s[i]! = k)
    (hsize : prodNat sIn = prodNat s) :
    specReshape sIn r.shape true = some s :=
  materialize_sound os r sIn s hfire hcons hsize

/-- What the new guard buys: a fired rule never emits a target with both `0` and `-1`. -/
theorem materialize_reshape_no_zero_beside_neg (os : Shape) (r : RRRepl)
    (hfire : materializeReshapeRun false (some os) = .fire r) :
    ¬ (r.shape.any (· == 0) && r.shape.any (· == -1)) = true :=
  materialize_fire_no_zero_neg os r hfire

/-- Documentation of finding D16c2 (fixed): the target `[-1, 0]` the pre-fix rule emitted for an output annotated `[N, 0]`
is invalid although the original reshape to `[3, 0]` is fine; the rule now refuses that annotation. -/
theorem materialize_reshape_prefix_refuted :
    specReshape [3, 0] [-1, 0] true = none ∧ specReshape [3, 0] [3, 0] true = some [3, 0] ∧
    materializeReshapeRun false (some [.sym "N", .known 0]) = .nofire := by decide

/-- `collapse_slice`: when `check` passes for a static dim `d` of the sliced axis, the slice keeps all `d` elements
(start 0, step 1, end ≥ d or INT64_MAX), i.e. is the identity along that axis. -/
theorem collapse_slice_sound (xs : Shape) (en ax : Int) (d : Nat)
    (hfire : collapseSliceRun (some xs) (.one 0) (.one en) (.one ax) (.one 1) = .fire ())
    (hidx : pyIndex xs ax = some (.known d)) (hmax : en = int64Max → (d : Int) ≤ int64Max) :
    specSliceLen01 d en = d :=
  OV.Lemmas.C05Shape.collapse_slice_sound xs en ax d hfire hidx hmax

/-- **`no_op_static_scatter_nd`** (after commit 396bc06): the rule fires only with `reduction = none` … -/
theorem static_scatter_fires_only_reduction_none (red : Bool) (d u : Option Shape) (idx : Option (List (List Int)))
    (h : staticScatterRun red d u idx = .fire ()) : red = true := by
  unfold staticScatterRun at h
  cases red
  · simp at h
  · rfl

/-- … and then scattering `updates` over the full index range `[[0],…,[n-1]]` of a same-shaped `data` gives `updates`,
for every `n` and every row type. -/
theorem static_scatter_sound {ρ : Type} (data upd : List ρ) (h : data.length = upd.length) :
    specScatterRows (fun _ u => u) data (List.range upd.length) upd = upd :=
  scatter_full_range data upd h

/-- Documentation of finding C05-N4 (fixed): the pre-fix check did not look at `reduction`; with `add` the result is
`data + updates`; the rule now refuses. -/
theorem static_scatter_prefix_refuted :
    staticScatterRunPrefix (some [.known 3]) (some [.known 3]) (some [[0], [1], [2]]) = .fire () ∧
    specScatterRows (fun (a b : Int) => a + b) [1, 1, 1] [0, 1, 2] [5, 5, 5] ≠ [5, 5, 5] ∧
    staticScatterRun false (some [.known 3]) (some [.known 3]) (some [[0], [1], [2]]) = .nofire := by decide

end Shape

/-! ## Unit laws and the matcher's literal tolerance (carrier ℚ, exact arithmetic) -/
section Unit
open OV.C05.Unit

/-- Since commit 6800bd1 an integer pattern literal is matched exactly: whenever the unit-law rule set fires, the constant
operand *is* the unit (0 resp. 1). -/
theorem unit_laws_fire_exact (p : Params) (h : p.check = true) : p.value = p.op.literal := by
  unfold Params.check isclose intLiteralRelTol intLiteralAbsTol at h
  simp only [Bool.and_eq_true] at h
  have h4 := h.2
  by_contra hv
  simp only [hv, if_false, zero_mul, Bool.or_eq_true, decide_eq_true_eq] at h4
  have habs : ∀ q : Rat, absR q = 0 → q = 0 := by
    intro q hq; unfold absR at hq; split_ifs at hq with hneg
    · linarith
    · exact hq
  have hz : absR (0 : Rat) = 0 := by unfold absR; simp
  rw [hz] at h4
  have hnn : ∀ q : Rat, 0 ≤ absR q := by
    intro q; unfold absR; split_ifs with hneg <;> linarith
  have h0 : absR (p.op.literal - p.value) = 0 := by
    rcases h4 with (h4 | h4) | h4 <;> exact le_antisymm h4 (hnn _)
  have := habs _ h0
  exact hv (by linarith)

/-- **`add_0` / `sub_0` / `mul_by_1` / `div_by_1`** (+ commuted forms; after commit 6800bd1): whenever the rule set fires and the
constant is a true constant, the matched node is the identity on every `x`.  **What this proves:** `p.value` is the compile-time
value the matcher read; the statement is `x op p.value = x`.  The model has no separate run-time value for the operand, so the
hypothesis `_hN1` is **not used by the proof** — it only records where "run-time operand = `p.value`" is true of the real code.  For an
initializer that is also a graph input (finding C05-N1, kept by the maintainers' own tests) the run-time operand may differ from
`p.value`; that is shown by the concrete witness `unit_default_input_refuted` and by the harness, not excluded by this theorem. -/
theorem unit_laws_sound_partial (p : Params) (hfire : p.check = true) (_hN1 : p.origin ≠ .inputWithDefault) (x : Rat) :
    p.op.apply x p.value = x := by
  rw [unit_laws_fire_exact p hfire]
  cases p.op <;> simp [Op.apply, Op.literal]

/-- The exactness is necessary, not merely sufficient: `x + c = x` for all `x` iff `c = 0` … -/
theorem add_identity_iff (c : Rat) : (∀ x : Rat, x + c = x) ↔ c = 0 := by
  constructor
  · intro h; have := h 0; simpa using this
  · intro h x; simp [h]

/-- … and `x * c = x` for all `x` iff `c = 1`. -/
theorem mul_identity_iff (c : Rat) : (∀ x : Rat, x * c = x) ↔ c = 1 := by
  constructor
  · intro h; have := h 1; simpa using this
  · intro h x; simp [h]

/-- Documentation of finding D3 (fixed): with the pre-fix literal tolerance the rules fired on `x + 1e-9` and `x * 1.000005`
(`0 + 1e-9 ≠ 0`, `1 * 1.000005 ≠ 1`); both are refused now. -/
theorem unit_laws_prefix_refuted :
    (Params.checkPrefix { op := .add, constOnLeft := false, origin := .initializer, rank := 0, value := 1 / 1000000000 }) = true ∧
    (Params.checkPrefix { op := .mul, constOnLeft := false, origin := .initializer, rank := 0, value := 1000005 / 1000000 }) = true ∧
    Op.apply .add 0 (1 / 1000000000) ≠ (0 : Rat) ∧ Op.apply .mul 1 (1000005 / 1000000) ≠ (1 : Rat) ∧
    (Params.check { op := .add, constOnLeft := false, origin := .initializer, rank := 0, value := 1 / 1000000000 }) = false ∧
    (Params.check { op := .mul, constOnLeft := false, origin := .initializer, rank := 0, value := 1000005 / 1000000 }) = false := by
  refine ⟨by decide +kernel, by decide +kernel, ?_, ?_, by decide +kernel, by decide +kernel⟩
  · norm_num [Op.apply]
  · norm_num [Op.apply]

/-- Finding C05-N1: the rule fires on `Add(x, z)` where `z` is an initializer *and* a graph input with default 0 (first conjunct:
the model's `check` accepts that origin — this is the content); the second conjunct (`x + w = x` fails for some `w`) is the
trivial arithmetic half of the witness. -/
theorem unit_default_input_refuted :
    (Params.check { op := .add, constOnLeft := false, origin := .inputWithDefault, rank := 0, value := 0 }) = true ∧
    ¬ (∀ w x : Rat, Op.apply .add x w = x) := by
  refine ⟨by decide +kernel, ?_⟩
  intro h
  have := h 3 0
  norm_num [Op.apply] at this

/-- The matcher never accepts a rank-≥1 constant or a value without `const_value` for these rules. -/
theorem unit_laws_need_scalar_constant (p : Params) (h : p.check = true) :
    p.rank = 0 ∧ p.origin ≠ .input := by
  unfold Params.check at h
  simp only [Bool.and_eq_true, beq_iff_eq] at h
  refine ⟨h.1.2, ?_⟩
  intro ho
  have := h.1.1.2
  rw [ho] at this
  exact absurd this (by decide)

/-- `remove_optional_bias_*`: when `check` passes every bias element is exactly 0, so adding it changes nothing. -/
theorem remove_optional_bias_sound (p : Bias) (h : p.check = true) (y : Rat) : ∀ b ∈ p.values, y + b = y := by
  unfold Bias.check at h
  simp only [Bool.and_eq_true, List.all_eq_true, beq_iff_eq] at h
  intro b hb
  rw [h.2 b hb]; simp

/-- `dropout_zero`: fires only for the attribute form with `ratio == 0.0`, a single input and an unused mask
(then Dropout in inference mode is the identity by the operator specification). -/
theorem dropout_zero_fires_only_on_zero_ratio (p : Dropout) (hz : p.zeroRule = true) (h : p.check = true) :
    p.ratioAttr = some 0 ∧ p.nInputs = 1 ∧ p.maskUsed = false := by
  unfold Dropout.check at h
  simp only [hz, if_true, Bool.and_eq_true, beq_iff_eq, Bool.not_eq_true'] at h
  exact ⟨h.2, h.1.1, h.1.2⟩

end Unit

/-! ## Casts -/
section Cast
open OV.C05.Linalg

/-- What the cast theorems assume about the runtime's `Cast` (A-op): casting to the same type is the identity. -/
structure CastSem (V : Type) where
  cast : Nat → Nat → V → V
  cast_same : ∀ t v, cast t t v = v

/-- `no_op_cast`: `check` passes only when the annotated source type equals `to`. -/
theorem no_op_cast_sound {V : Type} (S : CastSem V) (src dst : Nat) (h : noOpCastCheck (some src) dst = true) (v : V) :
    S.cast src dst v = v := by
  unfold noOpCastCheck at h
  simp only [beq_iff_eq, Option.some.injEq] at h
  rw [h]; exact S.cast_same dst v

/-- `no_op_cast` never fires when the source type is unknown. -/
theorem no_op_cast_needs_known_dtype (dst : Nat) : noOpCastCheck none dst = false := by
  unfold noOpCastCheck; simp

/-- **`cast_cast`** (after commit e86ba81) fires exactly when the source type is exactly representable in FLOAT and the second hop
is FLOAT→FLOAT16 or FLOAT→BFLOAT16; an unknown source type never fires. -/
theorem cast_cast_fires_iff (x : Option Nat) (t2 t3 : Nat) :
    castCastCheck x t2 t3 = true ↔
      (∃ t, x = some t ∧ t ∈ exactInFloat) ∧ (t2 = FLOAT ∧ (t3 = FLOAT16 ∨ t3 = BFLOAT16)) := by
  unfold castCastCheck castCastAllowed FLOAT FLOAT16 BFLOAT16
  cases x with
  | none => simp
  | some t =>
    simp only [Bool.and_eq_true, List.contains_iff_mem, List.mem_cons, List.mem_nil_iff, or_false, Prod.mk.injEq,
      Option.some.injEq, exists_eq_left']
    constructor
    · rintro ⟨h1, h2⟩; refine ⟨h1, ?_⟩; omega
    · rintro ⟨h1, h2⟩; refine ⟨h1, ?_⟩; omega

/-- Rounding `n` to a multiple of `2^sh`, ties to even: the integer core of a float narrowing at a fixed exponent. -/
def roundAt (sh : Nat) (n : Nat) : Nat :=
  let q := n / 2 ^ sh
  let r := n % 2 ^ sh
  let half := 2 ^ sh / 2
  (if r > half ∨ (r = half ∧ q % 2 = 1) then q + 1 else q) * 2 ^ sh

/-- `cast_cast` (`Cast(Cast(x, FLOAT), FLOAT16) → Cast(x, FLOAT16)`): when the first hop is exact — which is what membership of
the source type in `exactInFloat` means, and what `check` now demands — dropping it changes nothing (integer rounding model). -/
theorem cast_cast_sound (sh1 sh2 n : Nat) (hexact : roundAt sh1 n = n) :
    roundAt sh2 (roundAt sh1 n) = roundAt sh2 n := by rw [hexact]

/-- Documentation of finding C05-N7 (fixed): for a DOUBLE source the first hop is not exact and rounding twice differs from
rounding once: `n = 2^30 + 2^19 + 1` (the double `1 + 2^-11 + 2^-30` scaled by `2^30`), FLOAT keeps 24 bits (`sh = 7`), FLOAT16 11
bits (`sh = 20`): twice → `2^30` (1.0), once → `2^30 + 2^20` (1.0009765625).  The pre-fix check passed; the rule now refuses DOUBLE
(and INT32/INT64/UINT32/UINT64) sources. -/
theorem cast_cast_prefix_refuted :
    castCastCheckPrefix FLOAT FLOAT16 = true ∧
    roundAt 20 (roundAt 7 (2 ^ 30 + 2 ^ 19 + 1)) = 2 ^ 30 ∧ roundAt 20 (2 ^ 30 + 2 ^ 19 + 1) = 2 ^ 30 + 2 ^ 20 ∧
    castCastCheck (some DOUBLE) FLOAT FLOAT16 = false ∧ castCastCheck (some 7) FLOAT FLOAT16 = false ∧
    castCastCheck (some FLOAT16) FLOAT FLOAT16 = true := by
  decide +kernel

end Cast

/-! ## Linear algebra and padding -/
section Linalg
open OV.C05.Linalg OV.C05.Shape OV.Lemmas.C05Algebra

/-- `matmul_add_to_gemm` and the three transposed variants, values: `Add(MatMul(A', B'), C) = Gemm(A, B, C; transA, transB)`
entrywise over any commutative ring, for every inner dimension (C already of shape `(M,N)`). -/
theorem matmul_add_to_gemm_sound {α : Type} [CommRing α] (K : Nat) (ta tb : Bool) (A B C : Nat → Nat → α) (i j : Nat) :
    mm K (if ta then tr A else A) (if tb then tr B else B) i j + C i j = gemm K ta tb 1 1 A B C i j := by
  unfold mm gemm tr
  cases ta <;> cases tb <;> simp

/-- **Shapes** (after commit be37f51): `Add` broadcasts `C` against `(M,N)` in both directions, `Gemm` only accepts a
`C` that broadcasts *to* `(M,N)`.  Whenever `check` passes, `Add`'s result has exactly the shape `(M,N)` Gemm produces —
for all `M`, `N` and every shape of `C`. -/
theorem matmul_add_to_gemm_shape_sound (ra rb : Option Nat) (m n : Nat) (c : List Nat)
    (h : matmulAddCheck ra rb m n (some c) = true) :
    specBroadcast c [m, n] = some [m, n] := by
  unfold matmulAddCheck cGuard at h
  simp only [Bool.and_eq_true, decide_eq_true_eq] at h
  obtain ⟨_, hlen, hall⟩ := h
  match c, hlen, hall with
  | [], _, _ => simp [specBroadcast] <;> (repeat' split) <;> simp_all
  | [a], _, hall =>
    simp only [List.reverse_cons, List.reverse_nil, List.nil_append, List.zip_cons_cons, List.zip_nil_left,
      List.all_cons, List.all_nil, Bool.and_true, Bool.or_eq_true, beq_iff_eq] at hall
    rcases hall with h1 | h1 <;> subst h1 <;> simp [specBroadcast] <;> (try split) <;> simp_all
  | [a, b], _, hall =>
    simp only [List.reverse_cons, List.reverse_nil, List.nil_append, List.cons_append, List.zip_cons_cons,
      List.zip_nil_left, List.all_cons, List.all_nil, Bool.and_true, Bool.or_eq_true, beq_iff_eq, Bool.and_eq_true] at hall
    obtain ⟨hb, ha⟩ := hall
    rcases ha with ha | ha <;> rcases hb with hb | hb <;> subst ha <;> subst hb <;> simp [specBroadcast] <;>
      (repeat' split) <;> simp_all
  | _ :: _ :: _ :: _, hlen, _ => simp at hlen

/-- The rule does not fire when `C`'s shape is unknown. -/
theorem matmul_add_to_gemm_needs_c_shape (ra rb : Option Nat) (m n : Nat) :
    matmulAddCheck ra rb m n none = false := by
  unfold matmulAddCheck cGuard; simp

/-- Documentation of finding D16b (fixed): the pre-fix `check` (ranks of A and B only) passed for `C : [5,2,4]`, whose
`Add` result `[5,2,4]` no Gemm produces; the rule now refuses it (and `C : [3,4]` with `M = 1`). -/
theorem matmul_add_to_gemm_prefix_refuted :
    matmulAddCheckPrefix (some 2) (some 2) = true ∧ specBroadcast [5, 2, 4] [2, 4] = some [5, 2, 4] ∧
    matmulAddCheck (some 2) (some 2) 2 4 (some [5, 2, 4]) = false ∧
    matmulAddCheck (some 2) (some 2) 1 4 (some [3, 4]) = false ∧
    matmulAddCheck (some 2) (some 2) 2 4 (some [4]) = true := by decide

/-- BatchNorm folding identity per output channel, for every inner dimension `K` over any field:
`((Σ w·x + b) − μ)·(γ/σ) + β = Σ (w·γ/σ)·x + ((b − μ)·γ/σ + β)` (`fuse_batchnorm_into_{conv,conv_transpose,gemm}`
with σ = sqrt(var+eps) computed once; Conv/ConvTranspose as a dot product per output position). -/
theorem batchnorm_fold_sound {α : Type} [Field α] (K : Nat) (w x : Nat → α) (b mu gamma sigma beta : α) :
    ((∑ k ∈ Finset.range K, w k * x k) + b - mu) * (gamma / sigma) + beta
      = (∑ k ∈ Finset.range K, (w k * (gamma / sigma)) * x k) + ((b - mu) * (gamma / sigma) + beta) := by
  have : (∑ k ∈ Finset.range K, (w k * (gamma / sigma)) * x k) = (∑ k ∈ Finset.range K, w k * x k) * (gamma / sigma) := by
    rw [Finset.sum_mul]; apply Finset.sum_congr rfl; intro k _; ring
  rw [this]; ring

/-- **`fuse_batchnorm_into_*`** (after commit 621808b): the rules fire only outside training mode and, for Gemm, with `beta = 1` … -/
theorem batchnorm_fires_only_inference_beta_one (p : BatchNorm) (h : batchNormCheck p = true) :
    p.gemmBetaIsOne = true ∧ p.trainingMode = false := by
  unfold batchNormCheck batchNormHyp at h
  simp only [Bool.and_eq_true, Bool.not_eq_true'] at h
  exact ⟨h.1.1, h.1.2⟩

/-- … and then Gemm's `alpha` (kept) and `beta = 1` make the fold right for every `alpha`. -/
theorem batchnorm_gemm_sound {α : Type} [Field α] (dot b mu s beta' alpha : α) :
    (alpha * dot + 1 * b - mu) * s + beta' = alpha * (dot * s) + 1 * ((b - mu) * s + beta') := by ring

/-- Documentation of finding C05-N6 (fixed): with `beta = 1/2` the folded bias is scaled once too often; the pre-fix check
passed, the rule now refuses. -/
theorem batchnorm_gemm_prefix_refuted :
    ¬ (∀ (dot b mu s beta' alpha gb : Rat),
        (alpha * dot + gb * b - mu) * s + beta' = alpha * (dot * s) + gb * ((b - mu) * s + beta')) ∧
    batchNormCheckPrefix { inits := [⟨true, true, false⟩], sharedOutside := false, gemmBetaIsOne := false } = true ∧
    batchNormCheck { inits := [⟨true, true, false⟩], sharedOutside := false, gemmBetaIsOne := false } = false ∧
    batchNormCheck { inits := [⟨true, true, false⟩], sharedOutside := false, trainingMode := true } = false := by
  refine ⟨?_, by decide, by decide, by decide⟩
  intro h
  have := h 0 0 1 1 0 1 (1 / 2)
  norm_num at this

/-- `fuse_pad_into_conv`, values: every tap of the convolution reads the same element whether the zero padding was
materialised by `Pad` (then implicitly zero-extended) or given as Conv `pads` — for every signal, length, pad
amounts and integer position (1-D; N-d is the product of axes). -/
theorem pad_into_conv_taps {α : Type} [Zero α] (x : Int → α) (n pb pe : Nat) (i : Int) :
    ext 0 (n + pb + pe) (padded pb n x) i = ext 0 n x (i - pb) :=
  pad_taps x n pb pe i

/-- `fuse_pad_into_conv`, output length: adding the Pad amounts to the Conv pads gives the same length for every
kernel, stride and **dilation**. -/
theorem pad_into_conv_out_len (x k s d p0 p1 pb pe : Nat) :
    convOutLen (x + pb + pe) k s d p0 p1 = convOutLen x k s d (p0 + pb) (p1 + pe) := by
  unfold convOutLen
  have : x + pb + pe + p0 + p1 = x + (p0 + pb) + (p1 + pe) := by omega
  simp only [this]

/-- `fill_pads_with_axes` on the default axes list is the pads list itself (first half begins, second half ends). -/
theorem fill_pads_default_axes_example :
    fillPadsWithAxes [0, 0, 1, 2, 0, 0, 3, 4] [0, 1, 2, 3] 4 = some [0, 0, 1, 2, 0, 0, 3, 4] ∧
    fillPadsWithAxes [1, 2, 3, 4] [2, 3] 4 = some [0, 0, 1, 2, 0, 0, 3, 4] := by decide

/-- **`fuse_pad_into_conv_integer`** (after commit 470d8b0): the rule fires only when `x_zero_point` is absent (default 0)
or a constant equal to 0 … -/
theorem pad_into_conv_integer_fires_only_zero_point (p : PadConv) (pads : List Int) (h : padConvRun p = .fire pads) :
    p.zeroPoint = .absent ∨ p.zeroPoint = .const 0 := by
  unfold padConvRun at h
  split at h
  · split at h
    · rename_i hz
      unfold PadConv.zeroPointOk at hz
      split at hz
      · left; assumption
      · rename_i v hv
        right; rw [hv]; simp only [beq_iff_eq] at hz; rw [hz]
      · exact absurd hz (by simp)
    · exact absurd h (by simp)
  · rename_i o hne
    exfalso
    exact hne pads h

/-- … and then ConvInteger's taps `(value − 0)` read the same elements whether the zero padding was materialised by `Pad`
or given as `pads` (fill value = zero point = 0), for every signal, length, pad amounts and position. -/
theorem pad_into_conv_integer_sound (x : Int → Int) (n pb pe : Nat) (i : Int) :
    ext 0 (n + pb + pe) (padded pb n x) i - 0 = ext 0 n x (i - pb) - 0 := by
  rw [pad_taps]

/-- Documentation of finding D16a (fixed): with zero point 5 and one element padded on the left, the border tap reads
`0 − 5` after `Pad` but `5 − 5` when ConvInteger pads itself; the pre-fix rule (`padConvRunBase`) fired, the rule now refuses. -/
theorem pad_into_conv_integer_prefix_refuted :
    ¬ (∀ (z : Int) (x : Int → Int) (n pb pe : Nat) (i : Int),
        ext z (n + pb + pe) (padded pb n x) i - z = ext z n x (i - pb) - z) ∧
    padConvRunBase { xRank := some 3, mode := none, pads := .const [0, 0, 1, 0, 0, 1], constantValue := .absent, axes := .absent, autoPad := "NOTSET", convPads := none, zeroPoint := .const 5 } = .fire [1, 1] ∧
    padConvRun { xRank := some 3, mode := none, pads := .const [0, 0, 1, 0, 0, 1], constantValue := .absent, axes := .absent, autoPad := "NOTSET", convPads := none, zeroPoint := .const 5 } = .nofire := by
  refine ⟨?_, by decide, by decide⟩
  intro h
  have := h 5 (fun _ => 7) 1 1 0 0
  revert this; unfold ext padded ext; decide

/-- **`normalize_pad_format`** SAME_UPPER / SAME_LOWER on one axis (after commit 6841282: dilated kernel extent), for every
kernel size, stride and **dilation**: the explicit pads the rule computes from the truthful output annotation
`y = ceil(x/s)` reproduce that output length. -/
theorem normalize_pad_same_sound (upper : Bool) (x k s d : Nat) (hx : 0 < x) (hs : 0 < s) :
    ∃ pb pe, computeSamePads upper [x] [(x + s - 1) / s] (dilatedExtents [k] [d]) [s] = [pb, pe] ∧
      convOutLen x k s d pb pe = (x + s - 1) / s := by
  have hconv : ∀ pb pe, convOutLen x k s d pb pe = convOutLen x ((k - 1) * d + 1) s 1 pb pe := by
    intro pb pe; unfold convOutLen; simp
  unfold computeSamePads dilatedExtents
  cases upper
  · refine ⟨_, _, rfl, ?_⟩
    rw [hconv]
    apply same_len x _ s hx (by omega) hs
    simp only [Bool.false_eq_true, if_false]; omega
  · refine ⟨_, _, rfl, ?_⟩
    rw [hconv]
    apply same_len x _ s hx (by omega) hs
    simp only [if_true]; omega

/-- Documentation of finding D16c1 (fixed): with the raw kernel size and dilation 2 the pads were wrong
(`x=7,k=3,s=1`: `[1,1]` give length 5, not 7); with the dilated extent they are `[2,2]`. -/
theorem normalize_pad_prefix_refuted :
    computeSamePads true [7] [7] [3] [1] = [1, 1] ∧ convOutLen 7 3 1 2 1 1 = 5 ∧
    computeSamePads true [7] [7] (dilatedExtents [3] [2]) [1] = [2, 2] ∧ convOutLen 7 3 1 2 2 2 = 7 := by
  decide

/-- Expand-before-binary-op, strategy 1 (after commit 48b48d2): whenever the guard passes, the Expand target is not longer
than both operands, so removing the Expand cannot change the rank of the result. -/
theorem expand_removable_keeps_rank (xs ys : Shape) (e : List Int)
    (h : expandRemovableConst (some xs) (some ys) e = true) : e.length ≤ max xs.length ys.length := by
  unfold expandRemovableConst expandRankChanges at h
  simp only [Bool.and_eq_true, Bool.not_eq_true', decide_eq_false_iff_not, not_lt] at h
  exact h.1

/-- Documentation of finding C05-N3a (fixed): the pre-fix guard accepted `Add(Expand(x:[3],[1,3]), y:[3])`, whose result
has rank 2 while `Add(x, y)` has rank 1; the guard now refuses it. -/
theorem expand_removable_prefix_rank_refuted :
    expandRemovableConstPrefix (some [.known 3]) (some [.known 3]) [1, 3] = true ∧
    (specBroadcast [3] [1, 3]).bind (specBroadcast · [3]) = some [1, 3] ∧ specBroadcast [3] [3] = some [3] ∧
    expandRemovableConst (some [.known 3]) (some [.known 3]) [1, 3] = false := by
  decide

end Linalg

/-! ## Second batch: hard-swish, conv∘affine, cast∘ConstantOfShape, collapse_slice2, dynamic scatter, slice_split,
gemm_to_matmul_add -/
section More
open OV.C05.More OV.C05.Unit OV.C05.Shape OV.Lemmas.C05Algebra

section OrderedField
variable {α : Type} [Field α] [LinearOrder α] [IsStrictOrderedRing α]

/-- ONNX `HardSigmoid(alpha, beta)`. -/
def hardSigmoid (a b x : α) : α := max 0 (min 1 (a * x + b))

/-- `HardSigmoidFusion` with the exact constants: `Clip(x + 3, 0, 6) / 6 = HardSigmoid(1/6, 1/2)(x)` over every
linearly ordered field. -/
theorem hardsigmoid_identity (x : α) : min (max (x + 3) 0) 6 / 6 = hardSigmoid (1 / 6) (1 / 2) x := by
  unfold hardSigmoid
  have h6 : (0 : α) ≤ 6 := by norm_num
  have e1 : (1 : α) / 6 * x + 1 / 2 = (x + 3) / 6 := by ring
  have e2 : (1 : α) = 6 / 6 := by norm_num
  have e3 : (0 : α) = 0 / 6 := by norm_num
  rw [e1]
  conv_rhs => rw [e2, e3, min_div_div_right h6, max_div_div_right h6]
  congr 1
  rcases le_total (x + 3) 0 with h | h <;> rcases le_total (x + 3) 6 with h' | h' <;>
    simp [max_def, min_def] <;> split_ifs <;> linarith

/-- `HardSwishFusion` (both `Mul` operand orders) and `HardSwishFusionFromHardSigmoid`:
`Clip(x + 3, 0, 6) * x / 6 = x * HardSigmoid(1/6, 1/2)(x) = HardSwish(x)`. -/
theorem hardswish_identity (x : α) : min (max (x + 3) 0) 6 * x / 6 = x * hardSigmoid (1 / 6) (1 / 2) x := by
  rw [← hardsigmoid_identity]; ring

end OrderedField

/-- The matched pipeline on ℚ with the constants the match binds. -/
def HardSig.lhs (cmin cmax bias div x : Rat) : Rat := min (max (x + bias) cmin) cmax / div

/-- **hard-sigmoid / hard-swish fusions** (after commit 9b9326e: `_HardSigmoidFusionBase.check` compares exactly): whenever
`check` passes, the matched pipeline `Clip(x + bias, cmin, cmax) / div` with the constants the match binds equals
`HardSigmoid(1/6, 1/2)(x)` for every `x` (and `· * x` gives HardSwish by `hardswish_identity`). -/
theorem hardsigmoid_fusion_sound (p : HardSig) (h : p.check = true) (x : Rat) :
    ∃ cmin cmax bias div, p.clipMin = some cmin ∧ p.clipMax = some cmax ∧ p.bias = some bias ∧ p.divisor = some div ∧
      HardSig.lhs cmin cmax bias div x = hardSigmoid (1 / 6) (1 / 2) x := by
  unfold HardSig.check at h
  simp only [Bool.and_eq_true, beq_iff_eq] at h
  exact ⟨0, 6, 3, 6, h.1.1.1, h.1.1.2, h.1.2, h.2, hardsigmoid_identity x⟩

/-- Documentation of finding C05-N8 (fixed): the pre-fix check (`rel_tol = 1e-4`) passed for `bias = 3.0002`, and then
`Clip(0 + 3.0002, 0, 6)/6 ≠ HardSigmoid(1/6,1/2)(0) = 1/2`; the check now refuses it. -/
theorem hardsigmoid_fusion_prefix_refuted :
    (HardSig.checkPrefix { clipMin := some 0, clipMax := some 6, bias := some (30002 / 10000), divisor := some 6 }) = true ∧
    HardSig.lhs 0 6 (30002 / 10000) 6 0 ≠ hardSigmoid (1 / 6) (1 / 2) (0 : Rat) ∧
    (HardSig.check { clipMin := some 0, clipMax := some 6, bias := some (30002 / 10000), divisor := some 6 }) = false := by
  refine ⟨by decide +kernel, ?_, by decide +kernel⟩
  unfold HardSig.lhs hardSigmoid
  norm_num [max_def, min_def]

/-- `absR` of the model is the absolute value. -/
theorem absR_eq (q : Rat) : absR q = |q| := by
  unfold absR; split_ifs with hq
  · rw [abs_of_neg hq]
  · rw [abs_of_nonneg (not_lt.mp hq)]

/-- (pre-fix tolerance test) the zero lower bound could never be approximate: `isclose(v, 0.0, rel_tol=1e-4)` has `abs_tol = 0`. -/
theorem hardsigmoid_clip_min_exact (v : Rat) (h : closeTo (some v) 0 = true) : v = 0 := by
  by_contra hv
  have hpos : 0 < |v| := abs_pos.mpr hv
  simp only [closeTo, isclose, hv, if_false, mul_zero, zero_sub, absR_eq, abs_zero, abs_neg,
    Bool.or_eq_true, decide_eq_true_eq] at h
  rcases le_total 0 v with hv0 | hv0
  · have e : |(1 : Rat) / 10000 * v| = 1 / 10000 * v := abs_of_nonneg (mul_nonneg (by norm_num) hv0)
    rw [e, abs_of_nonneg hv0] at h
    rw [abs_of_nonneg hv0] at hpos
    rcases h with (h | h) | h <;> linarith
  · have e : |(1 : Rat) / 10000 * v| = -(1 / 10000 * v) := abs_of_nonpos (mul_nonpos_of_nonneg_of_nonpos (by norm_num) hv0)
    rw [e, abs_of_nonpos hv0] at h
    rw [abs_of_nonpos hv0] at hpos
    rcases h with (h | h) | h <;> linarith

/-- `conv_affine_fusion`: `(Σ w·x + b)·s + o = Σ (w·s)·x + (b·s + o)` per output position, any kernel size, any commutative ring. -/
theorem conv_affine_sound {α : Type} [CommRing α] (K : Nat) (w x : Nat → α) (b s o : α) :
    ((∑ k ∈ Finset.range K, w k * x k) + b) * s + o = (∑ k ∈ Finset.range K, (w k * s) * x k) + (b * s + o) := by
  have : (∑ k ∈ Finset.range K, (w k * s) * x k) = (∑ k ∈ Finset.range K, w k * x k) * s := by
    rw [Finset.sum_mul]; apply Finset.sum_congr rfl; intro k _; ring
  rw [this]; ring

/-- `affine_conv_fusion` (Conv without padding — the pattern pins `pads = [0,0,0,0]`): `Σ w·(x·s + o) + b = Σ (w·s)·x + (b + Σ w·o)`. -/
theorem affine_conv_sound {α : Type} [CommRing α] (K : Nat) (w x : Nat → α) (b s o : α) :
    (∑ k ∈ Finset.range K, w k * (x k * s + o)) + b
      = (∑ k ∈ Finset.range K, (w k * s) * x k) + (b + ∑ k ∈ Finset.range K, w k * o) := by
  have : ∀ k, w k * (x k * s + o) = (w k * s) * x k + w k * o := by intro k; ring
  simp only [this, Finset.sum_add_distrib]; ring

/-- Both conv∘affine rules need constant `w`, `b` and one-element `scale`, `offset` (and `affine_conv` the zero-pads attribute). -/
theorem conv_affine_guards (p : ConvAffine) (h : p.check = true) :
    p.wConst = true ∧ p.bConst = true ∧ p.scaleSingleton = true ∧ p.offsetSingleton = true ∧ p.padsZeroAttr = true := by
  unfold ConvAffine.check at h
  simp only [Bool.and_eq_true] at h
  exact ⟨h.1.1.1.1, h.1.1.1.2, h.1.1.2, h.1.2, h.2⟩

/-- `cast_constant_of_shape` (+ `_without_value`): casting a constant-filled tensor elementwise equals filling with the cast
value, for every size and every elementwise `cast`. -/
theorem cast_constant_of_shape_sound {V W : Type} (cast : V → W) (n : Nat) (v : V) :
    (List.replicate n v).map cast = List.replicate n (cast v) := List.map_replicate

/-- `collapse_slice2`: a step-1 Slice (any start/end, negative or out of range) whose result has as many elements along
the axis as its input is the identity along that axis. -/
theorem collapse_slice2_sound {β : Type} (l : List β) (st en : Int)
    (h : (specSliceStep1 l st en).length = l.length) : specSliceStep1 l st en = l := by
  simp only [specSliceStep1] at h ⊢
  simp only [List.length_take, List.length_drop] at h
  generalize clampI (if st < 0 then st + ↑l.length else st) l.length = s at *
  generalize clampI (if en < 0 then en + ↑l.length else en) l.length = e at *
  by_cases hl : l.length = 0
  · have : l = [] := List.length_eq_zero_iff.mp hl
    subst this; simp
  · have hs : s = 0 := by omega
    subst hs
    simp only [List.drop_zero, Nat.sub_zero] at h ⊢
    apply List.take_of_length_le; omega

/-- … and the rule only fires when every step is the constant 1 and the two annotated shapes agree. -/
theorem collapse_slice2_guards (d o : Option Shape) (steps : Option (List Int)) (h : collapseSlice2Check d o steps = true) :
    (∃ l, steps = some l ∧ ∀ s ∈ l, s = 1) ∧ sameShape d o = true := by
  unfold collapseSlice2Check at h
  match d, o, h with
  | none, _, h => exact absurd h (by simp)
  | some _, none, h => exact absurd h (by simp)
  | some _, some _, h =>
    simp only [Bool.and_eq_true] at h
    cases steps with
    | none => exact absurd h.1 (by simp)
    | some l =>
      refine ⟨⟨l, rfl, ?_⟩, h.2⟩
      have := h.1
      simp only [List.all_eq_true, beq_iff_eq] at this
      exact this

/-- `no_op_dynamic_scatter_nd`: when `check` passes, the updated axis' dim of `data` and the leading dim of the scattered
tensor are the same dim … -/
theorem dynamic_scatter_fire_same_dim (ax : Int) (ds ts : Shape)
    (h : dynScatterRun (some ax) (some ds) (some ts) = .fire ()) :
    ∃ d t0 rest, pyIndex ds ax = some d ∧ ts = t0 :: rest ∧ sameDim d t0 = true := by
  simp only [dynScatterRun] at h
  cases hp : pyIndex ds ax with
  | none => rw [hp] at h; exact absurd h (by simp)
  | some d =>
    rw [hp] at h
    cases ts with
    | nil => exact absurd h (by simp)
    | cons t0 rest =>
      refine ⟨d, t0, rest, rfl, rfl, ?_⟩
      simp only at h
      by_cases hs : sameDim d t0 = true
      · exact hs
      · simp [hs] at h

/-- … so `Range(0, dim)` enumerates every leading index and `ScatterND(·, reduction="none")` (pinned by the pattern) returns
`updates`, for every number of rows. -/
theorem dynamic_scatter_sound {ρ : Type} (tdata upd : List ρ) (h : tdata.length = upd.length) :
    specScatterRows (fun _ u => u) tdata (List.range upd.length) upd = upd :=
  OV.Lemmas.C05Shape.scatter_full_range tdata upd h

/-- **`slice_split`** (after commit 462c374): when `check` passes the last dim is even and the opset is ≥ 18 … -/
theorem slice_split_check_even (p : SliceSplit) (h : p.check = true) :
    (∃ d, p.xShape.bind List.getLast? = some (.known d) ∧ d % 2 = 0) ∧ p.opsetGe18 = true := by
  unfold SliceSplit.check at h
  simp only [Bool.and_eq_true] at h
  refine ⟨?_, h.2⟩
  have h2 := h.1.2
  split at h2
  · rename_i d hd
    exact ⟨d, hd, by simpa using h2⟩
  · exact absurd h2 (by simp)

/-- … and for an even `d` the two matched slices `[0, d/2)`, `[d/2, d)` have exactly the chunk sizes of `Split(num_outputs=2)`. -/
theorem slice_split_sound (d : Nat) (h : d % 2 = 0) : sliceHalves d = specSplit2 d := by
  unfold sliceHalves specSplit2; ext <;> simp <;> omega

/-- Documentation of findings C05-N10 / C05-N9 (fixed): for every odd `d` the sizes differ; the pre-fix check passed for
`d = 5`, the rule now refuses (and refuses below opset 18). -/
theorem slice_split_prefix_refuted :
    (∀ d : Nat, d % 2 = 1 → sliceHalves d ≠ specSplit2 d) ∧
    (SliceSplit.checkPrefix { xShape := some [.known 2, .known 5], axes0 := some [1], axes1 := some [1], begin0 := some [0], end0 := some [2], begin1 := some [2], end1 := some [5] }) = true ∧
    (SliceSplit.check { xShape := some [.known 2, .known 5], axes0 := some [1], axes1 := some [1], begin0 := some [0], end0 := some [2], begin1 := some [2], end1 := some [5] }) = false ∧
    (SliceSplit.check { xShape := some [.known 2, .known 4], axes0 := some [1], axes1 := some [1], begin0 := some [0], end0 := some [2], begin1 := some [2], end1 := some [4], opsetGe18 := false }) = false ∧
    (SliceSplit.check { xShape := some [.known 2, .known 4], axes0 := some [1], axes1 := some [1], begin0 := some [0], end0 := some [2], begin1 := some [2], end1 := some [4] }) = true := by
  refine ⟨?_, by decide, by decide, by decide, by decide⟩
  intro d h
  unfold sliceHalves specSplit2; intro hh
  have := congrArg Prod.fst hh
  simp at this; omega

/-- **`two_reshapes_matmul_reshape` / `one_reshape_matmul_reshape` / `gemm_to_matmul_add`, shape arithmetic**
(`check_if_not_need_reshape`): for operands of **all ranks** (1-D promotion on either side, batch broadcasting, either
operand longer), when the function's predicted `broadcast_matmul_output_shape` is `out` — which `check` then requires to
equal the constant `shape_c` — `MatMul(a, b)` on the *un-reshaped* inputs has exactly that shape.  Hypotheses the proof
forces (both implied by a valid original model, both shown necessary below): the inner dims agree, and no aligned batch
pair is (a: 1, b: 0). -/
theorem matmul_reshape_shape_sound (a b out : List Nat) (h : matmulOutShape a b = some out)
    (hinner : a.getLastD 0 = (if b.length == 1 then b.getLastD 0 else b.getD (b.length - 2) 0))
    (hnz : ∀ p ∈ List.zip (a.take (a.length - 2)).reverse (b.take (b.length - 2)).reverse, ¬ (p.1 = 1 ∧ p.2 = 0)) :
    specMatMulShape a b = some out :=
  OV.Lemmas.C05Matmul.matmul_out_shape_sound a b out h hinner hnz

/-- The rule's whole `check` ties `shape_c` to that prediction (static shapes only; symbolic dims are refused). -/
theorem matmul_reshape_check_shape (p : MatmulReshape) (h : matmulReshapeCheck p = true) :
    ∃ an bn out c, p.a.bind allKnown = some an ∧ p.b.bind allKnown = some bn ∧ matmulOutShape an bn = some out ∧
      p.shapeC = some c ∧ c = out.map Int.ofNat := by
  unfold matmulReshapeCheck at h
  cases hc : p.shapeC with
  | none => rw [hc] at h; exact absurd h (by simp)
  | some c =>
    rw [hc] at h
    simp only at h
    split at h
    · exact absurd h (by simp)
    · cases ha : p.a with
      | none => rw [ha] at h; exact absurd h (by simp)
      | some a =>
        cases hb : p.b with
        | none => rw [ha, hb] at h; exact absurd h (by simp)
        | some b =>
          rw [ha, hb] at h
          simp only at h
          cases han : allKnown a with
          | none => rw [han] at h; exact absurd h (by simp)
          | some an =>
            cases hbn : allKnown b with
            | none => rw [han, hbn] at h; exact absurd h (by simp)
            | some bn =>
              rw [han, hbn] at h
              simp only at h
              cases ho : matmulOutShape an bn with
              | none => rw [ho] at h; exact absurd h (by simp)
              | some out =>
                rw [ho] at h
                simp only [beq_iff_eq] at h
                exact ⟨an, bn, out, c, by simp [han], by simp [hbn], ho, rfl, h⟩

/-- Both hypotheses of `matmul_reshape_shape_sound` are necessary (the guard tests inner dims and batch dims with the
same one-sided `da ∈ {1, db}` and takes `max` of a batch pair). -/
theorem matmul_reshape_shape_hyps_needed :
    (matmulOutShape [2, 1] [5, 3] = some [2, 3] ∧ specMatMulShape [2, 1] [5, 3] = none) ∧
    (matmulOutShape [1, 3, 4] [0, 4, 5] = some [1, 3, 5] ∧ specMatMulShape [1, 3, 4] [0, 4, 5] = some [0, 3, 5]) := by
  decide

/-- **`gemm_to_matmul_add`** (after commit ae98696): when `check` passes, `alpha = beta = 1`, no operand is transposed, and the
shape test holds … -/
theorem gemm_to_matmul_add_check (p : GemmToMatmul) (h : gemmToMatmulCheck p = true) :
    p.alphaAttr = some 1 ∧ p.betaAttr = some 1 ∧ p.transA = false ∧ p.transB = false ∧ matmulReshapeCheck p.core = true := by
  unfold gemmToMatmulCheck gemmToMatmulHyp at h
  simp only [Bool.and_eq_true, beq_iff_eq, Bool.not_eq_true'] at h
  exact ⟨h.1.1.1, h.1.1.2, h.1.2.1, h.1.2.2, h.2⟩

/-- … and then `Gemm(A, B, C; alpha=1, beta=1) = MatMul(A, B) + C` entrywise, for every inner dimension over any commutative ring. -/
theorem gemm_to_matmul_add_sound {α : Type} [CommRing α] (K : Nat) (A B C : Nat → Nat → α) (i j : Nat) :
    gemm K false false 1 1 A B C i j = mm K A B i j + C i j := by
  unfold mm gemm; simp

/-- Documentation of finding C05-N5 (fixed): the pre-fix check passed with `transB = 1`, and `Gemm(A, B, C; transB) ≠ MatMul(A, B) + C`
already for `A = B = [[1,2],[3,4]]`, `C = 0` at entry (0,0) (`5` vs `7`); the rule now refuses. -/
theorem gemm_to_matmul_add_prefix_refuted :
    gemmToMatmulCheckPrefix { core := { a := some [.known 2, .known 2], b := some [.known 2, .known 2], shapeC := some [2, 2] }, alphaAttr := some 1, betaAttr := some 1, transB := true } = true ∧
    gemmToMatmulCheck { core := { a := some [.known 2, .known 2], b := some [.known 2, .known 2], shapeC := some [2, 2] }, alphaAttr := some 1, betaAttr := some 1, transB := true } = false ∧
    gemm 2 false true (1 : Int) 1 (fun i j => 2 * i + j + 1) (fun i j => 2 * i + j + 1) (fun _ _ => 0) 0 0 ≠
      mm 2 (fun i j => (2 * i + j + 1 : Int)) (fun i j => 2 * i + j + 1) 0 0 + 0 := by
  refine ⟨by decide +kernel, by decide +kernel, ?_⟩
  unfold gemm mm
  simp [Finset.sum_range_succ]

end More

/-! ## Expand before a broadcasting binary op (38 rule objects; strategy 1: constant target shape, static annotations) -/
section ExpandBinary
open OV.C05.Linalg OV.C05.Shape OV.Lemmas.C05Expand

/-- **`expand_before_binary_op_rules` — all three strategies, symbolic annotations, every valuation σ.**  The rule objects
share `_check_expand_removable`; its one restatement is `OV.C09.expandRemovable` (strategy 1: constant target; 2: annotation of the
Expand output; 3: annotation of the binary op's output), which C05's driver now runs for every generated host (constant and
run-time targets, symbolic dims) against the real rules.  Whenever a rule of the set fires (`expandRuleFires`: the verdict is
removable and the rule object exists — no ExpandFirst for PRelu), then for **every** valuation `σ` of the symbolic dims under
which the annotations are truthful, and every run-time target `le` (equal to the constant when there is one): if the original
`Op(Expand(x, le), y)` is valid with result shape `lout`, so is `Op(x, y)`, with the same result shape.  Proved by C09
(`OV.Props.C09.expand_removable_sound`), imported, not restated.  **Scope: shapes only** (validity and result shape).  The element
values are covered by `expand_before_binary_value_sound` below, which is stated on C05's own strategy-1 model (constant target,
static annotations) only; for strategies 2/3 and symbolic dims equality of values rests on the numeric oracle.  One theorem serves
all 37 `expand_before_binary_op_rules[i]` rule objects. -/
theorem expand_before_binary_sound (op : String) (side : Nat) (x y : OV.C09.Shape) (const : Option (List Int))
    (eOut bOut : Option OV.C09.Shape)
    (hfire : OV.C09.expandRuleFires op side true (OV.C09.expandRemovable (some x) (some y) const eOut bOut) = true)
    (σ : String → Nat) (lx ly le lE lout : List Int) (hx : OV.C09.Admits σ x lx) (hy : OV.C09.Admits σ y ly)
    (hconst : ∀ c, const = some c → le = c)
    (hexp : OV.C09.broadcast lx le = some lE) (hres : OV.C09.broadcast lE ly = some lout)
    (hE : ∀ E, const = none → eOut = some E → OV.C09.Admits σ E lE)
    (hO : ∀ O, const = none → eOut = none → bOut = some O → OV.C09.Admits σ O lout) :
    OV.C09.broadcast lx ly = some lout := by
  have hrem : (OV.C09.expandRemovable (some x) (some y) const eOut bOut).removable = true := by
    unfold OV.C09.expandRuleFires at hfire
    simp only [Bool.and_eq_true] at hfire
    exact hfire.1
  exact OV.Props.C09.expand_removable_sound x y const eOut bOut hrem σ lx ly le lE lout hx hy hconst hexp hres hE hO

/-- No `ExpandFirst` rule exists for PRelu (commit dd5f7df): the exported rule set never removes an Expand on PRelu's X. -/
theorem expand_before_binary_no_prelu_first (v : OV.C09.ExpandVerdict) :
    OV.C09.expandRuleFires "PRelu" 0 true v = false := by
  unfold OV.C09.expandRuleFires; simp

/-- Static instance on C05's own strategy-1 model (the one the element-level theorem below is stated on; the driver checks on every
constant-target case that it agrees with `OV.C09.expandRemovable`): for all ranks and dimension sizes (0 and 1 included), when
the guard passes and the original `Op(Expand(x, e), y)` is valid with result shape `r`, the rewritten `Op(x, y)` is valid with the
same result shape. -/
theorem expand_before_binary_static_shape_sound (x y : List Nat) (e : List Int) (t r : List Nat)
    (hguard : expandRemovableConst (some (x.map Dim.known)) (some (y.map Dim.known)) e = true)
    (ht : specBroadcast x (e.map Int.toNat) = some t) (hr : specBroadcast t y = some r) :
    specBroadcast x y = some r :=
  expand_removal_shape_sound' x y e t r hguard ht hr

/-- … and conversely the original is valid whenever the rewritten op is (no failure is masked, none introduced). -/
theorem expand_before_binary_shape_iff (x y : List Nat) (e : List Int) (en : List Nat) (r : List Nat)
    (hguard : expandRemovableConst (some (x.map Dim.known)) (some (y.map Dim.known)) e = true) (he : e = en.map Int.ofNat) :
    (∃ t, specBroadcast x en = some t ∧ specBroadcast t y = some r) ↔ specBroadcast x y = some r :=
  expand_removal_shape_iff x y e en r hguard he

/-- **values**: at every output coordinate, `Op(Expand(X, e), Y)` and `Op(X, Y)` read the same elements of `X` and `Y`
(tensors as functions of right-aligned coordinates, broadcasting = "coordinate 0 on a size-1 axis"), for every elementwise `f`.
Strategy 1 with static annotations only (C05's own model `expandRemovableConst`), pointwise per output coordinate. -/
theorem expand_before_binary_value_sound {α : Type} (f : α → α → α) (x y en t : List Nat)
    (ht : specBroadcast x en = some t) (X Y : (Nat → Nat) → α) :
    binopT f t y (expandT x X) Y = binopT f x y X Y :=
  expand_removal_value_sound f x y en t ht X Y

/-- The guard alone does not make the Expand valid (x=[2], e=[3]) — which is why validity of the original is a hypothesis. -/
theorem expand_guard_does_not_validate_expand :
    expandRemovableConst (some [.known 2]) (some [.known 3]) [3] = true ∧ specBroadcast [2] [3] = none :=
  guard_does_not_validate_expand

end ExpandBinary

/-! ## Rules that cannot fire on a valid model / thin fusion algebra -/
section Thin
open OV.C05.Unit OV.C05.More

/-- `dropout_inference`: the pattern asks for an **attribute** `training_mode == False`; ONNX `Dropout` has no such attribute
at any opset (it is an input from opset 12), so the rule fires only on nodes carrying that non-standard attribute with value 0,
a single input and an unused mask. -/
theorem dropout_inference_needs_training_mode_attribute (p : Dropout) (hz : p.zeroRule = false) (h : p.check = true) :
    p.trainingModeAttr = some 0 ∧ p.nInputs = 1 ∧ p.maskUsed = false := by
  unfold Dropout.check at h
  simp only [hz, Bool.false_eq_true, if_false, Bool.and_eq_true, beq_iff_eq, Bool.not_eq_true'] at h
  exact ⟨h.2, h.1.1, h.1.2⟩

/-- Layer-norm / RMS-norm fusions, the two alternatives of the pattern over any field: `d * (1/s) = d / s` (Reciprocal+Mul vs
Div) and `d ^ 2 = d * d` (Pow vs Mul) — the rest of the pattern is the operator's defining formula. -/
theorem norm_pattern_alternatives {α : Type} [Field α] (d s : α) : d * s⁻¹ = d / s ∧ d ^ 2 = d * d := by
  constructor
  · rw [div_eq_mul_inv]
  · ring

/-- `LayerNormFusion.check` accepts only FLOAT / DOUBLE inputs with a one-element constant epsilon. -/
theorem layer_norm_check_types (dt : Option Nat) (eps : Bool) (h : layerNormCheck dt eps = true) :
    (dt = some 1 ∨ dt = some 11) ∧ eps = true := by
  unfold layerNormCheck layerNormComputeTypes at h
  simp only [Bool.and_eq_true] at h
  refine ⟨?_, h.2⟩
  cases dt with
  | none => exact absurd h.1 (by simp)
  | some t =>
    have := h.1
    simp only [List.contains_cons, List.contains_nil, Bool.or_false, Bool.or_eq_true, beq_iff_eq] at this
    rcases this with h1 | h1 <;> simp [h1]

end Thin

/-! ## Layer-norm / RMS-norm fusions (`rules/fusion`) -/
section NormFusion
open OV.C05.More OV.C05.Shape OV.Lemmas.C05Algebra

/-- **`LayerNormFusion`**, values: for every row length, every epsilon and scale, over any field with any square-root function,
all four shapes of the matched sub-graph (`Mul(d,d)` / `Pow(d,2)`, `Mul(d, Reciprocal(std))` / `Div(d, std)`) compute exactly
`LayerNormalization(x, scale, axis=-1, epsilon)`.  *Near-definitional*: both sides are the model's own transcriptions
(`layerNormPattern` vs `layerNormSpec`) and the proof is `simp [pow_two, div_eq_mul_inv]` — it shows the four syntactic variants agree
per row element; that the transcriptions are the ONNX operators is the model/implementation tie + numeric oracle, not this theorem. -/
theorem layer_norm_fusion_sound {α : Type} [Field α] (sqrtf : α → α) (usePow useDiv : Bool) (n : Nat) (eps : α)
    (scale x : Nat → α) (i : Nat) :
    layerNormPattern sqrtf usePow useDiv n eps scale x i = layerNormSpec sqrtf n eps scale x i := by
  unfold layerNormPattern layerNormSpec
  cases usePow <;> cases useDiv <;> simp [pow_two, div_eq_mul_inv]

/-- **`LayerNormBiasFusion`**: `LayerNormalization(x, scale) + bias` is `LayerNormalization(x, scale, bias)` by the operator's
definition (`Y = normalized * scale + B`); the rule copies the node's attributes and output count.  *Definitional* (`rfl`): it
records the operator definition used, it is not evidence about the code. -/
theorem layer_norm_bias_fusion_sound {α : Type} [Field α] (sqrtf : α → α) (n : Nat) (eps : α) (scale bias x : Nat → α) (i : Nat) :
    layerNormSpec sqrtf n eps scale x i + bias i =
      (x i - meanF n x) / sqrtf (meanF n (fun k => (x k - meanF n x) ^ 2) + eps) * scale i + bias i := rfl

/-- **`RmsNormFusion`** (both operand orders of the final `Mul`): the matched sub-graph computes `RMSNormalization(x, scale, axis=-1, epsilon)`.
*Near-definitional* like `layer_norm_fusion_sound` (per row element, over the model's transcriptions). -/
theorem rms_norm_fusion_sound {α : Type} [Field α] (sqrtf : α → α) (scaleFirst : Bool) (n : Nat) (eps : α)
    (scale x : Nat → α) (i : Nat) :
    rmsNormPattern sqrtf scaleFirst n eps scale x i = rmsNormSpec sqrtf n eps scale x i := by
  unfold rmsNormPattern rmsNormSpec
  cases scaleFirst <;> simp [div_eq_mul_inv, mul_comm]

/-- What the checks establish when they pass: layer-norm only for FLOAT/DOUBLE inputs with a one-element epsilon and
`stash_type = x.dtype`; rms-norm only for float inputs/scales, a float one-element epsilon and a FLOAT/DOUBLE stash type. -/
theorem norm_fusion_check (p : NormFusion) (r : NormRepl) (h : p.run = .fire r) :
    p.rankOk = true ∧
    (p.kind = .layerNorm → p.epsSingleton = true ∧ r.stashType = p.xDtype ∧ dtypeIn layerNormComputeTypes p.xDtype = true) ∧
    (p.kind = .rmsNorm → p.epsSingleton = true ∧ p.epsIsFloat = true ∧ r.stashType = p.rmsStash ∧
      dtypeIn layerNormComputeTypes r.stashType = true ∧ dtypeIn floatTypes p.xDtype = true ∧ dtypeIn floatTypes p.scaleDtype = true) := by
  unfold NormFusion.run at h
  by_cases hr : p.rankOk = true
  · simp only [hr, if_true] at h
    unfold NormFusion.runPrefix at h
    refine ⟨hr, ?_, ?_⟩
    · intro hk
      simp only [hk] at h
      by_cases hc : p.lnOk = true
      · simp only [hc, if_true, Outcome.fire.injEq] at h
        unfold NormFusion.lnOk at hc
        simp only [Bool.and_eq_true] at hc
        subst h
        exact ⟨hc.2, rfl, hc.1⟩
      · simp [hc] at h
    · intro hk
      simp only [hk] at h
      by_cases hc : p.rmsOk = true
      · simp only [hc, if_true, Outcome.fire.injEq] at h
        unfold NormFusion.rmsOk at hc
        simp only [Bool.and_eq_true] at hc
        subst h
        exact ⟨hc.1.1.1.1, hc.1.1.1.2, rfl, hc.2, hc.1.1.2, hc.1.2⟩
      · simp [hc] at h
  · simp [hr] at h

/-- **Shapes** (after commit fd3c959): when a fusion fires, the scale / bias does not outrank `x`, so — for operands whose
broadcast against `x` is `x`'s shape, which is what LayerNormalization / RMSNormalization require — the final `Mul` / `Add` of
the pattern did not enlarge the result. -/
theorem norm_fusion_rank_sound (p : NormFusion) (r : NormRepl) (h : p.run = .fire r) :
    ∃ rx ro, p.xRank = some rx ∧ p.otherRank = some ro ∧ ro ≤ rx := by
  have hr := (norm_fusion_check p r h).1
  unfold NormFusion.rankOk at hr
  cases hx : p.xRank with
  | none => rw [hx] at hr; exact absurd hr (by simp)
  | some rx =>
    cases ho : p.otherRank with
    | none => rw [hx, ho] at hr; exact absurd hr (by simp)
    | some ro =>
      rw [hx, ho] at hr
      exact ⟨rx, ro, rfl, rfl, by simpa using hr⟩

/-- Documentation of finding C05-N11 (fixed): the pre-fix rules did not look at the rank of scale / bias: with `x : [2,4]` and
`scale : [3,2,4]` they fired although the original result has shape `[3,2,4]`; the rules now refuse. -/
theorem norm_fusion_prefix_refuted :
    (NormFusion.runPrefix { kind := .layerNorm, xDtype := some 1, xRank := some 2, otherRank := some 3 }) = .fire { stashType := some 1 } ∧
    specBroadcast [2, 4] [3, 2, 4] = some [3, 2, 4] ∧
    (NormFusion.run { kind := .layerNorm, xDtype := some 1, xRank := some 2, otherRank := some 3 }) = .nofire ∧
    (NormFusion.run { kind := .layerNorm, xDtype := some 1, xRank := some 2, otherRank := none }) = .nofire ∧
    (NormFusion.run { kind := .layerNorm, xDtype := some 1, xRank := some 2, otherRank := some 1 }) = .fire { stashType := some 1 } := by decide

end NormFusion

/-! ## Order inside the shipped rule sets -/

/-- **Order of the default rule set as modelled** (translator tie, regenerated from `_DEFAULT_REWRITE_RULES` on every run): the
eight order rules stand in the order of `Chain.chainRules`, and every order-sensitive pair keeps its order. -/
theorem default_order_as_modelled :
    OV.Gen.C05.defaultRules.filter (fun r => Table.chainRuleNames.contains r) = Table.chainRuleNames ∧
    ∀ p ∈ Table.orderSensitivePairs, Table.before OV.Gen.C05.defaultRules p.1 p.2 = true := by
  decide +kernel

/-- **`_cast_constant_of_shape.rules` in the shipped order** (with-value first): whatever the `value` attribute is, the rule set
emits the fill value of the original `ConstantOfShape` … -/
theorem ccos_ruleset_sound (value : Option Rat) :
    More.ccosRuleSet [More.ccosWithValueRule, More.ccosWithoutValueRule] value = some (More.ccosFill value) := by
  cases value <;> rfl

/-- … and in the other order it does not: the attribute-free pattern wins on a node that carries `value = 3`. -/
theorem ccos_ruleset_swapped_refuted :
    ¬ ∀ value, More.ccosRuleSet [More.ccosWithoutValueRule, More.ccosWithValueRule] value = some (More.ccosFill value) := by
  intro h
  have := h (some 3)
  revert this; decide

/-! ## The rule-set driver on one host (`OV/Model/C05Chain.lean`): several rules, one sweep, repeated calls -/
section RuleSet
open OV.C05.Order OV.C05.Chain OV.Lemmas.C05Chain
variable {α : Type} [LinearOrder α]

/-- `FuseSuccessiveClip` fires only when `check` passed, and then with the constants of `build`. -/
theorem clip_clip_fire (p : ClipClip α) (r : ClipRepl α) (h : p.run = .fire r) : p.check = true ∧ r = p.build := by
  unfold ClipClip.run at h
  split at h; · cases h
  split at h; · cases h
  split at h; · cases h
  rename_i _ hc _
  injection h with h
  exact ⟨by simpa using hc, h.symm⟩

/-- The same for `Clip(Relu(x))` (`run`) and `Relu(Clip(x))` (`runReluClip`). -/
theorem relu_clip_fire (zero : α) (p : ReluClip α) (r : ClipRepl α) :
    (p.run zero = .fire r → p.check = true ∧ r = p.build zero) ∧
    (p.runReluClip zero = .fire r → p.check = true ∧ r = p.buildReluClip zero) := by
  constructor <;> intro h
  · unfold ReluClip.run at h
    split at h; · cases h
    split at h; · cases h
    split at h; · cases h
    rename_i _ hc _
    injection h with h
    exact ⟨by simpa using hc, h.symm⟩
  · unfold ReluClip.runReluClip at h
    split at h; · cases h
    split at h; · cases h
    split at h; · cases h
    rename_i _ hc _
    injection h with h
    exact ⟨by simpa using hc, h.symm⟩

/-- `successive_relu_rule` as a chain rule: the replacement computes consumer ∘ producer. -/
theorem chain_rule_relu_relu_sound (zero : α) : RuleSound zero (ruleReluRelu (α := α)) := by
  intro p c f h x
  cases p <;> cases c <;> simp [ruleReluRelu] at h
  subst h
  simp [COp.eval, successive_relu_sound]

/-- `successive_clip_rule` as a chain rule — also when a bound is a run-time value or an overridable initializer (then the rule
refuses), for every run-time value of those bounds. -/
theorem chain_rule_clip_clip_sound (zero : α) : RuleSound zero (ruleClipClip (α := α)) := by
  intro p c f h x
  cases p <;> cases c <;> simp [ruleClipClip] at h
  rename_i a b c d
  obtain ⟨r, hr, hf⟩ := of_clip_outcome _ _ h
  obtain ⟨hc, hb⟩ := clip_clip_fire _ _ hr
  have hs := successive_clip_sound _ hc x
  subst hf hb
  unfold ClipClip.check at hc
  simp only [Bool.and_eq_true] at hc
  obtain ⟨⟨⟨ha, hb⟩, hcc⟩, hd⟩ := hc
  simp only [ClipClip.lhs, opd_bound_val _ ha, opd_bound_val _ hb, opd_bound_val _ hcc, opd_bound_val _ hd] at hs
  simp only [COp.eval, ofOption_val]
  rw [hs]; rfl

/-- `successive_clip_relu_rule` as a chain rule. -/
theorem chain_rule_clip_relu_sound (zero : α) : RuleSound zero (ruleClipRelu zero) := by
  intro p c f h x
  cases p <;> cases c <;> simp [ruleClipRelu] at h
  rename_i a b
  obtain ⟨r, hr, hf⟩ := of_clip_outcome _ _ h
  obtain ⟨hc, hb⟩ := (relu_clip_fire zero _ r).1 hr
  have hs := successive_clip_relu_sound zero { a := a.bound, b := b.bound } x
  subst hf hb
  unfold ReluClip.check at hc
  simp only [Bool.and_eq_true] at hc
  obtain ⟨ha, hb⟩ := hc
  simp only [ReluClip.lhsClipRelu, opd_bound_val _ ha, opd_bound_val _ hb] at hs
  simp only [COp.eval, ofOption_val]
  rw [hs]; rfl

/-- `successive_relu_clip_rule` as a chain rule. -/
theorem chain_rule_relu_clip_sound (zero : α) : RuleSound zero (ruleReluClip zero) := by
  intro p c f h x
  cases p <;> cases c <;> simp [ruleReluClip] at h
  rename_i a b
  obtain ⟨r, hr, hf⟩ := of_clip_outcome _ _ h
  obtain ⟨hc, hb⟩ := (relu_clip_fire zero _ r).2 hr
  have hs := successive_relu_clip_sound zero { a := a.bound, b := b.bound } hc x
  subst hf hb
  unfold ReluClip.check at hc
  simp only [Bool.and_eq_true] at hc
  obtain ⟨ha, hb⟩ := hc
  simp only [ReluClip.lhsReluClip, opd_bound_val _ ha, opd_bound_val _ hb] at hs
  simp only [COp.eval, ofOption_val]
  rw [hs]; rfl

/-- `min_min_rule` on binary `Min` nodes with a rank-0 operand (constant: fires; run-time: refuses). -/
theorem chain_rule_min_min_sound (zero : α) : RuleSound zero (ruleMinMin (α := α)) := by
  intro p c f h x
  cases p <;> cases c <;> simp [ruleMinMin] at h
  rename_i c1 c2
  cases c1 <;> cases c2 <;>
    simp [MinMax.run, MOpd.mm, MinMax.consts, MMKind.needScalars, MMConst.isConst, reduceAll, bop, MMConst.rank, MMConst.data, ofMMOutcome] at h
  subst h
  simp [COp.eval, MOpd.val, min_assoc]

/-- `max_max_rule`. -/
theorem chain_rule_max_max_sound (zero : α) : RuleSound zero (ruleMaxMax (α := α)) := by
  intro p c f h x
  cases p <;> cases c <;> simp [ruleMaxMax] at h
  rename_i c1 c2
  cases c1 <;> cases c2 <;>
    simp [MinMax.run, MOpd.mm, MinMax.consts, MMKind.needScalars, MMConst.isConst, reduceAll, bop, MMConst.rank, MMConst.data, ofMMOutcome] at h
  subst h
  simp [COp.eval, MOpd.val, max_assoc]

/-- `max_min_rule`: `Min(Max(x, lb), ub) → Clip(x, lb, ub)` — no bound test needed. -/
theorem chain_rule_max_min_sound (zero : α) : RuleSound zero (ruleMaxMin (α := α)) := by
  intro p c f h x
  cases p <;> cases c <;> simp [ruleMaxMin] at h
  rename_i c1 c2
  cases c1 <;> cases c2 <;>
    simp [MinMax.run, MOpd.mm, MinMax.consts, MMKind.needScalars, MMConst.isConst, MMConst.isScalar, MinMax.rankBad, homogeneous, MinMax.lbs, MinMax.ubs, flatVals, flatReduce, MMConst.rank, MMConst.data, ofMMOutcome] at h
  subst h
  simp [COp.eval, MOpd.val, clip, Opd.val?]

/-- `min_max_rule`: `Max(Min(x, ub), lb) → Clip(x, lb, ub)` fires only when `lb ≤ ub`, which is what makes it sound. -/
theorem chain_rule_min_max_sound (zero : α) : RuleSound zero (ruleMinMax (α := α)) := by
  intro p c f h x
  cases p <;> cases c <;> simp [ruleMinMax] at h
  rename_i c1 c2
  cases c1 <;> cases c2 <;>
    simp [MinMax.run, MOpd.mm, MinMax.consts, MMKind.needScalars, MMConst.isConst, MMConst.isScalar, MinMax.rankBad, homogeneous, MinMax.lbs, MinMax.ubs, flatVals, flatReduce, MMConst.rank, MMConst.data, ofMMOutcome] at h
  split_ifs at h with hlt
  simp at h
  subst h
  simp only [COp.eval, MOpd.val, clip, Opd.val?]
  rw [max_min_distrib_right, max_eq_left (not_lt.mp hlt)]

/-- All eight rules of `_min_max_to_clip.rules` + `_fuse_relus_clips.rules` are sound as chain rules. -/
theorem chain_rules_sound (zero : α) : ∀ r ∈ chainRules zero, RuleSound zero r := by
  intro r hr
  simp only [chainRules, List.mem_cons, List.not_mem_nil, or_false] at hr
  rcases hr with rfl | rfl | rfl | rfl | rfl | rfl | rfl | rfl
  · exact chain_rule_min_min_sound zero
  · exact chain_rule_max_max_sound zero
  · exact chain_rule_min_max_sound zero
  · exact chain_rule_max_min_sound zero
  · exact chain_rule_clip_relu_sound zero
  · exact chain_rule_relu_clip_sound zero
  · exact chain_rule_relu_relu_sound zero
  · exact chain_rule_clip_clip_sound zero

/-- On chain hosts (binary Min/Max, typed values) none of the Min/Max rules can raise: the `raise` outcome of `MinMax.run`
is unreachable, so mapping it to "no rewrite" in `ofMMOutcome` loses nothing. -/
theorem chain_rules_never_raise (k : MMKind) (c1 c2 : MOpd α) :
    MinMax.run { kind := k, first := [c1.mm], second := [c2.mm], xRank := some 0 } ≠ .raises := by
  cases k <;> cases c1 <;> cases c2 <;>
    simp [MinMax.run, MOpd.mm, MinMax.consts, MMKind.needScalars, MMConst.isConst, MMConst.isScalar, MinMax.rankBad, homogeneous,
      MinMax.lbs, MinMax.ubs, flatVals, flatReduce, reduceAll, MMConst.rank, MMConst.data]
  split_ifs <;> simp

omit [LinearOrder α] in
/-- Commit c0ccb25 (finding C04-D14, fixed): the three Clip-producing relu/clip rules **never raise** any more — whatever is
(un)known about element types — … -/
theorem clip_rules_never_raise [Min α] [Max α] (zero : α) :
    (∀ p : ClipClip α, p.run ≠ .raises) ∧ (∀ p : ReluClip α, p.run zero ≠ .raises ∧ p.runReluClip zero ≠ .raises) := by
  refine ⟨fun p => ?_, fun p => ⟨?_, ?_⟩⟩
  · unfold ClipClip.run; split_ifs <;> simp
  · unfold ReluClip.run; split_ifs <;> simp
  · unfold ReluClip.runReluClip; split_ifs <;> simp

omit [LinearOrder α] in
/-- … and they fire only when the element type of the first Clip is known: its input is typed or one of its own bounds is a
constant tensor (`_clip_dtype`); an untyped input with both bounds absent is refused. -/
theorem clip_rules_fire_need_dtype [Min α] [Max α] (zero : α) :
    (∀ (p : ClipClip α) r, p.run = .fire r → clipDtypeKnown p.dtype1 p.a p.b = true) ∧
    (∀ (p : ReluClip α) r, (p.run zero = .fire r ∨ p.runReluClip zero = .fire r) → clipDtypeKnown p.dtype1 p.a p.b = true) ∧
    (∀ (p : ClipClip α), p.dtype1 = false → p.a = .absent → p.b = .absent → p.run = .nofire) := by
  refine ⟨fun p r h => ?_, fun p r h => ?_, fun p h1 ha hb => ?_⟩
  · unfold ClipClip.run at h; split_ifs at h with _ _ hd; simpa using hd
  · rcases h with h | h
    · unfold ReluClip.run at h; split_ifs at h with _ _ hd; simpa using hd
    · unfold ReluClip.runReluClip at h; split_ifs at h with _ _ hd; simpa using hd
  · unfold ClipClip.run clipDtypeKnown; simp [h1, ha, hb, Bound.hasTensor]

/-- **Any rule set of sound rules, one `apply_to_model`**: for every list of rules (any order, any length) each of which is
sound on its own, every chain (any length, any placement of shared intermediates) and every input, the sweep of
`_apply_to_graph_or_function` — first matching rule wins at each node, the replacement is visited again, a shared producer
blocks the match — leaves the final output *and every shared intermediate* unchanged. -/
theorem ruleset_sweep_sound (zero : α) (rules : List (Rule α)) (hr : ∀ r ∈ rules, RuleSound zero r)
    (chain : List (Node α)) (x : α) : outs zero (sweep rules chain) x = outs zero chain x := by
  unfold sweep
  simpa using sweepAcc_sound zero rules hr chain ([], 0) x

omit [LinearOrder α] in
/-- The returned `count` is exactly the number of nodes that disappeared (each of these rewrites replaces two nodes by one). -/
theorem ruleset_count (rules : List (Rule α)) (chain : List (Node α)) :
    (sweep rules chain).length + count rules chain = chain.length := by
  unfold sweep count
  simpa using sweepAcc_count rules chain ([], 0)

/-- **The shipped order rules on one host**: any selection of the eight rules in any order (in particular the order of
`_DEFAULT_REWRITE_RULES`) preserves every observable value of every chain, for every input and every run-time value of the
non-constant operands. -/
theorem chain_sweep_sound (zero : α) (rules : List (Rule α)) (hsub : ∀ r ∈ rules, r ∈ chainRules zero)
    (chain : List (Node α)) (x : α) : outs zero (sweep rules chain) x = outs zero chain x :=
  ruleset_sweep_sound zero rules (fun r h => chain_rules_sound zero r (hsub r h)) chain x

/-- **Every history of calls**: `k` successive `apply_to_model` calls of the same rule set preserve the outputs, for all `k`. -/
theorem chain_apply_history_sound (zero : α) (rules : List (Rule α)) (hr : ∀ r ∈ rules, RuleSound zero r) (k : Nat) :
    ∀ (chain : List (Node α)) (x : α), outs zero (Nat.iterate (sweep rules) k chain) x = outs zero chain x := by
  induction k with
  | zero => intro chain x; rfl
  | succ k ih => intro chain x; rw [Nat.iterate, ih, ruleset_sweep_sound zero rules hr]

omit [LinearOrder α] in
/-- **The second call on a re-used rule set rewrites nothing** (any rules): a sweep ends in a fixpoint, because every adjacent
pair of the result was tested when its later node was visited or created. -/
theorem ruleset_second_call_noop (rules : List (Rule α)) (chain : List (Node α)) :
    sweep rules (sweep rules chain) = sweep rules chain ∧ count rules (sweep rules chain) = 0 :=
  sweep_fixpoint rules chain

/-- The eight target patterns are pairwise disjoint: rule `i` can only fire on a (producer, consumer) pair of slot `i`. -/
theorem chain_rules_slot (zero : α) (i : Nat) (hi : i < (chainRules zero).length) (p c f : COp α)
    (h : (chainRules zero)[i] p c = some f) : pairSlot p c = some i := by
  simp only [chainRules, List.length_cons, List.length_nil] at hi
  match i, hi with
  | 0, _ => cases p <;> cases c <;> simp_all [chainRules, ruleMinMin, pairSlot]
  | 1, _ => cases p <;> cases c <;> simp_all [chainRules, ruleMaxMax, pairSlot]
  | 2, _ => cases p <;> cases c <;> simp_all [chainRules, ruleMinMax, pairSlot]
  | 3, _ => cases p <;> cases c <;> simp_all [chainRules, ruleMaxMin, pairSlot]
  | 4, _ => cases p <;> cases c <;> simp_all [chainRules, ruleClipRelu, pairSlot]
  | 5, _ => cases p <;> cases c <;> simp_all [chainRules, ruleReluClip, pairSlot]
  | 6, _ => cases p <;> cases c <;> simp_all [chainRules, ruleReluRelu, pairSlot]
  | 7, _ => cases p <;> cases c <;> simp_all [chainRules, ruleClipClip, pairSlot]

/-- **First-match-wins does not matter for these rules**: for every permutation of the eight rules the driver picks the same
replacement at every node … -/
theorem chain_first_match_order_irrelevant (zero : α) (rules : List (Rule α)) (hperm : rules.Perm (chainRules zero))
    (p c : COp α) : firstMatch rules p c = firstMatch (chainRules zero) p c := by
  have hfun : ∀ r1 ∈ chainRules zero, ∀ r2 ∈ chainRules zero, ∀ f1 f2, r1 p c = some f1 → r2 p c = some f2 → f1 = f2 := by
    intro r1 h1 r2 h2 f1 f2 e1 e2
    obtain ⟨i, hi, rfl⟩ := List.getElem_of_mem h1
    obtain ⟨j, hj, rfl⟩ := List.getElem_of_mem h2
    have s1 := chain_rules_slot zero i hi p c f1 e1
    have s2 := chain_rules_slot zero j hj p c f2 e2
    have : i = j := by rw [s1] at s2; exact Option.some.inj s2
    subst this
    rw [e1] at e2; exact Option.some.inj e2
  have hfun' : ∀ r1 ∈ rules, ∀ r2 ∈ rules, ∀ f1 f2, r1 p c = some f1 → r2 p c = some f2 → f1 = f2 :=
    fun r1 h1 r2 h2 => hfun r1 (hperm.mem_iff.mp h1) r2 (hperm.mem_iff.mp h2)
  apply Option.ext
  intro f
  rw [firstMatch_eq_some_iff rules p c hfun' f, firstMatch_eq_some_iff _ p c hfun f]
  constructor <;> rintro ⟨r, hm, hr⟩
  · exact ⟨r, hperm.mem_iff.mp hm, hr⟩
  · exact ⟨r, hperm.mem_iff.mpr hm, hr⟩

/-- … hence the rewritten chain and the count do not depend on the order of the rules in the set. -/
theorem chain_sweep_order_irrelevant (zero : α) (rules : List (Rule α)) (hperm : rules.Perm (chainRules zero))
    (chain : List (Node α)) :
    sweep rules chain = sweep (chainRules zero) chain ∧ count rules chain = count (chainRules zero) chain := by
  unfold sweep count
  rw [sweepAcc_congr rules (chainRules zero) (chain_first_match_order_irrelevant zero rules hperm)]
  exact ⟨rfl, rfl⟩

/-- Order *does* matter for rule sets in general (which is why the model keeps `firstMatch`): two sound rules with the same
target, different replacements. -/
theorem first_match_wins_in_general :
    ∃ (r1 r2 : Rule Int) (p c : COp Int), firstMatch [r1, r2] p c ≠ firstMatch [r2, r1] p c := by
  refine ⟨fun _ _ => some .relu, fun _ _ => some (.clip (.const 0) .absent), .relu, .relu, ?_⟩
  decide

-- non-vacuity / concrete sweeps (Int, zero = 0)
-- Relu; Min(·,-2); Max(·,-5): (Relu, Min) has no rule, Max∘Min becomes Clip(-5,-2), which is visited again and fused with Relu: count 2
example : sweep (chainRules (0 : Int)) [⟨.relu, false⟩, ⟨.mn (.const (-2)), false⟩, ⟨.mx (.const (-5)), true⟩]
      = [⟨.clip (.const 0) (.const (-2)), true⟩] ∧
    count (chainRules (0 : Int)) [⟨.relu, false⟩, ⟨.mn (.const (-2)), false⟩, ⟨.mx (.const (-5)), true⟩] = 2 := by decide
-- a shared intermediate blocks one fusion; a run-time bound blocks another
example : sweep (chainRules (0 : Int)) [⟨.clip (.const 0) (.const 5), false⟩, ⟨.clip (.const 1) (.const 4), true⟩, ⟨.clip (.const 2) (.const 3), false⟩,
        ⟨.clip (.dyn 7) .absent, false⟩, ⟨.relu, true⟩]
      = [⟨.clip (.const 1) (.const 4), true⟩, ⟨.clip (.const 2) (.const 3), false⟩, ⟨.clip (.dyn 7) .absent, false⟩, ⟨.relu, true⟩] := by decide
-- a reversed rule list is a permutation of the eight rules
example : ((chainRules (0 : Int)).reverse).Perm (chainRules 0) := List.reverse_perm _
example : ∀ r ∈ [ruleClipClip (α := Int), ruleMinMax], r ∈ chainRules (0 : Int) := by simp [chainRules]

end RuleSet

/-! ## Non-vacuity: concrete instances satisfying the hypotheses of the theorems above -/
section NonVacuity
open OV.C05.Order OV.C05.Shape OV.C05.Unit OV.C05.Linalg

-- successive_clip_sound: Clip(Clip(x,0,6),1,4) fires, fused bounds [1,4]; a disjoint pair gives [5,5]
example : let p : ClipClip Int := { a := .const 0, b := .const 6, c := .const 1, d := .const 4 }
    p.check = true ∧ p.run = .fire { lo := some 1, hi := some 4 } ∧ p.lhs 9 = 4 := by decide
-- successive_relu_clip_sound: Relu(Clip(x,-2,5)) and Relu(Clip(x,-5,-1))
example : let p : ReluClip Int := { a := .const (-2), b := .const 5 }
    p.check = true ∧ p.runReluClip 0 = .fire { lo := some 0, hi := some 5 } := by decide
-- a graph-input bound blocks the relu/clip rules
example : (ClipClip.check ({ a := .constInput 0, b := .absent, c := .absent, d := .absent } : ClipClip Int)) = false := by decide
-- min_max fires only with lb ≤ ub
example : (MinMax.run ({ kind := .minMax, first := [.const 0 [5]], second := [.const 0 [1]] } : MinMax Int)) = .fire (.clip 1 5) ∧
    (MinMax.run ({ kind := .minMax, first := [.const 0 [1]], second := [.const 0 [5]] } : MinMax Int)) = .nofire := by decide
-- unit laws: exact zero fires and is exact; 1.2e-8 does not fire; rank-1 zero does not fire
example : (Params.check { op := .add, constOnLeft := true, origin := .constantNode, rank := 0, value := 0 }) = true ∧
    (Params.exact { op := .add, constOnLeft := true, origin := .constantNode, rank := 0, value := 0 }) = true ∧
    (Params.check { op := .add, constOnLeft := false, origin := .initializer, rank := 0, value := 12 / 1000000000 }) = false ∧
    (Params.check { op := .add, constOnLeft := false, origin := .initializer, rank := 1, value := 0 }) = false ∧
    (Params.check { op := .sub, constOnLeft := true, origin := .initializer, rank := 0, value := 0 }) = false := by decide +kernel
-- transposes: rank 3
example : validPerm [1, 2, 0] 3 = true ∧ composePerms [1, 2, 0] [1, 2, 0] = [2, 0, 1] ∧
    transposeTransposeRun [1, 2, 0] [2, 0, 1] = .fire .identity := by decide
-- flatten: 2×3×4 at axis 1 (all dims positive)
example : flattenToReshapeRun (some [.known 2, .known 3, .known 4]) 1 none = .fire [2, 12] ∧
    specReshape [2, 3, 4] [2, 12] false = some [2, 12] := by decide
-- reshape∘reshape: (2,3) → (3,2) → [0,3] becomes Reshape(x, [-1,3])
example : reshapeReshapeRun (some [0, 3]) none 0 = .fire { shape := [-1, 3], allowzero := none } ∧
    specReshape [3, 2] [0, 3] false = none ∧ specReshape [3, 3] [0, 3] false = some [3, 3] := by decide
-- materialize: annotated [N, 4] → [-1, 4], no zero beside -1
example : materializeReshapeRun false (some [.sym "N", .known 4]) = .fire { shape := [-1, 4], allowzero := some 1 } ∧
    specReshape [12] [-1, 4] true = some [3, 4] := by decide
-- collapse_slice: data [2,5], axis -1, end 7
example : collapseSliceRun (some [.known 2, .known 5]) (.one 0) (.one 7) (.one (-1)) (.one 1) = .fire () ∧
    pyIndex [Dim.known 2, Dim.known 5] (-1) = some (.known 5) := by decide
-- static scatter
example : staticScatterRun true (some [.known 2, .known 3]) (some [.known 2, .known 3]) (some [[0], [1]]) = .fire () ∧
    staticScatterRun true (some [.sym "N", .known 3]) (some [.sym "N", .known 3]) (some [[0], [1]]) = .nofire := by decide
-- pads: Pad [0,0,1,0,0,2] into Conv pads [1,0]
example : padConvRun { xRank := some 3, mode := none, pads := .const [0, 0, 1, 0, 0, 2], constantValue := .absent, axes := .absent, autoPad := "NOTSET", convPads := some [1, 0] } = .fire [2, 2] := by decide
-- gemm: C of shape [4] fits (2,4)
example : matmulAddCheck (some 2) (some 2) 2 4 (some [4]) = true ∧ matmulAddCheck (some 2) (some 2) 2 4 (some []) = true ∧
    matmulAddCheck (some 2) (some 2) 2 4 (some [2, 1]) = true ∧ matmulAddCheck (some 2) (some 3) 2 4 (some [4]) = false := by decide

-- expand_before_binary_sound: strategy 2 with a symbolic dim, strategy 3, strategy 1; and a refusal
example : OV.C09.expandRuleFires "Add" 0 true (OV.C09.expandRemovable (some [.sym "N", .known 1]) (some [.known 3]) none (some [.sym "N", .known 3]) none) = true ∧
    OV.C09.expandRuleFires "Mul" 1 true (OV.C09.expandRemovable (some [.sym "N", .known 1]) (some [.known 1, .sym "M"]) none none (some [.sym "N", .sym "M"])) = true ∧
    OV.C09.expandRuleFires "Sub" 0 true (OV.C09.expandRemovable (some [.known 1]) (some [.known 3]) (some [3]) none none) = true ∧
    OV.C09.expandRuleFires "Add" 0 true (OV.C09.expandRemovable (some [.sym "N"]) (some [.known 3]) none (some [.sym "K"]) none) = false := by decide

end NonVacuity

end OV.Props.C05
