import OV.Model.C05Order
import OV.Model.C05Unit
import OV.Model.C05Shape
import OV.Model.C05Linalg
import OV.Model.C05Table
import OV.Lemmas.C05
import OV.Lemmas.C05Shape
import OV.Lemmas.C05Algebra
import Mathlib.Order.MinMax
import Mathlib.Tactic.Order
import Mathlib.Tactic.SplitIfs
import Mathlib.Tactic.Ring
import Mathlib.Tactic.FieldSimp
import Mathlib.Algebra.Order.Field.Basic
/-!
# C05 — each shipped rewrite rule preserves semantics wherever it fires

Property theorems only.  Models: `OV/Model/C05*.lean`; rule table: `OV/Gen/C05RuleTable.lean` (regenerated from
/repo on every run).  Shape of every rule theorem: `R.check p = true → ∀ x, lhs p x = rhs (R.build p) x`.
Where the unchanged code violates this, the full statement is *refuted* from a witness that is replayed on the
real code, and `…_partial` carries the hypothesis the proof forces (the complement of the finding's predicate).
-/
namespace OV.Props.C05
open OV.C05

/-! ## Rule table (translator tie) -/

/-- Every rule of the optimizer's default set `_DEFAULT_REWRITE_RULES` is either covered by a theorem below or
explicitly listed as unproved: a new, renamed or re-exported rule breaks this obligation. -/
theorem default_rules_covered :
    ∀ r ∈ OV.Gen.C05.defaultRules, r ∈ Table.provedRules ∨ r ∈ Table.listedUnproved := by decide +kernel

/-- The same for everything exported by `rules.common` / found in `rules.fusion`. -/
theorem exported_rules_covered :
    ∀ r ∈ OV.Gen.C05.exportedRules, r ∈ Table.provedRules ∨ r ∈ Table.listedUnproved := by decide +kernel

/-- Every regenerated row still has the target-pattern skeleton (ops, literals **with their tolerances**, attribute
literals, `_allow_other_inputs/attributes`) and the `remove_nodes` flag the models were transcribed against. -/
theorem skeletons_as_modelled :
    ∀ r ∈ OV.Gen.C05.rows, r.source = "fusion" ∨ Table.lookup r.key = some (r.skeleton, r.removeNodes) := by
  decide +kernel

/-- No rule is claimed both ways. -/
theorem proved_unproved_disjoint : ∀ r ∈ Table.provedRules, r ∉ Table.listedUnproved := by decide +kernel

/-! ## Order algebra (any linear order) -/
section Order
open OV.C05.Order
variable {α : Type} [LinearOrder α]

/-- `successive_relu`: `Relu(Relu(x)) = Relu(x)`. -/
theorem successive_relu_sound (zero x : α) : relu zero (relu zero x) = relu zero x := by
  unfold relu; grind

/-- The exact closed form of two successive Clips with all four bounds (what fix F3 installs). -/
theorem clip_clip_exact (a b c d x : α) :
    clip (some c) (some d) (clip (some a) (some b) x) = clip (some (max a c)) (some (min (max b c) d)) x := by
  unfold clip; grind

/-- **`successive_clip`** (`FuseSuccessiveClip` as it is after fix F3, commit b85b7db): for every combination of
present/absent constant bounds and every `x`, `Clip(Clip(x,a,b),c,d) = Clip(x, lo', hi')` with the constants
`rewrite()` computes (`lo' = max a c`, `hi' = min (max b c) d`). -/
theorem successive_clip_sound (p : ClipClip α) (_hcheck : p.check = true) (x : α) :
    p.lhs x = p.build.rhs x := by
  unfold ClipClip.lhs ClipClip.build ClipRepl.rhs clip combine
  rcases p.a.val? with _ | a <;> rcases p.b.val? with _ | b <;> rcases p.c.val? with _ | c <;>
    rcases p.d.val? with _ | d <;> simp only [] <;> grind

/-- Documentation of finding D2 (fixed): the **pre-fix** formula `hi' = min b d` agrees with the two Clips exactly
outside the region `b < c ∧ b < d` … -/
theorem successive_clip_prefix_sound_outside_d2 (p : ClipClip α) (hD2 : p.d2 = false) (x : α) :
    p.lhs x = p.buildPrefix.rhs x := by
  unfold ClipClip.d2 at hD2
  unfold ClipClip.lhs ClipClip.buildPrefix ClipRepl.rhs clip combine
  generalize p.a.val? = oa at *; generalize p.b.val? = ob at *
  generalize p.c.val? = oc at *; generalize p.d.val? = od at *
  rcases oa with _ | a <;> rcases ob with _ | b <;> rcases oc with _ | c <;> rcases od with _ | d <;>
    simp only [] at hD2 ⊢ <;>
    (try simp only [Bool.and_eq_false_iff, decide_eq_false_iff_not, not_lt, Bool.and_true] at hD2) <;> grind

/-- … and inside it was wrong **for every input** (the two Clips give `min c d`, the old fused Clip gave `b`). -/
theorem successive_clip_prefix_unsound_in_d2 (a b c d x : α) (h1 : b < c) (h2 : b < d) :
    clip (some c) (some d) (clip (some a) (some b) x) ≠ clip (some (max a c)) (some (min b d)) x := by
  unfold clip; grind

/-- Pre-fix statement refuted (witness D2: `Clip(Clip(x,0,1),5,10)` at `x = 0` over `Int`: 5 vs 1); the same witness
now satisfies the theorem above (`build` gives `[5, 5]`). -/
theorem successive_clip_prefix_refuted :
    ¬ (∀ (p : ClipClip Int), p.check = true → ∀ x, p.lhs x = p.buildPrefix.rhs x) ∧
    (ClipClip.build ({ a := .const 0, b := .const 1, c := .const 5, d := .const 10 } : ClipClip Int)) = { lo := some 5, hi := some 5 } := by
  refine ⟨?_, by decide⟩
  intro h
  have := h { a := .const 0, b := .const 1, c := .const 5, d := .const 10 } (by decide) 0
  revert this; decide

/-- `successive_clip_relu`: `Clip(Relu(x), a?, b?) = Clip(x, max 0 (a or 0), b?)` for all bounds. -/
theorem successive_clip_relu_sound (zero : α) (p : ReluClip α) (x : α) :
    p.lhsClipRelu zero x = (p.build zero).rhs x := by
  unfold ReluClip.lhsClipRelu ReluClip.build ClipRepl.rhs clip relu
  rcases p.a.val? with _ | a <;> rcases p.b.val? with _ | b <;> simp only [Option.getD] <;> grind

/-- **`successive_relu_clip`** (`FuseSuccessiveReluClip` after fix F4, commit 979daa2): for all present/absent bounds
and every `x`, `Relu(Clip(x,a,b)) = Clip(x, max 0 (a or 0), max 0 b)`. -/
theorem successive_relu_clip_sound (zero : α) (p : ReluClip α) (_hcheck : p.check = true) (x : α) :
    p.lhsReluClip zero x = (p.buildReluClip zero).rhs x := by
  unfold ReluClip.lhsReluClip ReluClip.buildReluClip ClipRepl.rhs clip relu
  rcases p.a.val? with _ | a <;> rcases p.b.val? with _ | b <;> simp only [Option.getD, Option.map] <;> grind

/-- Documentation of finding D1 (fixed): the pre-fix formula (`hi' = b`, inherited from `Clip∘Relu`) was right only
when the upper bound is absent or non-negative … -/
theorem successive_relu_clip_prefix_sound_outside_d1 (zero : α) (p : ReluClip α)
    (hD1 : p.d1 zero = false) (x : α) : p.lhsReluClip zero x = (p.build zero).rhs x := by
  unfold ReluClip.d1 at hD1
  unfold ReluClip.lhsReluClip ReluClip.build ClipRepl.rhs clip relu
  generalize p.a.val? = oa at *; generalize p.b.val? = ob at *
  rcases oa with _ | a <;> rcases ob with _ | b <;> simp only [Option.getD] at hD1 ⊢ <;>
    (try simp only [decide_eq_false_iff_not, not_lt] at hD1) <;> grind

/-- … and wrong for every input with a negative upper bound (`0` vs `b`). -/
theorem successive_relu_clip_prefix_unsound_in_d1 (zero a b x : α) (h : b < zero) :
    relu zero (clip (some a) (some b) x) ≠ clip (some (max zero a)) (some b) x := by
  unfold clip relu; grind

/-- Pre-fix statement refuted (witness D1: `Relu(Clip(x,-5,-1))` at `x = 2`: `0` vs `-1`); the same witness now
yields `Clip(x, 0, 0)`. -/
theorem successive_relu_clip_prefix_refuted :
    ¬ (∀ (p : ReluClip Int), p.check = true → ∀ x, p.lhsReluClip 0 x = (p.build 0).rhs x) ∧
    (ReluClip.buildReluClip 0 ({ a := .const (-5), b := .const (-1) } : ReluClip Int)) = { lo := some 0, hi := some 0 } := by
  refine ⟨?_, by decide⟩
  intro h
  have := h { a := .const (-5), b := .const (-1) } (by decide) 2
  revert this; decide

/-! ### Min / Max fusion -/

/-- `min_min`: `Min(Min(x, cs…), ds…) = Min(x, m)` where `m` is the reduction of all constants (per element). -/
theorem min_min_sound (p : MinMax α) (hk : p.kind = .minMin) (m : α)
    (hm : flatReduce min (flatVals p.first ++ flatVals p.second) = some m) (x : α) :
    p.lhs x = min x m := by
  unfold MinMax.lhs; simp only [hk]
  rw [← List.foldl_append, OV.Lemmas.C05.foldl_eq_flatReduce min (fun a b c => min_assoc a b c), hm]

/-- `max_max`: `Max(Max(x, cs…), ds…) = Max(x, m)`. -/
theorem max_max_sound (p : MinMax α) (hk : p.kind = .maxMax) (m : α)
    (hm : flatReduce max (flatVals p.first ++ flatVals p.second) = some m) (x : α) :
    p.lhs x = max x m := by
  unfold MinMax.lhs; simp only [hk]
  rw [← List.foldl_append, OV.Lemmas.C05.foldl_eq_flatReduce max (fun a b c => max_assoc a b c), hm]

/-- `max_min`: `Min(Max(x, lbs…), ubs…) = Clip(x, max lbs, min ubs)` — for all bounds, also `lb > ub`. -/
theorem max_min_sound (p : MinMax α) (hk : p.kind = .maxMin) (l u : α)
    (hl : flatReduce max (flatVals p.first) = some l) (hu : flatReduce min (flatVals p.second) = some u) (x : α) :
    p.lhs x = clip (some l) (some u) x := by
  unfold MinMax.lhs clip; simp only [hk]
  rw [OV.Lemmas.C05.foldl_eq_flatReduce max (fun a b c => max_assoc a b c), hl,
      OV.Lemmas.C05.foldl_eq_flatReduce min (fun a b c => min_assoc a b c), hu]

/-- `min_max`: `Max(Min(x, ubs…), lbs…) = Clip(x, max lbs, min ubs)` under the bound test of `check`
(`lower_bound ≤ upper_bound`; without it the two differ, which is why the rule tests it). -/
theorem min_max_sound (p : MinMax α) (hk : p.kind = .minMax) (l u : α)
    (hu : flatReduce min (flatVals p.first) = some u) (hl : flatReduce max (flatVals p.second) = some l)
    (hcheck : ¬ u < l) (x : α) :
    p.lhs x = clip (some l) (some u) x := by
  unfold MinMax.lhs clip; simp only [hk]
  rw [OV.Lemmas.C05.foldl_eq_flatReduce min (fun a b c => min_assoc a b c), hu,
      OV.Lemmas.C05.foldl_eq_flatReduce max (fun a b c => max_assoc a b c), hl]
  grind

/-- The bound test is what `run` establishes when it fires for `min_max`. -/
theorem min_max_fire_bounds (p : MinMax Int) (hk : p.kind = .minMax) (l u : Int)
    (hfire : p.run = .fire (.clip l u)) : ¬ u < l := by
  unfold MinMax.run at hfire
  simp only [hk] at hfire
  split at hfire
  · exact absurd hfire (by simp)
  · split at hfire
    · exact absurd hfire (by simp)
    · split at hfire
      · rename_i l' u' _ _
        split at hfire
        · exact absurd hfire (by simp)
        · rename_i hlu
          simp only [Outcome.fire.injEq, MMRepl.clip.injEq] at hfire
          obtain ⟨h1, h2⟩ := hfire
          subst h1; subst h2; exact hlu
      · exact absurd hfire (by simp)

omit [LinearOrder α] in
/-- Rank of the result: the Clip emitted by `max_min`/`min_max` keeps `x`'s rank, the original keeps the
broadcast rank; they agree when no constant has a rank above `x`'s (`d4 = false`). -/
theorem clip_fusion_rank_partial (p : MinMax α) (rx : Nat) (hD4 : p.consts.any (fun c => rx < c.rank) = false) :
    p.lhsRank rx = rx := by
  unfold MinMax.lhsRank
  have : ∀ (l : List (MMConst α)) (r : Nat), (l.any (fun c => r < c.rank) = false) →
      l.foldl (fun r c => if r < c.rank then c.rank else r) r = r := by
    intro l
    induction l with
    | nil => intro r _; rfl
    | cons c l ih =>
      intro r h
      simp only [List.any_cons, Bool.or_eq_false_iff, decide_eq_false_iff_not] at h
      simp only [List.foldl_cons, if_neg h.1]
      exact ih r h.2
  exact this _ _ hD4

/-- Finding D4: `Min(Max(x:[3], [[0]]), [[1]])` has rank 2, `Clip(x, 0, 1)` rank 1 — and the rule fires. -/
theorem clip_fusion_rank_refuted :
    ¬ (∀ (p : MinMax Int) (rx : Nat) (l u : Int), p.run = .fire (.clip l u) → p.lhsRank rx = rx) := by
  intro h
  have := h { kind := .maxMin, first := [.const 2 [0]], second := [.const 2 [1]] } 1 0 1 (by decide)
  revert this; decide

end Order

/-! ## Permutations, axes, reshape family, slices, scatter (all ranks, all dimension sizes) -/
section Shape
open OV.C05.Shape
open OV.Lemmas.C05Shape

/-- `transpose_transpose`: for every rank `n` and every two valid permutations, the single `Transpose` the rule
emits (`perm = _apply_transposes([perm1, perm2])`) moves every axis — of the shape *and of every element's
multi-index* (`s` is any list) — exactly where the two original transposes move it. -/
theorem transpose_transpose_sound (p1 p2 s : List Nat) (n : Nat) (hs : s.length = n)
    (h1 : validPerm p1 n = true) (h2 : validPerm p2 n = true) :
    specTransposeShape p2 (specTransposeShape p1 s) = specTransposeShape (composePerms p1 p2) s :=
  transpose_transpose p1 p2 s n hs h1 h2

/-- …and when the composed permutation is the identity the rule emits `Identity`, which is right. -/
theorem transpose_transpose_identity_sound (p1 p2 s : List Nat) (n : Nat) (hs : s.length = n)
    (h1 : validPerm p1 n = true) (h2 : validPerm p2 n = true) (hid : composePerms p1 p2 = List.range n) :
    specTransposeShape p2 (specTransposeShape p1 s) = s :=
  transpose_transpose_identity p1 p2 s n hs h1 h2 hid

/-- The composed permutation is `i ↦ perm1[perm2[i]]` (what ONNX `Transpose ∘ Transpose` means). -/
theorem transpose_compose_pointwise (p1 p2 : List Nat) (n : Nat) (h1 : validPerm p1 n = true)
    (h2 : validPerm p2 n = true) (i : Nat) (hi : i < n) :
    (composePerms p1 p2).getD i 0 = p1.getD (p2.getD i 0) 0 :=
  compose_getD p1 p2 n h1 h2 i hi

/-- `no_op_transpose`: when `check` passes (`perm = range(len(perm))`) the transpose is the identity on
shapes and multi-indices of that rank. -/
theorem no_op_transpose_sound (perm : List Int) (s : List Nat) (h : noOpTransposeCheck perm = true)
    (hs : s.length = perm.length) : specTransposeShape (perm.map Int.toNat) s = s :=
  noop_transpose perm s h hs

/-- `unsqueeze_unsqueeze`: for every input shape and all valid non-negative axes, the axes list the rule
computes (`[v1, v2]` if `v1 < v2` else `[v2, v1+1]`) yields the shape of the two successive Unsqueezes
(row-major data are untouched by Unsqueeze, so equal shapes mean equal tensors). -/
theorem unsqueeze_unsqueeze_sound (s : List Nat) (v1 v2 : Nat) (h1 : v1 ≤ s.length) (h2 : v2 ≤ s.length + 1) :
    specUnsqueeze1 (specUnsqueeze1 s v1) v2 = specUnsqueezeSorted s (if v1 < v2 then [v1, v2] else [v2, v1 + 1]) :=
  unsqueeze_unsqueeze s v1 v2 h1 h2

/-- The model's `rewrite` produces exactly that list (ties the theorem above to `unsqueezeUnsqueezeRun`). -/
theorem unsqueeze_unsqueeze_build (v1 v2 : Nat) :
    unsqueezeUnsqueezeRun (some (v1 : Int)) (some (v2 : Int)) =
      .fire ((if v1 < v2 then [v1, v2] else [v2, v1 + 1]).map Int.ofNat) := by
  unfold unsqueezeUnsqueezeRun
  have h1 : ¬ ((v1 : Int) < 0) := by omega
  have h2 : ¬ ((v2 : Int) < 0) := by omega
  simp only [h1, h2, decide_false, Bool.or_self, Bool.false_eq_true, if_false]
  by_cases h : v1 < v2
  · have : (v1 : Int) < v2 := by omega
    simp [h, this]
  · have : ¬ (v1 : Int) < v2 := by omega
    simp [h, this]

/-- `squeeze_reshape_1d`: for a 1-D input of any length `n` (0 and 1 included), `Reshape(Squeeze(x), [-1])` has shape `[n]`. -/
theorem squeeze_reshape_1d_sound (n : Nat) : specReshape (specSqueezeAll [n]) [-1] false = some [n] :=
  squeeze_reshape_1d n

/-- `flatten_to_reshape`, static shapes: the rule fires with the two products as target … -/
theorem flatten_to_reshape_fires (s : List Nat) (axis : Nat) (hax : axis ≤ s.length) :
    flattenToReshapeRun (some (s.map Dim.known)) (axis : Int) none =
      .fire [ (prodNat (s.take axis) : Int), (prodNat (s.drop axis) : Int) ] :=
  flatten_fires s axis hax

/-- … and that target reshapes to the Flatten result **provided no dimension is 0** (`_partial`: with a 0 the
emitted `0` means "copy the input dim" — finding D6). -/
theorem flatten_to_reshape_sound_partial (s : List Nat) (hpos : ∀ d ∈ s, 0 < d) (axis : Nat) (hax : axis ≤ s.length) :
    specReshape s [ (prodNat (s.take axis) : Int), (prodNat (s.drop axis) : Int) ] false = some (specFlatten s axis) :=
  flatten_reshape_sound s hpos axis hax

/-- Finding D6 witness: `Flatten(axis=2)` of `2×0×3` → target `[0,3]`, which is not the Flatten shape `[0,3]`… it
resolves to `[2,3]` (size mismatch → error). -/
theorem flatten_to_reshape_full_refuted :
    ¬ (∀ (s : List Nat) (axis : Nat), axis ≤ s.length →
        specReshape s [ (prodNat (s.take axis) : Int), (prodNat (s.drop axis) : Int) ] false = some (specFlatten s axis)) := by
  intro h
  have := h [2, 0, 3] 2 (by decide)
  revert this; decide

/-- `reshape_reshape` (no output annotation): whatever the intermediate shape `s1` was, if the second Reshape
was valid and produced `t`, the fused `Reshape(x, shape', allowzero')` produces `t` from the original input —
covers `allowzero=1` with zeros, targets without zeros, and the single-`0`→`-1` replacement, incl. size-0 tensors. -/
theorem reshape_reshape_sound (s0 s1 : List Nat) (sh : List Int) (az : Int) (t : List Nat) (r : RRRepl)
    (h1 : specReshape s1 sh (az == 1) = some t) (hsz : prodNat s0 = prodNat s1)
    (hf : reshapeReshapeRun (some sh) none az = .fire r) :
    specReshape s0 r.shape (r.allowzero == some 1) = some t :=
  OV.Lemmas.C05Shape.reshape_reshape_sound s0 s1 sh az t r h1 hsz hf

/-- `no_op_expand`: when `check` passes on a fully static annotation, expanding to that shape is the identity. -/
theorem no_op_expand_sound (xs : Shape) (sh : List Int) (s : List Nat)
    (h : noOpExpandCheck (some xs) (some sh) = true) (hc : xs = s.map Dim.known) :
    specBroadcast s (sh.map Int.toNat) = some s :=
  expand_identity xs sh s h hc

/-- **`materialize_reshape_shape`** (after commit 49df852, which refuses a static 0 beside the symbolic dim): for every
runtime shape `s` consistent with the annotated output shape, the materialised constant (`-1` for the one symbolic dim,
`allowzero=1`) reshapes any input of the right size to `s`. -/
theorem materialize_reshape_sound (os : Shape) (r : RRRepl) (sIn s : List Nat)
    (hfire : materializeReshapeRun false (some os) = .fire r)
    (hcons : os.length = s.length ∧ ∀ i (h : i < os.length), ∀ k, os[i] = Dim.known k → s[i]! = k)
    (hsize : prodNat sIn = prodNat s) :
    specReshape sIn r.shape true = some s :=
  materialize_sound os r sIn s hfire hcons hsize

/-- What the new guard buys: a fired rule never emits a target with both `0` and `-1`. -/
theorem materialize_reshape_no_zero_beside_neg (os : Shape) (r : RRRepl)
    (hfire : materializeReshapeRun false (some os) = .fire r) :
    ¬ (r.shape.any (· == 0) && r.shape.any (· == -1)) = true :=
  materialize_fire_no_zero_neg os r hfire

/-- Documentation of finding D16c2 (fixed): the target `[-1, 0]` the pre-fix rule emitted for an output annotated `[N, 0]`
is invalid although the original reshape to `[3, 0]` is fine; the rule now refuses that annotation. -/
theorem materialize_reshape_prefix_refuted :
    specReshape [3, 0] [-1, 0] true = none ∧ specReshape [3, 0] [3, 0] true = some [3, 0] ∧
    materializeReshapeRun false (some [.sym "N", .known 0]) = .nofire := by decide

/-- `collapse_slice`: when `check` passes for a static dim `d` of the sliced axis, the slice keeps all `d` elements
(start 0, step 1, end ≥ d or INT64_MAX), i.e. is the identity along that axis. -/
theorem collapse_slice_sound (xs : Shape) (en ax : Int) (d : Nat)
    (hfire : collapseSliceRun (some xs) (.one 0) (.one en) (.one ax) (.one 1) = .fire ())
    (hidx : pyIndex xs ax = some (.known d)) (hmax : en = int64Max → (d : Int) ≤ int64Max) :
    specSliceLen01 d en = d :=
  OV.Lemmas.C05Shape.collapse_slice_sound xs en ax d hfire hidx hmax

/-- `no_op_static_scatter_nd` with `reduction = none`: scattering `updates` over the full index range
`[[0],…,[n-1]]` of a same-shaped `data` gives `updates`, for every `n` and every row type. -/
theorem static_scatter_sound_partial {ρ : Type} (data upd : List ρ) (h : data.length = upd.length) :
    specScatterRows (fun _ u => u) data (List.range upd.length) upd = upd :=
  scatter_full_range data upd h

/-- Finding C05-N4: the rule does not look at `reduction`; with `add` the result is `data + updates`. -/
theorem static_scatter_reduction_refuted :
    staticScatterRun (some [.known 3]) (some [.known 3]) (some [[0], [1], [2]]) = .fire () ∧
    specScatterRows (fun (a b : Int) => a + b) [1, 1, 1] [0, 1, 2] [5, 5, 5] ≠ [5, 5, 5] := by decide

end Shape

/-! ## Unit laws and the matcher's literal tolerance (carrier ℚ, exact arithmetic) -/
section Unit
open OV.C05.Unit

/-- `add_0` / `sub_0` / `mul_by_1` / `div_by_1` (+ commuted forms): whenever the rule set fires **and the constant
is exactly the unit and a true constant** (`exact`), the matched node is the identity on every `x`.
`_partial`: `check` alone only gives `isclose(c, unit, rel 1e-5, abs 1e-8)` (finding D3) and accepts an
initializer that is also a graph input (finding C05-N1). -/
theorem unit_laws_sound_partial (p : Params) (_hfire : p.check = true) (hex : p.exact = true) (x : Rat) :
    p.op.apply x p.value = x := by
  unfold Params.exact at hex
  simp only [Bool.and_eq_true, beq_iff_eq] at hex
  obtain ⟨hv, _⟩ := hex
  rw [hv]
  cases p.op <;> simp [Op.apply, Op.literal]

/-- The exactness hypothesis is necessary, not merely sufficient: `x + c = x` for all `x` iff `c = 0` … -/
theorem add_identity_iff (c : Rat) : (∀ x : Rat, x + c = x) ↔ c = 0 := by
  constructor
  · intro h; have := h 0; simpa using this
  · intro h x; simp [h]

/-- … and `x * c = x` for all `x` iff `c = 1`. -/
theorem mul_identity_iff (c : Rat) : (∀ x : Rat, x * c = x) ↔ c = 1 := by
  constructor
  · intro h; have := h 1; simpa using this
  · intro h x; simp [h]

/-- Finding D3 (add): the rule fires on `x + 1e-9` (rank-0 initializer) and `0 + 1e-9 ≠ 0`. -/
theorem add_0_full_refuted :
    ¬ (∀ p : Params, p.check = true → ∀ x : Rat, p.op.apply x p.value = x) := by
  intro h
  have := h { op := .add, constOnLeft := false, origin := .initializer, rank := 0, value := 1 / 1000000000 }
    (by decide +kernel) 0
  simp [Op.apply] at this

/-- Finding D3 (mul): the rule fires on `x * 1.000005` and `1 * 1.000005 ≠ 1`. -/
theorem mul_by_1_full_refuted :
    ¬ (∀ p : Params, p.check = true → p.op = .mul → ∀ x : Rat, p.op.apply x p.value = x) := by
  intro h
  have := h { op := .mul, constOnLeft := false, origin := .initializer, rank := 0, value := 1000005 / 1000000 }
    (by decide +kernel) rfl 1
  norm_num [Op.apply] at this

/-- Finding C05-N1: the rule fires on `Add(x, z)` where `z` is an initializer *and* a graph input with default 0;
at run time `z` may be any `w` and `x + w ≠ x` for `w = 3`. -/
theorem unit_default_input_refuted :
    (Params.check { op := .add, constOnLeft := false, origin := .inputWithDefault, rank := 0, value := 0 }) = true ∧
    ¬ (∀ w x : Rat, Op.apply .add x w = x) := by
  refine ⟨by decide +kernel, ?_⟩
  intro h
  have := h 3 0
  norm_num [Op.apply] at this

/-- The matcher never accepts a rank-≥1 constant or a value without `const_value` for these rules. -/
theorem unit_laws_need_scalar_constant (p : Params) (h : p.check = true) :
    p.rank = 0 ∧ p.origin ≠ .input := by
  unfold Params.check at h
  simp only [Bool.and_eq_true, beq_iff_eq] at h
  refine ⟨h.1.2, ?_⟩
  intro ho
  have := h.1.1.2
  rw [ho] at this
  exact absurd this (by decide)

/-- `remove_optional_bias_*`: when `check` passes every bias element is exactly 0, so adding it changes nothing. -/
theorem remove_optional_bias_sound (p : Bias) (h : p.check = true) (y : Rat) : ∀ b ∈ p.values, y + b = y := by
  unfold Bias.check at h
  simp only [Bool.and_eq_true, List.all_eq_true, beq_iff_eq] at h
  intro b hb
  rw [h.2 b hb]; simp

/-- `dropout_zero`: fires only for the attribute form with `ratio == 0.0`, a single input and an unused mask
(then Dropout in inference mode is the identity by the operator specification). -/
theorem dropout_zero_fires_only_on_zero_ratio (p : Dropout) (hz : p.zeroRule = true) (h : p.check = true) :
    p.ratioAttr = some 0 ∧ p.nInputs = 1 ∧ p.maskUsed = false := by
  unfold Dropout.check at h
  simp only [hz, if_true, Bool.and_eq_true, beq_iff_eq, Bool.not_eq_true'] at h
  exact ⟨h.2, h.1.1, h.1.2⟩

end Unit

/-! ## Casts -/
section Cast
open OV.C05.Linalg

/-- What the cast theorems assume about the runtime's `Cast` (A-op): casting to the same type is the identity. -/
structure CastSem (V : Type) where
  cast : Nat → Nat → V → V
  cast_same : ∀ t v, cast t t v = v

/-- `no_op_cast`: `check` passes only when the annotated source type equals `to`. -/
theorem no_op_cast_sound {V : Type} (S : CastSem V) (src dst : Nat) (h : noOpCastCheck (some src) dst = true) (v : V) :
    S.cast src dst v = v := by
  unfold noOpCastCheck at h
  simp only [beq_iff_eq, Option.some.injEq] at h
  rw [h]; exact S.cast_same dst v

/-- `no_op_cast` never fires when the source type is unknown. -/
theorem no_op_cast_needs_known_dtype (dst : Nat) : noOpCastCheck none dst = false := by
  unfold noOpCastCheck; simp

/-- `cast_cast` fires exactly for second hops FLOAT→FLOAT16 and FLOAT→BFLOAT16. -/
theorem cast_cast_fires_iff (t2 t3 : Nat) :
    castCastCheck t2 t3 = true ↔ (t2 = FLOAT ∧ (t3 = FLOAT16 ∨ t3 = BFLOAT16)) := by
  unfold castCastCheck castCastAllowed FLOAT FLOAT16 BFLOAT16
  simp only [List.contains_cons, List.contains_nil, Bool.or_false, Bool.or_eq_true, beq_iff_eq, Prod.mk.injEq]
  omega

/-- Rounding `n` to a multiple of `2^sh`, ties to even: the integer core of a float narrowing at a fixed exponent. -/
def roundAt (sh : Nat) (n : Nat) : Nat :=
  let q := n / 2 ^ sh
  let r := n % 2 ^ sh
  let half := 2 ^ sh / 2
  (if r > half ∨ (r = half ∧ q % 2 = 1) then q + 1 else q) * 2 ^ sh

/-- `cast_cast` (`Cast(Cast(x, FLOAT), FLOAT16) → Cast(x, FLOAT16)`): when the first hop is exact
(the source value is representable in FLOAT — hypothesis `hexact`), dropping it changes nothing. -/
theorem cast_cast_sound_partial (sh1 sh2 n : Nat) (hexact : roundAt sh1 n = n) :
    roundAt sh2 (roundAt sh1 n) = roundAt sh2 n := by rw [hexact]

/-- Finding C05-N7: for a DOUBLE source the first hop is not exact and rounding twice differs from rounding once:
`n = 2^30 + 2^19 + 1` (the double `1 + 2^-11 + 2^-30` scaled by `2^30`), FLOAT keeps 24 bits (`sh = 7`),
FLOAT16 11 bits (`sh = 20`): twice → `2^30` (1.0), once → `2^30 + 2^20` (1.0009765625). -/
theorem cast_cast_double_rounding_refuted :
    castCastCheck FLOAT FLOAT16 = true ∧
    roundAt 20 (roundAt 7 (2 ^ 30 + 2 ^ 19 + 1)) = 2 ^ 30 ∧ roundAt 20 (2 ^ 30 + 2 ^ 19 + 1) = 2 ^ 30 + 2 ^ 20 := by
  decide +kernel

end Cast

/-! ## Linear algebra and padding -/
section Linalg
open OV.C05.Linalg OV.C05.Shape OV.Lemmas.C05Algebra

/-- `matmul_add_to_gemm` and the three transposed variants, values: `Add(MatMul(A', B'), C) = Gemm(A, B, C; transA, transB)`
entrywise over any commutative ring, for every inner dimension (C already of shape `(M,N)`). -/
theorem matmul_add_to_gemm_sound {α : Type} [CommRing α] (K : Nat) (ta tb : Bool) (A B C : Nat → Nat → α) (i j : Nat) :
    mm K (if ta then tr A else A) (if tb then tr B else B) i j + C i j = gemm K ta tb 1 1 A B C i j := by
  unfold mm gemm tr
  cases ta <;> cases tb <;> simp

/-- **Shapes** (after commit be37f51): `Add` broadcasts `C` against `(M,N)` in both directions, `Gemm` only accepts a
`C` that broadcasts *to* `(M,N)`.  Whenever `check` passes, `Add`'s result has exactly the shape `(M,N)` Gemm produces —
for all `M`, `N` and every shape of `C`. -/
theorem matmul_add_to_gemm_shape_sound (ra rb : Option Nat) (m n : Nat) (c : List Nat)
    (h : matmulAddCheck ra rb m n (some c) = true) :
    specBroadcast c [m, n] = some [m, n] := by
  unfold matmulAddCheck cGuard at h
  simp only [Bool.and_eq_true, decide_eq_true_eq] at h
  obtain ⟨_, hlen, hall⟩ := h
  match c, hlen, hall with
  | [], _, _ => simp [specBroadcast] <;> (repeat' split) <;> simp_all
  | [a], _, hall =>
    simp only [List.reverse_cons, List.reverse_nil, List.nil_append, List.zip_cons_cons, List.zip_nil_left,
      List.all_cons, List.all_nil, Bool.and_true, Bool.or_eq_true, beq_iff_eq] at hall
    rcases hall with h1 | h1 <;> subst h1 <;> simp [specBroadcast] <;> (try split) <;> simp_all
  | [a, b], _, hall =>
    simp only [List.reverse_cons, List.reverse_nil, List.nil_append, List.cons_append, List.zip_cons_cons,
      List.zip_nil_left, List.all_cons, List.all_nil, Bool.and_true, Bool.or_eq_true, beq_iff_eq, Bool.and_eq_true] at hall
    obtain ⟨hb, ha⟩ := hall
    rcases ha with ha | ha <;> rcases hb with hb | hb <;> subst ha <;> subst hb <;> simp [specBroadcast] <;>
      (repeat' split) <;> simp_all
  | _ :: _ :: _ :: _, hlen, _ => simp at hlen

/-- The rule does not fire when `C`'s shape is unknown. -/
theorem matmul_add_to_gemm_needs_c_shape (ra rb : Option Nat) (m n : Nat) :
    matmulAddCheck ra rb m n none = false := by
  unfold matmulAddCheck cGuard; simp

/-- Documentation of finding D16b (fixed): the pre-fix `check` (ranks of A and B only) passed for `C : [5,2,4]`, whose
`Add` result `[5,2,4]` no Gemm produces; the rule now refuses it (and `C : [3,4]` with `M = 1`). -/
theorem matmul_add_to_gemm_prefix_refuted :
    matmulAddCheckPrefix (some 2) (some 2) = true ∧ specBroadcast [5, 2, 4] [2, 4] = some [5, 2, 4] ∧
    matmulAddCheck (some 2) (some 2) 2 4 (some [5, 2, 4]) = false ∧
    matmulAddCheck (some 2) (some 2) 1 4 (some [3, 4]) = false ∧
    matmulAddCheck (some 2) (some 2) 2 4 (some [4]) = true := by decide

/-- BatchNorm folding identity per output channel, for every inner dimension `K` over any field:
`((Σ w·x + b) − μ)·(γ/σ) + β = Σ (w·γ/σ)·x + ((b − μ)·γ/σ + β)` (`fuse_batchnorm_into_{conv,conv_transpose,gemm}`
with σ = sqrt(var+eps) computed once; Conv/ConvTranspose as a dot product per output position). -/
theorem batchnorm_fold_sound {α : Type} [Field α] (K : Nat) (w x : Nat → α) (b mu gamma sigma beta : α) :
    ((∑ k ∈ Finset.range K, w k * x k) + b - mu) * (gamma / sigma) + beta
      = (∑ k ∈ Finset.range K, (w k * (gamma / sigma)) * x k) + ((b - mu) * (gamma / sigma) + beta) := by
  have : (∑ k ∈ Finset.range K, (w k * (gamma / sigma)) * x k) = (∑ k ∈ Finset.range K, w k * x k) * (gamma / sigma) := by
    rw [Finset.sum_mul]; apply Finset.sum_congr rfl; intro k _; ring
  rw [this]; ring

/-- Gemm keeps its `alpha`/`beta` attributes: with `beta = 1` (hypothesis `batchNormHyp`) the fold is right for any `alpha`. -/
theorem batchnorm_gemm_sound_partial {α : Type} [Field α] (dot b mu s beta' alpha : α) :
    (alpha * dot + 1 * b - mu) * s + beta' = alpha * (dot * s) + 1 * ((b - mu) * s + beta') := by ring

/-- Finding C05-N6: with `beta = 1/2` the folded bias is scaled once too often. -/
theorem batchnorm_gemm_beta_refuted :
    ¬ (∀ (dot b mu s beta' alpha gb : Rat),
        (alpha * dot + gb * b - mu) * s + beta' = alpha * (dot * s) + gb * ((b - mu) * s + beta')) := by
  intro h
  have := h 0 0 1 1 0 1 (1 / 2)
  norm_num at this

/-- `fuse_pad_into_conv`, values: every tap of the convolution reads the same element whether the zero padding was
materialised by `Pad` (then implicitly zero-extended) or given as Conv `pads` — for every signal, length, pad
amounts and integer position (1-D; N-d is the product of axes). -/
theorem pad_into_conv_taps {α : Type} [Zero α] (x : Int → α) (n pb pe : Nat) (i : Int) :
    ext 0 (n + pb + pe) (padded pb n x) i = ext 0 n x (i - pb) :=
  pad_taps x n pb pe i

/-- `fuse_pad_into_conv`, output length: adding the Pad amounts to the Conv pads gives the same length for every
kernel, stride and **dilation**. -/
theorem pad_into_conv_out_len (x k s d p0 p1 pb pe : Nat) :
    convOutLen (x + pb + pe) k s d p0 p1 = convOutLen x k s d (p0 + pb) (p1 + pe) := by
  unfold convOutLen
  have : x + pb + pe + p0 + p1 = x + (p0 + pb) + (p1 + pe) := by omega
  simp only [this]

/-- `fill_pads_with_axes` on the default axes list is the pads list itself (first half begins, second half ends). -/
theorem fill_pads_default_axes_example :
    fillPadsWithAxes [0, 0, 1, 2, 0, 0, 3, 4] [0, 1, 2, 3] 4 = some [0, 0, 1, 2, 0, 0, 3, 4] ∧
    fillPadsWithAxes [1, 2, 3, 4] [2, 3] 4 = some [0, 0, 1, 2, 0, 0, 3, 4] := by decide

/-- **`fuse_pad_into_conv_integer`** (after commit 470d8b0): the rule fires only when `x_zero_point` is absent (default 0)
or a constant equal to 0 … -/
theorem pad_into_conv_integer_fires_only_zero_point (p : PadConv) (pads : List Int) (h : padConvRun p = .fire pads) :
    p.zeroPoint = .absent ∨ p.zeroPoint = .const 0 := by
  unfold padConvRun at h
  split at h
  · split at h
    · rename_i hz
      unfold PadConv.zeroPointOk at hz
      split at hz
      · left; assumption
      · rename_i v hv
        right; rw [hv]; simp only [beq_iff_eq] at hz; rw [hz]
      · exact absurd hz (by simp)
    · exact absurd h (by simp)
  · rename_i o hne
    exfalso
    exact hne pads h

/-- … and then ConvInteger's taps `(value − 0)` read the same elements whether the zero padding was materialised by `Pad`
or given as `pads` (fill value = zero point = 0), for every signal, length, pad amounts and position. -/
theorem pad_into_conv_integer_sound (x : Int → Int) (n pb pe : Nat) (i : Int) :
    ext 0 (n + pb + pe) (padded pb n x) i - 0 = ext 0 n x (i - pb) - 0 := by
  rw [pad_taps]

/-- Documentation of finding D16a (fixed): with zero point 5 and one element padded on the left, the border tap reads
`0 − 5` after `Pad` but `5 − 5` when ConvInteger pads itself; the pre-fix rule (`padConvRunBase`) fired, the rule now refuses. -/
theorem pad_into_conv_integer_prefix_refuted :
    ¬ (∀ (z : Int) (x : Int → Int) (n pb pe : Nat) (i : Int),
        ext z (n + pb + pe) (padded pb n x) i - z = ext z n x (i - pb) - z) ∧
    padConvRunBase { xRank := some 3, mode := none, pads := .const [0, 0, 1, 0, 0, 1], constantValue := .absent, axes := .absent, autoPad := "NOTSET", convPads := none, zeroPoint := .const 5 } = .fire [1, 1] ∧
    padConvRun { xRank := some 3, mode := none, pads := .const [0, 0, 1, 0, 0, 1], constantValue := .absent, axes := .absent, autoPad := "NOTSET", convPads := none, zeroPoint := .const 5 } = .nofire := by
  refine ⟨?_, by decide, by decide⟩
  intro h
  have := h 5 (fun _ => 7) 1 1 0 0
  revert this; unfold ext padded ext; decide

/-- `normalize_pad_format` SAME_UPPER / SAME_LOWER on one axis, **dilation 1**: the explicit pads the rule computes
from the truthful output annotation `y = ceil(x/s)` reproduce that output length. -/
theorem normalize_pad_same_sound_partial (upper : Bool) (x k s : Nat) (hx : 0 < x) (hk : 0 < k) (hs : 0 < s) :
    ∃ pb pe, computeSamePads upper [x] [(x + s - 1) / s] [k] [s] = [pb, pe] ∧
      convOutLen x k s 1 pb pe = (x + s - 1) / s := by
  unfold computeSamePads
  cases upper
  · refine ⟨_, _, rfl, ?_⟩
    apply same_len x k s hx hk hs
    simp only [Bool.false_eq_true, if_false]; omega
  · refine ⟨_, _, rfl, ?_⟩
    apply same_len x k s hx hk hs
    simp only [if_true]; omega

/-- Finding D16c1: with dilation 2 the same formula is wrong (`x=7,k=3,s=1`: pads `[1,1]` give length 5, not 7). -/
theorem normalize_pad_dilation_refuted :
    computeSamePads true [7] [7] [3] [1] = [1, 1] ∧ convOutLen 7 3 1 2 1 1 = 5 ∧ convOutLen 7 3 1 2 2 2 = 7 := by
  decide

/-- Expand-before-binary-op, strategy 1 (after commit 48b48d2): whenever the guard passes, the Expand target is not longer
than both operands, so removing the Expand cannot change the rank of the result. -/
theorem expand_removable_keeps_rank (xs ys : Shape) (e : List Int)
    (h : expandRemovableConst (some xs) (some ys) e = true) : e.length ≤ max xs.length ys.length := by
  unfold expandRemovableConst expandRankChanges at h
  simp only [Bool.and_eq_true, Bool.not_eq_true', decide_eq_false_iff_not, not_lt] at h
  exact h.1

/-- Documentation of finding C05-N3a (fixed): the pre-fix guard accepted `Add(Expand(x:[3],[1,3]), y:[3])`, whose result
has rank 2 while `Add(x, y)` has rank 1; the guard now refuses it. -/
theorem expand_removable_prefix_rank_refuted :
    expandRemovableConstPrefix (some [.known 3]) (some [.known 3]) [1, 3] = true ∧
    (specBroadcast [3] [1, 3]).bind (specBroadcast · [3]) = some [1, 3] ∧ specBroadcast [3] [3] = some [3] ∧
    expandRemovableConst (some [.known 3]) (some [.known 3]) [1, 3] = false := by
  decide

end Linalg

/-! ## Non-vacuity: concrete instances satisfying the hypotheses of the theorems above -/
section NonVacuity
open OV.C05.Order OV.C05.Shape OV.C05.Unit OV.C05.Linalg

-- successive_clip_sound: Clip(Clip(x,0,6),1,4) fires, fused bounds [1,4]; a disjoint pair gives [5,5]
example : let p : ClipClip Int := { a := .const 0, b := .const 6, c := .const 1, d := .const 4 }
    p.check = true ∧ p.run = .fire { lo := some 1, hi := some 4 } ∧ p.lhs 9 = 4 := by decide
-- successive_relu_clip_sound: Relu(Clip(x,-2,5)) and Relu(Clip(x,-5,-1))
example : let p : ReluClip Int := { a := .const (-2), b := .const 5 }
    p.check = true ∧ p.runReluClip 0 = .fire { lo := some 0, hi := some 5 } := by decide
-- a graph-input bound blocks the relu/clip rules
example : (ClipClip.check ({ a := .constInput 0, b := .absent, c := .absent, d := .absent } : ClipClip Int)) = false := by decide
-- min_max fires only with lb ≤ ub
example : (MinMax.run ({ kind := .minMax, first := [.const 0 [5]], second := [.const 0 [1]] } : MinMax Int)) = .fire (.clip 1 5) ∧
    (MinMax.run ({ kind := .minMax, first := [.const 0 [1]], second := [.const 0 [5]] } : MinMax Int)) = .nofire := by decide
-- unit laws: exact zero fires and is exact; 1.2e-8 does not fire; rank-1 zero does not fire
example : (Params.check { op := .add, constOnLeft := true, origin := .constantNode, rank := 0, value := 0 }) = true ∧
    (Params.exact { op := .add, constOnLeft := true, origin := .constantNode, rank := 0, value := 0 }) = true ∧
    (Params.check { op := .add, constOnLeft := false, origin := .initializer, rank := 0, value := 12 / 1000000000 }) = false ∧
    (Params.check { op := .add, constOnLeft := false, origin := .initializer, rank := 1, value := 0 }) = false ∧
    (Params.check { op := .sub, constOnLeft := true, origin := .initializer, rank := 0, value := 0 }) = false := by decide +kernel
-- transposes: rank 3
example : validPerm [1, 2, 0] 3 = true ∧ composePerms [1, 2, 0] [1, 2, 0] = [2, 0, 1] ∧
    transposeTransposeRun [1, 2, 0] [2, 0, 1] = .fire .identity := by decide
-- flatten: 2×3×4 at axis 1 (all dims positive)
example : flattenToReshapeRun (some [.known 2, .known 3, .known 4]) 1 none = .fire [2, 12] ∧
    specReshape [2, 3, 4] [2, 12] false = some [2, 12] := by decide
-- reshape∘reshape: (2,3) → (3,2) → [0,3] becomes Reshape(x, [-1,3])
example : reshapeReshapeRun (some [0, 3]) none 0 = .fire { shape := [-1, 3], allowzero := none } ∧
    specReshape [3, 2] [0, 3] false = none ∧ specReshape [3, 3] [0, 3] false = some [3, 3] := by decide
-- materialize: annotated [N, 4] → [-1, 4], no zero beside -1
example : materializeReshapeRun false (some [.sym "N", .known 4]) = .fire { shape := [-1, 4], allowzero := some 1 } ∧
    specReshape [12] [-1, 4] true = some [3, 4] := by decide
-- collapse_slice: data [2,5], axis -1, end 7
example : collapseSliceRun (some [.known 2, .known 5]) (.one 0) (.one 7) (.one (-1)) (.one 1) = .fire () ∧
    pyIndex [Dim.known 2, Dim.known 5] (-1) = some (.known 5) := by decide
-- static scatter
example : staticScatterRun (some [.known 2, .known 3]) (some [.known 2, .known 3]) (some [[0], [1]]) = .fire () ∧
    staticScatterRun (some [.sym "N", .known 3]) (some [.sym "N", .known 3]) (some [[0], [1]]) = .nofire := by decide
-- pads: Pad [0,0,1,0,0,2] into Conv pads [1,0]
example : padConvRun { xRank := some 3, mode := none, pads := .const [0, 0, 1, 0, 0, 2], constantValue := .absent, axes := .absent, autoPad := "NOTSET", convPads := some [1, 0] } = .fire [2, 2] := by decide
-- gemm: C of shape [4] fits (2,4)
example : matmulAddCheck (some 2) (some 2) 2 4 (some [4]) = true ∧ matmulAddCheck (some 2) (some 2) 2 4 (some []) = true ∧
    matmulAddCheck (some 2) (some 2) 2 4 (some [2, 1]) = true ∧ matmulAddCheck (some 2) (some 3) 2 4 (some [4]) = false := by decide

end NonVacuity

end OV.Props.C05
