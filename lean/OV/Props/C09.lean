import OV.Model.C09Shape
import OV.Lemmas.C09Shape
import OV.Lemmas.C09Bcast
import OV.Lemmas.C09Reshape
import OV.Lemmas.C09Mat
import OV.Lemmas.C09Flatten
import OV.Lemmas.C09Rules
import OV.Lemmas.C09ReshapeReshape
/-!
# C09 — shape-based simplifications hold for every runtime binding of symbolic dims

Property theorems only.  Model: `OV.Model.C09Shape` (restating `_constant_folding.py`, `_ir_utils.py`,
`_remove_expand_before_binary_op.py`, `_materialize_reshape_shape.py`, `_basic_rules.py`).

Reading guide.  `σ : String → Nat` binds every symbol (`∀ σ` = "every runtime binding", non-injective
bindings — distinct symbols with equal values — and 0/1 values included).  `Admits σ s l` says the
annotation `s` is truthful for the concrete list `l` (a tensor's shape, or the contents of a shape-valued
tensor): `known k` admits `k`, `sym a` admits `σ a`, an unnamed dim admits anything.  No decision function
of the model takes `σ`: the code only ever uses *positive* syntactic facts, and every theorem below
concludes for all `σ` from one such fact.
-/
set_option linter.unusedSimpArgs false
namespace OV.Props.C09
open OV.C09

/-! ## Equality of shapes -/

/-- `_ir_utils.same_shape`: a positive answer means that under **every** binding both annotations denote
one and the same concrete shape (they are defined, and any two tensors they are truthful for have equal
shapes). -/
theorem same_shape_sound (a b : Shape) (h : sameShape (some a) (some b) = true) (σ : String → Nat) :
    (∃ l, denote σ a = some l ∧ denote σ b = some l) ∧
    (∀ l₁ l₂, Admits σ a l₁ → Admits σ b l₂ → l₁ = l₂) := by
  simp only [sameShape] at h
  cases hu : (hasUnknown a || hasUnknown b) with
  | true => simp only [hu, if_true] at h; cases h
  | false =>
    simp only [hu, Bool.false_eq_true, if_false, decide_eq_true_eq] at h
    subst h
    simp only [Bool.or_self] at hu
    obtain ⟨l, hl⟩ := denote_isSome (σ := σ) hu
    exact ⟨⟨l, hl, hl⟩, fun l₁ l₂ h₁ h₂ => admits_det hu h₁ h₂⟩

/-- `_constant_folding._same_shape` (scans only its first argument for unnamed dims — still sound,
because an unnamed dim in the second argument makes the tuples differ). -/
theorem same_shape_fold_sound (a b : Shape) (h : sameShapeFold a b = true) (σ : String → Nat) :
    (∃ l, denote σ a = some l ∧ denote σ b = some l) ∧
    (∀ l₁ l₂, Admits σ a l₁ → Admits σ b l₂ → l₁ = l₂) := by
  simp only [sameShapeFold] at h
  cases hu : hasUnknown a with
  | true => simp only [hu, if_true] at h; cases h
  | false =>
    simp only [hu, Bool.false_eq_true, if_false, decide_eq_true_eq] at h
    subst h
    obtain ⟨l, hl⟩ := denote_isSome (σ := σ) hu
    exact ⟨⟨l, hl, hl⟩, fun l₁ l₂ h₁ h₂ => admits_det hu h₁ h₂⟩

/-- `_ir_utils.same_dim`. -/
theorem same_dim_sound (d₁ d₂ : Dim) (h : sameDim d₁ d₂ = true) (σ : String → Nat) (v w : Int)
    (h₁ : d₁.Admits σ v) (h₂ : d₂.Admits σ w) : v = w := by
  cases d₁ <;> cases d₂ <;> simp only [sameDim, decide_eq_true_eq] at h <;> try cases h
  · simp only [Dim.Admits] at h₁ h₂; omega
  · simp only [Dim.Admits] at h₁ h₂; omega

/-- Unnamed dims are never considered equal by the three comparison helpers. -/
theorem unknown_never_equal (a b : Shape) (d : Dim) (h : hasUnknown a = true ∨ hasUnknown b = true) :
    sameShape (some a) (some b) = false ∧ sameShapeFold a b = false ∧
    sameDim .unknown d = false ∧ sameDim d .unknown = false := by
  refine ⟨?_, ?_, rfl, by cases d <;> rfl⟩
  · simp only [sameShape]
    rcases h with h | h <;> simp only [h, Bool.true_or, Bool.or_true, if_true]
  · simp only [sameShapeFold]
    cases ha : hasUnknown a with
    | true => simp only [if_true]
    | false =>
      rcases h with h | h
      · rw [ha] at h; cases h
      · simp only [Bool.false_eq_true, if_false, decide_eq_false_iff_not]
        intro hab; subst hab; rw [ha] at h; cases h

example : sameShape (some [.sym "N", .known 3]) (some [.sym "N", .known 3]) = true := by decide
example : sameShapeFold [.sym "N", .known 0] [.sym "N", .known 0] = true := by decide
example : sameShape (some [.unknown]) (some [.unknown]) = false := by decide

/-! ## `_merge_shapes` -/

theorem mergeDim_sound {σ : String → Nat} {d₁ d₂ : Dim} {v : Int} (h₁ : d₁.Admits σ v) (h₂ : d₂.Admits σ v) :
    (mergeDim d₁ d₂).Admits σ v := by
  unfold mergeDim
  by_cases e : d₁ = d₂
  · rw [if_pos e]; exact h₁
  · rw [if_neg e]
    cases d₁ <;> cases d₂ <;> simp only [Dim.isInt, Dim.isUnknown, if_true, if_false] <;> assumption

/-- Backward/forward shape inference: the merged annotation is truthful for every tensor both arguments
are truthful for, under every binding (so `input.shape = _merge_shapes(input.shape, output.shape)` on an
`Identity` never records a false fact, provided the two annotations were true). -/
theorem merge_shapes_sound (p o r : Shape) (h : mergeShapes (some p) (some o) = .ok (some r))
    (σ : String → Nat) (l : List Int) (hp : Admits σ p l) (ho : Admits σ o l) : Admits σ r l := by
  simp only [mergeShapes] at h
  by_cases hl : p.length ≠ o.length
  · rw [if_pos hl] at h; cases h
  · rw [if_neg hl] at h
    simp only [Except.ok.injEq, Option.some.injEq] at h
    subst h
    clear hl
    induction p generalizing o l with
    | nil =>
      cases o <;> cases l <;> simp_all [Admits, List.zipWith]
    | cons d p ih =>
      cases o with
      | nil => cases l <;> simp_all [Admits]
      | cons d' o =>
        cases l with
        | nil => simp only [Admits] at hp
        | cons v l =>
          simp only [Admits] at hp ho
          simp only [List.zipWith_cons_cons, Admits]
          exact ⟨mergeDim_sound hp.1 ho.1, ih o l hp.2 ho.2⟩

/-- An unnamed dim survives the merge only where both annotations are unnamed. -/
theorem merge_dim_precise (d₁ d₂ : Dim) (h : (mergeDim d₁ d₂).isUnknown = true) :
    d₁ = .unknown ∧ d₂ = .unknown := by
  unfold mergeDim at h
  by_cases e : d₁ = d₂
  · rw [if_pos e] at h; subst e; cases d₁ <;> simp [Dim.isUnknown] at h ⊢
  · rw [if_neg e] at h; cases d₁ <;> cases d₂ <;> simp [Dim.isInt, Dim.isUnknown] at h e ⊢

example : mergeShapes (some [.sym "N", .unknown]) (some [.known 3, .sym "M"]) = .ok (some [.known 3, .sym "M"]) := by
  rfl

/-! ## Symbolic broadcasting and removal of `Expand` before a binary op -/

/-- `_compute_broadcast_dim`: the symbolic result is a truthful annotation of the numeric broadcast of
any two admitted values; when it is not an unnamed dim the numeric broadcast is defined. -/
theorem broadcast_dim_sound (d₁ d₂ c : Dim) (h : bcastDim d₁ d₂ = some c) (σ : String → Nat) (a b : Int)
    (h₁ : d₁.Admits σ a) (h₂ : d₂.Admits σ b) :
    (∀ v, bdim a b = some v → c.Admits σ v) ∧ (c.isUnknown = false → ∃ v, bdim a b = some v) :=
  ⟨fun _ hv => bcastDim_sound h h₁ h₂ hv, fun hc => bcastDim_defined h hc h₁ h₂⟩

/-- `_compute_broadcast_shape`, all ranks. -/
theorem broadcast_shape_sound (x y c : Shape) (h : bcastShape x y = some c) (σ : String → Nat)
    (lx ly : List Int) (hx : Admits σ x lx) (hy : Admits σ y ly) :
    (∀ lo, broadcast lx ly = some lo → Admits σ c lo) ∧
    (hasUnknown c = false → ∃ lo, broadcast lx ly = some lo) := by
  simp only [bcastShape, Option.map_eq_some_iff] at h
  obtain ⟨cr, hcr, rfl⟩ := h
  have hlx := admits_length hx
  have hly := admits_length hy
  obtain ⟨s1, s2⟩ := bcastShapeN_sound (σ := σ) _ _ _ cr lx.reverse ly.reverse hcr
    (admits_reverse hx) (admits_reverse hy)
  rw [hlx, hly] at s1 s2
  refine ⟨fun lo hlo => ?_, fun hu => ?_⟩
  · simp only [broadcast, Option.map_eq_some_iff] at hlo
    obtain ⟨t, ht, rfl⟩ := hlo
    exact admits_reverse (s1 t ht)
  · rw [hasUnknown_reverse] at hu
    obtain ⟨t, ht⟩ := s2 hu
    exact ⟨t.reverse, by simp only [broadcast, ht, Option.map_some]⟩

/-- **Strategy 1** (`shape` is a constant `e`; with the rank guard of commit 48b48d2).  Whenever the check
succeeds, `BinaryOp(Expand(x, e), y)` and `BinaryOp(x, y)` broadcast to the same shape for *every* binding
of the symbols in `x`, `y` (dims 0 and 1 included); the statement is an equation of `Option`s, so the two
models also reject exactly the same inputs.  (The rank hypothesis the proof of the earlier `_partial`
version had forced is now established by the check itself.) -/
theorem expand_removable_s1_sound (e : List Int) (x y : Shape) (h : strategy1 e x y = .ok)
    (σ : String → Nat) (lx ly : List Int) (hx : Admits σ x lx) (hy : Admits σ y ly) :
    (broadcast lx e).bind (fun le => broadcast le ly) = broadcast lx ly := by
  simp only [strategy1] at h
  by_cases hr : e.length > max x.length y.length
  · rw [if_pos hr] at h; cases h
  rw [if_neg hr] at h
  have hrank : e.length ≤ max x.length y.length := by omega
  have h' : s1Rev e.reverse x.reverse y.reverse 0 = none := by
    cases hs : s1Rev e.reverse x.reverse y.reverse 0 with
    | none => rfl
    | some k => rw [hs] at h; cases h
  have hlx := admits_length hx
  have hly := admits_length hy
  have core := s1_core (σ := σ) (max lx.length e.length) (max lx.length ly.length) e.reverse x.reverse y.reverse
    lx.reverse ly.reverse 0 (by simp only [List.length_reverse]) (by omega) h' (admits_reverse hx) (admits_reverse hy)
  simp only [broadcast]
  cases hb : bcastN (max lx.length e.length) lx.reverse e.reverse with
  | none =>
    rw [hb] at core
    simp only [Option.bind_none] at core
    simp only [Option.map_none, Option.bind_none, ← core]
  | some t =>
    rw [hb] at core
    simp only [Option.bind_some] at core
    have ht := bcastN_length _ _ _ _ hb
    have hmax : max t.reverse.length ly.length = max lx.length ly.length := by
      simp only [List.length_reverse, ht]; omega
    simp only [Option.map_some, Option.bind_some, List.reverse_reverse, hmax, core]

/-- The accept/reject reading of strategy 1. -/
theorem accepts_same_inputs_s1 (e : List Int) (x y : Shape) (h : strategy1 e x y = .ok)
    (σ : String → Nat) (lx ly : List Int) (hx : Admits σ x lx) (hy : Admits σ y ly) :
    ((broadcast lx e).bind (fun le => broadcast le ly)).isSome = (broadcast lx ly).isSome := by
  rw [expand_removable_s1_sound e x y h σ lx ly hx hy]

/-- Regression witness (finding C09-N2 / C05-N3a, fixed by 48b48d2): without the rank guard
`Add(Expand(x:[3], [1,1,3]), y:[3])` of shape `[1,1,3]` was rewritten to `Add(x, y)` of shape `[3]`. -/
theorem expand_removable_s1_prefix_refuted :
    ¬ (∀ (e : List Int) (x y : Shape), strategy1Before48b48d2 e x y = none →
        ∀ (σ : String → Nat) (lx ly : List Int), Admits σ x lx → Admits σ y ly →
          (broadcast lx e).bind (fun le => broadcast le ly) = broadcast lx ly) := by
  intro h
  have := h [1, 1, 3] [.known 3] [.known 3] (by decide) (fun _ => 0) [3] [3]
    (by simp only [Admits, Dim.Admits, and_self]) (by simp only [Admits, Dim.Admits, and_self])
  revert this; decide

example : strategy1 [2, 3] [.known 1, .known 3] [.known 2, .sym "N"] = .ok := by decide
example : strategy1 [1, 1, 3] [.known 3] [.known 3] = .rankFail := by decide

/-- **Strategy 2** (`_check_dims_sufficient` on the Expand output annotation `E`; with the rank guard of
48b48d2 and `_same_dim` of 9477c4c).  `lE` is what the original `Expand(x, le)` produced at run time and `E`
is truthful for it.  Whenever the check succeeds, removing the Expand leaves the broadcast result unchanged,
for every binding — no side hypothesis left. -/
theorem dims_sufficient_sound (E x y : Shape) (h : dimsSufficient E x y = .ok)
    (σ : String → Nat) (lx le lE ly : List Int)
    (hexp : broadcast lx le = some lE) (hE : Admits σ E lE) (hx : Admits σ x lx) (hy : Admits σ y ly) :
    broadcast lE ly = broadcast lx ly := by
  simp only [dimsSufficient] at h
  by_cases hr : E.length > max x.length y.length
  · rw [if_pos hr] at h; cases h
  rw [if_neg hr] at h
  have h' : suffRev E.reverse x.reverse y.reverse 0 = none := by
    cases hs : suffRev E.reverse x.reverse y.reverse 0 with
    | none => rfl
    | some k => rw [hs] at h; cases h
  have hlx := admits_length hx
  have hly := admits_length hy
  have hlE := admits_length hE
  simp only [broadcast, Option.map_eq_some_iff] at hexp
  obtain ⟨t, ht, rfl⟩ := hexp
  have htl := bcastN_length _ _ _ _ ht
  have core := s2_core (σ := σ) (max lx.length le.length) (max lx.length ly.length) E.reverse x.reverse y.reverse
    lx.reverse le.reverse t ly.reverse 0 (by simp only [List.length_reverse])
    (by simp only [List.length_reverse] at hlE; omega) ht h'
    (by simpa only [List.reverse_reverse] using admits_reverse hE)
    (admits_reverse hx) (admits_reverse hy)
  have hmax : max t.reverse.length ly.length = max lx.length ly.length := by
    simp only [List.length_reverse] at hlE ⊢; omega
  simp only [broadcast, List.reverse_reverse, hmax, core]

/-- Regression witness (finding C09-N1, fixed by 9477c4c): with Python `==` two unnamed dims compared equal —
`x:[?]` (really 1), target `[5]`, Expand output annotated `[?]`, `y:[1]`: with Expand `[5]`, without `[1]`. -/
theorem dims_sufficient_unknown_prefix_refuted :
    ¬ (∀ (E x y : Shape), dimsSufficientBefore9477c4c E x y = none →
        ∀ (σ : String → Nat) (lx le lE ly : List Int), broadcast lx le = some lE →
          Admits σ E lE → Admits σ x lx → Admits σ y ly → broadcast lE ly = broadcast lx ly) := by
  intro h
  have := h [.unknown] [.unknown] [.known 1] (by decide) (fun _ => 0) [1] [5] [5] [1] (by decide)
    (by simp only [Admits, Dim.Admits, and_self]) (by simp only [Admits, Dim.Admits, and_self])
    (by simp only [Admits, Dim.Admits, and_self])
  revert this; decide

/-- Regression witness (finding C09-N2, strategy 2, fixed by 48b48d2): a rank-extending Expand whose extra
leading dims are annotated `1`. -/
theorem dims_sufficient_rank_prefix_refuted :
    ¬ (∀ (E x y : Shape), dimsSufficientBefore E x y = none → hasUnknown E = false →
        ∀ (σ : String → Nat) (lx le lE ly : List Int), broadcast lx le = some lE →
          Admits σ E lE → Admits σ x lx → Admits σ y ly → broadcast lE ly = broadcast lx ly) := by
  intro h
  have := h [.known 1, .sym "N"] [.sym "N"] [.sym "N"] (by decide) (by decide) (fun _ => 3) [3] [1, 3] [1, 3] [3]
    (by decide) (by simp only [Admits, Dim.Admits]; decide) (by simp only [Admits, Dim.Admits]; decide)
    (by simp only [Admits, Dim.Admits]; decide)
  revert this; decide

example : dimsSufficient [.sym "B", .sym "N"] [.known 1, .sym "N"] [.sym "B", .known 1] = .ok := by decide
example : dimsSufficient [.unknown] [.unknown] [.known 1] = .dimFail 0 := by decide
example : dimsSufficient [.known 1, .sym "N"] [.sym "N"] [.sym "N"] = .rankFail := by decide

/-- **Strategy 3** (binary-op output annotation `_same_dim`-equal to the symbolic broadcast of `x` and `y`).
If the annotation is truthful for what the original model computed (`lout`), the rewritten `BinaryOp(x, y)` is
defined and has exactly that shape, for every binding — the "no unnamed dim" hypothesis of the earlier
`_partial` version is now a consequence of the check. -/
theorem expand_removable_s3_sound (x y out : Shape) (h : strategy3 x y out = true)
    (σ : String → Nat) (lx ly lout : List Int)
    (hout : Admits σ out lout) (hx : Admits σ x lx) (hy : Admits σ y ly) :
    broadcast lx ly = some lout := by
  simp only [strategy3] at h
  cases hc : bcastShape x y with
  | none => simp only [hc] at h; cases h
  | some c =>
    simp only [hc, Bool.and_eq_true, decide_eq_true_eq] at h
    obtain ⟨rfl, hunk⟩ := zipWith_semEq_all c out h.1 h.2
    obtain ⟨s1, s2⟩ := broadcast_shape_sound x y c hc σ lx ly hx hy
    obtain ⟨lo, hlo⟩ := s2 hunk
    rw [hlo, admits_det hunk (s1 lo hlo) hout]

/-- Regression witness (finding C09-N1, strategy 3, fixed by 9477c4c): `x:[?]`, `y:[1]`, output annotated
`[?]`; the original produced `[5]`. -/
theorem expand_removable_s3_unknown_prefix_refuted :
    ¬ (∀ (x y out : Shape), strategy3Before9477c4c x y out = true →
        ∀ (σ : String → Nat) (lx ly lout : List Int), Admits σ out lout → Admits σ x lx → Admits σ y ly →
          broadcast lx ly = some lout) := by
  intro h
  have := h [.unknown] [.known 1] [.unknown] (by decide) (fun _ => 0) [1] [1] [5]
    (by simp only [Admits, Dim.Admits, and_self]) (by simp only [Admits, Dim.Admits, and_self])
    (by simp only [Admits, Dim.Admits, and_self])
  revert this; decide

example : strategy3 [.sym "N", .known 1] [.known 1, .sym "M"] [.sym "N", .sym "M"] = true := by decide
example : strategy3 [.unknown] [.known 1] [.unknown] = false := by decide

/-- **All strategies together.**  Whenever `_check_expand_removable` answers "removable", the rewritten
binary op produces, for every binding, the shape the original produced (`lout`), given that the shape
annotations the decision read are truthful for the original run: `le` is the run-time Expand target
(equal to the constant when there is one), `lE` the Expand result, `lout` the original result. -/
theorem expand_removable_sound (x y : Shape) (const : Option (List Int)) (eOut bOut : Option Shape)
    (h : (expandRemovable (some x) (some y) const eOut bOut).removable = true)
    (σ : String → Nat) (lx ly le lE lout : List Int) (hx : Admits σ x lx) (hy : Admits σ y ly)
    (hconst : ∀ c, const = some c → le = c)
    (hexp : broadcast lx le = some lE) (hres : broadcast lE ly = some lout)
    (hE : ∀ E, const = none → eOut = some E → Admits σ E lE)
    (hO : ∀ O, const = none → eOut = none → bOut = some O → Admits σ O lout) :
    broadcast lx ly = some lout := by
  simp only [expandRemovable] at h
  cases const with
  | some c =>
    have := hconst c rfl; subst this
    cases h1 : strategy1 le x y with
    | ok =>
      have e := expand_removable_s1_sound le x y h1 σ lx ly hx hy
      rw [hexp] at e; simp only [Option.bind_some] at e; rw [← e, hres]
    | rankFail => simp only [h1, ExpandVerdict.removable] at h; cases h
    | dimFail i => simp only [h1, ExpandVerdict.removable] at h; cases h
  | none =>
    cases eOut with
    | some E =>
      cases h2 : dimsSufficient E x y with
      | ok => rw [← dims_sufficient_sound E x y h2 σ lx le lE ly hexp (hE E rfl rfl) hx hy, hres]
      | rankFail => simp only [h2, ExpandVerdict.removable] at h; cases h
      | dimFail i => simp only [h2, ExpandVerdict.removable] at h; cases h
    | none =>
      cases bOut with
      | some O =>
        by_cases h3 : strategy3 x y O = true
        · exact expand_removable_s3_sound x y O h3 σ lx ly lout (hO O rfl rfl rfl) hx hy
        · simp only [h3, ExpandVerdict.removable] at h; cases h
      | none => simp only [ExpandVerdict.removable] at h; cases h

example : (expandRemovable (some [.sym "N", .known 1]) (some [.sym "N", .sym "M"]) none
    (some [.sym "N", .sym "M"]) none).removable = true := by decide

/-! ## Fold-time identity tests (`reshape`, `expand` partial evaluators; `ExpandIdentity` rule) -/

/-- `reshape` evaluator: when `_same_shape(input.shape, shape_value)` holds the node is replaced by
`Identity`.  For every binding, every tensor shape `l` the input annotation is truthful for and every
run-time content `t` of the shape operand its symbolic value is truthful for, `Reshape(x, t)` — with
either value of `allowzero` — is defined and returns a tensor of shape `l` (zeros in `t` copy themselves,
there is no `-1`): same accepted inputs, same result. -/
theorem reshape_identity_sym (i v : Shape) (s : Option Shape)
    (h : (evalReshape (some i) (some v) s).identity = true)
    (σ : String → Nat) (l t : List Int) (hi : Admits σ i l) (hv : Admits σ v t) (hl : ∀ d ∈ l, 0 ≤ d)
    (az : Bool) : reshapeTarget l t az = some l := by
  simp only [evalReshape] at h
  by_cases hs : sameShapeFold i v = true
  · have := (same_shape_fold_sound i v hs σ).2 l t hi hv
    subst this
    exact reshapeTarget_self l hl az
  · simp only [hs, if_false] at h; cases h

/-- `expand` evaluator, symbolic target (`_same_shape(input_shape, expanded_sym_shape)`). -/
theorem expand_identity_sym (i t : Shape) (h : evalExpand (some i) none (some t) = true)
    (σ : String → Nat) (l tv : List Int) (hi : Admits σ i l) (ht : Admits σ t tv) :
    expandSpec l tv = some l := by
  simp only [evalExpand] at h
  have := (same_shape_fold_sound i t h σ).2 l tv hi ht
  subst this
  exact broadcast_self l

/-- `expand` evaluator and `ExpandIdentity` rule, constant target (`input_shape.dims == tuple(target)`):
fires only on fully static shapes equal to the target. -/
theorem expand_identity_const (i : Shape) (t : List Int)
    (h : evalExpand (some i) (some (some t)) none = true ∨ expandIdentityRule (some i) (some t) = true)
    (σ : String → Nat) (l : List Int) (hi : Admits σ i l) : expandSpec l t = some l := by
  have hit : i = t.map Dim.known := by
    rcases h with h | h
    · simpa only [evalExpand, decide_eq_true_eq] using h
    · simpa only [expandIdentityRule, decide_eq_true_eq] using h
  subst hit
  rw [admits_map_known hi]
  exact broadcast_self t

example : (evalReshape (some [.sym "N", .known 0]) (some [.sym "N", .known 0]) none).identity = true := by decide
example : evalExpand (some [.sym "B", .known 1]) none (some [.sym "B", .known 1]) = true := by decide

/-! ## `MaterializeReshapeShape` -/

/-- The rule replaces the dynamic shape operand by the annotated output shape, the single non-static
dim becoming `-1`, and sets `allowzero=1`.  `inp` is the run-time shape of the data, `lo` the shape the
original Reshape produced (so the element counts agree) and the output annotation `o` is truthful for it.
Since commit 49df852 the check refuses a static 0 beside the non-static dim — the hypothesis the proof of
the earlier `_partial` version had forced — so the statement now holds in full: whenever the rule fires,
the new Reshape is defined and returns exactly `lo`, for every binding. -/
theorem materialize_reshape_sound (o : Shape) (tgt : List Int)
    (h : materialize (some o) false = some tgt)
    (σ : String → Nat) (inp lo : List Int) (ho : Admits σ o lo) (hn : ∀ d ∈ lo, 0 ≤ d)
    (hp : prodInt inp = prodInt lo) : reshapeTarget inp tgt true = some lo := by
  obtain ⟨hc, rfl, hnz'⟩ := materialize_eq o tgt h
  obtain ⟨i1, i2, i3, i4⟩ := mat_basic ho hn
  by_cases h0 : nonInts o = 0
  · rw [(mat_zero h0 ho).1]; exact reshapeTarget_literal inp lo hn hp
  · have h1 : nonInts o = 1 := by omega
    obtain ⟨v, e1, e2, e3⟩ := mat_one h1 ho hn
    have hnz : Dim.known 0 ∉ o := hnz' h1
    have hc0 : (0 : Int) ∉ o.map matF := fun hm => hnz (mat_zero_mem hm)
    have hk : prodInt (statics o) ≠ 0 :=
      prodInt_ne_zero (fun d hd he => hnz (by subst he; exact statics_mem hd))
    have hpi : prodInt inp = prodInt (statics o) * v := by rw [hp, e1]
    unfold reshapeTarget
    simp [i1, i2, i3, h1, hc0, e3, hk, hpi, Int.mul_ediv_cancel_left v hk, e2]

/-- Regression witness: before commit 49df852 the statement was false — output annotated `[N, 0]`,
run-time shape `[3, 0]`, emitted target `[-1, 0]` with `allowzero=1` (finding C09-D16c, now fixed; the
model/feeds stay in the corpus). -/
theorem materialize_reshape_prefix_refuted :
    ¬ (∀ (o : Shape) (tgt : List Int), materializeBefore49df852 (some o) false = some tgt →
        ∀ (σ : String → Nat) (inp lo : List Int), Admits σ o lo → (∀ d ∈ lo, 0 ≤ d) →
          prodInt inp = prodInt lo → reshapeTarget inp tgt true = some lo) := by
  intro h
  have := h [.sym "N", .known 0] [-1, 0] (by decide) (fun _ => 3) [3, 0] [3, 0]
    (by simp only [Admits, Dim.Admits]; decide) (by decide) (by decide)
  revert this; decide

example : materialize (some [.sym "N", .known 0]) false = none := by decide
example : materialize (some [.sym "N", .known 2, .known 3]) false = some [-1, 2, 3] := by decide

/-! ## `Abs` of a shape value, and the symbolic sums created by `add` -/

/-- `abs` evaluator: every entry that is an `int` is checked, every symbolic entry is *assumed* non-negative.
That is right for every binding: named symbols are bound to naturals, and unnamed entries are non-negative
(`UnnamedNonneg`, an invariant established by `Shape` and preserved by `Gather`/`Concat` — theorems below; `add`
never creates an unnamed entry).  The earlier `_partial` version required "no unnamed entry at all".
**Conditional**: the hypothesis `hu : UnnamedNonneg s l` stays; it is proved per evaluator step below, its composition
over a whole graph is not a theorem of this file. -/
theorem abs_shape_identity (s : Shape) (h : evalAbs (some s) = true)
    (σ : String → Nat) (l : List Int) (hs : Admits σ s l) (hu : UnnamedNonneg s l) : ∀ v ∈ l, 0 ≤ v := by
  simp only [evalAbs, Bool.not_eq_true'] at h
  induction s generalizing l with
  | nil => cases l with
    | nil => intro v hv; simp only [List.not_mem_nil] at hv
    | cons _ _ => simp only [Admits] at hs
  | cons d s ih =>
    cases l with
    | nil => simp only [Admits] at hs
    | cons w l =>
      simp only [Admits] at hs
      simp only [UnnamedNonneg] at hu
      simp only [List.any_cons, Bool.or_eq_false_iff] at h
      intro v hv
      simp only [List.mem_cons] at hv
      rcases hv with rfl | hv
      · cases d with
        | known n =>
          simp only [Dim.Admits] at hs
          have := h.1; simp only [Dim.isNegInt, decide_eq_false_iff_not] at this; omega
        | sym a => simp only [Dim.Admits] at hs; omega
        | unknown => exact hu.1 rfl
      · exact ih l hs.2 hu.2 h.2 v hv

/-- `Shape(start,end)` of a tensor (dims ≥ 0) establishes the invariant, whatever is recorded for it: every entry
of the operator's output is a dim of the tensor. -/
theorem shape_value_unnamed_nonneg (sv : Shape) (st : Int) (en : Option Int)
    (l : List Int) (hn : ∀ v ∈ l, 0 ≤ v) : UnnamedNonneg sv (onnxShapeSlice l st en) := by
  apply unnamedNonneg_of_nonneg
  intro v hv
  rw [onnxShapeSlice_eq_pySlice] at hv
  simp only [pySlice] at hv
  exact hn v (List.mem_of_mem_take (List.mem_of_mem_drop hv))

/-- `Gather` on a shape value preserves the invariant. -/
theorem gather_unnamed_nonneg (s : Shape) (idx : List Int) (r : SymConst) (sv : Shape) (out : List Int)
    (h : evalGather (some s) (some 0) (some idx) = .ret (some r)) (hsv : r.sym = some sv)
    (σ : String → Nat) (l : List Int) (hs : Admits σ s l) (hu : UnnamedNonneg s l)
    (hout : onnxGatherAxis0 l idx = some out) : UnnamedNonneg sv out := by
  have hl := admits_length hs
  rw [onnxGatherAxis0_eq] at hout
  simp only [evalGather, ne_eq, not_true_eq_false, if_false] at h
  cases hg : seqOpt (idx.map (pyIndex s)) with
  | none => simp only [hg] at h; cases h
  | some g =>
    simp only [hg, Raised.ret.injEq, Option.some.injEq] at h
    subst h
    simp only [Option.some.injEq] at hsv
    subst hsv
    clear hs
    induction idx generalizing g out with
    | nil =>
      simp only [List.map_nil, seqOpt, Option.some.injEq] at hg hout
      subst hg; subst hout; simp only [UnnamedNonneg]
    | cons i is ih =>
      simp only [List.map_cons] at hg hout
      cases hi : pyIndex s i with
      | none => simp only [hi, seqOpt] at hg; cases hg
      | some d =>
        cases hj : pyIndex l i with
        | none => simp only [hj, seqOpt] at hout; cases hout
        | some v =>
          simp only [hi, seqOpt, Option.map_eq_some_iff] at hg
          simp only [hj, seqOpt, Option.map_eq_some_iff] at hout
          obtain ⟨g', hg', rfl⟩ := hg
          obtain ⟨o', ho', rfl⟩ := hout
          simp only [UnnamedNonneg]
          exact ⟨fun he => unnamedNonneg_pyIndex hl hu i hi hj he, by apply ih <;> assumption⟩

/-- `Concat` (axis 0) of shape values preserves the invariant. -/
theorem concat_unnamed_nonneg (ss : List Shape) (ls : List (List Int)) (h : ss.length = ls.length)
    (hlen : ∀ k (hk : k < ss.length), (ss[k]).length = (ls[k]'(h ▸ hk)).length)
    (hu : ∀ k (hk : k < ss.length), UnnamedNonneg ss[k] (ls[k]'(h ▸ hk))) :
    UnnamedNonneg ss.flatten ls.flatten := by
  induction ss generalizing ls with
  | nil => simp only [List.flatten_nil, UnnamedNonneg]
  | cons s ss ih =>
    cases ls with
    | nil => simp only [List.length_nil, List.length_cons] at h; omega
    | cons l ls =>
      simp only [List.flatten_cons]
      refine unnamedNonneg_append (hlen 0 (by simp only [List.length_cons]; omega)) (hu 0 (by simp only [List.length_cons]; omega))
        (ih ls (by simpa using h) ?_ ?_)
      · intro k hk; exact hlen (k + 1) (by simp only [List.length_cons]; omega)
      · intro k hk; exact hu (k + 1) (by simp only [List.length_cons]; omega)

/-- `add` never records an unnamed entry. -/
theorem add_no_unnamed (a b : Option Shape) (r : Shape) (h : evalAdd a b = some r) : hasUnknown r = false := by
  match a, b, h with
  | some [d0], some [d1], h =>
    cases d0 <;> cases d1 <;> simp only [evalAdd, Dim.render] at h <;>
      first
      | (simp only [Option.some.injEq] at h; subst h; rfl)
      | (split at h
         · cases h
         · simp only [Option.some.injEq] at h; subst h; rfl)
      | cases h

example : evalAbs (some [.unknown, .known 3, .sym "N"]) = true := by decide

/-- `add` evaluator: the recorded value is truthful for the sum **provided the freshly made name denotes
that sum** (`hname`; for two ints nothing is needed). -/
theorem add_sym_sound_partial (d₀ d₁ r : Dim) (h : evalAdd (some [d₀]) (some [d₁]) = some [r])
    (σ : String → Nat) (a b : Int) (h₀ : d₀.Admits σ a) (h₁ : d₁.Admits σ b)
    (hname : ∀ nm, r = .sym nm → (σ nm : Int) = a + b) : r.Admits σ (a + b) := by
  cases r with
  | sym nm => exact hname nm rfl
  | known k =>
    cases d₀ <;> cases d₁ <;> simp only [evalAdd, Dim.render] at h <;>
      first
      | (simp only [Option.some.injEq, List.cons.injEq, Dim.known.injEq, and_true] at h
         simp only [Dim.Admits] at h₀ h₁ ⊢; omega)
      | (split at h <;> simp at h)
      | cases h
  | unknown =>
    cases d₀ <;> cases d₁ <;> simp only [evalAdd, Dim.render] at h <;>
      first
      | (simp at h; done)
      | (split at h <;> simp at h)
      | cases h

/-- what `add` records is never a negative int operand mixed into a symbolic sum (commit 4b0f9eb) -/
theorem add_no_negative_in_sum (d₀ d₁ : Dim) (nm : String)
    (h : evalAdd (some [d₀]) (some [d₁]) = some [.sym nm]) : d₀.isNegInt = false ∧ d₁.isNegInt = false := by
  cases d₀ <;> cases d₁ <;> simp only [evalAdd, Dim.render] at h <;>
    first
    | (simp at h; done)
    | (split at h
       · cases h
       · rename_i hc
         simpa only [Bool.or_eq_true, not_or, Bool.not_eq_true] using hc)
    | cases h

/-- **D5, fixed by commit 4b0f9eb.**  `Abs(a + b)` replaced by `Identity` is now right for *every*
binding and every pair of **single-entry** shape values: whenever `abs` fires on what `add` recorded, the
run-time sum is non-negative.  The statement covers one-entry values only (`Admits σ a [x]`, `Admits σ b [y]`); that is
the whole domain on which `add` records anything (`evalAdd` is `none` for other lengths, and `evalAbs none = false`). -/
theorem abs_after_add_sound (a b : Shape) (h : evalAbs (evalAdd (some a) (some b)) = true)
    (σ : String → Nat) (x y : Int) (ha : Admits σ a [x]) (hb : Admits σ b [y]) : 0 ≤ x + y := by
  match a, b, ha, hb with
  | [d₀], [d₁], ha, hb =>
    simp only [Admits, and_true] at ha hb
    cases hr : evalAdd (some [d₀]) (some [d₁]) with
    | none => rw [hr] at h; simp only [evalAbs] at h; cases h
    | some r =>
      rw [hr] at h
      cases d₀ with
      | known n =>
        cases d₁ with
        | known m =>
          simp only [evalAdd, Option.some.injEq] at hr
          subst hr
          simp only [evalAbs, List.any_cons, List.any_nil, Bool.or_false, Bool.not_eq_true', Dim.isNegInt,
            decide_eq_false_iff_not] at h
          simp only [Dim.Admits] at ha hb; omega
        | sym s =>
          simp only [evalAdd, Dim.render] at hr
          split at hr
          · cases hr
          · rename_i hc
            simp only [Dim.isNegInt, Bool.or_false, decide_eq_true_eq] at hc
            simp only [Dim.Admits] at ha hb; omega
        | unknown => simp only [evalAdd, Dim.render] at hr; cases hr
      | sym s =>
        cases d₁ with
        | known m =>
          simp only [evalAdd, Dim.render] at hr
          split at hr
          · cases hr
          · rename_i hc
            simp only [Dim.isNegInt, Bool.false_or, decide_eq_true_eq] at hc
            simp only [Dim.Admits] at ha hb; omega
        | sym t => simp only [Dim.Admits] at ha hb; omega
        | unknown => simp only [evalAdd, Dim.render] at hr; cases hr
      | unknown => cases d₁ <;> simp only [evalAdd, Dim.render] at hr <;> cases hr
  | [], _, ha, _ => simp only [Admits] at ha
  | _ :: _ :: _, _, ha, _ => simp only [Admits] at ha; exact ha.2.elim
  | [_], [], _, hb => simp only [Admits] at hb
  | [_], _ :: _ :: _, _, hb => simp only [Admits] at hb; exact hb.2.elim

/-- Regression witness: before commit 4b0f9eb the statement was false — `a = [N]`, `b = [-5]`, `N = 2`:
the fold pass recorded `"N+-5"` and `abs` took it for non-negative (finding D5, now fixed; the model stays
in the corpus). -/
theorem abs_after_add_prefix_refuted :
    ¬ (∀ (a b : Shape), evalAbs (evalAddBefore4b0f9eb (some a) (some b)) = true →
        ∀ (σ : String → Nat) (x y : Int), Admits σ a [x] → Admits σ b [y] → 0 ≤ x + y) := by
  intro h
  have := h [.sym "N"] [.known (-5)] (by decide) (fun _ => 2) 2 (-5)
    (by simp only [Admits, Dim.Admits]; decide) (by simp only [Admits, Dim.Admits]; decide)
  revert this; decide

example : evalAdd (some [.sym "N"]) (some [.known (-5)]) = none := by decide
example : evalAdd (some [.sym "N"]) (some [.known 5]) = some [.sym "N+5"] := by decide
example : evalAbs (evalAdd (some [.sym "N"]) (some [.known 5])) = true := by decide

/-! ## Shape pieces: `Shape(start,end)`, `Size`, `Gather`, `Concat` -/

/-- `shape` evaluator: Python's `shape[start:end]` is the specification's `Shape(start, end)`; the
recorded symbolic value is truthful for the operator's run-time output, and a returned constant *is* that
output, for every binding. -/
theorem shape_slice (s : Shape) (st : Int) (en : Option Int) (r : SymConst)
    (h : evalShape (some s) st en = some r) (σ : String → Nat) (l : List Int) (hs : Admits σ s l) :
    (∃ sv, r.sym = some sv ∧ Admits σ sv (onnxShapeSlice l st en)) ∧
    (∀ c, r.const = some c → c = onnxShapeSlice l st en) := by
  simp only [evalShape, Option.some.injEq] at h
  subst h
  rw [onnxShapeSlice_eq_pySlice]
  have ha := admits_pySlice hs (some st) en
  exact ⟨⟨_, rfl, ha⟩, fun c hc => (allInts_admits hc ha).symm⟩

/-- `size` evaluator: a constant is produced only from all-static shapes and equals the element count. -/
theorem size_const (s : Shape) (n : Int) (h : evalSize (some s) = some n)
    (σ : String → Nat) (l : List Int) (hs : Admits σ s l) : prodInt l = n := by
  simp only [evalSize, Option.map_eq_some_iff] at h
  obtain ⟨c, hc, rfl⟩ := h
  rw [allInts_admits hc hs]

/-- `gather` evaluator on a shape value (axis 0, 1-D constant indices, Python/ONNX negative wrap): each
gathered entry is truthful for the gathered run-time element; a returned constant is the run-time output. -/
theorem gather_shape_const (s : Shape) (idx : List Int) (r : SymConst)
    (h : evalGather (some s) (some 0) (some idx) = .ret (some r))
    (σ : String → Nat) (l : List Int) (hs : Admits σ s l) :
    ∃ sv out, r.sym = some sv ∧ seqOpt (idx.map (pyIndex l)) = some out ∧ Admits σ sv out ∧
      (∀ c, r.const = some c → c = out) := by
  simp only [evalGather, ne_eq, not_true_eq_false, if_false] at h
  cases hg : seqOpt (idx.map (pyIndex s)) with
  | none => simp only [hg] at h; cases h
  | some g =>
    simp only [hg, Raised.ret.injEq, Option.some.injEq] at h
    subst h
    have key : ∀ (idx : List Int) (g : Shape), seqOpt (idx.map (pyIndex s)) = some g →
        ∃ out, seqOpt (idx.map (pyIndex l)) = some out ∧ Admits σ g out := by
      intro idx
      induction idx with
      | nil => intro g hg; simp only [List.map_nil, seqOpt, Option.some.injEq] at hg; subst hg
               exact ⟨[], rfl, by simp only [Admits]⟩
      | cons i is ih =>
        intro g hg
        simp only [List.map_cons] at hg
        cases hi : pyIndex s i with
        | none => simp only [hi, seqOpt] at hg; cases hg
        | some d =>
          simp only [hi, seqOpt, Option.map_eq_some_iff] at hg
          obtain ⟨g', hg', rfl⟩ := hg
          obtain ⟨out', ho', ha'⟩ := ih g' hg'
          obtain ⟨v, hv, hav⟩ := admits_pyIndex hs i hi
          exact ⟨v :: out', by simp only [List.map_cons, hv, seqOpt, ho', Option.map_some], by
            simp only [Admits]; exact ⟨hav, ha'⟩⟩
    obtain ⟨out, ho, ha⟩ := key idx g hg
    exact ⟨g, out, rfl, ho, ha, fun c hc => (allInts_admits hc ha).symm⟩

/-- `concat` evaluator (axis 0, every operand carries a shape value): the recorded value is truthful for
the concatenation of the operands' run-time contents. -/
theorem concat_shape (ss : List Shape) (σ : String → Nat) (ls : List (List Int))
    (h : ss.length = ls.length) (ha : ∀ k (hk : k < ss.length), Admits σ ss[k] (ls[k]'(h ▸ hk))) :
    Admits σ ss.flatten ls.flatten := by
  induction ss generalizing ls with
  | nil => cases ls with
    | nil => simp only [List.flatten_nil, Admits]
    | cons _ _ => simp only [List.length_nil, List.length_cons] at h; omega
  | cons s ss ih =>
    cases ls with
    | nil => simp only [List.length_nil, List.length_cons] at h; omega
    | cons l ls =>
      simp only [List.flatten_cons]
      refine admits_append (ha 0 (by simp only [List.length_cons]; omega)) (ih ls (by simpa using h) ?_)
      intro k hk
      exact ha (k + 1) (by simp only [List.length_cons]; omega)

/-! ## `Flatten2Reshape` -/

/-- `flatten_to_reshape` (any rank, any `0 ≤ axis ≤ rank`, any truthful output annotation, every
binding): the emitted Reshape (default `allowzero=0`) is defined and yields the Flatten result —
**provided no run-time dim is 0** (the hypothesis the proof forces: a static product `0` is read as "copy
the input dim", and a `-1` beside a zero cannot be inferred). -/
theorem flatten_to_reshape_partial (s : Shape) (out : Option Shape) (axis : Nat) (tgt : List Int)
    (h : flattenTarget (some s) out (axis : Int) = some tgt) (hax : axis ≤ s.length)
    (σ : String → Nat) (l : List Int) (hs : Admits σ s l) (hpos : ∀ d ∈ l, 0 < d)
    (hout : ∀ o, out = some o → Admits σ o (flattenSpec l axis)) :
    reshapeTarget l tgt false = some (flattenSpec l axis) :=
  flatten_core s out axis tgt h hax l hs hpos hout

/-- Since commit 02f546a the rule refuses an input with a *static* zero dim, so for inputs without unnamed
dims the only hypothesis left is about the binding: **every symbol of the input shape is bound to a positive
value**. -/
theorem flatten_to_reshape_symbols_positive (s : Shape) (out : Option Shape) (axis : Nat) (tgt : List Int)
    (h : flattenTarget (some s) out (axis : Int) = some tgt) (hax : axis ≤ s.length)
    (hu : hasUnknown s = false)
    (σ : String → Nat) (l : List Int) (hs : Admits σ s l) (hnn : ∀ d ∈ l, 0 ≤ d)
    (hsym : ∀ a, Dim.sym a ∈ s → 0 < σ a)
    (hout : ∀ o, out = some o → Admits σ o (flattenSpec l axis)) :
    reshapeTarget l tgt false = some (flattenSpec l axis) :=
  flatten_core s out axis tgt h hax l hs
    (pos_of_symbols_pos hs (flatten_fires_no_static_zero s out _ tgt h) hu hnn hsym) hout

/-- The rule never fires on a statically zero-size input any more. -/
theorem flatten_refuses_static_zero (s : Shape) (out : Option Shape) (axisAttr : Int) (h : Dim.known 0 ∈ s) :
    flattenTarget (some s) out axisAttr = none := by
  cases ht : flattenTarget (some s) out axisAttr with
  | none => rfl
  | some tgt => exact absurd h (flatten_fires_no_static_zero s out axisAttr tgt ht)

/-- Regression witness (static half of D6, fixed by 02f546a): `Flatten(axis=2)` of `2×0×3` became
`Reshape(x, [0,3])`, whose `0` copies dim 0 (= 2): 6 ≠ 0 elements, the runtime rejected it. -/
theorem flatten_to_reshape_static_zero_prefix_refuted :
    ¬ (∀ (s : Shape) (out : Option Shape) (axis : Nat) (tgt : List Int),
        flattenTargetBefore02f546a (some s) out (axis : Int) = some tgt → axis ≤ s.length →
        ∀ (σ : String → Nat) (l : List Int), Admits σ s l →
          (∀ o, out = some o → Admits σ o (flattenSpec l axis)) →
          reshapeTarget l tgt false = some (flattenSpec l axis)) := by
  intro h
  have := h [.known 2, .known 0, .known 3] none 2 [0, 3] (by decide) (by decide) (fun _ => 0) [2, 0, 3]
    (by simp only [Admits, Dim.Admits]; decide) (by intro o ho; cases ho)
  revert this; decide

example : flattenTarget (some [.known 2, .known 0, .known 3]) none 2 = none := by decide

/-- **D6, still open (symbolic half).**  The positivity hypothesis cannot be dropped: `Flatten(axis=1)` of
`[N, M]` becomes `Reshape(x, [0,-1])`, rejected at `N = 0` (the original returns shape `[0, M]`). -/
theorem flatten_to_reshape_symbolic_zero_refuted :
    ¬ (∀ (σ : String → Nat) (l : List Int), Admits σ [.sym "N", .sym "M"] l →
        ∀ tgt, flattenTarget (some [.sym "N", .sym "M"]) none 1 = some tgt →
          reshapeTarget l tgt false = some (flattenSpec l 1)) := by
  intro h
  have := h (fun a => if a = "N" then 0 else 3) [0, 3] (by simp only [Admits, Dim.Admits]; decide) [0, -1] (by decide)
  revert this; decide

example : flattenTarget (some [.sym "N", .known 2, .known 3]) none 1 = some [0, 6] := by decide

/-! ## `ScatterAllDynamic` -/

/-- When the rule fires, the number of rows the index chain `Range(0, Gather(Shape(data, start=0), axis), 1)`
enumerates equals the first dimension of the scattered tensor for every binding — the update covers whole
rows `0 … d-1`, so `Identity(updates)` is right.  (`onnxShapeSlice l 0 none = l`: with `start=0` the gathered
entry is `data.shape[axis]`, the entry the check looks at.) -/
theorem scatter_all_dynamic_sound (a : Int) (s t : Shape)
    (h : scatterAllDynamic (some 0) (some a) (some s) (some t) = true)
    (σ : String → Nat) (l lt : List Int) (hs : Admits σ s l) (ht : Admits σ t lt) :
    ∃ v, pyIndex (onnxShapeSlice l 0 none) a = some v ∧ lt.head? = some v := by
  simp only [scatterAllDynamic] at h
  have hsl : onnxShapeSlice l 0 none = l := by
    rw [onnxShapeSlice_eq_pySlice]
    simp [pySlice, pyClamp]
  rw [hsl]
  cases hd1 : pyIndex s a with
  | none => simp only [hd1] at h; cases h
  | some d1 =>
    cases t with
    | nil => simp only [hd1, List.head?_nil] at h; cases h
    | cons d2 t' =>
      simp only [hd1, List.head?_cons] at h
      cases lt with
      | nil => simp only [Admits] at ht
      | cons w lt' =>
        simp only [Admits] at ht
        obtain ⟨v, hv, hav⟩ := admits_pyIndex hs a hd1
        exact ⟨v, hv, by simp only [List.head?_cons, same_dim_sound d1 d2 h σ v w hav ht.1]⟩

example : scatterAllDynamic (some 0) (some 1) (some [.sym "N", .sym "M"]) (some [.sym "M", .known 2]) = true := by decide
example : scatterAllDynamic (some 1) (some 0) (some [.sym "N", .sym "M"]) (some [.sym "N", .known 2]) = false := by decide
example : scatterAllDynamic none (some 0) (some [.sym "N", .sym "M"]) (some [.sym "N", .known 2]) = false := by decide

/-! ## Failing set of `Flatten2Reshape` (outputs not annotated with a static 0) -/

/-- **The open half of D6, characterised within the stated hypotheses.**  Run-time dims may be 0 (`hn`: they are ≥ 0).
Whenever the rule fires (so no static dim is 0), for `0 ≤ axis ≤ rank` (`hax`), every binding and every truthful output
annotation **without a static 0** (`hoz` — a real restriction: an annotated static 0 would be written into the target as
"copy"), the emitted Reshape returns the Flatten result — unless the target is `[0, -1]` *and* dim 0 is 0 at run time.
Outputs annotated with a static 0 and negative `axis` attributes are outside this theorem. -/
theorem flatten_to_reshape_exact (s : Shape) (out : Option Shape) (axis : Nat) (tgt : List Int)
    (h : flattenTarget (some s) out (axis : Int) = some tgt) (hax : axis ≤ s.length)
    (σ : String → Nat) (l : List Int) (hs : Admits σ s l) (hn : ∀ d ∈ l, 0 ≤ d)
    (hout : ∀ o, out = some o → Admits σ o (flattenSpec l axis)) (hoz : ∀ o, out = some o → Dim.known 0 ∉ o)
    (hbad : tgt = [0, -1] → l.head? ≠ some 0) :
    reshapeTarget l tgt false = some (flattenSpec l axis) :=
  flatten_core2 s out axis tgt h hax l hs hn hout hoz hbad

/-- … and in that one case the rewritten model rejects the input, whatever the other dims are. -/
theorem flatten_zero_minus_one_rejects (t : List Int) : reshapeTarget (0 :: t) [0, -1] false = none := by
  simp [reshapeTarget, resolveZeros, prodInt]

example : flattenTarget (some [.sym "N", .sym "M"]) none 1 = some [0, -1] := by decide
example : flattenTarget (some [.sym "N", .known 2, .known 3]) none 1 = some [0, 6] := by decide

/-! ## Values, not only shapes: `BinaryOp(Expand(x, e), y)` reads the same elements of `x` -/

/-- For reversed shapes/indices: if `lE` is what `Expand` made of `lx`, then for **every** output index of the
binary op, the element of `x` reached through the op's broadcasting of the expanded tensor and then through the
Expand's own broadcasting is the element reached through the op's broadcasting of `x` directly.  Together with
the shape theorems this makes the removal value-preserving, not only shape-preserving. -/
theorem expand_reads_same_element (lx le lE idx : List Int)
    (h : bcastN (max lx.length le.length) lx le = some lE) :
    readIdx lx (readIdx lE idx) = readIdx lx idx :=
  readIdx_through_expand _ lx le lE idx rfl h

example : readIdx [1, 3] (readIdx [5, 3] [4, 2]) = readIdx [1, 3] [4, 2] := by decide

/-! ## `collapse_slice`, `collapse_slice2` -/

/-- `_check_if_redundant_slice`: when it answers yes, `start = 0`, `step = 1`, and for every binding the
slice selects the whole axis: either `end` is INT64_MAX (any dim size up to INT64_MAX), or the axis is static
and `end ≥` its size. -/
theorem redundant_slice_sound (st en ax sp : Int) (data : Option Shape)
    (h : redundantSlice (some st) (some en) (some ax) (some sp) data = true) :
    st = 0 ∧ sp = 1 ∧
    ∀ (σ : String → Nat) (d : Int), 0 ≤ d → d ≤ INT64_MAX →
      (en = INT64_MAX ∨ ∃ s l, data = some s ∧ Admits σ s l ∧ pyIndex l ax = some d) →
      sliceRange1 d st en = (0, d) := by
  simp only [redundantSlice] at h
  by_cases h1 : sp = 1
  · by_cases h2 : st = 0
    · rw [if_neg (not_not_intro h1), if_neg (not_not_intro h2)] at h
      subst h1; subst h2
      refine ⟨rfl, rfl, ?_⟩
      intro σ d hd hmax hsrc
      by_cases h3 : en = INT64_MAX
      · subst h3; exact sliceRange1_zero_big d _ hd hmax
      · rw [if_neg h3] at h
        rcases hsrc with hsrc | ⟨s, l, rfl, hs, hl⟩
        · exact absurd hsrc h3
        · simp only at h
          cases hp : pyIndex s ax with
          | none => simp only [hp] at h; cases h
          | some dd =>
            cases dd with
            | known k =>
              simp only [hp, Bool.not_eq_true', decide_eq_false_iff_not] at h
              obtain ⟨v, hv, hav⟩ := admits_pyIndex hs ax hp
              rw [hl] at hv
              simp only [Option.some.injEq] at hv
              simp only [Dim.Admits] at hav
              exact sliceRange1_zero_big d en hd (by omega)
            | sym a => simp only [hp] at h; cases h
            | unknown => simp only [hp] at h; cases h
    · rw [if_neg (not_not_intro h1), if_pos h2] at h; cases h
  · rw [if_pos h1] at h; cases h

/-- `collapse_slice2`: every step is 1 and input and output annotations denote the same shape under every
binding; a step-1 slice that keeps an axis' length selects the whole axis (`sliceRange1_full_of_length`). -/
theorem slice_same_shape_sound (a b : Shape) (sp : List Int) (h : sliceSameShape (some a) (some b) (some sp) = true) :
    (∀ x ∈ sp, x = 1) ∧ ∀ (σ : String → Nat) (l₁ l₂ : List Int), Admits σ a l₁ → Admits σ b l₂ → l₁ = l₂ := by
  simp only [sliceSameShape, Bool.and_eq_true, List.all_eq_true, beq_iff_eq] at h
  exact ⟨h.1, fun σ l₁ l₂ h₁ h₂ => (same_shape_sound a b h.2 σ).2 l₁ l₂ h₁ h₂⟩

theorem slice_keeping_length_is_whole_axis (d st en : Int) (hd : 0 < d)
    (h : max 0 ((sliceRange1 d st en).2 - (sliceRange1 d st en).1) = d) : sliceRange1 d st en = (0, d) := by
  rcases sliceRange1_full_of_length d st en (by omega) h with h0 | h0
  · omega
  · exact h0

example : redundantSlice (some 0) (some INT64_MAX) (some (-1)) (some 1) none = true := by decide
example : redundantSlice (some 0) (some 3) (some 1) (some 1) (some [.sym "N", .known 3]) = true := by decide
example : sliceSameShape (some [.sym "N", .known 3]) (some [.sym "N", .known 3]) (some [1, 1]) = true := by decide

/-! ## `SqueezeReshape1d`, `ScatterAllStatic`, `get_shape_value`, `identity` -/

/-- `Reshape(Squeeze(x), [-1])` of a 1-D `x` is `x`, for every size of that dim (1 — where Squeeze makes a
scalar — and 0 included). -/
theorem squeeze_reshape_1d_sound (s : Shape) (h : squeezeReshape1d (some s) = true)
    (σ : String → Nat) (l : List Int) (hs : Admits σ s l) (hn : ∀ d ∈ l, 0 ≤ d) :
    reshapeTarget (squeezeAllSpec l) [-1] false = some l := by
  simp only [squeezeReshape1d, decide_eq_true_eq] at h
  have hl := admits_length hs
  match l, hl with
  | [d], _ =>
    have hd := hn d (List.mem_cons_self ..)
    by_cases h1 : d = 1
    · subst h1; decide
    · have hne : (d != 1) = true := by simp [h1]
      simp [squeezeAllSpec, hne, reshapeTarget, resolveZeros, prodInt]
  | [], hl => simp only [List.length_nil] at hl; omega
  | _ :: _ :: _, hl => simp only [List.length_cons] at hl; omega

/-- `ScatterAllStatic`: when the rule fires, data and updates have the same shape under every binding, the first
dim is the static `n`, and the indices are exactly rows `0 … n-1` in order (with `reduction = none`): every row
is overwritten by the corresponding row of `updates`. -/
theorem scatter_all_static_sound (red : Bool) (data upd : Shape) (idx : List (List Int))
    (h : scatterAllStatic red (some data) (some upd) (some idx) = true) :
    red = true ∧ ∃ n rest, data = .known n :: rest ∧ idx = (List.range n.toNat).map (fun (i : Nat) => [(i : Int)]) ∧
      ∀ (σ : String → Nat) (ld lu : List Int), Admits σ data ld → Admits σ upd lu → ld = lu ∧ ld.head? = some n := by
  simp only [scatterAllStatic, Bool.and_eq_true] at h
  obtain ⟨⟨hr, hss⟩, hi⟩ := h
  refine ⟨hr, ?_⟩
  match data, hi with
  | .known n :: rest, hi =>
    simp only [decide_eq_true_eq] at hi
    refine ⟨n, rest, rfl, hi, ?_⟩
    intro σ ld lu hd hu
    refine ⟨(same_shape_sound _ _ hss σ).2 ld lu hd hu, ?_⟩
    cases ld with
    | nil => simp only [Admits] at hd
    | cons v t => simp only [Admits, Dim.Admits] at hd; simp only [List.head?_cons, hd.1]

/-- `get_shape_value` on a constant: only INT64, at most 10 elements, 1-D; the result then denotes exactly the
constant's contents. -/
theorem get_shape_value_const (ci : ConstInfo) (sym : Option Shape) (sv : Shape)
    (hc : (ci.isInt64 && decide (ci.vals.length ≤ 10)) = true) (h : getShapeValue (some ci) sym = some sv)
    (σ : String → Nat) : ci.ndim = 1 ∧ Admits σ sv ci.vals := by
  simp only [getShapeValue, hc, if_true] at h
  by_cases hn : ci.ndim = 1
  · simp only [hn, if_true, Option.some.injEq] at h
    subst h; exact ⟨hn, admits_map_known_self σ _⟩
  · simp only [hn, if_false] at h; cases h

/-- `identity` evaluator (backward shape inference; a failed merge keeps the input annotation; nothing is merged
onto a graph input): what is recorded for the input is truthful whenever both annotations were. -/
theorem identity_eval_sound (gi : Bool) (i o : Option Shape) (r : Shape) (h : evalIdentity gi i o = some r)
    (σ : String → Nat) (l : List Int)
    (hi : ∀ s, i = some s → Admits σ s l) (ho : ∀ s, o = some s → Admits σ s l) : Admits σ r l := by
  cases gi with
  | true => simp only [evalIdentity, if_true] at h; exact hi r h
  | false =>
    simp only [evalIdentity, Bool.false_eq_true, if_false] at h
    cases i with
    | none =>
      simp only [mergeShapes] at h
      exact ho r h
    | some p =>
      cases o with
      | none =>
        simp only [mergeShapes, Option.some.injEq] at h
        subst h; exact hi _ rfl
      | some q =>
        cases hm : mergeShapes (some p) (some q) with
        | error e =>
          simp only [hm, Option.some.injEq] at h
          subst h; exact hi _ rfl
        | ok v =>
          simp only [hm] at h
          subst h
          exact merge_shapes_sound p q r hm σ l (hi _ rfl) (ho _ rfl)

/-- The declared shape of a graph input is never changed by the `identity` evaluator (commit 71af564).
(Definitional unfolding of the model's flag; its content is the tie of `evalIdentity` to the code.) -/
theorem identity_keeps_graph_input (i o : Option Shape) : evalIdentity true i o = i := by
  simp only [evalIdentity, if_true]

example : evalIdentity false (some [.sym "N"]) (some [.known 3]) = some [.known 3] := by decide
example : evalIdentity true (some [.sym "N"]) (some [.known 3]) = some [.sym "N"] := by decide

example : scatterAllStatic true (some [.known 2, .sym "M"]) (some [.known 2, .sym "M"]) (some [[0], [1]]) = true := by decide
example : getShapeValue (some ⟨true, 1, [3, -1]⟩) none = some [.known 3, .known (-1)] := by decide
example : getShapeValue (some ⟨false, 1, [3]⟩) (some [.sym "N"]) = some [.sym "N"] := by decide

/-! ## `Gather` on a shape value against the operator specification -/

/-- Restatement of `gather_shape_const` against `onnxGatherAxis0` (bounds `[-s, s-1]`, negative indices count from
the end): whatever the evaluator records/returns is truthful for the operator's output, for every binding. -/
theorem gather_shape_spec (s : Shape) (idx : List Int) (r : SymConst)
    (h : evalGather (some s) (some 0) (some idx) = .ret (some r))
    (σ : String → Nat) (l : List Int) (hs : Admits σ s l) :
    ∃ sv out, r.sym = some sv ∧ onnxGatherAxis0 l idx = some out ∧ Admits σ sv out ∧ (∀ c, r.const = some c → c = out) := by
  obtain ⟨sv, out, h1, h2, h3, h4⟩ := gather_shape_const s idx r h σ l hs
  exact ⟨sv, out, h1, by rw [onnxGatherAxis0_eq]; exact h2, h3, h4⟩

/-- The evaluator raises (Python `IndexError`, which aborts the fold pass) exactly on the index lists the operator
itself rejects at run time — it never raises on a model that runs, and never records a value for one that does not. -/
theorem gather_raises_iff_spec_rejects (s : Shape) (idx : List Int) (σ : String → Nat) (l : List Int)
    (hs : Admits σ s l) :
    evalGather (some s) (some 0) (some idx) = .raised ↔ onnxGatherAxis0 l idx = none := by
  have hl := admits_length hs
  rw [onnxGatherAxis0_eq]
  simp only [evalGather, ne_eq, not_true_eq_false, if_false]
  have key : seqOpt (idx.map (pyIndex s)) = none ↔ seqOpt (idx.map (pyIndex l)) = none := by
    rw [seqOpt_isNone_iff, seqOpt_isNone_iff]
    simp only [List.mem_map]
    constructor
    · rintro ⟨x, ⟨i, hi, rfl⟩, hx⟩
      refine ⟨_, ⟨i, hi, rfl⟩, ?_⟩
      have := pyIndex_isSome_of_length s l hl i
      rw [hx] at this
      cases hp : pyIndex l i with
      | none => rfl
      | some v => rw [hp] at this; cases this
    · rintro ⟨x, ⟨i, hi, rfl⟩, hx⟩
      refine ⟨_, ⟨i, hi, rfl⟩, ?_⟩
      have := pyIndex_isSome_of_length s l hl i
      rw [hx] at this
      cases hp : pyIndex s i with
      | none => rfl
      | some v => rw [hp] at this; cases this
  cases hg : seqOpt (idx.map (pyIndex s)) with
  | none => exact ⟨fun _ => key.mp hg, fun _ => rfl⟩
  | some g =>
    constructor
    · intro hc; cases hc
    · intro hn
      have := key.mpr hn
      rw [hg] at this; cases this

example : onnxGatherAxis0 [7, 8, 9] [-1, 0, -3] = some [9, 7, 7] := by decide
example : onnxGatherAxis0 [7, 8, 9] [3] = none := by decide
example : evalGather (some [.sym "N", .known 4]) (some 0) (some [-1]) = .ret (some ⟨some [.known 4], some [4]⟩) := by decide
example : evalGather (some [.sym "N", .known 4]) (some 0) (some [-3]) = .raised := by decide

/-! ## The arithmetic no-op rules and the matcher's scalar test -/

/-- `mul_by_1`, `add_0` (both operand orders), `sub_0`, `div_by_1`: when one of them fires, the matched constant
has rank 0 (`_match_constant`: `ndim == 0`), so for **every** rank and every dims of the other operand — rank 0,
symbolic, zero-size included — the node's result had exactly that operand's shape: `Identity(x)` preserves it.
(Near-trivial once the rank-0 test is in the model; the substance is `scalar_test_necessary` below and the `ruleNoOp` tie.) -/
theorem no_op_rule_preserves_shape (op : NoOp) (side nd : Nat) (neutral : Bool)
    (h : noOpFires op side nd neutral = true) (lx lc : List Int) (hc : lc.length = nd) :
    broadcast lx lc = some lx ∧ broadcast lc lx = some lx := by
  simp only [noOpFires, matchScalarShape, Bool.and_eq_true, beq_iff_eq] at h
  have : lc = [] := List.eq_nil_of_length_eq_zero (by rw [hc]; exact h.1.1)
  subst this
  exact ⟨broadcast_nil_right lx, broadcast_nil_left lx⟩

/-- The rank test cannot be weakened to "one element": next to a rank-0 operand a one-element constant of any
rank `k ≥ 1` gives a result of rank `k`, which `Identity(x)` does not have (the class of seeded change C09-7). -/
theorem scalar_test_necessary (lc : List Int) (hk : 0 < lc.length) :
    broadcast [] lc ≠ some [] ∧ broadcast lc [] ≠ some [] := by
  constructor
  · intro h; have := broadcast_length h; simp only [List.length_nil, Nat.zero_max] at this; omega
  · intro h; have := broadcast_length h; simp only [List.length_nil, Nat.max_zero] at this; omega

example : noOpFires .mul1 0 0 true = true := by decide
example : noOpFires .sub0 0 0 true = false := by decide
example : noOpFires .add0 1 1 true = false := by decide
example : broadcast [] [1] = some [1] := by decide

/-! ## concat evaluator: which operands may be dropped -/

/-- `concat` evaluator, operand dropping (`has_zero_size`): an operand is dropped only when its annotation has the
*static* value 0 **on the concat axis** (Python indexing, negative axis from the end; an out-of-range axis, a
symbolic or unnamed dim, or a 0 on another axis never qualifies) — and then, for every binding and every tensor the
annotation is truthful for, the operand's extent on that axis is 0, so it contributes nothing to the concatenation and
the extent of the result on the concat axis is unchanged. -/
theorem concat_drop_sound (s : Shape) (ax : Int) (h : hasZeroSize (some s) ax = true)
    (σ : String → Nat) (l : List Int) (ha : Admits σ s l) : pyIndex l ax = some 0 := by
  unfold hasZeroSize at h
  simp only at h
  split at h
  · rename_i d hd
    have hd0 : d = .known 0 := by simpa using h
    subst hd0
    obtain ⟨v, hv, hadm⟩ := admits_pyIndex ha ax hd
    have : (0 : Int) = v := hadm
    rw [hv, ← this]
  · cases h

/-- … and a 0 on any *other* axis does not make the operand droppable (the class of seeded change C09-10):
`float[N,0] ++ float[M,0]` on axis 0 keeps both operands. -/
theorem concat_keeps_offaxis_empty :
    evalConcat [(some [.sym "N", .known 0], none), (some [.sym "M", .known 0], none)] (some 0) = .nothing ∧
    hasZeroSize (some [.sym "N", .known 0]) 0 = false ∧ hasZeroSize (some [.sym "N", .known 0]) (-1) = true := by decide

example : hasZeroSize (some [.sym "N", .known 0]) 1 = true := by decide
example : hasZeroSize (some [.sym "N", .known 0]) 2 = false := by decide

/-! ## reshape_reshape (`ReshapeReshape`, `_basic_rules.py`) -/

/-- **`Reshape(Reshape(x, s₀), shape)` → `Reshape(x, new_shape)`**, all ranks, both `allowzero` values, every output
annotation, every binding.  `inp` = shape of `x`, `mid` = shape of the inner Reshape's result (any list of non-negative
dims with the same element count — all the inner Reshape can produce), `t` = the constant second target, `out` the
annotation of the outer output.  Whenever `check` succeeds with (`tgt`, `allowzero'`) and the original outer Reshape
accepts (`reshapeTarget mid t az = some res`, the ONNX rule with `0` = copy / `-1` = infer / `allowzero`) with `out`
truthful for its result, the rewritten single Reshape accepts and returns the same shape — in particular a `0` in
`shape` (copy the dim of the *intermediate* tensor) is never left to be read against `x`, a `-1` inferred from a zero
element count stays well defined, and entries taken from the annotation are the run-time values. -/
theorem reshape_reshape_sound (inp mid t tgt : List Int) (az : Int) (az' : Bool) (out : Option Shape)
    (h : reshapeReshape (some t) out az = .ret (some (tgt, az')))
    (σ : String → Nat) (res : List Int)
    (hnn : ∀ d ∈ mid, 0 ≤ d) (hmid : prodInt mid = prodInt inp)
    (ho : reshapeTarget mid t (az == 1) = some res)
    (hout : ∀ o, out = some o → Admits σ o res) :
    reshapeTarget inp tgt az' = some res := by
  -- the original outer Reshape
  rw [reshapeTarget_eq] at ho
  split at ho
  · cases ho
  rename_i g1
  split at ho
  · cases ho
  rename_i g2
  split at ho
  · cases ho
  rename_i g3
  have g2' : t.any (· < -1) = false := by simpa using g2
  have g1' : cntNeg t ≤ 1 := by unfold cntNeg; omega
  obtain ⟨t1, ht1, hinf⟩ := Option.bind_eq_some_iff.mp ho
  obtain ⟨v, hres, hcase⟩ := inferNeg_nec hinf
  rw [hmid] at hcase
  -- the updated target
  unfold reshapeReshape at h
  simp only at h
  -- a uniform description of `u`
  have key : ∀ (E : Int → Int → Prop), PW2 E t t1 → ∀ u,
      (match out with | some o => rrUpdate o t | none => Raised.ret t) = Raised.ret u →
      PW2 (fun a u => (u = sub1 v a ∧ 0 < sub1 v a) ∨ ∃ x, E x a ∧ u = x) t1 u := by
    intro E hE u hu
    cases out with
    | none => simp only at hu; cases hu; exact pw_flip _ E hE
    | some o =>
      simp only at hu
      exact rrUpdate_pw (σ := σ) (sub1 v) E o t t1 u hu (hres ▸ hout o rfl) hE
  split at h
  · cases h
  rename_i u hu
  by_cases haz : az = 1
  · -- allowzero = 1: nothing is copied, t1 = t
    have ht : t1 = t := by simp [haz] at ht1; exact ht1.symm
    subst ht
    have hpw : PW2 (QK v) t1 u := PW2.mono (fun a b hh => by
      rcases hh with hh | ⟨x, hx, hb⟩
      · exact Or.inl hh
      · exact Or.inr (hb.trans hx)) (key _ (PW2.refl_eq t1) u hu)
    by_cases h0 : (0 : Int) ∈ u
    · have hc0 : u.contains 0 = true := contains_of_mem h0
      simp only [haz, hc0, decide_true, Bool.and_self, if_true] at h
      simp only [Raised.ret.injEq, Option.some.injEq, Prod.mk.injEq] at h
      obtain ⟨e1, e2⟩ := h
      subst e1 e2
      rcases pw_qk_choice v hpw g1' with hu' | ⟨hu', hv, hm, _⟩
      · rw [hu']
        rw [reshapeTarget_eq, if_neg g1, if_neg g2]
        have g3' : ¬ ((true && t1.contains 0 && t1.contains (-1)) = true) := by simpa [haz] using g3
        rw [if_neg g3']
        simp only [if_true, Option.bind_some]
        simpa [hmid] using hinf
      · -- a `0` in the completed result next to a `-1` in the target: excluded by the original's own guard
        exfalso
        rw [hu'] at h0
        obtain ⟨a, ha, hsa⟩ := List.mem_map.mp h0
        have ha0 : a = 0 := by
          unfold sub1 at hsa
          split at hsa
          · omega
          · exact hsa
        subst ha0
        apply g3
        simp only [haz, contains_of_mem ha, contains_of_mem hm]
        decide
    · have hc0 : u.contains 0 = false := by
        cases hc : u.contains 0
        · rfl
        · exact (h0 (mem_of_contains hc)).elim
      have hz0 : (u.filter (· == 0)).length = 0 := cntZero_zero_iff.mpr h0
      simp only [hc0, Bool.and_false, Bool.false_and, Bool.false_eq_true, if_false, hz0,
        show ¬ (0 > 1) from by omega] at h
      simp only [Raised.ret.injEq, Option.some.injEq, Prod.mk.injEq] at h
      obtain ⟨e1, e2⟩ := h
      subst e1 e2
      have : u.map (fun d => if d = 0 then -1 else d) = u := map_zeroToNeg_of_not_mem h0
      rw [this]
      exact rr_nozero hpw g1' g2' h0 hres hcase
  · -- allowzero = 0: zeros copy the dims of the intermediate tensor
    have hb : (az == 1) = false := by simpa using haz
    rw [hb] at ht1
    simp only [Bool.false_eq_true, if_false] at ht1
    have hE := resolveZeros_pw mid hnn t t1 0 ht1
    obtain ⟨c1, c2⟩ := pw_resolve_guards hE
    have hpw : PW2 (QZ v) t1 u := PW2.mono (fun a b hh => by
      rcases hh with hh | ⟨x, hx, hb⟩
      · exact Or.inl hh
      · rcases hx with ⟨hx, _⟩ | hx
        · exact Or.inr (Or.inr (hb.trans hx))
        · exact Or.inr (Or.inl (hb.trans hx))) (key _ hE u hu)
    have haz' : decide (az = 1) = false := by simpa using haz
    simp only [haz', Bool.false_and, Bool.false_eq_true, if_false] at h
    split at h
    · cases h
    rename_i hneg
    split at h
    · cases h
    rename_i hcz
    simp only [Raised.ret.injEq, Option.some.injEq, Prod.mk.injEq] at h
    obtain ⟨e1, e2⟩ := h
    subst e1 e2
    by_cases h0 : (0 : Int) ∈ u
    · have hc0 : u.contains 0 = true := contains_of_mem h0
      have hn : ∀ d ∈ u, 0 ≤ d := by
        intro d hd
        apply Classical.byContradiction
        intro hlt
        apply hneg
        simp only [hc0, Bool.true_and, List.any_eq_true, decide_eq_true_eq]
        exact ⟨d, hd, by omega⟩
      have hz1 : cntZero u = 1 := by
        have : cntZero u ≠ 0 := fun e => (cntZero_zero_iff.mp e) h0
        unfold cntZero at this ⊢
        omega
      have hprod : prodInt res = prodInt inp := hres ▸ prod_resolved (c1 ▸ g1') hcase
      exact rr_onezero hpw hn hz1 hres hprod
    · have : u.map (fun d => if d = 0 then -1 else d) = u := map_zeroToNeg_of_not_mem h0
      rw [this]
      exact rr_nozero (pw_qz_to_qk v hpw h0) (c1 ▸ g1') (c2 ▸ g2') h0 hres hcase

/-- **End to end**: the inner Reshape stated by the operator rule as well.  For every input shape `inp` (dims ≥ 0), every
inner target `s₀`/`allowzero` the inner Reshape accepts, every constant outer target, every truthful annotation and
binding: if `Reshape(Reshape(x, s₀), shape)` accepts the input and the rule fires, `Reshape(x, new_shape)` accepts it
and returns a tensor of the same shape (Reshape never moves data, so the same tensor). -/
theorem reshape_reshape_end_to_end (inp s₀ mid t tgt : List Int) (az₀ : Bool) (az : Int) (az' : Bool) (out : Option Shape)
    (h : reshapeReshape (some t) out az = .ret (some (tgt, az')))
    (σ : String → Nat) (res : List Int) (hinp : ∀ d ∈ inp, 0 ≤ d)
    (h₀ : reshapeTarget inp s₀ az₀ = some mid)
    (ho : reshapeTarget mid t (az == 1) = some res)
    (hout : ∀ o, out = some o → Admits σ o res) :
    reshapeTarget inp tgt az' = some res := by
  obtain ⟨hp, hn⟩ := reshapeTarget_out hinp h₀
  exact reshape_reshape_sound inp mid t tgt az az' out h σ res hn hp ho hout

/-- The converse does not hold and is not claimed: the rewritten model may accept an input the original rejects
(`Reshape(Reshape(x:[2,3,5], [0,0,0]), [0,5])` is invalid — `[2,5]` has 10 elements — while `Reshape(x, [-1,5])` gives
`[6,5]`); the property quantifies over the inputs the original accepts. -/
theorem reshape_reshape_accepts_more :
    reshapeTarget [2, 3, 5] [0, 5] false = none ∧
    reshapeReshape (some [0, 5]) none 0 = .ret (some ([-1, 5], false)) ∧
    reshapeTarget [2, 3, 5] [-1, 5] false = some [6, 5] := by decide

example : reshapeTarget [0, 4] [-1] false = some [0] ∧ reshapeTarget [0] [0, 1] false = some [0, 1] ∧
    reshapeReshape (some [0, 1]) none 0 = .ret (some ([-1, 1], false)) ∧ reshapeTarget [0, 4] [-1, 1] false = some [0, 1] := by
  decide

-- non-vacuity: a `0` (copy) next to an annotated dim; allowzero = 1 with a real zero; `-1` kept
example : reshapeReshape (some [0, -1]) (some [.sym "N", .known 7]) 0 = .ret (some ([-1, 7], false)) := by decide
example : reshapeTarget [3, 7] [0, -1] false = some [3, 7] ∧ reshapeTarget [21] [-1, 7] false = some [3, 7] := by decide
example : reshapeReshape (some [0, 5]) none 1 = .ret (some ([0, 5], true)) := by decide
example : reshapeReshape (some [0, -1]) none 0 = .ret none := by decide
example : reshapeReshape (some [3, -1]) (some [.known 3, .sym "a", .known 5]) 0 = .raised := by decide

end OV.Props.C09
