import OV.Model.C19Fusions
import OV.Model.C19Index
import OV.Model.C19Core
import OV.Gen.C19Core
import OV.Lemmas.C19Shape
import OV.Lemmas.C19Perm
import Mathlib.Tactic.Ring
import Mathlib.Tactic.FieldSimp
import Mathlib.Data.Matrix.Mul
import Mathlib.LinearAlgebra.Matrix.Notation
import Mathlib.Tactic.SplitIfs
import Mathlib.Algebra.BigOperators.Field
import Mathlib.Tactic.Linarith
import Mathlib.Algebra.Order.Field.Basic
import Mathlib.Algebra.Order.Field.Rat
import Mathlib.Algebra.Order.AbsoluteValue.Basic
/-!
# C19 — ONNX Runtime fusions preserve numerical results

Property theorems only.  **Scope (read this first).**  What is proved here is the *real-field algebra* of
each fusion (the matched expression and the fused operator's defining formula are the same function over
any field, with `sqrt`, `tanh`, `erf`, the normalisation and the softmax kept abstract), the *index
bookkeeping* (transposes / `transBatch` permutations, reshape layouts, rotate-half, group layout), and the
*soundness of `_fusion_utils.check_shape`* as a unifier.  float16/float32 rounding and the behaviour of the
ORT contrib kernels are NOT theorems: they are observed through onnxruntime by `harness/c19.py`.
Which decision the real code takes, and which attributes it emits, is tied to `OV.Model.C19Fusions` by the
correspondence stream of the same harness.

**How to read the theorems (audit round 5d).**  The "fused operator" side of every algebraic identity
(`simplifiedLayerNorm`, the abstract `norm` of skip-normalisation, `mhaScore`, the rotary / cos-sin / GQA layouts, …) is a formula DEFINED IN THIS
FILE from the operator's documentation — a transcription, like the matched side.  These theorems say the two transcribed
formulas agree; they are tied to the code by the correspondence stream and to onnxruntime by the numeric search only.
Some theorems are deliberately small records of which guard the transcribed check contains (`bias_gelu`'s first conjunct
is reflexive, `gqa_mask_not_consulted` is `rfl`, `instance_to_group_check_sound`, `extract_dim_needs_unit_step`,
`rms_guards` unfold one Boolean).  `…_prefix_refuted` theorems evaluate the PRE-FIX restatement of a rule (kept behind a
`fix… := false` field or a `…V false` variant) on the finding's witness, mostly by a single `decide`: they record what
the old decision was; only `fused_matmul_transpose_prefix_refuted`, `check_shape_sound_full_refuted` and
`second_application_scale_bias_prefix_refuted` refute a universally quantified statement by a counterexample.
-/
namespace OV.Props.C19
open OV.C19

/-! ## `check_shape`: a successful unification means equal runtime dims under every valuation -/

/-- A runtime shape `rt` is an instance of the static shape `sh` under the valuation `σ` of named symbolic
dims.  An *unknown* dim (`SymbolicDim(None)`) constrains nothing. -/
def Conforms (σ : String → Nat) : Shape → List Nat → Prop
  | [], [] => True
  | d :: ds, r :: rs =>
    (match d with
     | .int n => r = n
     | .sym s => r = σ s
     | .unk => True) ∧ Conforms σ ds rs
  | _, _ => False

theorem conforms_known_unique (σ : String → Nat) : ∀ (sh : Shape) (r1 r2 : List Nat),
    sh.all Dim.isKnown = true → Conforms σ sh r1 → Conforms σ sh r2 → r1 = r2 := by
  intro sh
  induction sh with
  | nil => intro r1 r2 _ h1 h2; cases r1 <;> cases r2 <;> simp_all [Conforms]
  | cons d ds ih =>
    intro r1 r2 hk h1 h2
    cases r1 with
    | nil => simp [Conforms] at h1
    | cons a as =>
      cases r2 with
      | nil => simp [Conforms] at h2
      | cons b bs =>
        simp only [List.all_cons, Bool.and_eq_true] at hk
        simp only [Conforms] at h1 h2
        have := ih as bs hk.2 h1.2 h2.2
        cases d <;> simp_all [Dim.isKnown]

/-- **`check_shape_sound` (partial).**  If two values are checked against the *same* list of dimension names
(e.g. `input` and `skip` against `["B","S","D"]`, `query`/`key`/`value` against their layouts) and both checks
succeed, then — provided ONE of the two static shapes has no *unknown* dim — the two static shapes are
identical, hence under every valuation `σ` of the symbolic dims any two conforming runtime shapes are equal.
The hypothesis is forced: see `check_shape_sound_full_refuted`. -/
theorem check_shape_sound_partial (names : List String) (sh1 sh2 : Shape) (b0 b1 b2 : Bindings)
    (h1 : checkShape b0 (some sh1) names = some b1) (h2 : checkShape b1 (some sh2) names = some b2)
    (hk : sh1.all Dim.isKnown = true ∨ sh2.all Dim.isKnown = true) :
    sh2 = sh1 ∧ ∀ σ r1 r2, Conforms σ sh1 r1 → Conforms σ sh2 r2 → r1 = r2 := by
  have hl1 : sh1.length = names.length := by
    unfold checkShape at h1; by_cases hl : sh1.length = names.length
    · exact hl
    · simp [hl] at h1
  have hl2 : sh2.length = names.length := by
    unfold checkShape at h2; by_cases hl : sh2.length = names.length
    · exact hl
    · simp [hl] at h2
  have u1 : unify b0 (sh1.zip names) = some b1 := by
    unfold checkShape at h1; simpa [hl1] using h1
  have u2 : unify b1 (sh2.zip names) = some b2 := by
    unfold checkShape at h2; simpa [hl2] using h2
  have heq : sh2 = sh1 := by
    apply List.ext_getElem (by omega)
    intro i hi2 hi1
    have hin : i < names.length := by omega
    have m1 : (sh1[i], names[i]) ∈ sh1.zip names := by
      have : (sh1.zip names)[i]'(by simp [List.length_zip]; omega) = (sh1[i], names[i]) := by simp
      rw [← this]; exact List.getElem_mem _
    have m2 : (sh2[i], names[i]) ∈ sh2.zip names := by
      have : (sh2.zip names)[i]'(by simp [List.length_zip]; omega) = (sh2[i], names[i]) := by simp
      rw [← this]; exact List.getElem_mem _
    obtain ⟨e1, he1, hp1⟩ := unify_bound _ _ _ u1 _ m1
    obtain ⟨e2, he2, hp2⟩ := unify_bound _ _ _ u2 _ m2
    have hmono := unify_mono _ _ _ u2 _ _ he1
    simp only at he1 he2 hp1 hp2 hmono
    rw [hmono] at he2
    have hee : e2 = e1 := (Option.some.inj he2).symm
    subst hee
    rcases hk with hk | hk
    · have hk1 : (sh1[i]).isKnown = true := (List.all_eq_true.mp hk) _ (List.getElem_mem _)
      have e1eq : e2 = sh1[i] := pyEq_known_eq hk1 hp1
      rw [e1eq] at hp2
      exact pyEq_known_eq' hk1 hp2
    · have hk2 : (sh2[i]).isKnown = true := (List.all_eq_true.mp hk) _ (List.getElem_mem _)
      have e2eq : e2 = sh2[i] := pyEq_known_eq hk2 hp2
      rw [e2eq] at hp1
      exact (pyEq_known_eq' hk2 hp1).symm
  refine ⟨heq, ?_⟩
  intro σ r1 r2 c1 c2
  rw [heq] at c2
  have hk' : sh1.all Dim.isKnown = true := by
    rcases hk with hk | hk
    · exact hk
    · rw [heq] at hk; exact hk
  exact conforms_known_unique σ sh1 r1 r2 hk' c1 c2

/-- on `onnx_ir` dims Python `==` is structural equality of the model's `Dim` (two unnamed dims are "equal") -/
theorem pyEq_iff_eq (d e : Dim) : d.pyEq e = true ↔ d = e := by
  cases d <;> cases e <;> simp [Dim.pyEq]

/-- **`check_shape_same_static_shape`** (FULL, no hypothesis): two values that pass `check_shape` against the same
name list have the same static shape, dim by dim — including unnamed dims, which compare equal. -/
theorem check_shape_same_static_shape (names : List String) (sh1 sh2 : Shape) (b0 b1 b2 : Bindings)
    (h1 : checkShape b0 (some sh1) names = some b1) (h2 : checkShape b1 (some sh2) names = some b2) :
    sh2 = sh1 := by
  have hl1 : sh1.length = names.length := by
    unfold checkShape at h1; by_cases hl : sh1.length = names.length
    · exact hl
    · simp [hl] at h1
  have hl2 : sh2.length = names.length := by
    unfold checkShape at h2; by_cases hl : sh2.length = names.length
    · exact hl
    · simp [hl] at h2
  have u1 : unify b0 (sh1.zip names) = some b1 := by
    unfold checkShape at h1; simpa [hl1] using h1
  have u2 : unify b1 (sh2.zip names) = some b2 := by
    unfold checkShape at h2; simpa [hl2] using h2
  apply List.ext_getElem (by omega)
  intro i hi2 hi1
  have hin : i < names.length := by omega
  have m1 : (sh1[i], names[i]) ∈ sh1.zip names := by
    have : (sh1.zip names)[i]'(by simp [List.length_zip]; omega) = (sh1[i], names[i]) := by simp
    rw [← this]; exact List.getElem_mem _
  have m2 : (sh2[i], names[i]) ∈ sh2.zip names := by
    have : (sh2.zip names)[i]'(by simp [List.length_zip]; omega) = (sh2[i], names[i]) := by simp
    rw [← this]; exact List.getElem_mem _
  obtain ⟨e1, he1, hp1⟩ := unify_bound _ _ _ u1 _ m1
  obtain ⟨e2, he2, hp2⟩ := unify_bound _ _ _ u2 _ m2
  have hmono := unify_mono _ _ _ u2 _ _ he1
  simp only at he1 he2 hp1 hp2 hmono
  rw [hmono] at he2
  have hee : e2 = e1 := (Option.some.inj he2).symm
  subst hee
  rw [(pyEq_iff_eq _ _).mp hp1, (pyEq_iff_eq _ _).mp hp2]

/-- a conforming runtime shape is determined at every position whose static dim is named or an integer -/
theorem conforms_at (σ : String → Nat) : ∀ (sh : Shape) (r : List Nat), Conforms σ sh r →
    ∀ (i : Nat) (d : Dim), sh[i]? = some d → d.isKnown = true →
      r[i]? = some (match d with | .int n => n | .sym s => σ s | .unk => 0) := by
  intro sh
  induction sh with
  | nil => intro r _ i d hd; simp at hd
  | cons a as ih =>
    intro r hc i d hd hk
    cases r with
    | nil => simp [Conforms] at hc
    | cons x xs =>
      simp only [Conforms] at hc
      cases i with
      | zero =>
        simp only [List.getElem?_cons_zero, Option.some.injEq] at hd
        subst hd
        cases a <;> simp_all [Dim.isKnown]
      | succ j =>
        simp only [List.getElem?_cons_succ] at hd ⊢
        exact ih xs hc.2 j d hd hk

/-- **`check_shape_sound_positionwise`** — the sharpest form: after two successful checks against the same names,
under EVERY valuation `σ` and for EVERY pair of conforming runtime shapes, the runtime sizes agree at every position
whose (common) static dim is an integer or a named symbol.  Nothing is claimed exactly at the positions holding an
unnamed dim, and there nothing can be (`check_shape_sound_full_refuted`, finding C19-F2). -/
theorem check_shape_sound_positionwise (names : List String) (sh1 sh2 : Shape) (b0 b1 b2 : Bindings)
    (h1 : checkShape b0 (some sh1) names = some b1) (h2 : checkShape b1 (some sh2) names = some b2)
    (σ : String → Nat) (r1 r2 : List Nat) (c1 : Conforms σ sh1 r1) (c2 : Conforms σ sh2 r2)
    (i : Nat) (d : Dim) (hd : sh1[i]? = some d) (hk : d.isKnown = true) : r1[i]? = r2[i]? := by
  have heq := check_shape_same_static_shape names sh1 sh2 b0 b1 b2 h1 h2
  rw [heq] at c2
  rw [conforms_at σ sh1 r1 c1 i d hd hk, conforms_at σ sh1 r2 c2 i d hd hk]

/-- The statement without the "no unknown dim" hypothesis is false: `[?]` and `[?]` unify (in `onnx_ir`,
`SymbolicDim(None) == SymbolicDim(None)`), yet runtime sizes 2 and 1 both conform.  Replayed on the real code
as finding C19-F2 (SkipLayerNormalization returns `[1,2,4]` where the original returned `[2,2,4]`). -/
theorem check_shape_sound_full_refuted :
    ¬ (∀ (names : List String) (sh1 sh2 : Shape) (b1 b2 : Bindings),
        checkShape [] (some sh1) names = some b1 → checkShape b1 (some sh2) names = some b2 →
        ∀ σ r1 r2, Conforms σ sh1 r1 → Conforms σ sh2 r2 → r1 = r2) := by
  intro h
  have := h ["B"] [.unk] [.unk] [("B", .unk)] [("B", .unk)] (by decide) (by decide) (fun _ => 0) [2] [1]
    (by simp [Conforms]) (by simp [Conforms])
  simp at this

example : checkShape [] (some [.sym "B", .int 4, .int 8]) ["B", "S", "D"]
    = some [("D", .int 8), ("S", .int 4), ("B", .sym "B")] := by decide
example : checkShape [("D", .int 8), ("S", .int 4), ("B", .sym "B")] (some [.sym "B", .int 4, .int 8]) ["B", "S", "D"]
    = some [("D", .int 8), ("S", .int 4), ("B", .sym "B")] := by decide
example : checkShape [("D", .int 8), ("S", .int 4), ("B", .sym "B")] (some [.int 1, .int 4, .int 8]) ["B", "S", "D"]
    = none := by decide

/-- non-vacuity of `check_shape_sound_partial`: `input`/`skip` of a skip-normalisation with a named batch dim -/
example : checkShape [] (some [.sym "B", .int 4, .int 8]) ["B", "S", "D"]
      = some [("D", .int 8), ("S", .int 4), ("B", .sym "B")]
    ∧ checkShape [("D", .int 8), ("S", .int 4), ("B", .sym "B")] (some [.sym "B", .int 4, .int 8]) ["B", "S", "D"]
      = some [("D", .int 8), ("S", .int 4), ("B", .sym "B")]
    ∧ [Dim.sym "B", .int 4, .int 8].all Dim.isKnown = true := by decide

/-! ## Normalisations -/

section Algebra
variable {K : Type} [Field K]

/-- mean of squares over the last axis (`ReduceMean(Pow(x, 2), [-1])`) -/
def meanSq {n : Nat} (x : Fin n → K) : K := (∑ i, x i ^ 2) / (n : K)

/-- ORT `SimplifiedLayerNormalization(x, scale, axis=-1, epsilon=ε)`: `x / sqrt(mean(x²)+ε) * scale`. -/
def simplifiedLayerNorm (sqrt : K → K) {n : Nat} (ε : K) (x w : Fin n → K) : Fin n → K :=
  fun i => x i / sqrt (meanSq x + ε) * w i

/-- **`rms_norm_fused`, operand order `Mul(normalized, scale)`** (`_rule2`): the matched
`x * Reciprocal(Sqrt(ReduceMean(x²) + ε)) * w` is `SimplifiedLayerNormalization_ε(x, w)` for every length,
every `x`, `w`, `ε`, and any `sqrt`. -/
theorem rms_norm_fused (sqrt : K → K) {n : Nat} (ε : K) (x w : Fin n → K) :
    (fun i => (x i * (1 / sqrt (meanSq x + ε))) * w i) = simplifiedLayerNorm sqrt ε x w := by
  funext i; unfold simplifiedLayerNorm; ring

/-- **`rms_norm_fused`, operand order `Mul(scale, normalized)`** (`_rule1`). -/
theorem rms_norm_fused_scale_first (sqrt : K → K) {n : Nat} (ε : K) (x w : Fin n → K) :
    (fun i => w i * (x i * (1 / sqrt (meanSq x + ε)))) = simplifiedLayerNorm sqrt ε x w := by
  funext i; unfold simplifiedLayerNorm; ring

/-- ORT `Skip(Simplified)LayerNormalization(input, skip, γ, [β], [bias])`: normalise `input + skip + bias`;
last output is that sum.  The normalisation itself (`norm`) is whatever the un-fused node computed — the
fusion keeps its γ/β/ε — so it is a parameter. -/
def skipNorm {n : Nat} (norm : (Fin n → K) → (Fin n → K)) (input skip bias : Fin n → K) :
    (Fin n → K) × (Fin n → K) :=
  (norm (fun i => input i + skip i + bias i), fun i => input i + skip i + bias i)

/-- **`skip_norm_fused`, no bias**, both operand orders of the `Add` (`Add(skip, input)` / `Add(input, skip)`),
both outputs (normalised value and the sum). -/
theorem skip_norm_fused {n : Nat} (norm : (Fin n → K) → (Fin n → K)) (input skip : Fin n → K) :
    (norm (fun i => skip i + input i), fun i => skip i + input i) = skipNorm norm input skip (fun _ => 0)
    ∧ (norm (fun i => input i + skip i), fun i => input i + skip i) = skipNorm norm input skip (fun _ => 0) := by
  unfold skipNorm
  have e1 : (fun i => skip i + input i) = (fun i => input i + skip i + 0) := by funext i; ring
  have e2 : (fun i => input i + skip i) = (fun i => input i + skip i + 0) := by funext i; ring
  exact ⟨by rw [e1], by rw [e2]⟩

/-- **`skip_norm_fused`, bias added after the skip** (`Add(Add(skip, input), bias)`), both outputs. -/
theorem skip_norm_fused_post_bias {n : Nat} (norm : (Fin n → K) → (Fin n → K)) (input skip bias : Fin n → K) :
    (norm (fun i => (skip i + input i) + bias i), fun i => (skip i + input i) + bias i)
      = skipNorm norm input skip bias := by
  unfold skipNorm
  have e : (fun i => (skip i + input i) + bias i) = (fun i => input i + skip i + bias i) := by funext i; ring
  rw [e]

/-- **`skip_norm_fused`, bias added to the input first** (`Add(skip, Add(input, bias))` and
`Add(Add(input, bias), skip)`), both outputs. -/
theorem skip_norm_fused_pre_bias {n : Nat} (norm : (Fin n → K) → (Fin n → K)) (input skip bias : Fin n → K) :
    (norm (fun i => skip i + (input i + bias i)), fun i => skip i + (input i + bias i))
      = skipNorm norm input skip bias
    ∧ (norm (fun i => (input i + bias i) + skip i), fun i => (input i + bias i) + skip i)
      = skipNorm norm input skip bias := by
  unfold skipNorm
  have e1 : (fun i => skip i + (input i + bias i)) = (fun i => input i + skip i + bias i) := by funext i; ring
  have e2 : (fun i => (input i + bias i) + skip i) = (fun i => input i + skip i + bias i) := by funext i; ring
  exact ⟨by rw [e1], by rw [e2]⟩

/-! ## GELU -/

/-- ORT `FastGelu(x) = x * (0.5 + 0.5 * tanh(x * (C * x² + B)))`, `B = √(2/π)`, `C = 0.044715·B`. -/
def fastGelu (tanh : K → K) (half B C : K) (x : K) : K := x * (half + half * tanh (x * (C * x * x + B)))

/-- **`gelu_tanh_form`**: `x * (½ * (tanh(B * (x + c·x³)) + 1))` (the pattern of `GeluTanhFusion`) is
`FastGelu` with `C = c·B`, for any `tanh`. -/
theorem gelu_tanh_form (tanh : K → K) (half B c x : K) :
    x * (half * (tanh (B * (x + c * x ^ 3)) + 1)) = fastGelu tanh half B (c * B) x := by
  unfold fastGelu
  have e : B * (x + c * x ^ 3) = x * (c * B * x * x + B) := by ring
  rw [e]; ring

/-- ORT `Gelu(x) = 0.5 * x * (1 + erf(x / √2))`. -/
def geluErf (erf : K → K) (half s : K) (x : K) : K := half * x * (1 + erf (x / s))

/-- **`gelu_erf_form`**: the three shapes the rules accept — `Mul(Mul(x, T), ½)` (gelu.py),
`Mul(½, Mul(x, T))` and `Mul(x, Mul(½, T))` (erfgelu.py), `T = Erf(x/√2) + 1` — all equal `Gelu`. -/
theorem gelu_erf_form (erf : K → K) (half s x : K) :
    (x * (erf (x / s) + 1)) * half = geluErf erf half s x
    ∧ half * (x * (erf (x / s) + 1)) = geluErf erf half s x
    ∧ x * (half * (erf (x / s) + 1)) = geluErf erf half s x := by
  unfold geluErf; refine ⟨by ring, by ring, by ring⟩

/-- **`bias_gelu`**: `Gelu(Add(input, bias))` and the commuted `Gelu(Add(bias, input))` are
`BiasGelu(input, bias) := Gelu(input + bias)` for any `gelu`. -/
theorem bias_gelu (gelu : K → K) (x b : K) : gelu (x + b) = gelu (x + b) ∧ gelu (b + x) = gelu (x + b) := by
  exact ⟨rfl, by rw [add_comm]⟩

/-! ## SDPA: where the scale sits -/

/-- **`sdpa_scale_placement`**: scaling the query by `a`, the (transposed) key by `b` and the scores by `c`
gives, entry by entry, the un-scaled dot product times `a*b*c` — the single `scale` attribute `SDPA.check`
computes (`query_scale * key_scale * qk_scale`).  For every head size `n`. -/
theorem sdpa_scale_placement {n : Nat} (q k : Fin n → K) (a b c : K) :
    (∑ d, (q d * a) * (k d * b)) * c = (∑ d, q d * k d) * (a * b * c) := by
  rw [Finset.sum_mul, Finset.sum_mul]
  exact Finset.sum_congr rfl (fun d _ => by ring)

/-- `Div` flavours: dividing by `a`, `b`, `c` is scaling by `1/a * (1/b) * (1/c)` (`get_scale_value` returns
`1.0 / value` for `Div`). -/
theorem sdpa_scale_placement_div {n : Nat} (q k : Fin n → K) (a b c : K) :
    (∑ d, (q d / a) * (k d / b)) / c = (∑ d, q d * k d) * ((1 / a) * (1 / b) * (1 / c)) := by
  rw [div_eq_mul_one_div (∑ d, (q d / a) * (k d / b)) c]
  rw [← sdpa_scale_placement q k (1 / a) (1 / b) (1 / c)]
  congr 1
  exact Finset.sum_congr rfl (fun d _ => by ring)

/-! ## FusedMatMul: transposes as matrix identities -/

open Matrix in
/-- **`fused_matmul_transposes`** — `Transpose(MatMul(A, B))` is `FusedMatMul(B, A, transA=1, transB=1)`
(`MatMulTranspose`), and the three cases with an inner `FusedMatMul(A, B, transA=a, transB=b)`:
the transpose of `Aᵃ·Bᵇ` is `B^(1-b) · A^(1-a)`, i.e. the *new* `transA` is `1-b` and the new `transB` is `1-a`. -/
theorem fused_matmul_transposes {m n k : Type} [Fintype m] [Fintype n] [Fintype k]
    (A : Matrix m k K) (B : Matrix k n K) (A' : Matrix k m K) (B' : Matrix n k K) :
    (A * B)ᵀ = Bᵀ * Aᵀ ∧ (A'ᵀ * B)ᵀ = Bᵀ * A' ∧ (A * B'ᵀ)ᵀ = B' * Aᵀ ∧ (A'ᵀ * B'ᵀ)ᵀ = B' * A' := by
  refine ⟨Matrix.transpose_mul A B, ?_, ?_, ?_⟩
  · rw [Matrix.transpose_mul, Matrix.transpose_transpose]
  · rw [Matrix.transpose_mul, Matrix.transpose_transpose]
  · rw [Matrix.transpose_mul, Matrix.transpose_transpose, Matrix.transpose_transpose]

open Matrix in
/-- `alpha`: `Div(MatMul(A,B), c)` is `FusedMatMul(A, B, alpha = 1/c)` and `Div(FusedMatMul(…, alpha=α), c)` has
`alpha = α / c` (`FusedMatMulDiv1/2`). -/
theorem fused_matmul_alpha {m n k : Type} [Fintype m] [Fintype n] [Fintype k]
    (A : Matrix m k K) (B : Matrix k n K) (α c : K) (i : m) (j : n) :
    (α • (A * B)) i j / c = ((α / c) • (A * B)) i j := by
  simp only [Matrix.smul_apply, smul_eq_mul]; ring

open Matrix in
/-- What `FusedMatMulTranspose` *emits* for an inner `transA=1, transB=0` is
`FusedMatMul(B, A, transA=0, transB=1) = B · Aᵀ`; the transpose of `Aᵀ·B` is `Bᵀ·A`.  They differ
(2×2 witness over ℚ): finding C19-F3, replayed on onnxruntime. -/
theorem fused_matmul_transpose_prefix_refuted :
    ¬ (∀ (A B : Matrix (Fin 2) (Fin 2) ℚ), (Aᵀ * B)ᵀ = B * Aᵀ) := by
  intro h
  have := congrFun (congrFun (h !![0, 1; 0, 0] !![1, 0; 0, 0]) 0) 1
  simp [Matrix.mul_apply, Fin.sum_univ_two, Matrix.transpose_apply] at this

end Algebra

/-! ## `transBatch` / `trans` flags as axis permutations (all ranks `n ≥ 2`) -/

/-- **Basic rules** (`TransposeMatMul1/2`, `TransposeFusedMatMul1/2`): a `Transpose` that swaps the last two
axes in front of an operand with `transBatch = 0` flips `trans`. -/
theorem fmm_swap_flips_trans (n k : Nat) (hn : 2 ≤ n) (hk : k < n) (t : Bool) :
    axSwap n (effAxis n false t k) = effAxis n false (!t) k := by
  have a1 := axSwap_cases n k
  have a2 := axSwap_cases n (axSwap n k)
  cases t <;> simp only [effAxis, Bool.not_false, Bool.not_true] <;> omega

/-- **Case 1** (`…WithFlippedBatchAndTranspose`): perm `[1,…,N-1,0]` with `transBatch=0`, or `[N-1,0,…,N-2]`
with `transBatch=1`, flips both flags. -/
theorem fmm_case1 (n k : Nat) (hn : 2 ≤ n) (hk : k < n) (t : Bool) :
    axRotL n (effAxis n false t k) = effAxis n true (!t) k
    ∧ axRotR n (effAxis n true t k) = effAxis n false (!t) k := by
  cases t <;> simp only [effAxis, Bool.not_false, Bool.not_true] <;> refine ⟨?_, ?_⟩
  · trivial
  · have a1 := axSwap_cases n k
    have a3 := axBatch_cases n k
    have a5 := axRotR_cases n (axBatch n k)
    omega
  · have a1 := axSwap_cases n k
    have a3 := axBatch_cases n k
    have a4 := axRotL_cases n (axSwap n k)
    omega
  · have a2 := axRotL_cases n k
    have a6 := axRotR_cases n (axRotL n k)
    omega

/-- **Case 2** (`…WithFlippedBatch`): perm `[1,…,N-2,0,N-1]` with `transBatch=0`, or `[N-2,0,…,N-3,N-1]` with
`transBatch=1`, flips `transBatch` only. -/
theorem fmm_case2 (n k : Nat) (hn : 2 ≤ n) (hk : k < n) (t : Bool) :
    axBatch n (effAxis n false t k) = effAxis n true t k
    ∧ axBatchInv n (effAxis n true t k) = effAxis n false t k := by
  cases t <;> simp only [effAxis] <;> refine ⟨?_, ?_⟩
  · trivial
  · have a3 := axBatch_cases n k
    have a5 := axBatchInv_cases n (axBatch n k)
    omega
  · have a1 := axSwap_cases n k
    have a2 := axRotL_cases n k
    have a4 := axBatch_cases n (axSwap n k)
    omega
  · have a1 := axSwap_cases n k
    have a2 := axRotL_cases n k
    have a6 := axBatchInv_cases n (axRotL n k)
    omega

/-- **Case 3** (`…WithBatchAndTranspose`): perm `[N-1,1,…,N-2,0]` with `transBatch=1` flips `trans` only. -/
theorem fmm_case3 (n k : Nat) (hn : 2 ≤ n) (hk : k < n) (t : Bool) :
    axSwap0L n (effAxis n true t k) = effAxis n true (!t) k := by
  have a2 := axRotL_cases n k
  have a3 := axBatch_cases n k
  have a4 := axSwap0L_cases n (axBatch n k)
  have a5 := axSwap0L_cases n (axRotL n k)
  cases t <;> simp only [effAxis, Bool.not_false, Bool.not_true] <;> omega

/-- the maps are the permutations the code spells out (rank 4) -/
example : permSwap 4 = [0, 1, 3, 2] ∧ permRotL 4 = [1, 2, 3, 0] ∧ permRotR 4 = [3, 0, 1, 2]
    ∧ permBatch 4 = [1, 2, 0, 3] ∧ permBatchInv 4 = [2, 0, 1, 3] ∧ permSwap0L 4 = [3, 1, 2, 0] := by decide

/-- For rank 2 the "batch" permutation of Case 2 is the identity `[0,1]`: the rule therefore also fires on
`Transpose(x, perm=[0,1])` and emits `transBatchA=1` on a rank-2 operand (finding C19-F4: onnxruntime rejects
the node at run time). -/
theorem flipped_batch_rank2_degenerate : permBatch 2 = [0, 1] ∧ permBatchInv 2 = [0, 1] := by decide

/-- Before commit 549a083: `FusedMatMul(Transpose(x) /* no perm */, y)`, rank 3 — the rule set raised
(finding C19-F5, fixed). -/
theorem fused_matmul_missing_perm_prefix_refuted :
    fmm { kind := "t1", rank := 3, inner := some FAttrs.empty, perm := none, cstConst := true, cstShape := [],
          cst := 2.0, fix5 := false } = "EXC" := by decide

/-- The current rule (`attributes.get_ints("perm")`) leaves that graph unchanged. -/
theorem fused_matmul_missing_perm_left_unchanged :
    fmm { kind := "t1", rank := 3, inner := some FAttrs.empty, perm := none, cstConst := true, cstShape := [],
          cst := 2.0 } = "count=0" := by decide

/-- The current batch rules (rank ≥ 3) do not fire on the rank-2 identity permutation. -/
theorem flipped_batch_rank2_left_unchanged :
    fmm { kind := "t1", rank := 2, inner := some FAttrs.empty, perm := some [0, 1], cstConst := true,
          cstShape := [], cst := 2.0 } = "count=0" := by decide

/-- Before commit fe00de2 the same graph fired the batch rule and received `transBatchA=1` (finding C19-F4). -/
theorem flipped_batch_rank2_prefix_refuted :
    fmm { kind := "t1", rank := 2, inner := some FAttrs.empty, perm := some [0, 1], cstConst := true,
          cstShape := [], cst := 2.0, fix4 := false }
      = "count=1 FusedMatMul@com.microsoft{transBatchA=1}(x,y)->1" := by decide

/-- Before commit 6dfb298: `Div(MatMul(x,y), [[c]])`, one element, rank 2 — the rewrite raised (finding C19-F9, fixed). -/
theorem fused_matmul_div_rank2_divisor_prefix_refuted :
    fmm { kind := "div", rank := 3, inner := none, perm := none, cstConst := true, cstShape := [1, 1],
          cst := 0.5, fix9 := false } = "EXC" := by decide

/-- The current rule (divisor of rank ≤ 1, one element) leaves it unchanged. -/
theorem fused_matmul_div_rank2_divisor_left_unchanged :
    fmm { kind := "div", rank := 3, inner := none, perm := none, cstConst := true, cstShape := [1, 1],
          cst := 0.5 } = "count=0" := by decide

/-- **`MatMulTranspose.rewrite` emits the flags `fused_matmul_transposes` asks for**: for an inner
`(transA, transB) = (a, b)` the swapped operands get `(1-b, 1-a)`; the rule before commit a12b4ef emitted `(1-a, 1-b)`,
which agrees only when `a = b`. -/
theorem mt_flags (a b : Int) :
    mtFlags true a b = (1 - b, 1 - a) ∧ mtFlags false a b = (1 - a, 1 - b)
    ∧ (mtFlags false a b = mtFlags true a b ↔ a = b) := by
  refine ⟨rfl, rfl, ?_⟩
  have e1 : mtFlags false a b = (1 - a, 1 - b) := rfl
  have e2 : mtFlags true a b = (1 - b, 1 - a) := rfl
  rw [e1, e2, Prod.mk.injEq]
  constructor
  · intro h; omega
  · intro h; omega

/-! ## Rotary embedding -/

section Rotary
variable {K : Type} [Field K]

/-- `Concat(Neg(x[h:2h]), x[0:h])` — the rotate-half of the pattern, head size `2h`. -/
def rotateHalf (h : Nat) (x : Nat → K) (j : Nat) : K := if j < h then - x (j + h) else x (j - h)

/-- Non-interleaved `RotaryEmbedding` (ORT contrib op, `interleaved=0`) with a half-width cache `c`, `s`. -/
def rotaryRef (h : Nat) (x c s : Nat → K) (j : Nat) : K :=
  if j < h then x j * c j - x (j + h) * s j else x j * c (j - h) + x (j - h) * s (j - h)

/-- **`rotary_halves`**: `x·cos + rotate_half(x)·sin`, with `cos = Concat(c, c)`, `sin = Concat(s, s)` (what
the cos/sin-cache fusion guarantees), is `RotaryEmbedding(x; c, s)` at every position `j < 2h`, for every
half size `h`. -/
theorem rotary_halves (h : Nat) (x c s : Nat → K) (j : Nat) :
    x j * (if j < h then c j else c (j - h)) + rotateHalf h x j * (if j < h then s j else s (j - h))
      = rotaryRef h x c s j := by
  unfold rotateHalf rotaryRef
  by_cases hj : j < h <;> simp only [hj, if_true, if_false] <;> ring

/-- The slices of the pattern cover the head exactly when the head size is even: `RotaryEmbeddingFusion.check`
requires `start1 = 0`, `end1 = start2 = d/2`, `end2 ≥ d`; for even `d` the two halves have `d/2` elements. -/
theorem rotary_slices_even (d : Nat) (hd : d % 2 = 0) : d / 2 + d / 2 = d ∧ d - d / 2 = d / 2 := by omega

/-- The check itself does *not* ask for an even head size: `d = 5`, slices `[0:2]`, `[2:5]` pass.  (The
fused node is then a function-call whose body is the matched subgraph, so nothing changes numerically; the
cos/sin-cache rule that would turn it into the ORT operator cannot match an odd width.) -/
theorem rotary_check_accepts_odd :
    rotaryCheck (some [.int 1, .int 2, .int 3, .int 5]) [0, 2, 2, 5] = some 2 := by decide

end Rotary

/-! ## Reshape → Transpose layouts of the attention fusions -/

/-- **`heads_split_layout`**: element `(b, s, h·D + d)` of the `(B,S,H·D)` tensor is element `(b,s,h,d)` of its
`Reshape` to `(B,S,H,D)` (same row-major offset), for all sizes; `MultiHeadAttention`'s `num_heads` split of the
3-D input therefore reads the same numbers as the matched `Reshape`+`Transpose(0,2,1,3)`. -/
theorem heads_split_layout (S H D b s h d : Nat) :
    flat3 S (H * D) b s (h * D + d) = flat4 S H D b s h d := by
  unfold flat3 flat4; ring

/-- The split is a bijection on columns: `h` and `d` are recovered by `/ D` and `% D`. -/
theorem heads_split_unique (D h d : Nat) (hd : d < D) : (h * D + d) / D = h ∧ (h * D + d) % D = d := by
  have hD : 0 < D := by omega
  constructor
  · rw [Nat.mul_comm, Nat.mul_add_div hD, Nat.div_eq_of_lt hd, Nat.add_zero]
  · rw [Nat.mul_comm, Nat.mul_add_mod, Nat.mod_eq_of_lt hd]

/-- **`heads_times_head_dim`**: a `Reshape` of `(B,S,Dm)` to `(B,S,H,Dh)` that the checks accept (same `B`,
`S` by `check_shape`) forces `H · Dh = Dm` whenever the tensor is non-empty. -/
theorem heads_times_head_dim (B S Dm H Dh : Nat) (hpos : 0 < B * S)
    (hcount : B * S * Dm = B * S * H * Dh) : H * Dh = Dm := by
  have : B * S * Dm = B * S * (H * Dh) := by rw [hcount]; ring
  exact (Nat.eq_of_mul_eq_mul_left hpos this).symm

example : 0 < 2 * 3 ∧ 2 * 3 * 32 = 2 * 3 * 4 * 8 := by decide

/-- **GQA `kv_heads ∣ heads`**: `Unsqueeze→Expand→Reshape` turns `Hkv` key/value heads into `Hkv·G` heads;
query head `h = kv·G + g` (`g < G`) reads key/value head `h / G = kv`. -/
theorem gqa_kv_heads (Hkv G kv g : Nat) (hg : g < G) :
    Hkv ∣ Hkv * G ∧ (kv * G + g) / G = kv := by
  refine ⟨Dvd.intro _ rfl, ?_⟩
  have hG : 0 < G := by omega
  rw [Nat.mul_comm, Nat.mul_add_div hG, Nat.div_eq_of_lt hg, Nat.add_zero]

/-- **`instance_to_group_norm`**: with `C = g·cpg` channels, element `(n, c, p)` of the `(N, C, HW)` tensor sits,
after `Reshape(x, [0, g, -1])`, in row `(n, c / cpg)` — the group of channel `c` — at column
`(c % cpg)·HW + p`.  So `InstanceNormalization` over the reshaped rows normalises exactly over the groups that
`GroupNorm(groups = g)` uses. -/
theorem instance_to_group_norm (g cpg HW n c p : Nat) :
    (n * (g * cpg) + c) * HW + p = (n * g + c / cpg) * (cpg * HW) + ((c % cpg) * HW + p) := by
  have hc : c = cpg * (c / cpg) + c % cpg := (Nat.div_add_mod c cpg).symm
  generalize c / cpg = q at hc
  generalize c % cpg = r at hc
  subst hc; ring


/-! ## GQA, packed QKV, past/present, cos/sin cache, interleaved rotary: pure index / shape arithmetic -/

/-- **Packed-QKV split offsets** (`gqa_packed_qkv.py`): for every head size `h` and head counts `H`, `Hkv`, the
packed hidden size `(H + 2·Hkv)·h` is split back by the check's `hidden // (H + 2·Hkv)` into exactly
`(h, h·H, h·Hkv)`; the three slices `[0, qh)`, `[qh, qh+kvh)`, `[qh+kvh, hidden)` are adjacent, have lengths
`qh`, `kvh`, `kvh`, and every column lies in exactly one of them. -/
theorem packed_split_offsets (h H Hkv : Nat) (hpos : 0 < H + 2 * Hkv) :
    packedSplit ((H + 2 * Hkv) * h) H Hkv = (h, h * H, h * Hkv)
    ∧ h * H + h * Hkv + h * Hkv = (H + 2 * Hkv) * h
    ∧ ∀ c, c < (H + 2 * Hkv) * h →
        (c < h * H ∧ ¬ (h * H ≤ c ∧ c < h * H + h * Hkv) ∧ ¬ (h * H + h * Hkv ≤ c))
        ∨ (¬ c < h * H ∧ (h * H ≤ c ∧ c < h * H + h * Hkv) ∧ ¬ (h * H + h * Hkv ≤ c))
        ∨ (¬ c < h * H ∧ ¬ (h * H ≤ c ∧ c < h * H + h * Hkv) ∧ h * H + h * Hkv ≤ c) := by
  refine ⟨?_, by ring, ?_⟩
  · unfold packedSplit
    rw [Nat.mul_div_cancel_left h hpos]
  · intro c _; omega

example : packedSplit 192 8 2 = (16, 128, 32) := by decide

/-- **GQA head sharing layout**: `Unsqueeze(2) → Expand → Reshape` sends element `(kv, g, t, d)` of the
`(Hkv, G, T, Dh)` tensor to element `(kv·G + g, t, d)` of `(Hkv·G, T, Dh)` — same row-major offset, all sizes. -/
theorem gqa_expand_reshape_layout (G T Dh kv g t d : Nat) :
    (((kv * G + g) * T + t) * Dh + d) = (((kv * G + g) * T) + t) * Dh + d
    ∧ ((kv * G + g) * T + t) * Dh + d = ((kv * G * T + g * T) + t) * Dh + d := by
  constructor <;> ring

/-- **past/present concat axis** (`Concat(past, current, axis=-2)` in MHA / GQA): along the sequence axis the
present cache has length `P + S`, its first `P` rows are the past and row `P + t` is current row `t`. -/
theorem past_present_concat {α : Type} (past cur : List α) :
    (past ++ cur).length = past.length + cur.length
    ∧ (∀ t, t < past.length → (past ++ cur)[t]? = past[t]?)
    ∧ (∀ t, (past ++ cur)[past.length + t]? = cur[t]?) := by
  refine ⟨List.length_append, ?_, ?_⟩
  · intro t ht; exact List.getElem?_append_left ht
  · intro t; rw [List.getElem?_append_right (by omega)]; congr 1; omega

theorem le_foldl_max (l : List Nat) : ∀ (a p : Nat), (p = a ∨ p ∈ l) → p ≤ l.foldl max a := by
  induction l with
  | nil => intro a p h; rcases h with rfl | h; exact Nat.le_refl _; exact absurd h List.not_mem_nil
  | cons x xs ih =>
    intro a p h
    simp only [List.foldl_cons]
    rcases h with rfl | h
    · exact Nat.le_trans (Nat.le_max_left _ _) (ih _ _ (Or.inl rfl))
    · rcases List.mem_cons.mp h with rfl | h
      · exact Nat.le_trans (Nat.le_max_right _ _) (ih _ _ (Or.inl rfl))
      · exact ih _ _ (Or.inr h)

/-- **cos/sin cache bounds** (`cos_sin_cache.py`): the cache built for `arange(max_pos_id + 1)` — or dynamically
for `Range(0, ReduceMax(position_ids) + 1)` — has a row for *every* position id, whatever the ids are. -/
theorem cos_sin_cache_bounds (ids : List Nat) : ∀ p ∈ ids, p < ids.foldl max 0 + 1 := by
  intro p hp
  exact Nat.lt_succ_of_le (le_foldl_max ids 0 p (Or.inr hp))

example : ([3, 0, 7, 2] : List Nat).foldl max 0 + 1 = 8 := by decide

section RotaryInterleaved
variable {K : Type} [Field K]

/-- Interleaved `RotaryEmbedding` (`interleaved=1`): pairs `(2i, 2i+1)` rotate together. -/
def rotaryInterleaved (x c s : Nat → K) (j : Nat) : K :=
  if j % 2 = 0 then x j * c (j / 2) - x (j + 1) * s (j / 2) else x j * c (j / 2) + x (j - 1) * s (j / 2)

/-- de-interleave: even positions first, odd positions second -/
def deinterleave (h : Nat) (x : Nat → K) (i : Nat) : K := if i < h then x (2 * i) else x (2 * (i - h) + 1)

/-- **Interleaved vs non-interleaved index maps**: de-interleaving commutes with the rotation — the
non-interleaved operator applied to the de-interleaved vector is the de-interleaved result of the interleaved
operator, at every position `i < 2h`, for every half size `h`. -/
theorem rotary_interleaved_deinterleave (h : Nat) (x c s : Nat → K) (i : Nat) (hi : i < 2 * h) :
    rotaryRef h (deinterleave h x) c s i = deinterleave h (rotaryInterleaved x c s) i := by
  unfold rotaryRef deinterleave rotaryInterleaved
  by_cases hlt : i < h
  · have e1 : (2 * i) % 2 = 0 := by omega
    have e2 : (2 * i) / 2 = i := by omega
    have e3 : ¬ (i + h < h) := by omega
    have e4 : 2 * (i + h - h) + 1 = 2 * i + 1 := by omega
    simp only [hlt, if_true, e1, e2, e3, if_false, e4]
  · have e1 : ¬ ((2 * (i - h) + 1) % 2 = 0) := by omega
    have e2 : (2 * (i - h) + 1) / 2 = i - h := by omega
    have e3 : i - h < h := by omega
    have e4 : 2 * (i - h) + 1 - 1 = 2 * (i - h) := by omega
    simp only [hlt, if_false, e1, e2, e3, if_true, e4]

end RotaryInterleaved

/-- **`instance_to_group_check_sound`** — for EVERY instance the check accepts: the InstanceNormalization really is
the identity-affine one (unit weight, zero bias, constants), the input is rank 4, the first Reshape is to
`[0, g, -1]` (so its rows are the `g` groups of `instance_to_group_norm`), the second Reshape restores a fully static
shape equal to the input's, and the per-channel weight and bias have shape `[·,1,1]`. -/
theorem instance_to_group_check_sound (i : I2gIn) (h : i2gOk i = true) :
    i.wnConst = true ∧ i.wOnes = true ∧ i.bZeros = true ∧ i.x.length = 4
    ∧ i.wf.length = 3 ∧ i.bf.length = 3 ∧ i.adj = some [0, (i.g : Int), -1]
    ∧ (∃ o, i.orig = some o ∧ listEqShape o i.x = true) := by
  unfold i2gOk at h
  simp only [Bool.and_eq_true, beq_iff_eq] at h
  obtain ⟨⟨⟨⟨⟨⟨⟨⟨⟨h1, h2⟩, h3⟩, h4⟩, h5⟩, h6⟩, _⟩, _⟩, h9⟩, h10⟩ := h
  refine ⟨h1, h2, h3, h6, by omega, by omega, h9, ?_⟩
  cases ho : i.orig with
  | none => simp [ho] at h10
  | some o => exact ⟨o, rfl, by simpa [ho] using h10⟩

/-- `listEqShape` accepts only fully static shapes: every dim is the corresponding integer. -/
theorem listEqShape_static : ∀ (o : List Int) (sh : Shape), listEqShape o sh = true →
    sh.all Dim.isInt = true ∧ sh.length = o.length := by
  intro o
  induction o with
  | nil => intro sh h; cases sh <;> simp_all [listEqShape]
  | cons v vs ih =>
    intro sh h
    cases sh with
    | nil => simp [listEqShape] at h
    | cons d ds =>
      simp only [listEqShape, Bool.and_eq_true] at h
      obtain ⟨hd, ht⟩ := h
      have := ih ds ht
      cases d <;> simp_all [dimEqInt, Dim.isInt]

/-- **Packed-weight slicing of `attention.py`**: the check's conditions on the three Slice bounds
(`start1 = 0`, `end1 = start2`, `end2 = start3`, `end3 ≥ hidden`; ONNX clamps `end3` to `hidden`) make the three
slices a partition of the projected hidden axis: every column lies in exactly one, and the sizes add up. -/
theorem attention_slices_partition (hidden e1 e2 e3 : Nat) (h12 : e1 ≤ e2) (h2 : e2 ≤ hidden) (h3 : hidden ≤ e3) :
    e1 + (e2 - e1) + (min e3 hidden - e2) = hidden
    ∧ ∀ c, c < hidden →
        (c < e1 ∧ ¬ (e1 ≤ c ∧ c < e2) ∧ ¬ (e2 ≤ c ∧ c < min e3 hidden))
        ∨ (¬ c < e1 ∧ (e1 ≤ c ∧ c < e2) ∧ ¬ (e2 ≤ c ∧ c < min e3 hidden))
        ∨ (¬ c < e1 ∧ ¬ (e1 ≤ c ∧ c < e2) ∧ (e2 ≤ c ∧ c < min e3 hidden)) := by
  have hm : min e3 hidden = hidden := Nat.min_eq_right h3
  rw [hm]
  refine ⟨by omega, fun c _ => by omega⟩

/-- **GQA head-size guard** (commit 971aae6), for EVERY instance: a statically known head size that is not a
multiple of 16 — which onnxruntime's GroupQueryAttention with `do_rotary=1` rejects — is never fused. -/
theorem gqa_head_size_guard (i : GqaIn) (dh : Nat) (hf : i.fix11 = true) (hq : dimAt i.q4 3 = some (.int dh))
    (hbad : dh % 16 ≠ 0) : gqa i = "count=1/0" := by
  unfold gqa
  simp only [hf, hq, Bool.true_and]
  have hb : (dh % 16 != 0) = true := by simpa using hbad
  simp only [hb, if_true]
  repeat' split
  all_goals rfl

/-- The mask flag never enters the GQA decision: the model (= the code, whose `… is None` test cannot fail on a
structural mismatch) gives the same answer whether or not the mask is the causal-mask pattern (finding C19-F13). -/
theorem gqa_mask_not_consulted (i : GqaIn) :
    gqa { i with maskOk := true } = gqa { i with maskOk := false } := rfl

/-- The current `FuseBiasMHA.check` leaves `MultiHeadAttention(Add(q, y:[B,S,D]), k, Add(v, bias))` alone: a full-rank
addend is not a bias (witness of C19-F12; no scale involved). -/
theorem mha_bias_rejects_full_rank_addend :
    mhab { qm := some [.int 2, .int 1, .int 4], km := some [.int 2, .int 3, .int 4], vm := some [.int 2, .int 3, .int 4],
           qbias := some [.int 2, .int 1, .int 4], dt := 1, qb := true, kb := false, vb := true, biasFirst := false,
           heads := 2, pre := none, preConst := true, ascale := none, mask := false } = "count=0/0" := by decide

/-- Before commit 639f07c `FuseBiasMHA` never looked at the value added to the query projection (written
`Add(projection, y)`): the decision and the emitted node were the same for every shape of `y` (finding C19-F12, fixed). -/
theorem mha_bias_addend_prefix_refuted (i : MhabIn) (y1 y2 : Option Shape) :
    mhab { i with fix12 := false, biasFirst := false, qbias := y1 }
      = mhab { i with fix12 := false, biasFirst := false, qbias := y2 } := by
  obtain ⟨qm, km, vm, qbias, qmul, dt, qb, kb, vb, biasFirst, heads, pre, preConst, ascale, mask, fix12, bias0, fix16⟩ := i
  cases pre <;> cases preConst <;> cases qb <;> cases bias0 <;> cases fix16 <;> simp [mhab]


/-! ## Mixed ranks and pipeline order -/

/-- Before commit d043511 the batch-transpose rules looked only at the transposed operand's `perm`: the decision
and the emitted flags did not depend on the OTHER operand's rank (finding C19-F15, fixed: for operands of different
rank onnxruntime rejects `transBatchA/B = 1`). -/
theorem batch_rules_other_operand_rank_prefix_refuted :
    fmm { kind := "t1", rank := 3, xRank := 3, yRank := 2, inner := some FAttrs.empty, perm := some [1, 2, 0],
          cstConst := true, cstShape := [], cst := 2.0, fix15 := false }
      = "count=1 FusedMatMul@com.microsoft{transA=1;transBatchA=1}(x,y)->1"
    ∧ fmm { kind := "t1", rank := 3, xRank := 3, yRank := 3, inner := some FAttrs.empty, perm := some [1, 2, 0],
            cstConst := true, cstShape := [], cst := 2.0, fix15 := false }
      = "count=1 FusedMatMul@com.microsoft{transA=1;transBatchA=1}(x,y)->1" := by decide

/-- The current batch rules (commit d043511) leave the mixed-rank graph unchanged; the equal-rank one still fuses. -/
theorem batch_rules_equal_rank_guard :
    fmm { kind := "t1", rank := 3, xRank := 3, yRank := 2, inner := some FAttrs.empty, perm := some [1, 2, 0],
          cstConst := true, cstShape := [], cst := 2.0 } = "count=0"
    ∧ fmm { kind := "t1", rank := 3, xRank := 3, yRank := 3, inner := some FAttrs.empty, perm := some [1, 2, 0],
            cstConst := true, cstShape := [], cst := 2.0 }
      = "count=1 FusedMatMul@com.microsoft{transA=1;transBatchA=1}(x,y)->1" := by decide

/-- **A `Transpose` without `perm` reverses every axis; it is `transA`/`transB` only for a rank-2 operand.**
The reversal `k ↦ n-1-k` equals the swap of the last two axes at every axis iff `n = 2` (for `n ≥ 2`): so the
basic rules must test the rank of the *transposed* operand — `x` for the first-operand rules, `y` for the
second-operand rules — as `_TransposeMatMulBase.check` does. -/
theorem permless_transpose_is_swap_iff_rank2 (n : Nat) (hn : 2 ≤ n) :
    (∀ k, k < n → n - 1 - k = axSwap n k) ↔ n = 2 := by
  constructor
  · intro h
    by_contra hne
    have h0 := h 0 (by omega)
    have a := axSwap_cases n 0
    omega
  · intro h k hk
    have a := axSwap_cases n k
    omega

/-- The model (= the code) on `MatMul(x:[2,3], Transpose(y:[3,3,3]))` with a perm-less Transpose: the second-operand
rule looks at `y`'s rank (3) and does not fire; were it to look at `x`'s rank (2) it would emit `transB=1`. -/
theorem permless_second_operand_rank3_not_fused :
    fmm { kind := "t2", rank := 2, xRank := 2, yRank := 3, inner := none, perm := none, cstConst := true,
          cstShape := [], cst := 2.0 } = "count=0"
    ∧ fmm { kind := "t2", rank := 2, xRank := 2, yRank := 2, inner := none, perm := none, cstConst := true,
            cstShape := [], cst := 2.0 } = "count=1 FusedMatMul@com.microsoft{transB=1}(x,y)->1" := by decide

section PipelineOrder
variable {K : Type} [Field K]

/-- **Scale before bias cannot be folded into MHA's `scale` once the bias sits inside MHA.**  MHA with a packed
bias scores `((q + b) · k) · scale`.  For a query projection `q·s + b`:
the correct pipeline keeps the `Mul` in front (`((q·s + b) · k) · c`); folding `s` into `scale` after the bias was
folded gives `((q + b) · k) · (s·c)`, which differs by `(1 - s) · c · (b · k)` — zero for all inputs only if `s = 1`.
The other order, `(q + b)·s`, IS foldable. -/
theorem scale_before_bias_not_foldable {n : Nat} (q b k : Fin n → K) (s c : K) :
    (∑ d, (q d * s + b d) * k d) * c - (∑ d, (q d + b d) * k d) * (s * c) = (1 - s) * c * (∑ d, b d * k d)
    ∧ (∑ d, ((q d + b d) * s) * k d) * c = (∑ d, (q d + b d) * k d) * (s * c) := by
  constructor
  · simp only [Finset.sum_mul, Finset.mul_sum, ← Finset.sum_sub_distrib]
    exact Finset.sum_congr rfl (fun d _ => by ring)
  · simp only [Finset.sum_mul]
    exact Finset.sum_congr rfl (fun d _ => by ring)

end PipelineOrder

/-- The modelled stage order on `q = (x·Wq)·s + b`: `mha_scale` does not fire (count 0), `mha_bias` does, and the
`Mul` stays in front of the fused node. -/
theorem pipeline_scale_bias_keeps_mul :
    pipe { qm := some [.int 2, .int 3, .int 8], heads := 2, qProj := "scale_bias", kb := false, vb := false,
           s := 0.5, sdpaScale := none, mask := false }
      = "count=1/1/0/1/0 MultiHeadAttention@com.microsoft{num_heads=2}(@Mul,km,vm,@Concat)->1" := by decide


/-! ## Round 3: ∀-statements about the model's own matchers and stage order -/

/-- `permOf f n` *is* the axis map `f` as an ONNX `perm` list: entry `k` is `f n k` for `k < n`, and the list has
length `n`.  (Links the list-level decisions of `fmm` — `p == permBatch n`, … — to the axis-map theorems
`fmm_case1/2/3`, for every rank.) -/
theorem permOf_get (f : Nat → Nat → Nat) (n k : Nat) :
    (permOf f n).length = n ∧ (permOf f n)[k]? = if k < n then some (Int.ofNat (f n k)) else none := by
  unfold permOf
  refine ⟨by simp, ?_⟩
  by_cases hk : k < n
  · simp [hk, List.getElem?_map, List.getElem?_range hk]
  · simp [hk, List.getElem?_map]

/-- the axis a `perm` list sends output axis `k` to -/
def permAt (p : List Int) (k : Nat) : Nat := ((p[k]?).getD 0).toNat

theorem permAt_permOf (f : Nat → Nat → Nat) (n k : Nat) (hk : k < n) : permAt (permOf f n) k = f n k := by
  unfold permAt
  rw [(permOf_get f n k).2]
  simp [hk]

/-- **`batch_rule_sound`** — the model's own decision function for the three batch-transpose rules, for EVERY
rank `n ≥ 2`, every `perm` list of that length, both values of the operand's `transBatch` (`tb`) and `trans` (`t`)
flags: whenever `batchRule` fires with `(flipBatch, flipTrans)`, the Transpose's `perm` composed with the axis map
of the old flags IS the axis map of the new flags, at every axis. -/
theorem batch_rule_sound (n : Nat) (hn : 2 ≤ n) (p : List Int) (hp : p.length = n) (tb t fb ft : Bool)
    (h : batchRule (if tb then 1 else 0) p = some (fb, ft)) (k : Nat) (hk : k < n) :
    permAt p (effAxis n tb t k) = effAxis n (tb != fb) (t != ft) k := by
  have hrange : effAxis n tb t k < n := by
    have a1 := axSwap_cases n k; have a2 := axBatch_cases n k; have a3 := axRotL_cases n k
    cases tb <;> cases t <;> simp only [effAxis] <;> omega
  unfold batchRule at h
  rw [hp] at h
  cases tb
  · -- transBatch = 0
    simp only [Bool.false_eq_true, if_false, beq_self_eq_true, if_true] at h
    split at h
    · rename_i hpe
      have hpe' : p = permBatch n := by simpa using hpe
      obtain ⟨rfl, rfl⟩ := Prod.mk.inj (Option.some.inj h)
      rw [hpe']; unfold permBatch
      rw [permAt_permOf _ _ _ hrange]
      have := (fmm_case2 n k hn hk t).1
      cases t <;> simpa using this
    · split at h
      · rename_i _ hpe
        have hpe' : p = permRotL n := by simpa using hpe
        obtain ⟨rfl, rfl⟩ := Prod.mk.inj (Option.some.inj h)
        rw [hpe']; unfold permRotL
        rw [permAt_permOf _ _ _ hrange]
        have := (fmm_case1 n k hn hk t).1
        cases t <;> simpa using this
      · simp at h
  · -- transBatch = 1
    simp only [if_true] at h
    have h10 : ((1 : Int) == 0) = false := by decide
    simp only [h10, Bool.false_eq_true, if_false] at h
    split at h
    · rename_i hpe
      have hpe' : p = permBatchInv n := by simpa using hpe
      obtain ⟨rfl, rfl⟩ := Prod.mk.inj (Option.some.inj h)
      rw [hpe']; unfold permBatchInv
      rw [permAt_permOf _ _ _ hrange]
      have := (fmm_case2 n k hn hk t).2
      cases t <;> simpa using this
    · split at h
      · rename_i _ hpe
        have hpe' : p = permRotR n := by simpa using hpe
        obtain ⟨rfl, rfl⟩ := Prod.mk.inj (Option.some.inj h)
        rw [hpe']; unfold permRotR
        rw [permAt_permOf _ _ _ hrange]
        have := (fmm_case1 n k hn hk t).2
        cases t <;> simpa using this
      · split at h
        · rename_i _ _ hpe
          have hpe' : p = permSwap0L n := by
            simp only [Bool.and_eq_true, beq_iff_eq] at hpe; exact hpe.1
          obtain ⟨rfl, rfl⟩ := Prod.mk.inj (Option.some.inj h)
          rw [hpe']; unfold permSwap0L
          rw [permAt_permOf _ _ _ hrange]
          have := fmm_case3 n k hn hk t
          cases t <;> simpa using this
        · simp at h

example : batchRule 0 [1, 2, 0, 3] = some (true, false) ∧ batchRule 1 [3, 0, 1, 2] = some (true, true)
    ∧ batchRule 1 [3, 1, 2, 0] = some (false, true) ∧ batchRule 0 [0, 1, 3, 2] = none := by decide

/-- **Rotary stage dependency**, for EVERY instance: a later stage fires only if the earlier one did (partial ⇒
cos/sin cache ⇒ rotary), the partial stage only on a partial rotation whose two slices meet (`end1 = start2`), and
the cos/sin-cache stage never on an odd rotary width, a non-`[1,·,1]` `inv_freq` or constant position ids. -/
theorem rope_stage_dependency (i : RopeIn) :
    ((ropeStages i).2.2.1 = 1 → (ropeStages i).2.1 = 1 ∧ i.partialRot = true ∧ i.pEnd1 = i.pStart2)
    ∧ ((ropeStages i).2.1 = 1 → (ropeStages i).1 = 1 ∧ i.odd = false ∧ i.inv0 = 1 ∧ i.posConst = false)
    ∧ ((ropeStages i).1 = 1 → (rotaryCheck i.xe i.sl).isSome = true) := by
  unfold ropeStages
  cases hrc : rotaryCheck i.xe i.sl with
  | none => simp
  | some h =>
    simp only [Option.isSome_some, implies_true, and_true]
    by_cases hbad : (i.odd || i.inv0 != 1 || i.posConst) = true
    · simp [hbad]
    · have hb' := hbad
      simp only [Bool.or_eq_true, bne_iff_ne, ne_eq, not_or, Bool.not_eq_true, Decidable.not_not] at hb'
      by_cases hp : (i.partialRot && i.pEnd1 == i.pStart2) = true
      · have hp' := hp
        simp only [Bool.and_eq_true, beq_iff_eq] at hp'
        simp [hbad, hp, hb'.1.1, hb'.1.2, hb'.2, hp'.1, hp'.2]
      · simp [hbad, hp, hb'.1.1, hb'.1.2, hb'.2]

section SkipMatch
variable {K : Type} [Field K]

/-- value of an `Add` tree under a valuation of its leaves (one element position; the checks force equal shapes) -/
def E.eval (ρ : String → K) : E → K
  | .leaf n _ => ρ n
  | .add _ l r => E.eval ρ l + E.eval ρ r

/-- **`skip_match_sound`** — for EVERY add-tree and every rule variant (`pre`, `post`, `none`): whatever the model's
structural matcher binds as (`input`, `skip`, `bias?`), the matched value is `input + skip + bias` (bias 0 when
absent) — i.e. exactly what `Skip(Simplified)LayerNormalization` normalises and returns as its last output. -/
theorem skip_match_sound (ρ : String → K) (v : String) (t inp sk : E) (bias : Option E)
    (h : skipMatch v t = some (inp, sk, bias)) :
    E.eval ρ t = E.eval ρ inp + E.eval ρ sk + (match bias with | some b => E.eval ρ b | none => 0) := by
  unfold skipMatch at h
  split at h <;> simp only [Option.some.injEq, Prod.mk.injEq, reduceCtorEq] at h
  all_goals (obtain ⟨rfl, rfl, rfl⟩ := h; simp only [E.eval]; ring)

example : skipMatch "pre" (.add none (.leaf "skip" none) (.add none (.leaf "x" none) (.leaf "b" none)))
    = some (.leaf "x" none, .leaf "skip" none, some (.leaf "b" none)) := rfl

end SkipMatch

section StageOrder
variable {K : Type} [Field K]

/-- the query fed to attention: the ops applied to the projection `q`, innermost first -/
def applyOps {n : Nat} (s : K) (b : Fin n → K) : List QOp → (Fin n → K) → (Fin n → K)
  | [], q => q
  | .mul :: r, q => applyOps s b r (fun d => q d * s)
  | .add :: r, q => applyOps s b r (fun d => q d + b d)

theorem applyOps_append {n : Nat} (s : K) (b : Fin n → K) (l : List QOp) (o : QOp) (q : Fin n → K) :
    applyOps s b (l ++ [o]) q = applyOps s b [o] (applyOps s b l q) := by
  induction l generalizing q with
  | nil => rfl
  | cons a r ih => cases a <;> simp only [List.cons_append, applyOps] <;> exact ih _

/-- one attention score: `(query · key) · scale`; MHA adds its packed bias to the query first -/
def mhaScore {n : Nat} (query bias key : Fin n → K) (scale : K) : K := (∑ d, (query d + bias d) * key d) * scale

/-- **`pipe_stage_order_sound`** — for EVERY stack of `Mul(·,s)` / `Add(·,b)` on the query projection (any length,
any order), every head size, all values: the node the modelled pipeline (`mha_scale` once, then `mha_bias`) leaves —
the remaining ops in front of MHA, the bias packed into MHA iff folded, `scale·s` iff folded — computes the same
attention score as the original query with no bias and the original scale.  (The seeded order "scale again after
bias" is exactly what `scale_before_bias_not_foldable` refutes.) -/
theorem pipe_stage_order_sound {n : Nat} (ops : List QOp) (otherBias : Bool) (q b k : Fin n → K) (s c : K) :
    mhaScore (applyOps s b (pipeStages ops otherBias).1 q)
        (if (pipeStages ops otherBias).2.2 then b else fun _ => 0) k
        (if (pipeStages ops otherBias).2.1 then c * s else c)
      = mhaScore (applyOps s b ops q) (fun _ => 0) k c := by
  have hmul : ∀ l : List QOp, l.getLast? = some QOp.mul → l = l.dropLast ++ [QOp.mul] :=
    fun l h => (List.dropLast_append_getLast? _ (by simp [h])).symm
  have hadd : ∀ l : List QOp, l.getLast? = some QOp.add → l = l.dropLast ++ [QOp.add] :=
    fun l h => (List.dropLast_append_getLast? _ (by simp [h])).symm
  have foldMul : ∀ (x : Fin n → K), mhaScore (fun d => x d * s) (fun _ => 0) k c = mhaScore x (fun _ => 0) k (c * s) := by
    intro x; unfold mhaScore
    simp only [Finset.sum_mul]; exact Finset.sum_congr rfl (fun d _ => by ring)
  have foldAdd : ∀ (x : Fin n → K) (c' : K), mhaScore (fun d => x d + b d) (fun _ => 0) k c' = mhaScore x b k c' := by
    intro x c'; unfold mhaScore
    congr 1; exact Finset.sum_congr rfl (fun d _ => by ring)
  unfold pipeStages peelMul peelAdd
  by_cases h1 : ops.getLast? = some QOp.mul
  · -- scale folded
    have e1 := hmul ops h1
    simp only [h1, if_true]
    by_cases h2 : ops.dropLast.getLast? = some QOp.add
    · have e2 := hadd _ h2
      simp only [h2, if_true, Bool.true_or]
      conv_rhs => rw [e1, applyOps_append, e2, applyOps_append]
      simp only [applyOps]
      rw [foldMul, foldAdd]
    · simp only [h2, if_false, Bool.false_or]
      cases otherBias <;> simp only [if_true, if_false, Bool.false_eq_true] <;>
        (conv_rhs => rw [e1, applyOps_append]) <;> simp only [applyOps] <;> rw [foldMul]
  · simp only [h1, if_false]
    by_cases h2 : ops.getLast? = some QOp.add
    · have e2 := hadd _ h2
      simp only [h2, if_true, Bool.true_or]
      conv_rhs => rw [e2, applyOps_append]
      simp only [applyOps]
      rw [foldAdd]
      simp
    · simp only [h2, if_false, Bool.false_or]
      cases otherBias <;> simp only [if_true, if_false, Bool.false_eq_true]

example : pipeStages [.mul, .add] false = ([.mul], false, true) ∧ pipeStages [.add, .mul] false = ([], true, true)
    ∧ pipeStages [.mul] true = ([], true, false) := by decide

end StageOrder


/-! ## `shape_optimization.ExtractDim` -/

/-- ONNX `Slice` on one axis of length `n` with the default step 1 (operator spec: a negative bound gets `n` added,
then both bounds are clamped to `[0, n]`). -/
def onnxSliceStep1 {α : Type} (l : List α) (s e : Int) : List α :=
  let n : Int := l.length
  let cl (v : Int) : Nat := (max 0 (min (if v < 0 then v + n else v) n)).toNat
  (l.take (cl e)).drop (cl s)

/-- **`extract_dim_sound`** — for EVERY list (the 4 transposed dims in particular) and every pair of bounds,
including negative and out-of-range ones and the `INT64_MAX` sentinel: Python's `l[start:end]`, which the rewrite
uses, selects exactly the elements ONNX `Slice(l, start, end)` (step 1) selects. -/
theorem extract_dim_sound {α : Type} (l : List α) (s e : Int) : pySlice l s e = onnxSliceStep1 l s e := by
  unfold pySlice onnxSliceStep1 pyBound
  have key : ∀ v : Int,
      (if v < 0 then (if v + (l.length : Int) < 0 then 0 else (v + (l.length : Int)).toNat)
        else (if v > (l.length : Int) then l.length else v.toNat))
      = (max 0 (min (if v < 0 then v + (l.length : Int) else v) (l.length : Int))).toNat := by
    intro v
    simp only [Int.min_def, Int.max_def]
    repeat' split
    all_goals omega
  simp only [key]

/-- The shape the Slice reads: axis `k` of `Transpose(·, perm=[0,2,1,3])` of a tensor reshaped (with `allowzero=1`,
so a 0 in the shape is a real 0) to `[d0,d1,d2,d3]` is `[d0,d2,d1,d3][k]` — hence the dim *values* the rewrite picks
are the values `Shape` returns. -/
theorem extract_dim_transposed_shape {α : Type} (d0 d1 d2 d3 : α) :
    ([0, 2, 1, 3] : List Nat).filterMap (fun k => [d0, d1, d2, d3][k]?) = [d0, d2, d1, d3] := by
  simp

/-- **A step other than 1 selects different elements**: on `[a,b,c,d]`, `0:4:2` is `[a,c]` and `3:-5:-1` is the
reversal — so the rule may only fire on a Slice without a `steps` input (the pattern demands exactly three inputs;
`extractOk` says so for every instance). -/
theorem extract_dim_needs_unit_step (i : ExtractIn) (h : extractOk i = true) : i.nSliceInputs = 3 := by
  unfold extractOk at h
  simp only [Bool.and_eq_true, beq_iff_eq] at h
  exact h.1.1.1.1.1.1

example : pySlice ["dim0", "dim2", "dim1", "dim3"] 1 (-1) = ["dim2", "dim1"]
    ∧ pySlice ["dim0", "dim2", "dim1", "dim3"] (-5) 9223372036854775807 = ["dim0", "dim2", "dim1", "dim3"]
    ∧ pySlice ["dim0", "dim2", "dim1", "dim3"] 3 1 = [] := by decide


/-! ## Round 4: `sdpa_via_mha` and the cos/sin cache as identities -/

/-- **`sdpa_via_mha_head_sizes`** — for EVERY head count `H > 0`, query/key head size `Dh` and value head size `Dv`:
after `Transpose(0,2,1,3)` + `Reshape([0,0,-1])` the hidden sizes are `H·Dh` and `H·Dv`, so the head size
`MultiHeadAttention(num_heads = H)` derives for its default scale is `Dh` — the SDPA's — and the `Reshape([0,0,H,-1])`
of the result infers `Dv`; neither depends on the other. -/
theorem sdpa_via_mha_head_sizes (H Dh Dv : Nat) (hH : 0 < H) :
    (H * Dh) / H = Dh ∧ (H * Dv) / H = Dv := by
  exact ⟨Nat.mul_div_cancel_left Dh hH, Nat.mul_div_cancel_left Dv hH⟩

section ViaMha
variable {K : Type} [Field K]

/-- **`sdpa_via_mha_default_scale`**: with no `scale` attribute both operators scale the scores by `rsqrt` of the
*query* head size; the one MHA derives (`hidden / num_heads` of the reshaped query) is the SDPA's `Dh` for every
`H > 0`, `Dh`, `Dv` — it is never the value head size.  (`rsqrt` abstract.) -/
theorem sdpa_via_mha_default_scale (rsqrt : Nat → K) (H Dh Dv : Nat) (hH : 0 < H) :
    rsqrt ((H * Dh) / H) = rsqrt Dh ∧ (Dv ≠ Dh → (H * Dh) / H ≠ Dv) := by
  rw [Nat.mul_div_cancel_left Dh hH]
  exact ⟨rfl, fun h => fun e => h e.symm⟩

/-- the 3-D operand MHA receives: column `c` of row `(b,s)` is element `(b, c / Dh, s, c % Dh)` of the 4-D tensor
(that is what `Transpose(0,2,1,3)` + `Reshape([0,0,-1])` do; `heads_split_layout` is the offset computation) -/
def to3d (Dh : Nat) (x : Nat → Nat → K) (c : Nat) : K := x (c / Dh) (c % Dh)

/-- **`sdpa_via_mha_score`** — for EVERY head size `Dh`, head index `h`, all values and every scale `c`: the score
MHA computes for head `h` from the 3-D operands (columns `h·Dh … h·Dh+Dh-1`) equals the SDPA's score
`(q[h] · k[h]) · c` on the 4-D operands. -/
theorem sdpa_via_mha_score (Dh : Nat) (q k : Nat → Nat → K) (h : Nat) (c : K) :
    (∑ d : Fin Dh, to3d Dh q (h * Dh + d) * to3d Dh k (h * Dh + d)) * c = (∑ d : Fin Dh, q h d * k h d) * c := by
  congr 1
  refine Finset.sum_congr rfl (fun d _ => ?_)
  obtain ⟨e1, e2⟩ := heads_split_unique Dh h d d.isLt
  simp only [to3d, e1, e2]

/-- … and the attention output: column `h·Dv + d` of MHA's 3-D result is element `(h, d)` of the value-weighted sum,
which `Reshape([0,0,H,-1])` + `Transpose(0,2,1,3)` put back at `(b,h,s,d)` — for every `Dv`, independently of `Dh`. -/
theorem sdpa_via_mha_output (Dv : Nat) (o : Nat → Nat → K) (h d : Nat) (hd : d < Dv) :
    to3d Dv o (h * Dv + d) = o h d := by
  obtain ⟨e1, e2⟩ := heads_split_unique Dv h d hd
  simp only [to3d, e1, e2]

end ViaMha

/-- The model's `replace_sdpa_by_mha` builds exactly those layouts for every `num_heads` and both key formats. -/
theorem via_mha_shapes (fmt : String) (h : Nat) :
    (viaMha fmt h).to3d = [0, 0, -1] ∧ (viaMha fmt h).to4d = [0, 0, (h : Int), -1]
    ∧ (viaMha fmt h).qPerm = some [0, 2, 1, 3] ∧ (viaMha fmt h).vPerm = some [0, 2, 1, 3]
    ∧ (viaMha fmt h).outPerm = [0, 2, 1, 3] ∧ (viaMha fmt h).numHeads = h
    ∧ ((viaMha fmt h).kPerm = none ↔ fmt ≠ "BHSd") := by
  unfold viaMha
  refine ⟨rfl, rfl, rfl, rfl, rfl, rfl, ?_⟩
  by_cases hf : fmt = "BHSd" <;> simp [hf]

section CosSinCache
variable {K : Type} [Field K]

/-- **`cos_sin_cache_identity`** — the HF computation `cos(Concat(freqs, freqs))` with
`freqs[b,s,i] = inv_freq[i] · float(position_ids[b,s])` equals a lookup of row `position_ids[b,s]` in the cache
`cos_cache[p, i] = cos(float(p) · inv_freq[i])` that the rewrite builds, duplicated over the two halves — for every
half width `h`, every position, every column `j < 2h`, any `cos`/`sin` function and any int→float `cast`.  The
duplicated form is exactly the `cos`/`sin` shape `rotary_halves` assumes. -/
theorem cos_sin_cache_identity (f : K → K) (cast : Nat → K) (inv : Nat → K) (h pos j : Nat) :
    (if j < h then f (inv j * cast pos) else f (inv (j - h) * cast pos))
      = (if j < h then (fun p i => f (cast p * inv i)) pos j else (fun p i => f (cast p * inv i)) pos (j - h)) := by
  by_cases hj : j < h <;> simp only [hj, if_true, if_false, mul_comm]

end CosSinCache

/-! ## Decisions: facts about the transcribed checks -/

/-- **`softmax_axis`** (one direction only): if the transcribed upcast-removal rule fires, the types were
`float16 → Cast(float) → Softmax → Cast(float16)`.  The statement does not constrain `ax`: that the emitted node keeps
the matched node's own `axis` attribute (or its absence) is how `softmax` is written, and is tied to the code by the
`softmax` correspondence stream and the numeric search (seeded change C19-12), not proved here. -/
theorem softmax_axis (dt up down : Nat) (ax : Option Int) :
    (softmax dt up down ax ≠ "count=0" → dt = 10 ∧ up = 1 ∧ down = 10) := by
  intro h
  unfold softmax at h
  by_cases hc : (up == 1 && down == 10 && dt == 10) = true
  · simp only [Bool.and_eq_true, beq_iff_eq] at hc; omega
  · simp [hc] at h

/-- `bias_gelu.py` checks the rank of the bias only: a length-1 bias next to a last dimension of 8 is accepted
(finding C19-F1: the fused `BiasGelu` is rejected by onnxruntime). -/
theorem bias_gelu_check_prefix_refuted :
    biasGeluV false false (some [.int 2, .int 8]) (some [.int 1]) = "count=1 BiasGelu@com.microsoft{}(a,b)->1" := by
  decide

/-- **`BiasGeluFusion.check` is sufficient for what `BiasGelu` demands**: whenever it accepts
`(input, bias)`, the bias is 1-D of a static length `n` and the input's shape is known, non-scalar, with last
dimension exactly `n` — for every shape, symbolic or not. -/
theorem bias_gelu_check_sound (input bias : Option Shape) (h : biasOk true input bias = true) :
    ∃ n ish, bias = some [.int n] ∧ input = some ish ∧ ish.getLast? = some (.int n) := by
  unfold biasOk at h
  simp only [Bool.not_true, Bool.false_or, Bool.and_eq_true] at h
  obtain ⟨_, h2⟩ := h
  cases input with
  | none => cases bias <;> simp at h2
  | some ish =>
    cases bias with
    | none => simp at h2
    | some bs =>
      match bs, h2 with
      | [.int n], h2 =>
        refine ⟨n, ish, rfl, rfl, ?_⟩
        cases hl : ish.getLast? with
        | none => simp [hl] at h2
        | some d =>
          cases d with
          | int m => simp [hl] at h2; rw [h2]
          | sym _ => simp [hl] at h2
          | unk => simp [hl] at h2

example : biasOk true (some [.int 2, .int 8]) (some [.int 8]) = true := by decide
example : biasGelu false (some [.int 2, .int 8]) (some [.int 1]) = "count=0" := by decide

/-- A structurally nominal RMS-norm instance (float everywhere, scalar epsilon), used by the statements below. -/
def rmsNominal : RmsIn :=
  { xdt := 1, sdt := 1, castIn := false, cdt := 1, castOut := false, tdt := 1, scaleCast := false,
    mulOrder := false, innerSwap := false, epsConst := true, epsSize := 1, eps := 1e-6, axes := [-1], pow := 2.0,
    powRank := 0, keepdims := some 1, noop := some 0, xRank := 2, scaleRank := 1, epsRank := 0 }

/-- `orCast`: with `Mul(Cast(scale: float16 → float), normalized)` the `scale` variable is bound to the value
*before* its `Cast` (dtype float16 = 10) while the product is float (1). -/
theorem rms_scale_cast_binds_before_cast :
    orCast true 1 10 none = (true, 10, some 1) := by decide

/-- **The three guards of the current `RmsNormFusion.check`** (commits 860eec7, 655e32d, a2dc518), for EVERY
instance: a scale of higher rank than `x`, or an epsilon of higher rank than `x`, fails the check. -/
theorem rms_guards (i : RmsIn) :
    (i.fix10 = true → i.epsRank > i.xRank → rmsCheck i = false)
    ∧ (i.fix7 = true → i.scaleRank > i.xRank → rmsCheck i = false) := by
  constructor <;> intro hf hr <;> unfold rmsCheck <;> simp [hf, hr]

/-- **`rms_output_dtype_preserved`** — for EVERY instance the current check accepts (either operand order, any
combination of the three optional Casts and their target types): the element type of the value bound as `scale` —
which is the output type of `SimplifiedLayerNormalization` — equals the element type of the replaced product
`Mul(normalized, scale')` (`scale'` = the scale after its optional Cast).  This is what finding C19-F6 violated. -/
theorem rms_output_dtype_preserved (i : RmsIn) (h6 : i.fix6 = true) (h : rmsCheck i = true) :
    (rmsBind i).2.2.2.1 = (if i.scaleCast then i.tdt else i.sdt) := by
  unfold rmsCheck at h
  simp only [h6, Bool.true_and, Bool.and_eq_true, Bool.not_eq_true', Bool.and_eq_false_imp] at h
  have hg := h.2
  revert hg
  unfold rmsBind orCast
  cases hm : i.mulOrder <;> cases hs : i.scaleCast <;> cases hc : i.castIn <;> simp <;>
    (try (intro hg; split at hg <;> simp_all)) <;> (try split <;> simp_all)

/-! ## `_core.py`: stage order, read from the source (translator) -/

/-- **Translator tie.**  The statement sequences of `fuse_xformers`, `_pre_optimize`, `optimize_for_ort`, the order of
`ORT_PATTERN_REWRITE_RULES`, the tolerances of SDPA's default-scale test and the priority of the two softmax rules —
re-read from the tree under test by `harness/c19_extract.py` on every run (`OV.Gen.C19Core`) — are the ones the model
assumes (`OV.Model.C19Core`).  Any edit of those sequences makes this theorem fail to check. -/
theorem core_tables_match_model :
    OV.Gen.C19Core.fuseXformersSteps = xformersOrder
    ∧ OV.Gen.C19Core.preOptimizeSteps = preOptimizeOrder
    ∧ OV.Gen.C19Core.optimizeForOrtSteps = optimizeForOrtOrder
    ∧ OV.Gen.C19Core.ortPatternRules = ortRuleOrder
    ∧ OV.Gen.C19Core.sdpaDefaultScaleTest = sdpaIscloseKw
    ∧ OV.Gen.C19Core.softmaxRuleOrder = softmaxOrder := by decide +kernel

/-- the fusion stages of `fuse_xformers` that can run (top level or `else` branch), in program order -/
theorem core_stage_keys :
    stageKeys OV.Gen.C19Core.fuseXformersSteps =
      ["erf_gelu", "rms_normalization", "skip_layer_normalization", "skip_rms_normalization", "rotary_embedding",
       "cos_sin_cache", "partial_rotary_embedding", "sdpa", "gqa", "packed_qkv_for_gqa", "mha1", "mha2", "mha_scale",
       "mha_bias", "attention", "gelu", "bias_gelu", "sdpa_via_mha"] := by decide +kernel

/-- The order facts the family models embody, established on the EXTRACTED table: `ropeStages` (rotary → cos/sin cache
→ partial), `sdpa` before `gqa`/`mha1`/`mha2`, `mha_scale` after the MHA rules and before `mha_bias`, then `attention`;
`sdpa_via_mha` is the last stage; no stage runs twice; exactly `mha_bias` and `attention` sit under the
`mha1 == 0 and mha2 == 0` guard (set to 0 in the `if` branch — `pipe`'s `count=1/0/0/0/0` line). -/
theorem core_stage_order_facts :
    let ks := stageKeys OV.Gen.C19Core.fuseXformersSteps
    precedes ks "rotary_embedding" "cos_sin_cache" = true
    ∧ precedes ks "cos_sin_cache" "partial_rotary_embedding" = true
    ∧ precedes ks "partial_rotary_embedding" "sdpa" = true
    ∧ precedes ks "sdpa" "gqa" = true ∧ precedes ks "gqa" "packed_qkv_for_gqa" = true
    ∧ precedes ks "sdpa" "mha1" = true ∧ precedes ks "mha1" "mha2" = true
    ∧ precedes ks "mha2" "mha_scale" = true ∧ precedes ks "mha_scale" "mha_bias" = true
    ∧ precedes ks "mha_bias" "attention" = true
    ∧ precedes ks "rms_normalization" "skip_rms_normalization" = true
    ∧ precedes ks "gelu" "bias_gelu" = true
    ∧ ks.getLast? = some "sdpa_via_mha"
    ∧ ks.Nodup
    ∧ guardedKeys OV.Gen.C19Core.fuseXformersSteps =
        [("if:" ++ mhaGuard, "mha_bias"), ("if:" ++ mhaGuard, "attention"),
         ("else:" ++ mhaGuard, "mha_bias"), ("else:" ++ mhaGuard, "attention")] := by decide +kernel

/-- **The modelled pipeline is the source's stage list.**  Interpreting the extracted stage keys one after the other on
the query-op stack of a freshly fused MHA node (`runQStage` with the current rules: `mha_scale` peels a `Mul` unless the
node has a bias input, `mha_bias` peels an `Add` and sets that input, all other stages leave the query path alone) is
`pipeStages` — for every stack and both values of `otherBias`; the node ends up with a bias input iff `mha_bias` fired. -/
theorem pipe_stages_follow_core_table (ops : List QOp) (otherBias : Bool) :
    pipeStagesOf (stageKeys OV.Gen.C19Core.fuseXformersSteps) ops otherBias = qstateOf (pipeStages ops otherBias) otherBias := by
  rw [core_stage_keys]
  cases otherBias <;> simp [pipeStagesOf, runQStage, pipeStages, qstateOf] <;> split <;> simp_all

/-- non-vacuity of the previous statement: it distinguishes orders — `mha_bias` before `mha_scale` gives a different
result on `(q + b)·s`.  A second `mha_scale` AFTER `mha_bias` (seeded change C19-6) differed under the rule before
a202620 (`fix16 = false`); with the current rule the second call refuses the biased node and the result is the same. -/
theorem pipe_stage_order_matters :
    pipeStagesOf ["mha_bias", "mha_scale"] [.add, .mul] false ≠ pipeStagesOf ["mha_scale", "mha_bias"] [.add, .mul] false
    ∧ pipeRoundOf false ["mha_scale", "mha_bias", "mha_scale"] false ([.mul, .add], false, false, false)
        ≠ pipeRoundOf false ["mha_scale", "mha_bias"] false ([.mul, .add], false, false, false)
    ∧ pipeRoundOf true ["mha_scale", "mha_bias", "mha_scale"] false ([.mul, .add], false, false, false)
        = pipeRoundOf true ["mha_scale", "mha_bias"] false ([.mul, .add], false, false, false) := by decide

section CoreCompose
variable {K : Type} [Field K]

/-- **End-to-end corollary (source order ∘ algebra).**  Running the attention stages in the order extracted from
`fuse_xformers` on ANY stack of `Mul`/`Add` over the query preserves every attention score. -/
theorem pipe_source_order_sound {n : Nat} (ops : List QOp) (otherBias : Bool) (q b k : Fin n → K) (s c : K) :
    let r := pipeStagesOf (stageKeys OV.Gen.C19Core.fuseXformersSteps) ops otherBias
    mhaScore (applyOps s b r.1 q) (if r.2.2.1 then b else fun _ => 0) k (if r.2.1 then c * s else c)
      = mhaScore (applyOps s b ops q) (fun _ => 0) k c := by
  simp only [pipe_stages_follow_core_table, qstateOf]
  exact pipe_stage_order_sound ops otherBias q b k s c

end CoreCompose

/-! ## Second application of `fuse_xformers` on its own output (history stream `second`) -/

/-- the stages that still run in a round where `mha1 == 0 and mha2 == 0` (every round after the first) -/
theorem core_unguarded_keys :
    unguardedKeys OV.Gen.C19Core.fuseXformersSteps =
      ["erf_gelu", "rms_normalization", "skip_layer_normalization", "skip_rms_normalization", "rotary_embedding",
       "cos_sin_cache", "partial_rotary_embedding", "sdpa", "gqa", "packed_qkv_for_gqa", "mha1", "mha2", "mha_scale",
       "gelu", "bias_gelu", "sdpa_via_mha"] := by decide +kernel

/-- **Second round, from the source.**  A further `fuse_xformers` on the block the first one left — the extracted stage
list minus the stages the guard skips — acts on the query path as `pipeSecondRound`: ONLY `mha_scale` (it sits before
the guard), for every state, for the rule before and after a202620. -/
theorem pipe_second_round_follows_core_table (fix16 otherBias : Bool) (st : QState) :
    pipeRoundOf fix16 (unguardedKeys OV.Gen.C19Core.fuseXformersSteps) otherBias st = pipeSecondRound fix16 st := by
  rw [core_unguarded_keys]
  cases fix16 <;> simp [pipeRoundOf, runQStage, pipeSecondRound]

section Second
variable {K : Type} [Field K]

/-- **`second_application_sound`** — FULL since /repo commit a202620 (was `_partial` with the hypothesis "round 1 packed
no query bias"; that hypothesis is now discharged by the rule itself: a node with a bias input is refused).  For EVERY
stack of `Mul`/`Add` on the query, both values of `otherBias`, every head size and all values: the block left by a
SECOND `fuse_xformers` — the ops still in front of MHA, the query bias packed in round 1, the scale `c·s^(folded)` —
computes the original attention scores. -/
theorem second_application_sound {n : Nat} (ops : List QOp) (otherBias : Bool) (q b k : Fin n → K) (s c : K) :
    let st1 := qstateOf (pipeStages ops otherBias) otherBias
    mhaScore (applyOps s b (pipeSecondRound true st1).1 q) (if (pipeSecondRound true st1).2.2.1 then b else fun _ => 0) k
        ((if (pipeStages ops otherBias).2.1 then c * s else c) * (if pipeSecondPeels true st1 then s else 1))
      = mhaScore (applyOps s b ops q) (fun _ => 0) k c := by
  intro st1
  have h1 := pipe_stage_order_sound ops otherBias q b k s c
  by_cases hp : ((pipeStages ops otherBias).2.2 || otherBias) = true
  · have e1 : pipeSecondRound true st1 = st1 := by simp [pipeSecondRound, st1, qstateOf, hp]
    have e2 : pipeSecondPeels true st1 = false := by simp [pipeSecondPeels, st1, qstateOf, hp]
    rw [e1, e2]
    simpa [st1, qstateOf] using h1
  · have hob : otherBias = false := by cases otherBias <;> simp_all
    subst hob
    have hnb : (pipeStages ops false).2.2 = false := by
      cases hq : (pipeStages ops false).2.2 <;> simp_all
    rw [hnb] at h1
    simp only [Bool.false_eq_true, if_false] at h1
    rw [← h1]
    by_cases hm : (pipeStages ops false).1.getLast? = some QOp.mul
    · have hsplit : (pipeStages ops false).1 = (pipeStages ops false).1.dropLast ++ [QOp.mul] :=
        (List.dropLast_append_getLast? _ (by simp [hm])).symm
      simp only [pipeSecondRound, pipeSecondPeels, st1, qstateOf, hnb, peelMul, hm, Bool.or_false, Bool.and_false,
        Bool.false_eq_true, if_false, if_true, Bool.not_false, Bool.true_and, Bool.or_self]
      conv_rhs => rw [hsplit, applyOps_append]
      simp only [applyOps, mhaScore, add_zero, Finset.sum_mul]
      exact Finset.sum_congr rfl (fun d _ => by ring)
    · simp only [pipeSecondRound, pipeSecondPeels, st1, qstateOf, hnb, peelMul, hm, Bool.or_false, Bool.and_false,
        Bool.false_eq_true, if_false, Bool.not_false, Bool.true_and, Bool.or_self, mul_one, Bool.and_self]

end Second

/-- non-vacuity of `second_application_sound`, both branches: `((q + b)·s)·s` — no bias input after round 1, round 2 folds
the second `Mul`; `q·s + b` — the node has a bias input after round 1, round 2 leaves the `Mul` alone (count 0/0/0/0/0). -/
example : pipeSecondPeels true (qstateOf (pipeStages [.add, .mul, .mul] false) false) = true
    ∧ pipeSecondPeels true (qstateOf (pipeStages [.mul, .add] false) false) = false
    ∧ pipeSecondRound true (qstateOf (pipeStages [.mul, .add] false) false) = ([.mul], false, true, true) := by decide

/-- **The decision BEFORE a202620 (fixed finding C19-F16), refuted.**  `q·s + b`: round 1 packs the bias and leaves the
`Mul` (correct); the old `mha_scale` (`fix16 = false`) folded that `Mul` into `scale` in round 2 although the node
carried the bias: the score became `(q + b)·k·(c·s)` instead of `(q·s + b)·k·c` — different already for n = 1,
q = b = k = c = 1, s = 1/2.  The witness is a must-pass regression case of `harness/c19.py`. -/
theorem second_application_scale_bias_prefix_refuted :
    pipeStages [.mul, .add] false = ([.mul], false, true)
    ∧ pipeSecondRound false (qstateOf (pipeStages [.mul, .add] false) false) = ([], true, true, true)
    ∧ mhaScore (applyOps (1/2 : ℚ) (fun _ : Fin 1 => 1) [] (fun _ => 1)) (fun _ => 1) (fun _ => 1) (1 * (1/2))
        ≠ mhaScore (applyOps (1/2 : ℚ) (fun _ : Fin 1 => 1) [.mul, .add] (fun _ => 1)) (fun _ => 0) (fun _ => 1) 1 := by
  refine ⟨by decide, by decide, ?_⟩
  simp [mhaScore, applyOps]
  norm_num

/-- **`mha_scale` refuses a node that has a bias input** (current rule), for every instance; `mha_bias` (whose pattern
requires that input to be absent) does not fire either: the node is left unchanged. -/
theorem mha_scale_refuses_biased_node (i : MhabIn) (hb : i.bias0 = true) (hf : i.fix16 = true) : mhab i = "count=0/0" := by
  unfold mhab
  simp [hb, hf]
  decide

/-! ## `math.isclose` decisions (pattern float literals; SDPA's default-scale test)

`sdpa.py` drops the `scale` attribute when `math.isclose(scale, 1/sqrt(Dh), rel_tol=1e-5, abs_tol=1e-8)`; the matcher
accepts a float pattern literal under the same test.  `iscloseG` is the definition the driver executes at `Float`; here
it is instantiated at an arbitrary linearly ordered field, i.e. the statements are about the test in exact arithmetic
(IEEE rounding inside the test is not modelled — it moves the interval's end points by ≤ 1 ulp). -/

section Isclose
variable {K : Type} [Field K] [LinearOrder K] [IsStrictOrderedRing K]

/-- `iscloseG` is `a = b ∨ |a-b| ≤ max(rel·max(|a|,|b|), abs)` (CPython's `math.isclose` for finite arguments). -/
theorem isclose_iff_abs (a b rel abs : K) :
    iscloseG a b rel abs = true ↔ (a = b ∨ |a - b| ≤ max (rel * max |a| |b|) abs) := by
  have hab : ∀ x : K, (if x < 0 then -x else x) = |x| := by
    intro x
    split_ifs with h
    · exact (abs_of_neg h).symm
    · exact (abs_of_nonneg (not_lt.mp h)).symm
  have hmx : ∀ x y : K, (if x < y then y else x) = max x y := by
    intro x y
    split_ifs with h
    · exact (max_eq_right h.le).symm
    · exact (max_eq_left (not_lt.mp h)).symm
  simp only [iscloseG, hab, hmx, Bool.or_eq_true, beq_iff_eq, decide_eq_true_eq]

/-- Integer pattern literals (`op.Pow(x, 3)`, `op.Add(t, 1)`; zero tolerances since 6800bd1): the test is equality. -/
theorem isclose_exact_is_equality (a b : K) : iscloseG a b 0 0 = true ↔ a = b := by
  rw [isclose_iff_abs]
  constructor
  · rintro (h | h)
    · exact h
    · simp only [zero_mul, max_self] at h
      exact sub_eq_zero.mp (abs_nonpos_iff.mp h)
  · intro h; exact Or.inl h

/-- **Exact acceptance interval** (exact ordered-field arithmetic; side conditions `hb hr0 hr1 ha0 ha` are part of the
statement).  For a positive reference `b` (the default scale `1/sqrt(Dh)`, or a positive
pattern literal), `0 ≤ rel < 1` and `abs ≤ rel·b` (with the code's 1e-5 / 1e-8: `b ≥ 1e-3`, i.e. `Dh ≤ 10⁶`), the test
accepts EXACTLY `b·(1-rel) ≤ a ≤ b/(1-rel)` — for every `a`, non-positive ones included (they are refused). -/
theorem isclose_acceptance_interval (a b rel abs : K) (hb : 0 < b) (hr0 : 0 ≤ rel) (hr1 : rel < 1)
    (ha0 : 0 ≤ abs) (ha : abs ≤ rel * b) :
    iscloseG a b rel abs = true ↔ (b * (1 - rel) ≤ a ∧ a * (1 - rel) ≤ b) := by
  rw [isclose_iff_abs]
  have hbabs : |b| = b := abs_of_pos hb
  rw [hbabs]
  constructor
  · rintro (h | h)
    · subst h; constructor <;> nlinarith
    · rcases le_total 0 a with h0 | h0
      · rw [abs_of_nonneg h0] at h
        rcases le_total a b with hab | hab
        · rw [max_eq_right hab, max_eq_left ha, abs_of_nonpos (by linarith)] at h
          constructor <;> nlinarith
        · rw [max_eq_left hab, abs_of_nonneg (by linarith)] at h
          have : abs ≤ rel * a := le_trans ha (by nlinarith)
          rw [max_eq_left this] at h
          constructor <;> nlinarith
      · exfalso
        rw [abs_of_nonpos h0, abs_of_nonpos (by linarith)] at h
        rcases le_total (-a) b with hab | hab
        · rw [max_eq_right hab, max_eq_left ha] at h; nlinarith
        · rw [max_eq_left hab] at h
          have : abs ≤ rel * -a := le_trans ha (by nlinarith)
          rw [max_eq_left this] at h; nlinarith
  · rintro ⟨h1, h2⟩
    right
    have h0 : 0 ≤ a := by nlinarith
    rw [abs_of_nonneg h0]
    rcases le_total a b with hab | hab
    · rw [max_eq_right hab, max_eq_left ha, abs_of_nonpos (by linarith)]; nlinarith
    · rw [max_eq_left hab, abs_of_nonneg (by linarith)]
      have : abs ≤ rel * a := le_trans ha (by nlinarith)
      rw [max_eq_left this]; nlinarith

/-- **Soundness bound of dropping the `scale` attribute** (same side conditions as `isclose_acceptance_interval`: `0 < b`,
`0 ≤ rel < 1`, `0 ≤ abs ≤ rel·b`; exact arithmetic, not IEEE): when the SDPA rule decides that the matched scale `a` "is" the
default `b` and emits no attribute (ORT then scales by `b`), every pre-softmax score `a·x` moves by at most
`rel/(1-rel) · b · |x|` (relative 1.00001e-5 with the code's constants — below the f32 comparison tolerance). -/
theorem sdpa_default_scale_error_bound (a b rel abs x : K) (hb : 0 < b) (hr0 : 0 ≤ rel) (hr1 : rel < 1)
    (ha0 : 0 ≤ abs) (ha : abs ≤ rel * b) (h : iscloseG a b rel abs = true) :
    |a * x - b * x| ≤ rel / (1 - rel) * b * |x| := by
  obtain ⟨h1, h2⟩ := (isclose_acceptance_interval a b rel abs hb hr0 hr1 ha0 ha).mp h
  have h1r : 0 < 1 - rel := by linarith
  have hx : a * x - b * x = (a - b) * x := by ring
  rw [hx, abs_mul]
  apply mul_le_mul_of_nonneg_right _ (abs_nonneg x)
  have key : rel / (1 - rel) * b = rel * b / (1 - rel) := by ring
  rw [key, le_div_iff₀ h1r]
  rcases le_total a b with hab | hab
  · rw [abs_of_nonpos (by linarith)]; nlinarith
  · rw [abs_of_nonneg (by linarith)]; nlinarith

end Isclose

/-- non-vacuity (head size 16, default scale 1/4): a scale constant 1e-6 away is accepted, 1e-5 away is not -/
example : iscloseG (1/4 + 1/1000000 : ℚ) (1/4) (1/100000) (1/100000000) = true :=
  (isclose_acceptance_interval _ _ _ _ (by norm_num) (by norm_num) (by norm_num) (by norm_num) (by norm_num)).mpr
    (by norm_num)
example : iscloseG (1/4 + 1/100000 : ℚ) (1/4) (1/100000) (1/100000000) = false := by
  rw [Bool.eq_false_iff, Ne, isclose_acceptance_interval _ _ _ _ (by norm_num) (by norm_num) (by norm_num) (by norm_num) (by norm_num)]
  norm_num
end OV.Props.C19
