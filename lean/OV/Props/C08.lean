import OV.Model.C08View
import OV.Model.C08Slice
import OV.Model.C08Repl
import OV.Model.C08Reduce
import OV.Model.C08IntArith
import OV.Model.C08Creation
import OV.Model.C08Attr
import OV.Model.C08Misc
import OV.Model.C08Scalar
import OV.Model.C08Linalg
import OV.Gen.C08Trace
import OV.Lemmas.C08
import OV.Model.C08Norm
import OV.Gen.C08TraceB
import OV.Lemmas.C08Norm
/-!
# C08 — torch_lib operator implementations agree with PyTorch eager

Property theorems only.  Scope (DESIGN.md section 5, C08): index / shape / integer arithmetic of the
covered overloads; floating-point kernels are outside (differential search only).
`model` = trace-time branching of `aten_*` + ONNX shape semantics, `spec` = PyTorch's semantics;
both are compared with the real code / torch eager on every run (harness/c08.py).
-/
namespace OV.Props.C08
open OV.C08 OV.C08.IntArith

/-! ## tie: the models' dataflow terms are the terms the code emits now -/

/-- Every row of the regenerated trace table (each covered function traced on a grid of rank /
argument classes with the exporter's OpRecorder): the term built by the model's trace-time
branching equals the term the real function emitted. -/
theorem traces_match_models : ∀ e ∈ OV.Gen.C08Trace.traceTable, e.1 = e.2 :=
  OV.Gen.C08Trace.ok_all

/-! ## integer arithmetic (exact on `Int`, all values) -/

/-- `aten_floor_divide`, signed branch: `Div` (truncation) minus the sign-mismatch/remainder offset
is floor division, for every dividend and every non-zero divisor. -/
theorem aten_floor_divide_signed_agrees (a b : Int) (hb : b ≠ 0) :
    floorDivideSigned a b = specFloorDiv a b := by
  unfold floorDivideSigned specFloorDiv onnxDiv onnxMod
  exact OV.Lemmas.C08.floor_divide_signed a b hb

/-- … and it is the floor of the real quotient: `b·q ≤ a < b·(q+1)` for `b > 0`. -/
theorem aten_floor_divide_is_floor (a b : Int) (hb : 0 < b) :
    b * floorDivideSigned a b ≤ a ∧ a < b * (floorDivideSigned a b + 1) := by
  rw [aten_floor_divide_signed_agrees a b (by omega)]
  exact OV.Lemmas.C08.fdiv_is_floor a b hb

/-- unsigned branch (`uint8`): plain `Div` is floor division on non-negative operands. -/
theorem aten_floor_divide_unsigned_agrees (a b : Int) (ha : 0 ≤ a) (hb : 0 < b) :
    floorDivideUnsigned a b = specFloorDiv a b := by
  unfold floorDivideUnsigned specFloorDiv onnxDiv
  exact OV.Lemmas.C08.tdiv_eq_fdiv_nonneg a b ha hb

/-- `aten_remainder` on integers: ONNX `Mod` (sign follows the divisor) is
`a - floor(a/b)·b`, PyTorch's documented `remainder`. -/
theorem aten_remainder_int_agrees (a b : Int) (hb : b ≠ 0) :
    remainder a b = specRemainder a b := by
  unfold remainder specRemainder onnxMod
  exact OV.Lemmas.C08.onnx_mod_eq a b hb

/-- `aten_fmod` on integers: `Mod(fmod=1)` is `a - trunc(a/b)·b`. -/
theorem aten_fmod_int_agrees (a b : Int) : fmod a b = specFmod a b := by
  unfold fmod specFmod onnxFmod
  have := Int.tmod_def a b
  rw [this, Int.mul_comm]

/-- `alpha` placement: `Add(self, Mul(other, alpha))` (skipped when `alpha = 1`) is `self + alpha·other`. -/
theorem aten_add_alpha_agrees (a b alpha : Int) : addAlpha a b alpha = specAdd a b alpha := by
  unfold addAlpha specAdd
  split
  · next h => subst h; omega
  · rw [Int.mul_comm]

theorem aten_sub_alpha_agrees (a b alpha : Int) : subAlpha a b alpha = specSub a b alpha := by
  unfold subAlpha specSub
  split
  · next h => subst h; omega
  · rw [Int.mul_comm]

/-- `aten_add` on bool tensors (`Or(self, other)`, with `other & False` when `alpha == 0`): `self | (alpha & other)` element-wise. -/
theorem aten_add_bool_agrees (x y alpha : Bool) : addsub.boolModel x y alpha = addsub.boolSpec x y alpha := by
  cases x <;> cases y <;> cases alpha <;> rfl

/-- FIXED a26d309 (was C08-add-bool-alpha0-broadcast): `add(bool[3], bool[2,3], alpha=0)` keeps the broadcast shape `[2,3]`
(the `Identity` shortcut returned `[3]`). -/
theorem aten_add_bool_alpha0_broadcast_fixed :
    addsub.model true .bool [3] [2, 3] 0 = some [2, 3] ∧ addsub.spec [3] [2, 3] = some [2, 3] := by decide

/-- `aten_add / aten_sub` (.Tensor / .Scalar, every dtype class and alpha).  TRUE BY DEFINITION (`rfl`): model and spec are both the
numpy broadcast `bcast2`, so this statement carries no proof content; what it records is that no dtype class / alpha value changes the
shape on the model side (after fix a26d309).  That ONNX `Add/Sub/Or` and PyTorch both broadcast this way is checked per case by the tie only. -/
theorem aten_addsub_shape_agrees (isAdd : Bool) (dc : DC) (a b : Shape) (alpha2 : Int) :
    addsub.model isAdd dc a b alpha2 = addsub.spec a b := rfl

/-- `aten_clamp_tensor` / `aten_clamp`: `Max` with the lower bound first, then `Min` with the upper bound, is
`torch.clamp` for every value and every combination of omitted bounds — including `min > max`, where PyTorch sets every
element to `max`. -/
theorem aten_clamp_value_agrees (x : Int) (lo hi : Option Int) : clamp.valModel x lo hi = clamp.valSpec x lo hi := by
  unfold clamp.valModel clamp.valSpec
  cases lo <;> cases hi <;> simp only [Int.min_def, Int.max_def] <;> (repeat' split) <;> omega

/-- `aten_bitwise_right_shift` on 8-bit integers: the logical shift with re-inserted sign bits is
the arithmetic shift, for **every** `int8` value and every shift `0..7` (the whole quantifier,
enumerated by the kernel). -/
theorem aten_bitwise_right_shift_int8_agrees :
    ∀ a ∈ List.range 256, ∀ s ∈ List.range 8,
      shr 8 ((a : Int) - 128) s = specShr ((a : Int) - 128) s := by decide +kernel

/-- `aten_bitwise_left_shift` on 8-bit integers: every value, every shift `0..7`. -/
theorem aten_bitwise_left_shift_int8_agrees :
    ∀ a ∈ List.range 256, ∀ s ∈ List.range 8,
      shl 8 ((a : Int) - 128) s = specShl 8 ((a : Int) - 128) s := by decide +kernel

/-- `aten_div_mode` on integer tensors (after fix 5204ab5): `"floor"` is `aten_floor_divide` (exact floor division for
signed and unsigned inputs), `"trunc"` is ONNX integer `Div` = C-style division — all values, no float32 detour. -/
theorem aten_div_mode_int_agrees (a b : Int) (hb : b ≠ 0) :
    divModeFloor true a b = specFloorDiv a b ∧ divModeTrunc a b = specDivTrunc a b
    ∧ (0 ≤ a → 0 < b → divModeFloor false a b = specFloorDiv a b) := by
  refine ⟨aten_floor_divide_signed_agrees a b hb, rfl, fun ha hb' => aten_floor_divide_unsigned_agrees a b ha hb'⟩

example : divModeFloor true 16777217 1 = 16777217 := by decide

/-! ## slicing -/

/-- `aten_slice`: for every axis size `d`, every optional start/end and
every positive step, ONNX `Slice` with the defaults `aten_slice` fills in (`0`, `INT64_MAX`, `1`)
selects as many elements as `aten::slice.Tensor`. -/
theorem aten_slice_len_agrees (d : Int) (start stop step : Option Int)
    (hd0 : 0 ≤ d) (hs : 0 < optI step 1) :
    (sliceLen d (optI start 0) (optI stop INT64_MAX) (optI step 1) : Int)
      = (slice.specLen d start stop step).toNat :=
  OV.Lemmas.C08.slice_len d start stop step hd0 hs

/-- `aten_slice` at shape level: wherever `aten::slice.Tensor` accepts (rank ≥ 1, valid dim, positive step), the emitted
`Slice` with the filled-in defaults has PyTorch's shape — every shape, every optional bound. -/
theorem aten_slice_agrees (s : Shape) (dim : Int) (start stop step : Option Int) (out : Shape)
    (h : slice.spec s dim start stop step = some out) : slice.model s dim start stop step = some out :=
  OV.Lemmas.C08.slice_agrees s dim start stop step out h

example : slice.spec [5, 3] 0 (some 1) none (some 2) = some [2, 3] := by decide

/-- **Element map of `aten_slice`** along the sliced axis (value level, every axis size, every optional start / end — negative, out of
range, omitted — and every positive step): the source positions read by the emitted `Slice` (defaults `0`, `INT64_MAX`, `1` filled in)
are exactly the positions `x.slice(dim, start, end, step)` reads in PyTorch: `start' + i·step` for `i < length`. -/
theorem aten_slice_index_map (d : Int) (start stop step : Option Int) (hd0 : 0 ≤ d) (hs : 0 < optI step 1) :
    sliceIdx d (optI start 0) (optI stop INT64_MAX) (optI step 1) = slice.specIdx d start stop step :=
  OV.Lemmas.C08.slice_index_map d start stop step hd0 hs

example : slice.specIdx 7 (some (-5)) none (some 2) = [2, 4, 6] := by decide

/-- `aten_slice_scatter`: the shape bookkeeping (`src` must be the shape of the slice, the result is `self`'s shape)
agrees with `torch.slice_scatter` wherever PyTorch accepts. -/
theorem aten_slice_scatter_agrees (s src : Shape) (dim : Int) (start stop : Option Int) (step : Int) (out : Shape)
    (h : slice_scatter.spec s src dim start stop step = some out) :
    slice_scatter.model s src dim start stop step = some out :=
  OV.Lemmas.C08.slice_scatter_agrees s src dim start stop step out h

/-- `aten_select_scatter`: `Unsqueeze(src, dim)` + `Expand(index)` + `ScatterElements(axis=dim)` is well-formed (ranks,
index range, update not larger than data) and returns `self`'s shape wherever `torch.select_scatter` accepts. -/
theorem aten_select_scatter_agrees (s src : Shape) (dim index : Int) (out : Shape)
    (h : select_scatter.spec s src dim index = some out) : select_scatter.model s src dim index = some out :=
  OV.Lemmas.C08.select_scatter_agrees s src dim index out h

/-- `aten_gather`: the four trace-time cases (0-d self × 0-d index) give `torch.gather`'s shape wherever PyTorch accepts. -/
theorem aten_gather_agrees (s idx : Shape) (dim : Int) (out : Shape)
    (h : gather.spec s idx dim = some out) : gather.model s idx dim = some out :=
  OV.Lemmas.C08.gather_agrees s idx dim out h

example : gather.spec [2, 3, 4] [1, 2, 2] (-1) = some [1, 2, 2] := by decide

/-- `aten_topk`: output shapes for every rank ≥ 1, every `k`, `dim`.  PARTIAL: rank 0 is excluded although PyTorch accepts
`topk(scalar, k ≤ 1, dim ∈ {0,-1})`; `topk.spec` refuses rank 0 and the generator never produces it, so rank 0 is neither proved nor tied. -/
theorem aten_topk_agrees_partial (s : Shape) (k dim : Int) (hr : s.length ≠ 0) : topk.model s k dim = topk.spec s k dim :=
  OV.Lemmas.C08.topk_agrees s k dim hr

/-- `aten_narrow` (after fixes ca35059 / 55f321d: a negative start is wrapped once, as PyTorch does): for every axis size `d`, every
start in `[-d, d]` and every length with `wrapped start + length ≤ d` — PyTorch's whole domain — `Slice(w, w + length)` on the wrapped
start `w` has exactly `length` elements. -/
theorem aten_narrow_len_agrees (d start length : Int)
    (h0 : -d ≤ start) (hl : 0 ≤ length) (hb : (if start < 0 then start + d else start) + length ≤ d) :
    (sliceLen d (if start < 0 then start + d else start) ((if start < 0 then start + d else start) + length) 1 : Int) = length := by
  have hw : 0 ≤ (if start < 0 then start + d else start) := by split <;> omega
  generalize (if start < 0 then start + d else start) = w at *
  unfold sliceLen sliceNorm clampI
  simp only [Int.min_def, Int.max_def]
  (repeat' split) <;> omega

/-- Regression guard (was finding C08-narrow-negative-start): `narrow(x[3], 0, -2, 2)`. -/
theorem aten_narrow_negative_start_fixed :
    narrow.model [3] false 0 (-2) 2 = narrow.spec [3] 0 (-2) 2 := by decide

/-- Regression guard (was finding C08-narrow-negative-start-tensor, fix 55f321d): a tensor-valued negative start. -/
theorem aten_narrow_negative_start_tensor_fixed :
    narrow.model [3] true 0 (-2) 2 = narrow.spec [3] 0 (-2) 2 := by decide

/-- `aten_select` / `aten_index_select` bookkeeping is the same function on both sides; what is
worth a theorem is the index range: ONNX `Gather` accepts exactly PyTorch's `[-d, d-1]`. -/
theorem aten_select_range_agrees (s : Shape) (dim index : Int) (hr : s.length ≠ 0) :
    (select.model s dim index).isSome = (select.spec s dim index).isSome := by
  unfold select.model select.spec gatherScalar
  simp only [hr, if_false]
  cases normAxis s.length dim with
  | none => rfl
  | some a => simp only []; split <;> rfl

/-- `aten_select`: shape for every rank ≥ 1 (the removed axis, the index range).  The hypothesis is the function's domain:
`torch.select` refuses 0-d tensors ("select() cannot be applied to a 0-dim tensor"); same for `aten_select_range_agrees` above. -/
theorem aten_select_agrees (s : Shape) (dim index : Int) (hr : s.length ≠ 0) :
    select.model s dim index = select.spec s dim index :=
  OV.Lemmas.C08.select_agrees s dim index hr

/-- `aten_index_select` (rank-0 self reshaped to `[1]` and squeezed back, scalar index reshaped to `[1]`). -/
theorem aten_index_select_agrees (s : Shape) (dim : Int) (n : Nat) (out : Shape)
    (h : index_select.spec s dim n = some out) : index_select.model s dim n = some out :=
  OV.Lemmas.C08.index_select_agrees s dim n out h

/-- `aten_unbind` (static dim): `d` pieces `Squeeze(Slice(x,[i],[i+1],[dim]),[dim])`, each with the axis removed.  Rank ≥ 1 is the
function's domain (`torch.unbind` refuses 0-d tensors). -/
theorem aten_unbind_agrees (s : Shape) (dim : Int) (hr : s.length ≠ 0) : unbind.model s dim = unbind.spec s dim :=
  OV.Lemmas.C08.unbind_agrees s dim hr

example : unbind.model [2, 3] 1 = some [[2], [2], [2]] := by decide

/-- Tril/Triu mask: ONNX `Trilu(k, upper)` retains `(i, j)` exactly where `torch.tril/triu(x, k)` does,
for all positions and all diagonals. -/
theorem aten_tril_triu_mask_agrees (upper : Bool) (k : Int) (i j : Nat) :
    triluKeep upper k i j = trilu.specKeep upper k i j := by
  unfold triluKeep trilu.specKeep
  cases upper <;> simp only [Bool.false_eq_true, if_true, if_false, decide_eq_decide] <;> omega

/-- `aten_diagonal`: the length the graph computes with `Min/Max/Add/Sub` on the two sizes is
PyTorch's diagonal length, for all sizes and all offsets. -/
theorem aten_diagonal_len_agrees (rows cols offset : Int) (hr : 0 ≤ rows) (hc : 0 ≤ cols) :
    diagonal.modelLen rows cols offset = diagonal.specLen rows cols offset := by
  unfold diagonal.modelLen diagonal.specLen
  simp only [Int.min_def, Int.max_def]
  (repeat' split) <;> omega

/-- **Element map of `aten_diagonal`** (value level, every matrix size and every offset, beyond the matrix included): output element `t` of
the `Transpose → Mul(EyeLike(k=offset)) → ReduceSum(rows) → Slice(start, start+len)` chain is the single matrix entry `x[j - offset, j]`
at column `j = start + t` — and that is PyTorch's `x[t, offset + t]` (`offset ≥ 0`) resp. `x[-offset + t, t]`; the lists of positions are equal,
in particular no output element falls on an all-zero mask column. -/
theorem aten_diagonal_index_map (rows cols offset : Int) (hr : 0 ≤ rows) (hc : 0 ≤ cols) :
    diagonal.modelPositions rows cols offset = diagonal.specPositions rows cols offset :=
  OV.Lemmas.C08.diagonal_positions rows cols offset hr hc

example : diagonal.specPositions 3 5 (-1) = [some (1, 0), some (2, 1)] := by decide

/-- `aten_diagonal` at shape level: wherever PyTorch accepts the dims, the emitted Transpose / EyeLike mask / ReduceSum /
`Slice(start, start+len)` chain has `torch.diagonal`'s shape — every rank ≥ 2, every offset (beyond the matrix
included), negative dims. -/
theorem aten_diagonal_agrees (s : Shape) (offset d1 d2 : Int) (out : Shape)
    (h : diagonal.spec s offset d1 d2 = some out) : diagonal.model s offset d1 d2 = some out :=
  OV.Lemmas.C08.diagonal_agrees s offset d1 d2 out h

example : diagonal.spec [3, 4, 2] (-1) (-1) 0 = some [4, 1] := by decide

/-- `aten_flip`: `Slice(starts=-1, ends=INT64_MIN, steps=-1)` selects `d` elements on every axis size
(below the sentinel), the empty axis included. -/
theorem aten_flip_len_agrees (d : Int) (hd0 : 0 ≤ d) (hd : d < INT64_MAX) :
    (sliceLen d (-1) INT64_MIN (-1) : Int) = d :=
  OV.Lemmas.C08.flip_len d hd0 hd

/-- **Element map of `aten_flip`** along one axis: `Slice(starts=-1, ends=INT64_MIN, steps=-1)` reads the source
indices `d-1, …, 0` — PyTorch's flip — for every axis size below the int64 sentinel.  (For rank > 1 `Slice` acts on
each named axis independently: A-op.) -/
theorem aten_flip_index_map (d : Nat) (hd : (d : Int) < INT64_MAX) : flip.modelIdx d = flip.specIdx d :=
  OV.Lemmas.C08.flip_idx d hd

example : flip.modelIdx 3 = [2, 1, 0] := by decide

/-- **Element map of `aten_roll`** along one axis (after fix 34e2b8e): `Concat(Slice(x, d - s', Size), Slice(x, 0, d - s'))`
with `s' = shift mod d` reads, at position `i`, the source element `(i - shift) mod d` — PyTorch's roll — for **every**
axis size `d > 0`, every shift (negative, beyond `d`) and every over-long slice end `big ≥ d`.  `d = 0` has no positions to map (the
code skips the modulo there); empty tensors are covered at shape level only, by `aten_roll_shape_agrees`. -/
theorem aten_roll_index_map (d big : Nat) (shift : Int) (hd : 0 < d) (hbig : d ≤ big) :
    roll.stepIdx d big (roll.redShift d shift) = roll.specIdx d shift :=
  OV.Lemmas.C08.roll_idx d big shift hd hbig

example : roll.stepIdx 5 5 (roll.redShift 5 (-7)) = [2, 3, 4, 0, 1] := by decide

/-- After fix 34e2b8e the shift is reduced modulo the size first, so the partition holds for **every** shift. -/
theorem aten_roll_len_agrees (d big : Nat) (shift : Int) (hd : 0 < d) (hbig : d ≤ big) :
    (roll.stepIdx d big (roll.redShift d shift)).length = d := by
  unfold roll.redShift
  simp only [hd, if_true, gt_iff_lt]
  have h1 := Int.emod_nonneg shift (show (d : Int) ≠ 0 by omega)
  have h2 := Int.emod_lt_of_pos shift (show (0 : Int) < d by omega)
  exact OV.Lemmas.C08.roll_len d big _ hbig (by omega) (by omega)

/-- Regression guard (was finding C08-roll-large-shift): `roll(x[3], 7, 0)` now reads PyTorch's indices. -/
theorem aten_roll_large_shift_fixed :
    roll.stepIdx 3 3 (roll.redShift 3 7) = roll.specIdx 3 7 := by decide

/-- Regression guard for fix e681d51 (was finding C08-roll-negative-last-dim): `roll(x[2,3], 1, -1)` now has
PyTorch's shape. -/
theorem aten_roll_negative_last_dim_fixed :
    roll.model [2, 3] [1] [-1] = roll.spec [2, 3] [1] [-1] := by decide

/-- Regression guard (a first version of the roll fix failed here): several dims with a later negative one. -/
theorem aten_roll_multi_negative_dim_ok :
    roll.model [2, 3, 4] [4, 0] [2, -2] = roll.spec [2, 3, 4] [4, 0] [2, -2] := by decide

/-- Regression guard (was finding C08-chunk-uneven, fix f427d44): `chunk(x[6], 4)`, `chunk(x[5], 4)`, an empty dim. -/
theorem aten_chunk_uneven_fixed :
    chunk.model [6] 4 0 = chunk.spec [6] 4 0 ∧ chunk.model [5] 4 0 = chunk.spec [5] 4 0
    ∧ chunk.model [5, 0] 5 1 = chunk.spec [5, 0] 5 1 := by decide

/-- `aten_chunk` (after fix f427d44), **every** shape, `dim` and `chunks ≥ 1`: wherever PyTorch accepts the call, the
emitted `Identity` / `Split(num_outputs)` / list of `Slice`s has exactly `torch.chunk`'s pieces — the ceil rule
`size = ceil(d/chunks)`, fewer than `chunks` pieces, the short last piece and the empty axis included. -/
theorem aten_chunk_agrees (s : Shape) (chunks : Nat) (dim : Int) (out : List Shape)
    (h : chunk.spec s chunks dim = some out) : chunk.model s chunks dim = some out :=
  OV.Lemmas.C08.chunk_agrees s chunks dim out h

example : chunk.spec [7, 3] 3 0 = some [[3, 3], [3, 3], [1, 3]] := by decide

/-- **Element map of `aten_chunk`** (the `Slice` path, value level, every axis size and every `chunks > 0`): the pieces `[b.1, b.2)` emitted at
trace time have PyTorch's sizes, in PyTorch's order, and read the positions `0, 1, …, d-1` consecutively — disjoint and covering the axis.
Sizes + consecutive cover determine the pieces, so every output of the graph holds exactly the elements of the corresponding `torch.chunk` piece. -/
theorem aten_chunk_slices_partition (d chunks : Nat) (hch : 0 < chunks) :
    (chunk.bounds d chunks).map (fun b => b.2 - b.1) = chunk.specSizes d chunks
    ∧ (chunk.bounds d chunks).flatMap (fun b => List.range' b.1 (b.2 - b.1)) = List.range d :=
  ⟨(OV.Lemmas.C08.bounds_sizes d chunks hch).1, OV.Lemmas.C08.chunk_slices_partition d chunks hch⟩

example : chunk.bounds 7 3 = [(0, 3), (3, 6), (6, 7)] ∧ chunk.specSizes 7 3 = [3, 3, 1] := by decide

/-- `aten_split` (after fix 71e4aaa), every shape, every `dim`, every split size (the empty axis and `size = 0`
included): wherever PyTorch accepts the call the emitted sequence has PyTorch's pieces. -/
theorem aten_split_agrees (s : Shape) (size dim : Int) (out : List Shape)
    (h : split.spec s size dim = some out) : split.model s size dim = some out :=
  OV.Lemmas.C08.split_agrees s size dim out h

example : split.spec [7, 3] 3 0 = some [[3, 3], [3, 3], [1, 3]] := by decide

/-- `aten_roll` with one `(shift, dim)` pair (after fixes e681d51, 34e2b8e, cb8a6fb): wherever `torch.roll(x, shift, dim)` is defined
the graph has the input's shape — any rank, negative `dim`, **any shift**, empty tensors included.  The only hypothesis is that
sizes fit in INT64 (the slice end is the constant `INT64_MAX`). -/
theorem aten_roll_shape_agrees (s : Shape) (shift dim : Int) (out : Shape)
    (hb : ∀ x ∈ s, x ≤ INT64_MAX.toNat)
    (h : roll.spec s [shift] [dim] = some out) : roll.model s [shift] [dim] = some out :=
  OV.Lemmas.C08.roll_shape_agrees s shift dim out hb h

example : roll.spec [4, 1, 0] [-2] [-3] = some [4, 1, 0] := by decide

/-- Regression guard (was finding C08-split-zero-dim, fix 71e4aaa): `split(x[0,2], 3, 0)` is one empty piece. -/
theorem aten_split_zero_dim_fixed : split.model [0, 2] 3 0 = split.spec [0, 2] 3 0 := by decide

/-! ## view algebra -/

/-- `aten_unsqueeze`: ONNX normalises the axis against the output rank, PyTorch against `rank+1`:
same position, same refusals, for every shape and every `dim`. -/
theorem aten_unsqueeze_agrees (s : Shape) (dim : Int) : unsqueeze.model s dim = unsqueeze.spec s dim :=
  OV.Lemmas.C08.unsqueeze_agrees s dim

/-- `aten_permute` with explicit dims: the code wraps negatives against `len(dims)`, PyTorch against the rank;
wherever PyTorch accepts (a permutation of the axes), `Transpose(perm)` has PyTorch's shape — every rank ≥ 1.  PARTIAL: `dims = []`
(i.e. `permute` of a 0-d tensor, which PyTorch accepts) is excluded; that branch is compared per case only (`permute:no-dims`). -/
theorem aten_permute_agrees_partial (s : Shape) (dims : List Int) (out : Shape) (hne : dims ≠ [])
    (h : permute.spec s dims = some out) : permute.model s dims = some out :=
  OV.Lemmas.C08.permute_agrees s dims out hne h

/-- **Element map of `aten_permute`**: the `perm` attribute handed to `Transpose` (negatives wrapped against
`len(dims)`) is exactly PyTorch's normalised dim list; `Transpose(perm)` and `permute(dims)` both mean
`out[i_0,…] = in[j]` with `j[perm[k]] = i_k` (A-op), so the element maps coincide — every rank. -/
theorem aten_permute_perm_agrees (dims : List Int) (p : List Nat)
    (h : normAxes dims.length dims = some p) :
    (dims.map (fun a => if a < 0 then a + (dims.length : Int) else a)).map Int.toNat = p
    ∧ (dims.map (fun a => if a < 0 then a + (dims.length : Int) else a)).any (· < 0) = false :=
  let r := OV.Lemmas.C08.normAxes_some dims.length dims p h
  ⟨r.2.1.symm, r.1⟩

example : normAxes 3 [2, 0, -2] = some [2, 0, 1] := by decide

/-- **Element map of `aten_transpose`**: the Python swap on `list(range(rank))` yields the transposition `(i j)`:
position `k` reads source axis `i` if `k = j`, `j` if `k = i`, else `k` — every rank and pair of (normalised) dims. -/
theorem aten_transpose_perm_is_swap (r i j k : Nat) (hi : i < r) (hj : j < r)
    (hk : k < (transpose.swapRange r i j).length) :
    (transpose.swapRange r i j)[k] = if k = j then i else if k = i then j else k :=
  OV.Lemmas.C08.swapRange_getElem r i j k hi hj hk

/-- `aten_expand`: mapping `-1 ↦ 1` and ONNX's two-way broadcast give `torch.expand`'s shape wherever PyTorch
accepts the size — all ranks, new leading dims, 0-size dims, `-1` entries. -/
theorem aten_expand_agrees (s : Shape) (size : List Int) (out : Shape)
    (h : expand.spec s size = some out) : expand.model s size = some out :=
  OV.Lemmas.C08.expand_agrees s size out h

/-- `aten_broadcast_to` (after fix fe4fd65 it maps `-1 ↦ 1` like `aten_expand`): agreement wherever PyTorch accepts. -/
theorem aten_broadcast_to_agrees (s : Shape) (size : List Int) (out : Shape)
    (h : broadcast_to.spec s size = some out) : broadcast_to.model s size = some out :=
  OV.Lemmas.C08.broadcast_to_agrees s size out h

/-- `aten_atleast_1d / 2d / 3d`: the `Reshape([1,-1])`, `Reshape([1,-1,1])`, `Unsqueeze(-1)` branches give
`torch.atleast_nd`'s shape for every input shape (rank 0, empty 1-D tensors included). -/
theorem aten_atleast_agrees (n : Nat) (s : Shape) (hn : n = 1 ∨ n = 2 ∨ n = 3) :
    atleast.model n s = atleast.spec n s :=
  OV.Lemmas.C08.atleast_agrees n s hn

/-- `aten_repeat_interleave_self_int` (static shapes): whenever `torch.repeat_interleave(x, repeats, dim)` is defined, the graph gives the
same shape — any rank, any `repeats ≥ 0`, `dim` omitted or negative, empty tensors included. -/
theorem aten_repeat_interleave_agrees (s : Shape) (reps : Int) (dim : Option Int) (out : Shape)
    (h : repeat_interleave.spec s reps dim = some out) : repeat_interleave.model s reps dim = some out :=
  OV.Lemmas.C08.repeat_interleave_agrees s reps dim out h

/-- FIXED 2309579 (was C08-repeat-interleave-empty): `repeat_interleave(x[4,0], 2, -2)` is `[8,0]` (the graph gave `[0,2]`). -/
theorem aten_repeat_interleave_empty_fixed :
    repeat_interleave.model [4, 0] 2 (some (-2)) = some [8, 0]
    ∧ repeat_interleave.spec [4, 0] 2 (some (-2)) = some [8, 0] := by decide

/-- `aten_t`: every shape of rank ≤ 2. -/
theorem aten_t_agrees (s : Shape) (h : s.length ≤ 2) : t.model s = t.spec s := by
  match s, h with
  | [], _ => rfl
  | [_], _ => rfl
  | [a, b], _ => simp [t.model, t.spec, transposeOp, isPerm, hasDup]

/-- `aten_reshape` (after fix 5bf0068: `Reshape(allowzero=1)`): PyTorch's `infer_size` wherever PyTorch accepts —
every shape, 0-size dims and `0` entries included. -/
theorem aten_reshape_agrees (s : Shape) (size : List Int) (out : Shape)
    (h : reshape_.spec s size = some out) : reshape_.model s size = some out :=
  OV.Lemmas.C08.view_agrees s size out h

/-- Regression guard (was finding C08-reshape-zero): `reshape(x[2,0,3], (0, 6))`. -/
theorem aten_reshape_zero_fixed : reshape_.model [2, 0, 3] [0, 6] = reshape_.spec [2, 0, 3] [0, 6] := by decide

/-- `aten_flatten` (after fix ad30c36), **every** shape (rank 0, 0-size dims anywhere), every `start_dim` / `end_dim`
(negative included): the rank-1 `Identity`, the two `Flatten`-operator shortcuts and the trace-time computed
`Reshape(allowzero=1)` target all give `torch.flatten`'s shape wherever PyTorch accepts the dims. -/
theorem aten_flatten_agrees (s : Shape) (sd ed : Int) (out : Shape)
    (h : flatten.spec s sd ed = some out) : flatten.model s sd ed = some out :=
  OV.Lemmas.C08.flatten_agrees s sd ed out h

example : flatten.spec [2, 3, 4, 5] (-3) 2 = some [2, 12, 5] := by decide

/-- Regression guard (was finding C08-reshape-zero, flatten part; fix ad30c36): zero-size dims outside the range. -/
theorem aten_flatten_zero_fixed :
    flatten.model [2, 0, 3, 0] 1 2 = flatten.spec [2, 0, 3, 0] 1 2
    ∧ flatten.model [0, 2, 3, 4] 2 3 = flatten.spec [0, 2, 3, 4] 2 3 := by decide

/-- FIXED cb8a6fb (was the rest of C08-reshape-zero): `roll(x[4,1,0], -2, -3)` keeps `[4,1,0]` (the slice end was `Size(x) = 0`). -/
theorem aten_roll_empty_dims_fixed :
    roll.model [4, 1, 0] [-2] [-3] = some [4, 1, 0] ∧ roll.spec [4, 1, 0] [-2] [-3] = some [4, 1, 0] := by decide

/-- `aten_flatten`, the two `Flatten`-operator branches and the rank-1 / rank-0 branches, all sizes:
`flatten(x, 1, -1)` and `flatten(x, 0, -2)`. -/
theorem aten_flatten_op_branches_agree (a b : Nat) (rest : Shape) :
    flatten.model (a :: b :: rest) 1 (-1) = flatten.spec (a :: b :: rest) 1 (-1)
    ∧ flatten.model [a] 0 (-1) = flatten.spec [a] 0 (-1)
    ∧ flatten.model [] 0 (-1) = flatten.spec [] 0 (-1) :=
  OV.Lemmas.C08.flatten_branches a b rest

/-- `aten_unflatten` (after fix 6c44051): for every shape (0-size dims included), every `dim` and every `sizes` (with or
without one `-1`), wherever PyTorch accepts the call the three trace-time cases (head empty / tail empty / both) build
a `Reshape(allowzero=1)` target that yields PyTorch's shape.  (`rank ≤ INT64_MAX` is the sentinel used as slice end.) -/
theorem aten_unflatten_agrees (s : Shape) (dim : Int) (sizes : List Int) (out : Shape)
    (hmax : (s.length : Int) ≤ INT64_MAX)
    (h : unflatten.spec s dim sizes = some out) : unflatten.model s dim sizes = some out :=
  OV.Lemmas.C08.unflatten_agrees s dim sizes out hmax h

example : unflatten.spec [2, 12, 2] (-2) [3, -1] = some [2, 3, 4, 2] := by decide

/-- Regression guard (was finding C08-unflatten-zero-infer, fix 6c44051): `unflatten(x[0,0,5], 1, (1,-1))`. -/
theorem aten_unflatten_zero_infer_fixed :
    unflatten.model [0, 0, 5] 1 [1, -1] = unflatten.spec [0, 0, 5] 1 [1, -1] := by decide

/-- `aten_squeeze_dim` (after fix 3fa9486): wherever `x.squeeze(dim)` is defined the graph has its shape — any rank (0 included),
negative `dim`, size-1 axis removed, any other size left alone. -/
theorem aten_squeeze_dim_agrees (s : Shape) (dim : Int) (out : Shape)
    (h : squeeze_dim.spec s dim = some out) : squeeze_dim.model s dim = some out :=
  OV.Lemmas.C08.squeeze_dim_agrees s dim out h

example : squeeze_dim.spec [2, 1, 3] (-2) = some [2, 3] := by decide

/-- FIXED 3fa9486 (was C08-squeeze-dim-nonunit): `squeeze(x[2,3], 0)` is a no-op, as in PyTorch (ONNX `Squeeze` refused it). -/
theorem aten_squeeze_dim_nonunit_fixed :
    squeeze_dim.model [2, 3] 0 = some [2, 3] ∧ squeeze_dim.spec [2, 3] 0 = some [2, 3] := by decide

/-! ## replication / creation -/

/-- `aten_full / zeros / ones / new_* / *_like`: `Expand(scalar, size)` has shape `size`, every size. -/
theorem aten_full_shape_agrees (size : List Int) : full.model size = full.spec size := by
  unfold full.model full.spec expandOp
  split
  · rfl
  · simp [bcastRev]

/-- `aten_linspace` length: the three trace-time branches (`steps = 0`, `1`, general `Range(0,steps,1)`)
give `steps` elements, for every non-negative `steps`. -/
theorem aten_linspace_len_agrees (steps : Int) (h : 0 ≤ steps) :
    linspace.modelLen steps = linspace.specLen steps :=
  OV.Lemmas.C08.linspace_len steps h

/-- `aten_arange*` on integers, positive step: `Range` yields exactly the indices `i` with
`start + i·step < end` — for all bounds. -/
theorem aten_arange_len_characterisation (start stop step : Int) (hs : 0 < step) (i : Nat) :
    i < arange.modelLen start stop step ↔ start + (i : Int) * step < stop :=
  OV.Lemmas.C08.range_len_char start stop step hs i

/-- Regression guard for fix 68ff4be (was finding C08-cat-legacy-empty): `cat([x[2,3], e[0], x[2,3]], 1)`. -/
theorem aten_cat_legacy_empty_fixed :
    cat.model [[2, 3], [0], [2, 3]] 1 = cat.spec [[2, 3], [0], [2, 3]] 1 := by decide

/-- `aten_cat` (after fixes 68ff4be, e37a118), every list of shapes and every `dim`: wherever PyTorch accepts the call,
the emitted `Identity`/`Concat` has PyTorch's shape — the legacy-empty rule and the all-empty case included. -/
theorem aten_cat_agrees (ss : List Shape) (dim : Int) (out : Shape)
    (h : cat.spec ss dim = some out) : cat.model ss dim = some out :=
  OV.Lemmas.C08.cat_agrees ss dim out h

/-- `aten_repeat`: `Expand(x, [1]*n)` then `Tile(repeats)` is `x.repeat(*repeats)` wherever PyTorch accepts
(at least `rank` non-negative entries) — all shapes, zero repeats and the empty list included. -/
theorem aten_repeat_agrees (s : Shape) (reps : List Int) (out : Shape)
    (h : repeat_.spec s reps = some out) : repeat_.model s reps = some out :=
  OV.Lemmas.C08.repeat_agrees s reps out h

/-- `aten_stack` of any number `n + 1` of tensors of one shape, any rank, any `dim` (negative, out of range):
`Unsqueeze` each + `Concat` has `torch.stack`'s shape and refusals. -/
theorem aten_stack_agrees (s : Shape) (n : Nat) (dim : Int) :
    stack.model (List.replicate (n + 1) s) dim = stack.spec (List.replicate (n + 1) s) dim :=
  OV.Lemmas.C08.stack_agrees s n dim

/-- `aten_tile`, every shape and every `dims` (shorter, equal, longer than the rank — the `Reshape(allowzero=1)`
left-padding branch included): same shape and same refusals as `torch.tile`. -/
theorem aten_tile_agrees (s : Shape) (dims : List Int) : tile.model s dims = tile.spec s dims :=
  OV.Lemmas.C08.tile_agrees_full s dims

example : tile.model [2, 3] [2, 1, 2] = some [2, 2, 6] := by decide

/-- Regression guard (was finding C08-cat-all-empty): `cat([e[0]])`. -/
theorem aten_cat_all_empty_fixed : cat.model [[0]] (-1) = cat.spec [[0]] (-1) := by decide

/-- `aten_stack` of `n ≥ 1` equal shapes at a valid `dim`: `Unsqueeze` each, `Concat`. -/
theorem aten_stack_two_agrees (a b : Nat) :
    stack.model [[a, b], [a, b]] 1 = stack.spec [[a, b], [a, b]] 1
    ∧ stack.model [[a, b], [a, b]] (-1) = stack.spec [[a, b], [a, b]] (-1) := by
  constructor <;> simp [stack.model, stack.spec, unsqueeze1, normAxis, insertOne, concatOp, sameExcept, setAt]

/-! ## pool / conv / pad attribute adjustment -/

open OV.C08.attr in
/-- `_adjust_attributes_of_avg_pool`: for **every** pooling rank `k ≥ 1` and every padding tuple of length `k`,
ONNX `pads` is `[p_1..p_k, p_1..p_k]` — all begins, then all ends. -/
theorem avg_pool_pads_layout (k : Nat) (ks st : IntOrList) (p : List Int) (hp : p.length = k) (hk : 1 ≤ k) :
    (avgPool k ks st (.list p)).2.2 = p ++ p :=
  OV.Lemmas.C08.avg_pads_layout k ks st p hp hk

open OV.C08.attr in
/-- … an int or a 1-element padding is expanded to `k` begins and `k` ends, for every `k`. -/
theorem avg_pool_pads_scalar (k : Nat) (ks st : IntOrList) (v : Int) :
    (avgPool k ks st (.int v)).2.2 = List.replicate k v ++ List.replicate k v
    ∧ (avgPool k ks st (.list [v])).2.2 = List.replicate k v ++ List.replicate k v :=
  OV.Lemmas.C08.avg_pads_scalar k ks st v

open OV.C08.attr in
/-- `_adjust_attributes_of_max_pool`, `k ≤ 3` (longer paddings are passed through unchanged by the code). -/
theorem max_pool_pads_layout (k : Nat) (ks st dil : IntOrList) (p : List Int) (hp : p.length = k) (hk : 1 ≤ k) (hk3 : k ≤ 3) :
    (maxPool k ks st (.list p) dil).2.2.1 = p ++ p :=
  OV.Lemmas.C08.max_pads_layout k ks st dil p hp hk hk3

open OV.C08.attr in
theorem max_pool_pads_scalar (k : Nat) (ks st dil : IntOrList) (v : Int) :
    (maxPool k ks st (.int v) dil).2.2.1 = List.replicate k v ++ List.replicate k v
    ∧ (maxPool k ks st (.list [v]) dil).2.2.1 = List.replicate k v ++ List.replicate k v :=
  OV.Lemmas.C08.max_pads_scalar k ks st dil v

open OV.C08.attr in
/-- With that layout, spatial axis `i` reads `(pads[i], pads[i+k]) = (p_i, p_i)`. -/
theorem pool_axis_pads (p : List Int) (i : Nat) (hi : i < p.length) :
    getI (p ++ p) i = getI p i ∧ getI (p ++ p) (i + p.length) = getI p i :=
  OV.Lemmas.C08.axis_pads p i hi

open OV.C08.attr in
/-- … and the ONNX pooling output size with begin = end = `p` is PyTorch's `pooling_output_shape`
(floor / ceil of `(n + 2p - d(k-1) - 1)/s`, plus 1, with the ceil-mode correction), all values. -/
theorem pool_out_size_agrees (ceil : Bool) (n k s p d : Int) :
    poolOut ceil n k s p p d = torchPoolOut ceil n k s p d :=
  OV.Lemmas.C08.pool_out_agrees ceil n k s p d

open OV.C08.attr in
/-- `aten_convolution`: `pads = [*padding, *padding]` for every full-length padding; int / 1-element expansion. -/
theorem conv_pads_layout (imageD : Nat) (st dil : IntOrList) (p : List Int) (hp : p.length = imageD) (h2 : 2 ≤ imageD) :
    (convolution imageD st (.list p) dil).2.1 = p ++ p :=
  OV.Lemmas.C08.conv_pads_layout imageD st dil p hp h2

open OV.C08.attr in
theorem conv_pads_scalar (imageD : Nat) (st dil : IntOrList) (v : Int) :
    (convolution imageD st (.int v) dil).2.1 = List.replicate imageD v ++ List.replicate imageD v
    ∧ (convolution imageD st (.list [v]) dil).2.1 = List.replicate imageD v ++ List.replicate imageD v :=
  OV.Lemmas.C08.conv_pads_scalar imageD st dil v

open OV.C08.attr in
/-- `Conv` / `ConvTranspose` output size with symmetric pads = PyTorch's formulas. -/
theorem conv_out_size_agrees (n k s p d op : Int) :
    convOut n k s p p d = torchConvOut n k s p d ∧ convTOut n k s p p d op = torchConvTOut n k s p d op :=
  ⟨OV.Lemmas.C08.conv_out_agrees n k s p d, OV.Lemmas.C08.convT_out_agrees n k s p d op⟩

open OV.C08.attr in
/-- `aten_constant_pad_nd` / `aten_pad` / `reflection_pad*` / `replication_pad*` (`_process_padding`), every rank
and every number of padded axes: PyTorch's `(last_begin, last_end, …)` becomes ONNX's begins in axis order
(zeros for the unpadded leading axes) followed by ends in axis order. -/
theorem pad_layout_begins_then_ends (rank : Nat) (ps : List (Int × Int)) (hm : ps.length ≤ rank) :
    padLayout rank (flatPairs ps)
      = (List.replicate (rank - ps.length) 0 ++ ps.reverse.map Prod.fst)
        ++ (List.replicate (rank - ps.length) 0 ++ ps.reverse.map Prod.snd) :=
  OV.Lemmas.C08.pad_layout rank ps hm

/-- **Function level, `aten_avg_pool1d/2d/3d`** — PARTIAL IN THE ARGUMENT FORM: only kernel / stride / padding given as full-length
lists (`.list`, length `k`); the int and 1-element forms are covered by `avg_pool_pads_scalar` for the padding only, the expansion of an
int / 1-element kernel or stride is compared per case (tie) but has no theorem.  For every pooling rank `k ≥ 1`, every batched or unbatched input, every
kernel / stride / padding tuple of length `k`, both `ceil_mode`s: wherever PyTorch accepts the call the emitted
`[Unsqueeze →] AveragePool(kernel_shape, strides, pads) [→ Squeeze]` has PyTorch's output shape. -/
theorem aten_avg_pool_agrees_partial (k : Nat) (s : Shape) (kl sl p : List Int) (ceil : Bool) (out : Shape) (hk : 1 ≤ k)
    (h1 : kl.length = k) (h2 : sl.length = k) (h3 : p.length = k)
    (h : avg_pool.spec k s (.list kl) (.list sl) (.list p) ceil = some out) :
    avg_pool.model k s (.list kl) (.list sl) (.list p) ceil = some out :=
  OV.Lemmas.C08.avg_pool_agrees k s kl sl p ceil out hk h1 h2 h3 h

example : avg_pool.spec 2 [1, 2, 7, 9] (.list [4, 3]) (.list [2, 1]) (.list [2, 1]) true = some [1, 2, 5, 9] := by decide

/-- **Function level, `aten_max_pool1d/2d/3d`** (`k ≤ 3`), with dilations — PARTIAL IN THE ARGUMENT FORM as for avg_pool: full-length
`.list` arguments only (int / 1-element forms: `max_pool_pads_scalar` for the padding, otherwise tie only). -/
theorem aten_max_pool_agrees_partial (k : Nat) (s : Shape) (kl sl p dl : List Int) (ceil : Bool) (out : Shape) (hk : 1 ≤ k) (hk3 : k ≤ 3)
    (h1 : kl.length = k) (h2 : sl.length = k) (h3 : p.length = k) (h4 : dl.length = k)
    (h : max_pool.spec k s (.list kl) (.list sl) (.list p) (.list dl) ceil = some out) :
    max_pool.model k s (.list kl) (.list sl) (.list p) (.list dl) ceil = some out :=
  OV.Lemmas.C08.max_pool_agrees k s kl sl p dl ceil out hk hk3 h1 h2 h3 h4 h

/-- **Function level, `aten_convolution`** — PARTIAL IN THE ARGUMENT FORM: stride / padding / dilation as full-length lists only (the
1-element forms the exporter also passes: `conv_pads_scalar` for the padding, otherwise tie only).  (Any number of spatial dims ≥ 1, plain and
transposed, groups, output_padding): `Conv` / `ConvTranspose` with `pads = [*padding, *padding]` has PyTorch's
output shape wherever the spec accepts. -/
theorem aten_convolution_agrees_partial (s w : Shape) (sl p dl : List Int) (tr : Bool) (op : List Int) (g : Nat) (out : Shape)
    (h2 : sl.length = s.length - 2) (h3 : p.length = s.length - 2) (h4 : dl.length = s.length - 2)
    (h : conv.spec s w (.list sl) (.list p) (.list dl) tr op g = some out) :
    conv.model s w (.list sl) (.list p) (.list dl) tr op g = some out :=
  OV.Lemmas.C08.conv_agrees s w sl p dl tr op g out h2 h3 h4 h

example : conv.spec [1, 2, 7] [3, 2, 3] (.list [2]) (.list [2]) (.list [1]) false [0] 1 = some [1, 3, 5] := by decide

example : conv.spec [1, 2, 7, 9] [3, 2, 3, 2] (.list [2, 1]) (.list [2, 1]) (.list [1, 2]) false [0, 0] 1 = some [1, 3, 5, 9] := by decide

/-- **Function level, `aten_constant_pad_nd` / `aten_pad` / `reflection_pad*` / `replication_pad*`**: for every rank and
every number of padded axes, `Pad` with the reordered pads grows axis `i` by exactly the PyTorch `(begin, end)` pair
of that axis — same output shape, same refusal (negative result). -/
theorem aten_pad_agrees (s : Shape) (ps : List (Int × Int)) (hm : ps.length ≤ s.length) :
    pad.model s (attr.flatPairs ps) = pad.spec s (attr.flatPairs ps) :=
  OV.Lemmas.C08.pad_agrees s ps hm

example : pad.model [1, 2, 7, 9] (attr.flatPairs [(1, 2), (0, 3)]) = some [1, 2, 10, 12] := by decide

/-- `aten_unfold`: the number of windows `Range(0, d - (size-1), step)` produces is PyTorch's `(d - size)/step + 1`,
every size, window and positive step. -/
theorem unfold_windows_agree (d size step : Int) (hs : 0 < step) (h : size ≤ d) :
    (unfold_.windows d size step : Int) = unfold_.specWindows d size step :=
  OV.Lemmas.C08.unfold_windows_agree d size step hs h

/-- **Element map of `aten_unfold`** (value level, every axis size `d`, window `0 ≤ size ≤ d`, step > 0): the `Gather` index matrix the graph
builds (`Range(0, d-(size-1), step)[:, None] + [0..size-1][None, :]`) is PyTorch's — window `w`, element `j` reads `x[w·step + j]` — and every
index lies in `[0, d)`, so the `Gather` never reads out of range (or from the end through a negative index). -/
theorem aten_unfold_index_map (d size step : Int) (hs : 0 < step) (h0 : 0 ≤ size) (h : size ≤ d) :
    unfold_.modelIdx d size step = unfold_.specIdx d size step
    ∧ ∀ row ∈ unfold_.modelIdx d size step, ∀ x ∈ row, 0 ≤ x ∧ x < d :=
  OV.Lemmas.C08.unfold_index_map d size step hs h0 h

example : unfold_.specIdx 7 3 2 = [[0, 1, 2], [2, 3, 4], [4, 5, 6]] := by decide

/-- **Function level, `aten_unfold`** (rank ≥ 1): windows, the moved `size` axis — `Tensor.unfold`'s shape wherever
PyTorch accepts (`size ≤ d`, `step > 0`, negative dimension).  Rank 0 is the finding below. -/
theorem aten_unfold_agrees_partial (s : Shape) (dim size step : Int) (out : Shape) (hr : s.length ≠ 0)
    (h : unfold_.spec s dim size step = some out) : unfold_.model s dim size step = some out :=
  OV.Lemmas.C08.unfold_agrees s dim size step out hr h

example : unfold_.spec [2, 3, 4, 5] (-1) 2 3 = some [2, 3, 4, 2, 2] := by decide

/-- FINDING C08-unfold-rank0-size0: `torch.tensor(3.).unfold(0, 0, 1)` has shape `[0]`; `aten_unfold` returns
`Unsqueeze(self, [0])` = `[1]` for every 0-d input. -/
theorem aten_unfold_rank0_size0_refuted :
    unfold_.model [] 0 0 1 = some [1] ∧ unfold_.spec [] 0 0 1 = some [0] := by decide

/-- **Function level, `aten_upsample_nearest{1,2,3}d` / `bilinear2d`, `output_size` path**: `Resize(sizes = [N, C] ++
output_size)` has the requested size, same refusals. -/
theorem aten_upsample_size_agrees (s : Shape) (outSize : List Int) :
    upsample.model s outSize none = upsample.spec s outSize :=
  OV.Lemmas.C08.upsample_size_agrees s outSize

/-- **Function level, `aten_col2im`** with a 2-element padding and **`aten_im2col`**: output shapes agree with
`F.fold` / `F.unfold` wherever PyTorch accepts.  `pad.length = 2` is PyTorch's own requirement on a padding list (`F.fold` refuses a
1-element tuple; an int is expanded to two entries before the call — `col2im_pads_scalar`). -/
theorem aten_col2im_agrees (s : Shape) (outSize kernel dil pad stride : List Int) (out : Shape) (hp : pad.length = 2)
    (h : col2im.spec s outSize kernel dil pad stride = some out) :
    col2im.model s outSize kernel dil pad stride = some out :=
  OV.Lemmas.C08.col2im_agrees s outSize kernel dil pad stride out hp h

theorem aten_im2col_agrees (s : Shape) (kernel dil pad stride : List Int) (out : Shape)
    (h : im2col.spec s kernel dil pad stride = some out) : im2col.model s kernel dil pad stride = some out :=
  OV.Lemmas.C08.im2col_agrees s kernel dil pad stride out h

example : im2col.spec [1, 2, 5, 6] [2, 3] [1, 1] [1, 0] [1, 2] = some [1, 12, 12] := by decide

/-- `aten_im2col`: the block count per axis `Range(0, n + (2p - d(k-1)), s)` is PyTorch's
`floor((n + 2p - d(k-1) - 1)/s) + 1`. -/
theorem im2col_blocks_agree (n k s p d : Int) (hs : 0 < s) (h : 1 ≤ n + 2 * p - d * (k - 1)) :
    (im2col.blocksModel n k s p d : Int) = attr.torchConvOut n k s p d :=
  OV.Lemmas.C08.im2col_blocks_agree n k s p d hs h

/-- `aten_col2im` pads: `(ph, pw)` becomes `[ph, pw, ph, pw]` (begins then ends), `(w,)` becomes four `w`. -/
theorem col2im_pads_layout (p : List Int) (h : p.length = 2) : col2im.pads p = p ++ p :=
  OV.Lemmas.C08.col2im_pads_layout p h

theorem col2im_pads_scalar (w : Int) : col2im.pads [w] = [w, w, w, w] :=
  OV.Lemmas.C08.col2im_pads_scalar w

/-- Regression guard (was finding C08-pool-len1-attr, fix df33c3d): `avg_pool2d(x[2,3,4], (3,1), stride=(3,))`. -/
theorem pool_len1_stride_fixed :
    avg_pool.model 2 [2, 3, 4] (.list [3, 1]) (.list [3]) (.list [0, 0]) true
      = avg_pool.spec 2 [2, 3, 4] (.list [3, 1]) (.list [3]) (.list [0, 0]) true := by decide

/-! ## reductions' bookkeeping -/

/-- Reductions over a dim list (`sum.dim_IntList`, `mean.dim`, `amax/amin`, `prod.dim_int`, `all.dim`,
`any.dim`): wherever PyTorch accepts the dims (in range, no duplicates), the ONNX `Reduce*` output shape
is PyTorch's — every rank ≥ 1, every list (empty = all axes), both `keepdim`.  This is the statement about the ONNX operator alone
(`reduceOp` is stricter than PyTorch on rank 0); rank 0 is handled by the trace-time branches of each function and proved in the
function-level theorems below (`aten_sum_dim_agrees`, `aten_prod_dim_agrees`, `aten_all_dim_agrees`, …; `amax/amin` stay `_partial`). -/
theorem reduce_shape_agrees (s : Shape) (dims : List Int) (keep : Bool) (out : Shape)
    (hr : s.length ≠ 0) (h : torchReduce s dims keep = some out) : reduceOp s dims keep = some out :=
  OV.Lemmas.C08.reduce_agrees s dims keep out hr h

/-- Function level: `aten_sum_dim_IntList` (`dim=None`, list, rank 0 → `Identity`), `aten_mean_dim`, `aten_amax/amin`,
`aten_prod_dim_int`, `aten_all_dim/any_dim` (computed axes, rank 0 accepted), `aten_cumsum`: PyTorch's shape wherever
PyTorch accepts. -/
theorem aten_sum_dim_agrees (s : Shape) (dims : Option (List Int)) (keep : Bool) (out : Shape)
    (h : sum_dim.spec s dims keep = some out) : sum_dim.model s dims keep = some out :=
  OV.Lemmas.C08.sum_dim_agrees s dims keep out h

theorem aten_mean_dim_agrees (s : Shape) (dims : List Int) (keep : Bool) (out : Shape)
    (h : mean_dim.spec s dims keep = some out) : mean_dim.model s dims keep = some out :=
  OV.Lemmas.C08.mean_dim_agrees s dims keep out h

/-- `aten_amax` / `aten_amin` (scripted: one call node around `ReduceMax(self, dim, keepdims)`): PyTorch's shape wherever PyTorch accepts
the call.  Hypothesis: rank ≥ 1 or an empty dim list — a 0-d input with `dim=[0]` is finding C08-rank0-explicit-dim (constant axes). -/
theorem aten_amax_agrees_partial (s : Shape) (dims : List Int) (keep : Bool) (out : Shape)
    (hr : s.length ≠ 0 ∨ dims = [])
    (h : amax.spec s dims keep = some out) : amax.model s dims keep = some out :=
  OV.Lemmas.C08.amax_agrees s dims keep out hr h

/-- the hypothesis is needed: FINDING C08-rank0-explicit-dim (what remains). -/
theorem aten_amax_rank0_explicit_dim_refuted :
    amax.model [] [0] false = none ∧ amax.spec [] [0] false = some [] := by decide

example : amax.spec [] [] true = some [] := by decide

/-- after fix f89de7f: every rank (a 0-d input with `dim` 0 / -1 returns `Identity`). -/
theorem aten_prod_dim_agrees (s : Shape) (dim : Int) (keep : Bool) (out : Shape)
    (h : prod_dim.spec s dim keep = some out) : prod_dim.model s dim keep = some out :=
  OV.Lemmas.C08.prod_dim_agrees s dim keep out h

/-- FIXED f89de7f (was part of C08-rank0-explicit-dim): `prod(tensor(2.), dim=0)` and `all.dims(tensor(1.), [-1])`. -/
theorem aten_rank0_explicit_dim_fixed :
    prod_dim.model [] 0 false = prod_dim.spec [] 0 false
    ∧ all_dims.model [] (some [-1]) false = all_dims.spec [] (some [-1]) false := by decide

theorem aten_all_dim_agrees (s : Shape) (dim : Int) (keep : Bool) (out : Shape)
    (h : all_dim.spec s dim keep = some out) : all_dim.model s dim keep = some out :=
  OV.Lemmas.C08.all_dim_agrees s dim keep out h

theorem aten_cumsum_agrees (s : Shape) (dim : Int) (out : Shape)
    (h : cumsum.spec s dim = some out) : cumsum.model s dim = some out :=
  OV.Lemmas.C08.cumsum_agrees s dim out h

example : sum_dim.spec [2, 3, 4] (some [0, -1]) true = some [1, 3, 1] := by decide

/-- `aten_all_dims` / `aten_any_dims` with a non-empty dim list (PARTIAL: `dim=None` and `dim=[]` are separate trace-time branches with no
theorem; they are compared per case only — counters `all_dims:None`, `all_dims:empty-list`): the loop of single-axis `keepdim=True` reductions
followed by `Squeeze(dims)` has PyTorch's output shape wherever PyTorch accepts the dims — every rank (0 included since fix
f89de7f), every list (negative dims, any order), both `keepdim`. -/
theorem aten_all_dims_agrees_partial (s : Shape) (ds : List Int) (keep : Bool) (out : Shape) (hne : ds ≠ [])
    (h : torchReduce s ds keep = some out) : all_dims.model s (some ds) keep = some out := by
  by_cases hr : s.length = 0
  · have hs : s = [] := List.length_eq_zero_iff.mp hr
    subst hs
    exact OV.Lemmas.C08.all_dims_rank0 ds keep out hne h
  · exact OV.Lemmas.C08.all_dims_agrees s ds keep out hr hne h

example : torchReduce [] [-1] false = some [] := by decide

example : torchReduce [2, 3, 4] [0, -1] false = some [3] := by decide

/-- Regression guard (was finding C08-argmax-keepdim-nodim, fix 3081284): `argmax(x[2,3], keepdim=True)`. -/
theorem aten_argmax_keepdim_nodim_fixed :
    argmax.model [2, 3] none true = argmax.spec [2, 3] none true
    ∧ argmax.model [1, 2, 1, 4] none true = argmax.spec [1, 2, 1, 4] none true := by decide

/-- `aten_argmax` / `aten_argmin` (after fix 3081284): for every shape (rank 0, empty), every `dim` (`None`, negative,
out of range) and both `keepdim`, the emitted Reshape/ArgMax/Squeeze/Reshape chain has PyTorch's output shape and
refuses exactly when PyTorch refuses (empty reduction). -/
theorem aten_argmax_agrees (s : Shape) (dim : Option Int) (keep : Bool) :
    argmax.model s dim keep = argmax.spec s dim keep :=
  OV.Lemmas.C08.argmax_agrees s dim keep

example : argmax.model [2, 3] (some (-1)) true = some [2, 1] := by decide

/-! ## non-vacuity: concrete instances satisfying the hypotheses of the `spec = some out → …` theorems above -/
example : select_scatter.spec [2, 3, 4] [2, 4] 1 (-1) = some [2, 3, 4] := by decide
example : slice_scatter.spec [2, 3, 4] [2, 3, 2] 2 (some 1) none 2 = some [2, 3, 4] := by decide
example : index_select.spec [5, 3] 1 3 = some [5, 3] := by decide
example : all_dim.spec [2, 3] (-1) true = some [2, 1] := by decide
example : mean_dim.spec [2, 3, 4] [0, -1] true = some [1, 3, 1] := by decide
example : cumsum.spec [2, 3] (-1) = some [2, 3] := by decide
example : amax.spec [2, 3, 4] [0, -1] true = some [1, 3, 1] := by decide
example : prod_dim.spec [2, 3] (-1) true = some [2, 1] := by decide
example : col2im.spec [1, 12, 12] [5, 6] [2, 3] [1, 1] [1, 0] [1, 2] = some [1, 2, 5, 6] := by decide
example : max_pool.spec 2 [1, 2, 7, 9] (.list [4, 3]) (.list [2, 1]) (.list [2, 1]) (.list [1, 2]) true = some [1, 2, 5, 7] := by decide
example : repeat_.spec [2, 3] [2, 1, 2] = some [2, 2, 6] := by decide
example : expand.spec [3, 1] [2, -1, 4] = some [2, 3, 4] := by decide
example : broadcast_to.spec [3, 1] [2, -1, 1] = some [2, 3, 1] := by decide
example : permute.spec [2, 3, 4] [2, 0, -2] = some [4, 2, 3] := by decide
example : reshape_.spec [2, 0, 3] [0, 6] = some [0, 6] := by decide
example : view.spec [2, 3] [-1, 2] = some [3, 2] := by decide
example : cat.spec [[2, 3], [0], [2, 1]] (-1) = some [2, 4] := by decide
example : torchReduce [2, 3, 4] [1] false = some [2, 4] := by decide
example : normAxis 3 (-1) = some 2 ∧ (0 : Nat) < [2, 3, 4].getD 2 0 ∧ [2, 3, 4].getD 2 0 ≤ numel [2, 3, 4] := by decide
example : torchDim 3 (-1) = some 2 ∧ [2, 3, 1].getD 2 0 = 1 := by decide

/-! ## MatMul family, max.dim / min.dim, logsumexp, logcumsumexp, embedding, scatter, pixel (un)shuffle -/

/-- `aten_matmul` = one `MatMul` (numpy semantics: 1-D operands promoted and the added dim removed, batch dims broadcast): the
result shape is `torch.matmul`'s in each case of its documentation (dot, matrix·matrix, vector·matrix, matrix·vector, batched) —
all ranks, all sizes, wherever PyTorch accepts the operands. -/
theorem aten_matmul_agrees (a b out : Shape) (h : matmul.spec a b = some out) : matmul.model a b = some out :=
  OV.Lemmas.C08.matmul_agrees a b out h

/-- `aten_mm` / `aten_bmm` / `aten_mv` / `aten_dot` (the same single `MatMul`) against `torch.mm` (2-D·2-D), `torch.bmm` (3-D·3-D, equal
batch), `torch.mv` (2-D·1-D), `torch.dot` (1-D·1-D → 0-d). -/
theorem aten_mm_bmm_mv_dot_agree (a b out : Shape) :
    (matmul.specMm a b = some out → matmul.model a b = some out)
    ∧ (matmul.specBmm a b = some out → matmul.model a b = some out)
    ∧ (matmul.specMv a b = some out → matmul.model a b = some out)
    ∧ (matmul.specDot a b = some out → matmul.model a b = some out) :=
  ⟨OV.Lemmas.C08.mm_agrees a b out, OV.Lemmas.C08.bmm_agrees a b out, OV.Lemmas.C08.mv_agrees a b out, OV.Lemmas.C08.dot_agrees a b out⟩

example : matmul.spec [2, 1, 3, 4] [5, 4, 2] = some [2, 5, 3, 2] := by decide
example : matmul.spec [4] [5, 4, 2] = some [5, 2] := by decide
example : matmul.specBmm [5, 3, 4] [5, 4, 2] = some [5, 3, 2] ∧ matmul.specMv [3, 4] [4] = some [3] ∧ matmul.specDot [4] [4] = some []
    ∧ matmul.specMm [3, 4] [4, 2] = some [3, 2] := by decide

/-- `aten_max_dim` / `aten_min_dim`: both outputs (values: `ReduceMax` with a computed axis; indices: `ArgMax`) have PyTorch's shape
wherever `torch.max(x, dim, keepdim)` is defined — every rank (0 included), negative `dim`, both `keepdim`. -/
theorem aten_max_dim_agrees (s : Shape) (dim : Int) (keep : Bool) (out : List Shape)
    (h : max_dim.spec s dim keep = some out) : max_dim.model s dim keep = some out :=
  OV.Lemmas.C08.max_dim_agrees s dim keep out h

example : max_dim.spec [2, 3, 4] (-2) true = some [[2, 1, 4], [2, 1, 4]] := by decide
example : max_dim.spec [] (-1) false = some [[], []] := by decide

/-- `aten_logsumexp` (rank 0 → `self`, else `ReduceLogSumExp` with constant axes): PyTorch's shape wherever defined. -/
theorem aten_logsumexp_agrees (s : Shape) (dims : List Int) (keep : Bool) (out : Shape)
    (h : logsumexp.spec s dims keep = some out) : logsumexp.model s dims keep = some out :=
  OV.Lemmas.C08.logsumexp_agrees s dims keep out h

example : logsumexp.spec [2, 3, 4] [0, -1] false = some [3] ∧ logsumexp.spec [] [-1] true = some [] := by decide

/-- `aten_logcumsumexp` (`Log(CumSum(Exp(x - M))) + M` with `M = ReduceMax(keepdims=1)`): the two broadcasts against `M` give back
the input shape, for every rank and every valid `dim`. -/
theorem aten_logcumsumexp_agrees (s : Shape) (dim : Int) (out : Shape)
    (h : logcumsumexp.spec s dim = some out) : logcumsumexp.model s dim = some out :=
  OV.Lemmas.C08.logcumsumexp_agrees s dim out h

example : logcumsumexp.spec [2, 3] (-2) = some [2, 3] := by decide

/-- `aten_embedding` = `Gather(weight, indices)` on axis 0: `indices.shape ++ [D]` for a 2-D weight, any index rank. -/
theorem aten_embedding_agrees (w idx out : Shape) (h : embedding.spec w idx = some out) : embedding.model w idx = some out :=
  OV.Lemmas.C08.embedding_agrees w idx out h

example : embedding.spec [5, 4] [2, 0, 3] = some [2, 0, 3, 4] := by decide

/-- `aten_scatter_src` / `aten_scatter_add` (`ScatterElements`, `src` cut to the index shape when larger — fix 33c2a16).  PARTIAL: all three
operands of rank ≥ 1; PyTorch also accepts 0-d self / index / src, which are compared per case only (`scatter_src:index0d`).  For rank ≥ 1 operands,
wherever `torch.scatter` accepts the arguments (`index.size(d) ≤ src.size(d)`, `index.size(d) ≤ self.size(d)` off the axis) the graph is valid
and returns self's shape. -/
theorem aten_scatter_agrees_partial (isAdd : Bool) (s idx src : Shape) (dim : Int) (out : Shape)
    (hr : s.length ≠ 0) (hi : idx.length ≠ 0) (hs : src.length ≠ 0)
    (h : scatter.spec s idx src dim = some out) : scatter.model isAdd s idx src dim = some out :=
  OV.Lemmas.C08.scatter_agrees isAdd s idx src dim out hr hi hs h

example : scatter.spec [3, 5] [2, 7] [4, 7] (-1) = some [3, 5] := by decide

/-- FIXED 33c2a16 (was C08-scatter-src-larger): `scatter(x[2], 0, idx[2], src[3])`. -/
theorem aten_scatter_src_larger_fixed :
    scatter.model false [2] [2] [3] 0 = some [2] ∧ scatter.spec [2] [2] [3] 0 = some [2] := by decide

/-- `aten_pixel_shuffle`: rank 4 → `DepthToSpace`; any other rank ≥ 3 through the two static `Reshape(allowzero=1)`s (fix fcb6f44):
PyTorch's shape `[*, C/r², H·r, W·r]` wherever PyTorch accepts the input — empty tensors included. -/
theorem aten_pixel_shuffle_agrees (s : Shape) (r : Int) (out : Shape)
    (h : pixel_shuffle.spec s r = some out) : pixel_shuffle.model s r = some out :=
  OV.Lemmas.C08.pixel_shuffle_agrees s r out h

example : pixel_shuffle.spec [2, 3, 8, 2, 5] 2 = some [2, 3, 2, 4, 10] := by decide

/-- FIXED fcb6f44 (was C08-pixel-shuffle-empty): `pixel_shuffle(x[0,2,1], 1)` is `[0,2,1]`. -/
theorem aten_pixel_shuffle_empty_fixed :
    pixel_shuffle.model [0, 2, 1] 1 = some [0, 2, 1] ∧ pixel_shuffle.spec [0, 2, 1] 1 = some [0, 2, 1] := by decide

/-- `aten_pixel_unshuffle` (`Reshape → Reshape[-1,C,H/r,r,W/r,r] → Transpose[0,1,3,5,2,4] → Reshape[-1,C·r²,H/r,W/r] → Reshape`):
PyTorch's shape `[*, C·r², H/r, W/r]` for every rank ≥ 3 and every `r` dividing H and W.  Remaining hypothesis: C, H, W (the last three
dims) are non-zero — the leading (batch) dims may be empty.  It is forced by the code: the two inner `Reshape`s use `allowzero=0` with a
`-1`, so a zero among C, H, W is re-read as "copy the input dim" (and PyTorch's CPU kernel returns such inputs unchanged anyway). -/
theorem aten_pixel_unshuffle_agrees_partial (s : Shape) (r : Int) (out : Shape)
    (hnz : ∀ x ∈ s.drop (s.length - 3), x ≠ 0)
    (h : pixel_unshuffle.spec s r = some out) : pixel_unshuffle.model s r = some out :=
  OV.Lemmas.C08.pixel_unshuffle_agrees s r out hnz h

example : pixel_unshuffle.spec [0, 2, 3, 4, 6] 2 = some [0, 2, 12, 2, 3] := by decide
example : pixel_unshuffle.spec [2, 3, 4, 6] 2 = some [2, 12, 2, 3] := by decide

/-- `aten_conv1d` / `aten_conv2d` / `aten_conv3d` (full-length lists, groups, optional bias): `Conv` with `pads = [*padding, *padding]`
and — for `bias=None` — the generated `[O]` zero bias has PyTorch's output shape. -/
theorem aten_convnd_agrees (s w : Shape) (hasBias : Bool) (st pad dil : List Int) (groups : Nat) (out : Shape)
    (h2 : st.length = s.length - 2) (h3 : pad.length = s.length - 2) (h4 : dil.length = s.length - 2)
    (h : convnd.spec s w st pad dil groups = some out) : convnd.model s w hasBias st pad dil groups = some out :=
  OV.Lemmas.C08.convnd_agrees s w hasBias st pad dil groups out h2 h3 h4 h

example : convnd.spec [1, 2, 7, 9] [3, 2, 3, 2] [2, 1] [2, 1] [1, 2] 1 = some [1, 3, 5, 9] := by decide

/-- FIXED 0fc3090 (was C08-conv3d-no-bias): `aten_conv3d(x, w)` without bias (the zero bias was `[O, 2]`). -/
theorem aten_conv3d_no_bias_fixed :
    convnd.model [1, 1, 3, 3, 3] [1, 1, 2, 2, 2] false [1, 1, 1] [0, 0, 0] [1, 1, 1] 1 = some [1, 1, 2, 2, 2]
    ∧ convnd.spec [1, 1, 3, 3, 3] [1, 1, 2, 2, 2] [1, 1, 1] [0, 0, 0] [1, 1, 1] 1 = some [1, 1, 2, 2, 2] := by decide

/-- `aten_softmax` / `aten__softmax` / `aten__log_softmax`: the `dim` accepted by the graph (rank 0 goes through `Unsqueeze([0])`, so
`dim ∈ {0, -1}`) is exactly the `dim` PyTorch accepts, and the shape is unchanged — every rank. -/
theorem aten_softmax_dim_agrees (s : Shape) (dim : Int) : softmax.model s dim = softmax.spec s dim :=
  OV.Lemmas.C08.softmax_agrees s dim

example : softmax.spec [] (-1) = some [] ∧ softmax.spec [2, 3] 2 = none := by decide

/-- `aten_linear`, all three trace-time branches (`Gemm(transB=1)` for 2-D·2-D, `Squeeze(MatMul(x, Unsqueeze(w,[1])),[-1])` for a 1-D
weight, `MatMul(x, Transpose(w)) (+ bias)` otherwise): `torch.nn.functional.linear`'s shape `[*, out]` (resp. `[*]`) for every input
rank ≥ 1, wherever PyTorch accepts the operands. -/
theorem aten_linear_agrees (x w : Shape) (bias : Option Shape) (out : Shape)
    (h : linear.spec x w bias = some out) : linear.model x w bias = some out :=
  OV.Lemmas.C08.linear_agrees x w bias out h

example : linear.spec [5, 2, 3] [4, 3] (some [4]) = some [5, 2, 4] ∧ linear.spec [2, 3] [4, 3] none = some [2, 4]
    ∧ linear.spec [5, 3] [3] none = some [5] := by decide

/-- `aten_linalg_vector_norm` (every `ord` branch reduces with the same axes / keepdims): PyTorch's shape wherever defined — an explicit
dim list (computed axes, rank 0 included) or `dim=None`, both `keepdim` (fix 7d29f42). -/
theorem aten_vector_norm_agrees (s : Shape) (dims : Option (List Int)) (keep : Bool) (out : Shape)
    (h : vector_norm.spec s dims keep = some out) : vector_norm.model s dims keep = some out :=
  OV.Lemmas.C08.vector_norm_agrees s dims keep out h

example : vector_norm.spec [2, 3, 4] (some [0, -1]) true = some [1, 3, 1] ∧ vector_norm.spec [2, 3] none false = some [] := by decide

/-- FIXED 7d29f42 (was C08-vector-norm-keepdim-no-dim): `vector_norm(x[2,3], 2, None, keepdim=True)` is `[1,1]`. -/
theorem aten_vector_norm_keepdim_no_dim_fixed :
    vector_norm.model [2, 3] none true = some [1, 1] ∧ vector_norm.spec [2, 3] none true = some [1, 1] := by decide

/-! ## round 5: normalisation / sort / addmm / baddbmm / glu (OV.Model.C08Norm, second trace table) -/

/-- Second regenerated trace table (`aten_layer_norm`, `aten_native_layer_norm`, `aten_sort`, `aten_addmm`, `aten_baddbmm`,
`aten_glu`, each traced on a grid of argument classes): the model's term is the emitted term. -/
theorem traces_match_models_b : ∀ e ∈ OV.Gen.C08TraceB.traceTable, e.1 = e.2 :=
  OV.Gen.C08TraceB.ok_all

/-- `aten_layer_norm` / `aten_native_layer_norm` (`native`): with `axis = -len(normalized_shape)` and the default weight
`Expand(1, Shape(input, start=axis))`, ONNX `LayerNormalization` returns PyTorch's shapes — the input's shape, and for the
native overload mean / rstd `input.shape[:r-k] ++ [1]*k` — for every rank, every `k` from 1 to the rank (so also
`axis = -rank`), present or absent weight / bias, empty batch dims.  The hypothesis `numel ns ≠ 0` is forced: see the
refutation below (open finding C08-layer-norm-empty-block). -/
theorem aten_layer_norm_agrees_partial (native : Bool) (s ns : Shape) (w b : Option Shape) (out : List Shape)
    (hne : numel ns ≠ 0) (h : layer_norm.spec native s ns w b = some out) :
    layer_norm.model native s ns.length w b = some out :=
  OV.Lemmas.C08.layer_norm_agrees native s ns w b out hne h

example : numel [3, 4] ≠ 0 ∧ layer_norm.spec true [0, 2, 3, 4] [3, 4] none (some [3, 4]) = some [[0, 2, 3, 4], [0, 2, 1, 1], [0, 2, 1, 1]]
    ∧ layer_norm.spec false [2, 3] [2, 3] (some [2, 3]) none = some [[2, 3]] := by decide

/-- FINDING C08-layer-norm-empty-block: `torch.layer_norm(x[2,0], [0])` is `x` (shape `[2,0]`, mean/rstd `[2,1]`);
onnxruntime's `LayerNormalization` refuses an empty normalised block, so the exported graph fails. -/
theorem aten_layer_norm_empty_block_refuted :
    layer_norm.spec true [2, 0] [0] none none = some [[2, 0], [2, 1], [2, 1]] ∧ layer_norm.model true [2, 0] 1 none none = none := by
  decide

/-- `aten_sort` (both trace-time branches: rank 0 → `Identity` and the constant index `0`; otherwise `TopK` with
`K = Shape(self)[dim]`): values and indices have the input's shape wherever `torch.sort` accepts `dim`
(every rank, `dim` from `-rank` to `rank-1`, size-0 dims). -/
theorem aten_sort_agrees (s : Shape) (dim : Int) (out : List Shape) (h : sort.spec s dim = some out) :
    sort.model s dim = some out :=
  OV.Lemmas.C08.sort_agrees s dim out h

example : sort.spec [2, 0, 3] (-3) = some [[2, 0, 3], [2, 0, 3]] ∧ sort.spec [] (-1) = some [[], []] ∧ sort.spec [2] 1 = none := by
  decide

/-- `aten_addmm` = `Gemm(mat1, mat2, self)`, exact in both directions: ONNX's unidirectional broadcast of `C` to `[M, N]`
accepts precisely the `self` that `torch.addmm` accepts (`self` expandable to `[M, N]`: rank 0, 1, 2, 1s anywhere — nothing
of higher rank, nothing that would enlarge the result), refuses what PyTorch refuses (inner sizes, ranks), and the result is
`[M, N]`. -/
theorem aten_addmm_agrees (c a b : Shape) : addmm.model c a b = addmm.spec c a b :=
  OV.Lemmas.C08.addmm_exact c a b

example : addmm.spec [] [2, 0] [0, 3] = some [2, 3] ∧ addmm.spec [2, 1] [2, 4] [4, 3] = some [2, 3]
    ∧ addmm.spec [1, 1, 3] [2, 4] [4, 3] = none := by decide

/-- `aten_baddbmm` = `Add(MatMul(batch1, batch2) [· alpha], self [· beta])`: for 3-D batches with equal batch and inner
sizes and `self` expandable to `[B, M, N]`, the numpy-rule `MatMul` followed by the multidirectional `Add` has
`torch.baddbmm`'s shape `[B, M, N]` (the graph is more permissive outside PyTorch's domain). -/
theorem aten_baddbmm_agrees (c a b out : Shape) (h : baddbmm.spec c a b = some out) : baddbmm.model c a b = some out :=
  OV.Lemmas.C08.baddbmm_agrees c a b out h

example : baddbmm.spec [3] [2, 2, 4] [2, 4, 3] = some [2, 2, 3] ∧ baddbmm.spec [0, 1, 3] [0, 2, 2] [0, 2, 3] = some [0, 2, 3]
    ∧ baddbmm.spec [1, 2, 2, 3] [2, 2, 2] [2, 2, 3] = none := by decide

/-- `aten_glu` (`Split(num_outputs=2)` along `dim`, `Mul(first, Sigmoid(second))`): the halved shape wherever
`torch.nn.functional.glu` accepts (rank ≥ 1, wrapped `dim`, even size), provided the split size is not 0 — forced:
see the refutation below (open finding C08-glu-empty-dim). -/
theorem aten_glu_agrees_partial (s : Shape) (dim : Int) (out : Shape)
    (hd : ∀ a, normAxis s.length dim = some a → s.getD a 0 ≠ 0)
    (h : glu.spec s dim = some out) : glu.model s dim = some out :=
  OV.Lemmas.C08.glu_agrees_partial s dim out hd h

example : (∀ a, normAxis [0, 4, 3].length (-2) = some a → [0, 4, 3].getD a 0 ≠ 0) ∧ glu.spec [0, 4, 3] (-2) = some [0, 2, 3] := by
  decide

/-- FINDING C08-glu-empty-dim: `glu(x[3,0], -1)` is `[3,0]` in PyTorch; `Split(num_outputs=2)` refuses an axis of size 0. -/
theorem aten_glu_empty_dim_refuted : glu.spec [3, 0] (-1) = some [3, 0] ∧ glu.model [3, 0] (-1) = none := by decide

end OV.Props.C08
