import OV.Model.C15Fields
import OV.Gen.C15Fields
/-!
# C15 — every proto field is accounted for (table regenerated from the installed onnx descriptors on every run)

`OV.Gen.C15Fields.rows` has one row per field of `ModelProto`, `GraphProto`, `NodeProto`, `FunctionProto` as the
installed `onnx` declares them, with the carrier the harness' proto differ files the field under and what one trip
through `onnx_ir`'s `serialize_model ∘ deserialize_model` did to a populated sample (measured by
`harness/c15_fields.py` on every run).  The quantifier of each theorem is the whole table; `decide +kernel`.
What is **not** claimed: the probe is one sample per field — the serde contract on arbitrary content stays a
validated hypothesis (`SerdeContract`, stream 1).
-/
namespace OV.Props.C15Fields
open OV.C15 OV.Gen.C15Fields

/-- **The model's carriers cover the installed schema**: every field of the four messages (except the container
`ModelProto.graph`) has a carrier in the Lean model, and it is the carrier the harness' differ compares it under — a
field added by a newer `onnx`, or a differ/model disagreement, fails here. -/
theorem every_proto_field_has_its_carrier :
    ∀ r ∈ rows, (r.msg = "ModelProto" ∧ r.field = "graph") ∨
      (fieldCarrier r.msg r.field).map Carrier.name = some r.carrier := by
  decide +kernel

/-- **`Carrier.inGraph` is exactly "is a field of `GraphProto`"** — what `model_proto.graph.Clear()` /
`graph.CopyFrom(…)` in `convert_version` replace (`spliceConverted`), now read off the descriptor instead of
hand-copied: every `GraphProto` field maps to an `inGraph` carrier, every other `ModelProto` field to a carrier
outside, and every one of the 19 carriers holds at least one real field. -/
theorem graph_fields_are_exactly_the_inGraph_carriers :
    (∀ r ∈ rows, r.msg = "GraphProto" → (fieldCarrier r.msg r.field).map Carrier.inGraph = some true) ∧
    (∀ r ∈ rows, r.msg = "ModelProto" → r.field ≠ "graph" →
        (fieldCarrier r.msg r.field).map Carrier.inGraph = some false) ∧
    (∀ c ∈ Carrier.all, rows.any (fun r => (r.msg == "ModelProto" || r.msg == "GraphProto") &&
        fieldCarrier r.msg r.field == some c) = true) := by
  decide +kernel

/-- **No field is dropped wholesale without being listed**: every field survives `N = ser ∘ de` *on the probe* — ONE
populated sample per field, on one base model at `onnx.IR_VERSION` — or is on the list of known losses (finding
C15-SPARSE).  A field the serde stops carrying altogether breaks this theorem; a loss that depends on the field's
content, on other fields or on `ir_version` (e.g. `configuration` below IR 11) is invisible to it — that is stream 1's
business (validated, not proved). -/
theorem every_field_survives_serde_or_is_a_known_loss :
    ∀ r ∈ rows, r.status = "carried" ∨ (r.msg, r.field) ∈ knownLoss := by
  decide +kernel

/-- Sensitivity: the same statement over the table with one more field reported lost is false (so a field newly
dropped by the serde is rejected by the kernel, not absorbed). -/
example : ¬ (∀ r ∈ (⟨"NodeProto", "doc_string", 6, false, "nodes", "lost"⟩ :: rows),
    r.status = "carried" ∨ (r.msg, r.field) ∈ knownLoss) := by
  decide +kernel

/-- … the list is exact (each known loss is observed as a loss on this installation) … -/
theorem known_losses_are_real :
    ∀ k ∈ knownLoss, rows.any (fun r => r.msg == k.1 && r.field == k.2 && r.status == "lost") = true := by
  decide +kernel

/-- … and losses occur only inside the two carriers for which the model claims nothing (`otherGraph`, `otherModel`);
on every `lossless` carrier each field is carried, `NodeProto` and `FunctionProto` fields included. -/
theorem losses_confined_to_other_carriers :
    ∀ r ∈ rows, r.status ≠ "carried" → (fieldCarrier r.msg r.field).map Carrier.lossless = some false := by
  decide +kernel

/-- Field numbers and names are unique per message (the table is a function of the descriptor). -/
theorem field_table_is_functional :
    ∀ r ∈ rows, (rows.filter fun r' => r'.msg == r.msg && (r'.field == r.field || r'.number == r.number)).length = 1 := by
  decide +kernel

end OV.Props.C15Fields
