import OV.Model.C18Builder
import OV.Model.C18NN
import OV.Lemmas.C18NN
import OV.Lemmas.C18Builder
import OV.Lemmas.C18WF
import OV.Lemmas.C18Sem
import OV.Lemmas.C18Names
import OV.Lemmas.C18Partition
import OV.Lemmas.C18Scopes
/-!
# C18 — GraphBuilder / nn.Module graphs compute the trace; parameters named like PyTorch

Property theorems only.  Models: `OV.Model.C18Builder` (trace → graphs), `OV.Model.C18NN` (module trees).
-/
namespace OV.Props.C18
open OV.C18

/-! ## Part B — parameters are named like `state_dict()` -/

/-- Module objects a program can build with the public operations of `onnxscript.nn`, each object attached
at most once (`TreeNotDag` at the level of the program), and explicit names only where they agree with the
key (`ExplicitNamesAgree`): a fresh `Module` (any explicit name — it is judged where the object is
attached), `self.attr = Parameter(name=None | attr)`, `self.attr = child` for an unnamed child or a plain
`Module` explicitly named `attr`, the empty `ModuleList()` / `Sequential()`, `append` of an unnamed object
(hence `ModuleList([...])`, `Sequential(...)`, `extend`), and slicing. -/
inductive Built : Mod → Prop
  | module (n : Option String) : Built (mkModule n)
  | param {m : Mod} (attr : String) (pname : Option String) (pid : Nat) :
      Built m → m.kind ≠ .list → (pname = none ∨ pname = some attr) → Built (setParam m attr pname pid)
  | child {m c : Mod} (attr : String) :
      Built m → m.kind = .module → Built c → attr ≠ "" →
      (c.name = none ∨ (c.kind = .module ∧ c.name = some attr)) → Built (setChild m attr c)
  | emptyList : Built (.mk .list none [] .nil)
  | emptySeq : Built (.mk .seq none [] .nil)
  | append {l c : Mod} : Built l → l.kind ≠ .module → Built c → Built (append l c)
  | slice {l : Mod} (idxs : List Nat) : Built l → l.kind ≠ .module → Built (slice l idxs)

/-- Every object built by the public operations satisfies the detached-object invariant: its parameters are
named like their attributes and, once it is given a name by whoever attaches it, all stored names below it
are the ones `Module.__call__`'s scope stack needs. (Structural induction over the construction.) -/
theorem built_good {m : Mod} (h : Built m) : GoodT m := by
  induction h with
  | module n => simp [mkModule, GoodT, ParamsAgree, NamedKey]
  | param attr pname pid _ hk hp ih => exact GoodT.setParam _ attr pname pid hk hp ih
  | child attr _ hm _ ha hcn ihm ihc => exact GoodT.setChild _ _ attr hm ha hcn ihm ihc
  | emptyList => simp [GoodT, GoodAll]
  | emptySeq => simp [GoodT, GoodAll, ParamsAgree]
  | append _ hl _ ihl ihc => exact GoodT.append _ _ hl ihl ihc
  | slice idxs _ hl ih => exact GoodT.slice _ idxs hl ih

/-- **The property (initializer names).**  For every module tree built by the public operations and called
as the root — whatever its depth, its mix of `Module` / `ModuleList` / `Sequential`, its own name (or none)
— the parameters realised by `Module.__call__`/`Parameter._realize`, *in realisation order*, are exactly the
`state_dict()` entries, each initializer named `root.name + "." + key`; every parameter exactly once.
Hypotheses the proof forces: `Built` (explicit names agree with keys, linear construction) and distinct
parameter objects (`TreeNotDag`).  Their necessity: `initializer_names_full_refuted_explicit`,
`initializer_names_full_refuted_shared`. -/
theorem initializer_names_eq_state_dict_partial (root : Mod) (hb : Built root) (hk : root.kind = .module)
    (hd : (pids root).Nodup) :
    realize root = (stateDict "" root).map (fun x => (rootKey root x.1, x.2)) :=
  realize_eq root (GoodT.rootNamed_module root hk (built_good hb)) hd

/-- Same for a `Sequential` that received its name through `_set_name` (assigned to an attribute, then
called as the root of the trace). -/
theorem initializer_names_eq_state_dict_seq_partial (root : Mod) (e : String) (hb : Built root)
    (hk : root.kind = .seq) (hd : (pids (setName root e)).Nodup) :
    realize (setName root e)
      = (stateDict "" (setName root e)).map (fun x => (rootKey (setName root e) x.1, x.2)) :=
  realize_eq _ (GoodT.rootNamed_seq root e hk (built_good hb)) hd

/-- Each parameter appears exactly once: the realised parameter objects are the tree's parameters. -/
theorem each_parameter_once_partial (root : Mod) (hb : Built root) (hk : root.kind = .module)
    (hd : (pids root).Nodup) :
    (realize root).map (·.2) = pids root ∧ ((realize root).map (·.2)).Nodup := by
  have h := initializer_names_eq_state_dict_partial root hb hk hd
  have h2 : (realize root).map (·.2) = pids root := by
    rw [h]
    simp only [List.map_map]
    exact stateDict_pids "" root
  exact ⟨h2, h2 ▸ hd⟩

/-- The invariant at any depth: a child object named as its class dictates realises, under *any* scope
stack, exactly its own `state_dict()` prefixed by the stack and its name (the scope-stack invariant). -/
theorem realize_child_eq_state_dict (m : Mod) (sc : List String) (e : String) (he : e ≠ "")
    (h : Named e m) :
    visit sc m = (stateDict "" m).map (fun x => (qualifyInit (sc ++ [e]) x.1, x.2)) :=
  visit_eq m sc e he h

mutual
  /-- `named_parameters()` and `state_dict()` enumerate the same keys for the same parameters. -/
  theorem named_parameters_eq_state_dict (p : String) : ∀ m : Mod, namedParams p m = stateDict p m
    | .mk _ _ ps cs => by
      simp only [namedParams, stateDict]
      rw [named_parameters_all_eq p cs]
  theorem named_parameters_all_eq (p : String) : ∀ cs : Mods, namedParamsAll p cs = stateDictAll p cs
    | .nil => rfl
    | .cons k m r => by
      simp only [namedParamsAll, stateDictAll]
      rw [named_parameters_eq_state_dict (pfx p k) m, named_parameters_all_eq p r]
end

/-- `append` on a list that already has its name (`self.layers.append(m)` after `self.layers = ModuleList()`)
keeps the invariant: the new child is renamed `name.key` by `_register_child`. -/
theorem append_after_naming_keeps_names (l c : Mod) (e : String) (hl : l.kind = .list) (hn : Named e l)
    (hc : GoodT c) (hcn : c.name = none) : Named e (append l c) := by
  cases l with
  | mk k n ps cs =>
    simp only [Mod.kind] at hl
    subst hl
    simp only [Named] at hn
    obtain ⟨rfl, hp, hps, hq⟩ := hn
    simp only [append, regChild, Mod.kind, regChildList, Named]
    refine ⟨trivial, hp, hps, NamedQual.insert cs e _ _ (toString_nat_ne_empty _) ?_ hq⟩
    simp only [listChild, hcn]
    exact GoodT.named c _ hc

/-! ### non-vacuity and witnesses -/

def lin (name : Option String) (pid : Nat) : Mod := setParam (mkModule name) "weight" none pid

/-- `net{ fc: Lin, layers: ModuleList([Lin, Sequential(Lin, Lin)]) }` -/
def sampleNet : Mod :=
  setChild (setChild (mkModule (some "net")) "fc" (lin none 0)) "layers"
    (append (append (.mk .list none [] .nil) (lin none 1))
      (append (append (.mk .seq none [] .nil) (lin none 2)) (lin none 3)))

theorem lin_built (n : Option String) (p : Nat) : Built (lin n p) :=
  Built.param "weight" none p (Built.module n) (by simp [mkModule, Mod.kind]) (Or.inl rfl)

example : Built sampleNet :=
  Built.child "layers"
    (Built.child "fc" (Built.module _) rfl (lin_built _ _) (by decide) (Or.inl rfl)) rfl
    (Built.append (Built.append Built.emptyList (by decide) (lin_built _ _)) (by decide)
      (Built.append (Built.append Built.emptySeq (by decide) (lin_built _ _)) (by decide) (lin_built _ _)))
    (by decide) (Or.inl rfl)

example : realize sampleNet =
    [("net.fc.weight", 0), ("net.layers.0.weight", 1), ("net.layers.1.0.weight", 2),
     ("net.layers.1.1.weight", 3)] := by decide

example : (pids sampleNet).Nodup := by decide

/-- D20b: `self.fc = Lin(name="custom")`. -/
def explicitNet : Mod := setChild (mkModule (some "net")) "fc" (lin (some "custom") 0)

/-- The full statement (any explicit name) is false **on the current code** (open finding D20b, not a pre-fix
statement): initializer `net.custom.weight`, key `fc.weight`. -/
theorem initializer_names_full_refuted_explicit :
    ¬ (∀ root : Mod, (pids root).Nodup →
        realize root = (stateDict "" root).map (fun x => (rootKey root x.1, x.2))) := by
  intro h
  have := h explicitNet (by decide)
  revert this
  decide

/-- One `Lin` object registered under two parents (`b1.fc` and `b2.fc`; both keys are `fc`, so every stored
name agrees with its key): realised once, listed twice by `state_dict()`. -/
def sharedNet : Mod :=
  setChild (setChild (mkModule (some "net")) "b1" (setChild (mkModule none) "fc" (lin none 0))) "b2"
    (setChild (mkModule none) "fc" (lin none 0))

/-- Without `TreeNotDag` the statement is false even when every name agrees with its key (necessity of a hypothesis
on the current code; not a defect, not a pre-fix statement). -/
theorem initializer_names_full_refuted_shared :
    ¬ (∀ root : Mod, RootNamed root →
        realize root = (stateDict "" root).map (fun x => (rootKey root x.1, x.2))) := by
  intro h
  have hr : RootNamed sharedNet := by
    simp [sharedNet, setChild, attrChild, mkModule, lin, setParam, insertParam, Mods.insert, Mod.name,
      setName, RootNamed, NamedKey, Named, ParamsAgree]
  have := h sharedNet hr
  revert this
  decide

/-! ### modules called inside (nested) subgraphs -/

/-- **Scope inheritance at any depth.**  Whatever set `ctl` of modules run their children inside a
`GraphBuilder.subgraph` trace function — any number of them, nested to any depth, with ordinary modules entered
in between — the realised initializer names are those of the same tree without subgraphs: `build_graph` hands the
sub-builder a copy of its *parent's* scope stack and `Parameter._realize` qualifies with the *current* builder's
scope, so only the innermost builder's scope matters and it always equals the path of module names. -/
theorem realize_in_subgraphs_eq (ctl : List (List String)) (root : Mod) :
    realizeB SubPolicy.code ctl root = realize root :=
  realizeB_eq_realize ctl root

/-- **The property with subgraphs** (no "subgraph-free forward" assumption any more): for every tree built by
the public operations, every placement of subgraph bodies in the forwards, initializer names (in realisation
order) = `root.name + "." + state_dict key`, each parameter once.  `_partial` only for what is forced:
`Built` (explicit names agree with keys, linear construction) and distinct parameter objects. -/
theorem initializer_names_eq_state_dict_subgraphs_partial (ctl : List (List String)) (root : Mod)
    (hb : Built root) (hk : root.kind = .module) (hd : (pids root).Nodup) :
    realizeB SubPolicy.code ctl root = (stateDict "" root).map (fun x => (rootKey root x.1, x.2)) := by
  rw [realize_in_subgraphs_eq]
  exact initializer_names_eq_state_dict_partial root hb hk hd

/-- `model{ block1: Ctl{ inner: Ctl{ leaf: Lin } }, block2: Ctl{ inner: Lin } }` — If bodies nested two deep. -/
def nestedNet : Mod :=
  setChild (setChild (mkModule (some "model")) "block1"
      (setChild (mkModule none) "inner" (setChild (mkModule none) "leaf" (lin none 0))))
    "block2" (setChild (mkModule none) "inner" (lin none 1))

def nestedCtl : List (List String) := [["block1"], ["block1", "inner"], ["block2"]]

example : realizeB SubPolicy.code nestedCtl nestedNet =
    [("model.block1.inner.leaf.weight", 0), ("model.block2.inner.weight", 1)] := by decide

/-- (A statement about an *alternative policy*, never the code of /repo.)  The sub-builder must inherit from its
**parent**: copying the root builder's scope instead (seeded change C18-6) loses the modules entered inside the outer body — at nesting depth 2 both leaves collide. -/
theorem scope_inherit_root_refuted :
    ¬ (∀ (ctl : List (List String)) (root : Mod), realizeB ⟨false, true⟩ ctl root = realize root) := by
  intro h
  have := h nestedCtl nestedNet
  revert this
  decide


example : realizeB ⟨false, true⟩ nestedCtl nestedNet =
    [("model.block1.leaf.weight", 0), ("model.block2.inner.weight", 1)] := by decide

/-- **Before commit 77b0052** parameters were qualified with the *root* builder's scope (D20e): already at depth 1
the module path inside the body is lost. -/
theorem realize_in_subgraphs_prefix_refuted :
    ¬ (∀ (ctl : List (List String)) (root : Mod), realizeB ⟨true, false⟩ ctl root = realize root) := by
  intro h
  have := h [[]] explicitNet
  revert this
  decide

/-! ### top-down construction (containers attached first, filled afterwards) -/

/-- Module trees as `__init__` methods usually build them: start from a root built by `Built`, then any number of
statements acting on an **already attached** descendant reached by child keys (`self.blocks[0].layers…`):
`d.attr = Parameter(name=None | attr)` on a non-list, `d.attr = child` on a plain Module (child unnamed, or a plain
Module explicitly named `attr`), `d.append(child)` on a ModuleList (any unnamed child built by `Built`) or on a
Sequential (an unnamed plain Module).  `extend` is repeated `append`.  The statement is a no-op when the path does not
exist. -/
inductive BuiltTop : Mod → Prop
  | base {m : Mod} : Built m → m.kind = .module → BuiltTop m
  | paramAt {r : Mod} (path : List String) (attr : String) (pname : Option String) (pid : Nat) :
      BuiltTop r → (∀ t, nodeAt path r = some t → t.kind ≠ .list) → (pname = none ∨ pname = some attr) →
      BuiltTop (modifyAt path (fun d => setParam d attr pname pid) r)
  | childAt {r c : Mod} (path : List String) (attr : String) :
      BuiltTop r → (∀ t, nodeAt path r = some t → t.kind = .module) → Built c → attr ≠ "" →
      (c.name = none ∨ (c.kind = .module ∧ c.name = some attr)) →
      BuiltTop (modifyAt path (fun d => setChild d attr c) r)
  | appendAt {r c : Mod} (path : List String) :
      BuiltTop r → (∀ t, nodeAt path r = some t → t.kind = .list ∨ (t.kind = .seq ∧ c.kind = .module)) →
      Built c → c.name = none → BuiltTop (modifyAt path (fun d => append d c) r)

/-- Every tree built top-down is consistently named: each stored `_name` below the root is what the scope stack of
`Module.__call__` needs (induction over the construction; `modifyAt_named` carries the invariant down the path, each
mutation keeps it at the target: `_register_child` of a named ModuleList renames the appended object — and,
recursively, everything below it — to `name.key`). -/
theorem builtTop_rootNamed {r : Mod} (h : BuiltTop r) : RootNamed r := by
  induction h with
  | base hb hk => exact GoodT.rootNamed_module _ hk (built_good hb)
  | paramAt path attr pname pid _ ht hp ih =>
    exact modifyAt_rootNamed _ (fun t => t.kind ≠ .list)
      (fun e m hT hN => Named.setParam e m attr pname pid hT hp hN)
      (fun m _ hR => RootNamed.setParam m attr pname pid hp hR) path _ ht ih
  | childAt path attr _ ht hc ha hcn ih =>
    exact modifyAt_rootNamed _ (fun t => t.kind = .module)
      (fun e m hT hN => Named.setChild e m _ attr hT ha hcn (built_good hc) hN)
      (fun m hT hR => RootNamed.setChild m _ attr hT ha hcn (built_good hc) hR) path _ ht ih
  | appendAt path _ ht hc hcn ih =>
    exact modifyAt_rootNamed _ (fun t => t.kind = .list ∨ (t.kind = .seq ∧ _ = Kind.module))
      (fun e m hT hN => Named.append e m _ hT (built_good hc) hcn hN)
      (fun m hT hR => RootNamed.append m _ hT (built_good hc) hcn hR) path _ ht ih

/-- **The property for top-down built trees** (and modules called inside nested subgraph bodies): initializer
names, in realisation order, = `root.name + "." + state_dict key`, every parameter once.  Remaining hypotheses, both
forced: explicit names agree with keys (inside `BuiltTop`/`Built`; D20b) and distinct parameter objects. -/
theorem initializer_names_eq_state_dict_topdown_partial (ctl : List (List String)) (root : Mod)
    (hb : BuiltTop root) (hd : (pids root).Nodup) :
    realizeB SubPolicy.code ctl root = (stateDict "" root).map (fun x => (rootKey root x.1, x.2)) := by
  rw [realize_in_subgraphs_eq]
  exact realize_eq root (builtTop_rootNamed hb) hd

/-- `model{stem: Lin}`, then `model.stages = ModuleList()`, `model.stages.append(ModuleList())`,
`model.stages[0].append(Lin)`, `model.stages[0].append(Lin)`, `model.stages.append(Sequential())`,
`model.stages[1].append(Lin)`: containers first, contents later, three levels. -/
def topDownNet : Mod :=
  modifyAt ["stages", "1"] (fun d => append d (lin none 3))
    (modifyAt ["stages"] (fun d => append d (.mk .seq none [] .nil))
      (modifyAt ["stages", "0"] (fun d => append d (lin none 2))
        (modifyAt ["stages", "0"] (fun d => append d (lin none 1))
          (modifyAt ["stages"] (fun d => append d (.mk .list none [] .nil))
            (modifyAt [] (fun d => setChild d "stages" (.mk .list none [] .nil))
              (setChild (mkModule (some "model")) "stem" (lin none 0)))))))

example : realize topDownNet =
    [("model.stem.weight", 0), ("model.stages.0.0.weight", 1), ("model.stages.0.1.weight", 2),
     ("model.stages.1.0.weight", 3)] := by decide
example : (stateDict "" topDownNet).map (·.1) =
    ["stem.weight", "stages.0.0.weight", "stages.0.1.weight", "stages.1.0.weight"] := by decide

example : BuiltTop topDownNet := by
  refine BuiltTop.appendAt _ (BuiltTop.appendAt _ (BuiltTop.appendAt _ (BuiltTop.appendAt _ (BuiltTop.appendAt _
    (BuiltTop.childAt [] "stages" (BuiltTop.base
      (Built.child "stem" (Built.module _) rfl (lin_built _ _) (by decide) (Or.inl rfl)) rfl)
      ?_ Built.emptyList (by decide) (Or.inl rfl)) ?_ Built.emptyList rfl) ?_ (lin_built _ _) rfl) ?_
        (lin_built _ _) rfl) ?_ Built.emptySeq rfl) ?_ (lin_built _ _) rfl
  all_goals (apply of_all; decide)

/-! ### histories: a forward that raises, then the module is called again -/

/-- **An exception inside `forward` does not disturb the names** (history of two calls on one builder).  Whatever
part of the tree had been entered when the exception was raised — the first `k` parameter realisations of the full
sequence, any `k`; `Module.__call__` pops its scope in a `finally`, a sub-builder's scope is a copy — calling the root
again realises exactly what one undisturbed call realises, in the same order: parameters realised by the aborted
call keep their (correct) names, `_realize` is idempotent per object, the others are realised now. -/
theorem realize_after_abort (root : Mod) (k : Nat) :
    dedupPid ((callRoot root).take k ++ callRoot root) [] = realize root :=
  dedupPid_take_append (callRoot root) k []

/-- …hence the property holds for such a history too: initializer names = `root.name + "." + state_dict key`. -/
theorem initializer_names_after_abort_partial (root : Mod) (k : Nat) (hb : BuiltTop root)
    (hd : (pids root).Nodup) :
    dedupPid ((callRoot root).take k ++ callRoot root) []
      = (stateDict "" root).map (fun x => (rootKey root x.1, x.2)) := by
  rw [realize_after_abort]
  exact realize_eq root (builtTop_rootNamed hb) hd

example : (callRoot topDownNet).take 2 = [("model.stem.weight", 0), ("model.stages.0.0.weight", 1)] := by decide
example : dedupPid ((callRoot topDownNet).take 2 ++ callRoot topDownNet) [] =
    [("model.stem.weight", 0), ("model.stages.0.0.weight", 1), ("model.stages.0.1.weight", 2),
     ("model.stages.1.0.weight", 3)] := by decide

/-! ## Part A — names generated by `GraphBuilder` -/

/-- **Names are unique** (after commits e9794aa and e7b46e0 — no hypothesis on the trace any more).  In
*every* trace — operator calls, function calls, `call_inline`, literals, explicit names, module scopes and
arbitrarily nested `subgraph` constructions — every automatically generated value name is made from a
*different* (scope, op, node-count, output-index) tuple: `_adapt_outputs` reads `_node_count()` = the nodes of
the root graph and of all subgraphs of the builder tree; every call appends one node (an inlining: all clones)
to one of them; opening and closing a subgraph only moves graphs between "current / enclosing / finished"; so
the count strictly increases along the trace.
This is the statement on the *tuples* of automatic **value** names (no hypothesis; formerly `names_unique_partial`,
a name kept from the time it carried `NoSubgraphs`); `names_unique_rendered` lifts it to the rendered strings.
Node names (`{op}_node_{count}`, explicit `_name=`, `prefix + body node name`) have **no** uniqueness theorem: they are
checked on the real serialized model by the name walker on every run (and refuted for the pre-fix code in
`names_unique_prefix_refuted`). -/
theorem names_unique_tuples (fns : List Fn) (tr : List Item) :
    ((build fns tr).vkeys.filter isAutoKey).Nodup :=
  (Inv.foldl fns tr St.init Inv.init).2

/-- …and each of those tuples carries a count below the final number of nodes of the whole builder tree. -/
theorem auto_counts_bounded (fns : List Fn) (tr : List Item) :
    ∀ k ∈ (build fns tr).vkeys, ∀ p o c i, k = VKey.auto p o c i → c < nodeCount true (build fns tr) :=
  (Inv.foldl fns tr St.init Inv.init).1

/-- **Automatic value names are unique — as strings** (value names only, not node names; after commit 5c71050: `{op}_{count}` / `{op}_{i}_{count}`).  For every
trace and *every* operator / function / scope name — no "plain name" hypothesis — the automatic value names, as
rendered by `_adapt_outputs` + `_qualify_value_name`, are pairwise distinct: an automatic name ends in the digits
of its node count preceded by a non-digit (`digit_suffix_unique`), the count is unique per node across the builder
tree (`names_unique_tuples`), and the names made with one count share scope and op (`sameNode_foldl`) and differ
in the output index.  (Names chosen by the user — explicit `_outputs`, graph inputs — and the `prefix + body name`
family of `call_inline` are outside this statement: their uniqueness is the caller's / the callee's.) -/
theorem names_unique_rendered (fns : List Fn) (tr : List Item) :
    (((build fns tr).vkeys.filter isAutoKey).map VKey.render).Nodup := by
  have h := renderNew_nodup _ (names_unique_tuples fns tr)
    (sameNode_foldl fns tr St.init Inv.init (by intro p o c i p' o' i' h; simp [St.init] at h))
  have hr : VKey.render = VKey.renderNew := by
    funext k; simp [VKey.render, countLast]
  rw [hr]
  exact h

/-- D20a witness (regression case): main graph, `then` and `else` bodies each call `Add` first. -/
def d20aTrace : List Item :=
  [.input "x", .input "c", .op "Add" [.ref 0, .ref 0] (.auto 1) none [] [],
   .beginSub "then" [], .op "Add" [.ref 0, .lit (.num "1.0" 1000 "f32")] (.auto 1) none [] [], .endSub [3] [""],
   .beginSub "else" [], .op "Add" [.ref 0, .lit (.num "2.0" 2000 "f32")] (.auto 1) none [] [], .endSub [4] [""],
   .op "If" [.ref 1] (.auto 1) none [0, 1] []]

/-- **Before the fix** (per-graph counter, `buildPrefix`) the statement was false — for the tuples, the
rendered value names and the node names alike: all three graphs defined `v_Add_0` / `Add_node_0`. -/
theorem names_unique_prefix_refuted :
    ¬ (∀ tr : List Item, ((buildPrefix [] tr).vkeys.filter isAutoKey).Nodup) ∧
    ¬ (∀ tr : List Item, (buildPrefix [] tr).valueNames.Nodup) ∧
    ¬ (∀ tr : List Item, (buildPrefix [] tr).nodeNames.Nodup) := by
  refine ⟨fun h => ?_, fun h => ?_, fun h => ?_⟩ <;>
  · have := h d20aTrace
    revert this
    decide

example : (buildPrefix [] d20aTrace).valueNames =
    ["x", "c", "v_Add_0", "const_1.0_f32", "v_Add_0", "const_2.0_f32", "v_Add_0", "v_If_1"] := by decide

/-- the same trace on the current code (also the non-vacuity instance with subgraphs). -/
example : (build [] d20aTrace).valueNames =
    ["x", "c", "v_Add_0", "const_1.0_f32", "v_Add_1", "const_2.0_f32", "v_Add_2", "v_If_3"] := by decide
example : (build [] d20aTrace).nodeNames = ["Add_node_0", "If_node_3", "Add_node_1", "Add_node_2"] := by decide
example : ∀ it ∈ d20aTrace, simpleItem it = true := by decide

/-- non-vacuity of `names_unique_tuples`: a trace with scopes, literals, a multi-output op and a call. -/
def simpleTrace : List Item :=
  [.input "x", .push "blk", .op "Add" [.ref 0, .lit (.num "1" 1000 "f32")] (.auto 1) none [] [],
   .op "Split" [.ref 1] (.auto 3) none [] [], .pop, .call 0 [.ref 2, .ref 3] none [], .output 5 (some "out")]

def fAddMul : Fn := ⟨"addmul", "c18", "", ["a0", "a1"],
  [⟨"Add_node_0", "", "Add", [some "a0", some "a1"], ["v_Add_0"], []⟩,
   ⟨"Mul_node_1", "", "Mul", [some "a0", some "a1"], ["v_Mul_1"], []⟩], ["v_Add_0", "v_Mul_1"], []⟩

example : ∀ it ∈ simpleTrace, simpleItem it = true := by decide
example : (build [fAddMul] simpleTrace).valueNames =
    ["x", "const_1_f32", "v_blk.Add_0", "v_blk.Split_0_1", "v_blk.Split_1_1", "v_blk.Split_2_1",
     "out", "v_addmul_1_2"] := by decide

/-- D20c witness (regression case): `call_inline` of a function returning its own input. -/
def fIdent : Fn := ⟨"ident", "c18", "", ["a0"], [], ["a0"], []⟩
def d20cTrace : List Item :=
  [.input "x", .op "Relu" [.ref 0] (.named ["x"]) none [] [], .inline 0 [.ref 0] none "" []]

/-- **Before commit e7b46e0** `call_inline` renamed the caller's value in place: rendered value names were
not unique even without subgraphs (`x` became `v_x`, colliding with the explicit output `x` → `v_x`). -/
theorem names_unique_inline_prefix_refuted :
    ¬ (∀ (fns : List Fn) (tr : List Item), (∀ it ∈ tr, isSub it = false) →
        (buildPrefix fns tr).valueNames.Nodup) := by
  intro h
  have := h [fIdent] d20cTrace (by decide)
  revert this
  decide

example : (buildPrefix [fIdent] d20cTrace).valueNames = ["v_x", "v_x"] := by decide
/-- on the current code the pass-through output keeps its name. -/
example : (build [fIdent] d20cTrace).valueNames = ["x", "v_x"] := by decide

/-- D20f witness (regression case): `f` (4 outputs, node 1) and `f_1` (1 output, node 3), plain calls. -/
def fFour : Fn := ⟨"f", "c18", "", ["a0"], [], ["a0", "a0", "a0", "a0"], []⟩
def fOne : Fn := ⟨"f_1", "c18", "", ["a0"], [], ["a0"], []⟩
def d20fTrace : List Item :=
  [.input "x", .op "Relu" [.ref 0] (.auto 1) none [] [], .call 0 [.ref 1] none [],
   .op "Add" [.ref 2, .ref 3] (.auto 1) none [] [], .call 1 [.ref 6] none []]

/-- **Before commit 5c71050** multi-output names were `{op}_{count}_{i}`: that rendering is not injective — `f`
(output 3 of node 1) and `f_1` (node 3) both render `v_f_1_3`, so distinct tuples did not give distinct names. -/
theorem names_render_prefix_refuted :
    ¬ (∀ k k' : VKey, isAutoKey k = true → isAutoKey k' = true → VKey.renderOld k = VKey.renderOld k' → k = k') := by
  intro h
  have := h (.auto [] "f" 1 (some 3)) (.auto [] "f_1" 3 none) rfl rfl (by decide)
  revert this
  decide

/-- on the current code the witness has pairwise distinct names. -/
example : (build [fFour, fOne] d20fTrace).valueNames =
    ["x", "v_Relu_0", "v_f_0_1", "v_f_1_1", "v_f_2_1", "v_f_3_1", "v_Add_2", "v_f_1_3"] := by decide
example : (build [fFour, fOne] d20fTrace).valueNames.Nodup := by decide

/-! ### exceptions: what a refused or aborted call leaves on the scope stacks -/

/-- the module-scope stack (`_scope_stack`) of the current builder, then of every enclosing builder. -/
def scopes (st : St) : List (List String) := (st.cur :: st.stack).map (·.scope)

/-- items whose *purpose* is to change a scope stack or the builder in charge. -/
def scopeItem : Item → Bool
  | .push _ => true
  | .pop => true
  | .beginSub _ _ => true
  | .endSub _ _ => true
  | .abortSub => true
  | _ => false

/-- a `call_inline` with a `_prefix` that gets more operands than the function has parameters (with `_outputs` of
the right length): `_inliner.instantiate` raises after `push_module(_prefix)`. -/
def raisingPrefixedInline (fns : List Fn) : Item → Bool
  | .inline fi a o p _ =>
    match fns[fi]? with
    | some f => p != "" && decide (a.length > f.formals.length) && !outsMismatch o f
    | none => false
  | _ => false

/-- **Scope stacks survive every call — accepted or refused** (full since commit 15c1bb3).  For every state, every
operator call, function call, inlining, input and output declaration — whether the builder accepts it or raises
(unknown function, wrong number of `_outputs`, too many operands, `None` output) — the scope stack of the current
builder and of every enclosing builder is afterwards exactly what it was: a `_prefix` pushed by `call_inline` is
popped again on **every** path (the pushed section runs under `try/finally`), promoted literals and cloned nodes
never touch it.  (Before 15c1bb3 one call had to be excluded: `scopes_kept_prefix_refuted`.) -/
theorem scopes_kept (fns : List Fn) (st : St) (it : Item) (h1 : scopeItem it = false) :
    scopes (step true fns st it) = scopes st := by
  have key : ∀ st' : St, SS st st' → scopes st' = scopes st := by
    intro st' h
    simp only [scopes, List.map_cons, h.1, h.2]
  apply key
  cases it with
  | input n => exact ⟨rfl, rfl⟩
  | op t a o nn g as => exact ss_doOp st t a o nn g as
  | push n => simp [scopeItem] at h1
  | pop => simp [scopeItem] at h1
  | call f a o as => exact ss_doCall fns st f a o as
  | inline fi a o p as => exact ss_doInline prefixLeaks fns st fi a o p as (Or.inl rfl)
  | beginSub g i => simp [scopeItem] at h1
  | endSub r d => simp [scopeItem] at h1
  | abortSub => simp [scopeItem] at h1
  | output hd n =>
    simp only [step, doOutput]
    split
    · exact ss_fail st _
    · split
      · split
        · exact ⟨rfl, rfl⟩
        · exact ⟨rfl, rfl⟩
      · exact ⟨rfl, rfl⟩

/-- the same for `call_inline` alone, stated on the operation: accepted, or refused at any of its three checks. -/
theorem scopes_kept_inline (fns : List Fn) (st : St) (fi : Nat) (a : List Arg) (o : Option (List String))
    (p : String) (as : List (String × AVal)) :
    scopes (doInline true fns st fi a o p as) = scopes st := by
  have h := ss_doInline prefixLeaks fns st fi a o p as (Or.inl rfl)
  simp only [doInline, scopes, List.map_cons, h.1, h.2]

/-- **Before commit 15c1bb3** (`doInlineWith true`: `pop_module()` on the success path only) the scopes were kept by
every inlining *except* the one that raises inside `_inliner.instantiate` after the prefix was pushed… -/
theorem scopes_kept_inline_prefix_partial (fns : List Fn) (st : St) (fi : Nat) (a : List Arg)
    (o : Option (List String)) (p : String) (as : List (String × AVal))
    (h2 : raisingPrefixedInline fns (.inline fi a o p as) = false) :
    scopes (doInlineWith true true fns st fi a o p as) = scopes st := by
  have h : SS st (doInlineWith true true fns st fi a o p as) := by
    refine ss_doInline true fns st fi a o p as ?_
    by_cases hp : p = ""
    · exact Or.inr (Or.inl hp)
    · refine Or.inr (Or.inr ?_)
      intro f hf
      simp only [raisingPrefixedInline, hf] at h2
      by_cases hl : a.length > f.formals.length
      · right
        simpa [hp, hl] using h2
      · exact Or.inl hl
  simp only [scopes, List.map_cons, h.1, h.2]

/-- **Leaving a subgraph — normally, by a refusal of `build_graph`, or by an exception in the trace function —
re-installs the enclosing builder with its scope stack untouched**: whatever was pushed inside went to the
sub-builder's own copy. -/
theorem scopes_after_subgraph (fns : List Fn) (st : St) (it : Item)
    (hit : (∃ r d, it = .endSub r d) ∨ it = .abortSub) (hs : st.stack ≠ []) :
    scopes (step true fns st it) = (scopes st).tail := by
  cases hst : st.stack with
  | nil => exact absurd hst hs
  | cons parent rest =>
    have hab : scopes (abandon st) = (scopes st).tail := by
      simp [scopes, abandon, hst]
    have hf : ∀ (s : St) (e : String), scopes (fail s e) = scopes s := by
      intro s e; unfold fail; split <;> rfl
    rcases hit with ⟨r, d, rfl⟩ | rfl
    · simp only [step, doEndSub, hst]
      split
      · rw [hf, hab]
      · simp [scopes, hst]
    · simp only [step, doAbortSub, hst]
      exact hab

/-- and opening one hands the sub-builder a *copy* of the current scope stack. -/
theorem scopes_begin_subgraph (fns : List Fn) (st : St) (g : String) (i : List String) :
    scopes (step true fns st (.beginSub g i)) = st.cur.scope :: scopes st := by
  simp only [step, doBeginSub, newValues, scopes, List.map_cons]

/-- **Enclosing builders are frozen while a subgraph is open.**  Whatever happens in the builder in charge — any
item of any trace function, accepted or refused — the frames of the enclosing
builders (nodes, inputs, outputs, scope stacks) are not touched: the list of enclosing frames stays as it is, or grows
by the current frame (a nested `subgraph` opens), or loses its head, which becomes the builder in charge again exactly
as it was left (a subgraph is finished, refused by `build_graph`, or abandoned by an exception). -/
theorem enclosing_frames_frozen (fns : List Fn) (st : St) (it : Item) :
    (step true fns st it).stack = st.stack ∨
    (step true fns st it).stack = st.cur :: st.stack ∨
    (∃ p rest, st.stack = p :: rest ∧ (step true fns st it).stack = rest ∧ (step true fns st it).cur = p) := by
  have hf : ∀ (s : St) (e : String), (fail s e).stack = s.stack ∧ (fail s e).cur = s.cur := by
    intro s e; unfold fail; split <;> exact ⟨rfl, rfl⟩
  cases it with
  | input n => exact Or.inl rfl
  | op t a o nn g as => exact Or.inl (ss_doOp st t a o nn g as).2
  | push n => exact Or.inl rfl
  | pop => exact Or.inl (stack_popScope st)
  | call f a o as => exact Or.inl (ss_doCall fns st f a o as).2
  | inline fi a o p as => exact Or.inl (stack_doInline prefixLeaks fns st fi a o p as)
  | beginSub g i =>
    refine Or.inr (Or.inl ?_)
    simp only [step, doBeginSub]
  | endSub r d =>
    simp only [step, doEndSub]
    cases hst : st.stack with
    | nil => exact Or.inl ((hf st _).1.trans hst)
    | cons parent rest =>
      refine Or.inr (Or.inr ⟨parent, rest, rfl, ?_⟩)
      simp only []
      split
      · rw [(hf _ _).1, (hf _ _).2]
        simp [abandon, hst]
      · exact ⟨rfl, rfl⟩
  | abortSub =>
    simp only [step, doAbortSub]
    cases hst : st.stack with
    | nil => exact Or.inl ((hf st _).1.trans hst)
    | cons parent rest =>
      refine Or.inr (Or.inr ⟨parent, rest, rfl, ?_⟩)
      simp [abandon, hst]
  | output hd n =>
    refine Or.inl ?_
    simp only [step, doOutput]
    split
    · exact (hf st _).1
    · split
      · split <;> rfl
      · rfl

/-- **A subgraph, whatever happens inside, gives the enclosing builder back exactly as it was.**  Open a subgraph on any
state, run *any* body that stays inside it (`relDepth 0 body = some 0`: operator calls, calls and inlinings — accepted,
refused —, module scopes pushed and popped or left open, nested subgraphs that are finished, refused or
abandoned), then leave it — by returning (`endSub`, accepted or refused by `build_graph`) or by an exception
(`abortSub`): the builder in charge is the enclosing one with the very same frame — nodes, inputs, outputs **and scope
stack** — and the same enclosing builders above it.  Nothing traced in the body lands in, or renames the scopes of, the
parent. -/
theorem subgraph_restores_parent (fns : List Fn) (st : St) (g : String) (i : List String) (body : List Item)
    (close : Item) (hb : relDepth 0 body = some 0) (hc : close = .abortSub ∨ ∃ r d, close = .endSub r d) :
    ((body ++ [close]).foldl (step true fns) (step true fns st (.beginSub g i))).cur = st.cur ∧
    ((body ++ [close]).foldl (step true fns) (step true fns st (.beginSub g i))).stack = st.stack := by
  obtain ⟨pre, hl, hs⟩ := body_keeps_base fns body (step true fns st (.beginSub g i)) 0 [] (st.cur :: st.stack) 0
    (by rw [stack_begin]; rfl) rfl hb
  have hpre : pre = [] := List.length_eq_zero_iff.mp hl
  subst hpre
  rw [List.foldl_append, List.foldl_cons, List.foldl_nil]
  have := stack_leave fns _ close st.cur st.stack hc (by simpa using hs)
  exact ⟨this.2, this.1⟩

/-- non-vacuity: the body of `abortTrace` (a push left open, a node) and a body with a refused prefixed inlining and a
    nested abandoned subgraph. -/
example : relDepth 0 [.push "inner", .op "Neg" [.ref 1] (.auto 1) none [] []] = some 0 := by decide
example : relDepth 0 [.inline 0 [.ref 0, .ref 0] none "blk" [], .beginSub "n" [], .push "q", .abortSub,
    .op "Relu" [.ref 0] (.auto 1) none [] []] = some 0 := by decide
example : relDepth 0 [.op "Relu" [.ref 0] (.auto 1) none [] [], .endSub [1] [""]] = none := by decide

/-- D20j witness (regression case): `x = input; call_inline(ident, x, x, _prefix="blk")` raises "Too many inputs",
the program catches it and goes on. -/
def d20jTrace : List Item :=
  [.input "x", .inline 0 [.ref 0, .ref 0] none "blk" [], .op "Relu" [.ref 0] (.auto 1) none [] []]

/-- …and **on that call the statement was false before the fix** (finding D20j, fixed by 15c1bb3): the prefix stayed
on the scope stack, so every later automatic name carried it (`v_blk.Relu_0`) and so did every initializer realised
by a module called afterwards (`blk.net.fc.weight` instead of `net.fc.weight`). -/
theorem scopes_kept_prefix_refuted :
    ¬ (∀ (fns : List Fn) (st : St) (fi : Nat) (a : List Arg) (o : Option (List String)) (p : String)
        (as : List (String × AVal)), scopes (doInlineWith true true fns st fi a o p as) = scopes st) := by
  intro h
  have := h [fIdent] (build [fIdent] [.input "x"]) 0 [.ref 0, .ref 0] none "blk" []
  revert this
  decide

example : raisingPrefixedInline [fIdent] (.inline 0 [.ref 0, .ref 0] none "blk" []) = true := by decide
example : scopes (doInlineWith true true [fIdent] (build [fIdent] [.input "x"]) 0 [.ref 0, .ref 0] none "blk" [])
    = [["blk"]] := by decide
/-- non-vacuity of `scopes_kept_inline_prefix_partial`: the same refused call without a prefix. -/
example : raisingPrefixedInline [fIdent] (.inline 0 [.ref 0, .ref 0] none "" []) = false := by decide
/-- on the current code the witness is refused and leaves nothing behind. -/
example : (build [fIdent] d20jTrace).err = some "too-many-inputs" := by decide
example : scopes (build [fIdent] d20jTrace) = [[]] := by decide
example : (build [fIdent] d20jTrace).valueNames = ["x", "v_Relu_0"] := by decide
example : scopes (build [fIdent] [.input "x", .push "m", .inline 0 [.ref 0, .ref 0] none "blk" []]) = [["m"]] := by
  decide
/-- non-vacuity of `scopes_kept` on refusals: the same call without a prefix, and with a wrong `_outputs`. -/
example : scopes (build [fIdent] [.input "x", .push "m", .inline 0 [.ref 0, .ref 0] none "" []]) = [["m"]] := by decide
example : scopes (build [fIdent] [.input "x", .push "m", .inline 0 [.ref 0] (some ["a", "b"]) "blk" []]) = [["m"]] := by
  decide
example : (build [fIdent] [.input "x", .push "m", .inline 0 [.ref 0] (some ["a", "b"]) "blk" []]).err
    = some "outputs-mismatch" := by decide
/-- an accepted prefixed inlining pops its prefix. -/
example : scopes (build [fAddMul] [.input "x", .push "m", .inline 0 [.ref 0, .ref 0] none "blk" []]) = [["m"]] := by
  decide
/-- an exception inside a subgraph body in which a module scope was pushed: back in the parent, scope `["m"]`; the
    dropped graph's node still counts (`v_m.Relu_1`, not `_0`). -/
def abortTrace : List Item :=
  [.input "x", .push "m", .beginSub "body" ["i"], .push "inner",
   .op "Neg" [.ref 1] (.auto 1) none [] [], .abortSub, .op "Relu" [.ref 0] (.auto 1) none [] []]
example : scopes (build [] abortTrace) = [["m"]] := by decide
example : (build [] abortTrace).valueNames = ["x", "i", "v_m.inner.Neg_0", "v_m.Relu_1"] := by decide
example : (build [] abortTrace).err = none := by decide

/-! ## Part C — the built graph is well-formed and computes the trace; inlining = calling -/

/-- **Well-formedness** (`build_wf`).  For *every* trace (operator calls, literals, function calls,
`call_inline`, scopes, arbitrarily nested subgraphs) and every graph of the builder tree — the root, the
graphs still open and every finished subgraph, at every nesting depth — every input `i` of every node is a
*defined* value (a root initializer, an input of some graph, or an output of some node) and is either a root
initializer or was created strictly before every output of that node.  Together with single definition (each
value id is placed at exactly one site) this is definition-before-use.
`_partial` in one respect: ONNX *scoping* is not stated — that a value defined inside a finished subgraph is
not used outside it is the caller's obligation (Python lets a trace function leak an inner value). -/
theorem build_wf_partial (fns : List Fn) (tr : List Item) :
    ∀ f ∈ (build fns tr).frames, ∀ n ∈ f.nodes, ∀ i, some i ∈ n.ins →
      Defined (build fns tr) i ∧ (i ∈ (build fns tr).inits ∨ ∀ o ∈ n.outs, i < o) := by
  have hb : Bnd (build fns tr) := Bnd.foldlAll true fns tr St.init Bnd.init
  intro f hf n hn i hi
  obtain ⟨h1, h2⟩ := (hb.nodes f hf n hn).2 i hi
  exact ⟨hb.defined i h1 (by simp), h2⟩

/-- …and every value ever created is defined at a site (no dangling outputs, inputs or constants). -/
theorem build_all_defined (fns : List Fn) (tr : List Item) :
    ∀ i, i < (build fns tr).vnames.length → Defined (build fns tr) i :=
  fun i hi => (Bnd.foldlAll true fns tr St.init Bnd.init).defined i hi (by simp)

/-- **The graph computes the trace** (`build_computes_trace`).  For every subgraph-free trace — operator calls with
handles, literals and `None` as operands, attributes, function calls, **`call_inline`**, module scopes, explicit
names — every interpretation `S` of the operators as functions of (attributes, input values) (A-op; a function-call
node is the operator named by (domain, name, overload)), and every argument list: evaluating the root graph of
`build tr` — initializers holding their literal's value, graph inputs the arguments, nodes in order — gives at every
handle exactly the value the trace's own replay gives, where the replay of `call_inline f` is *what calling `f`
means* (`callMeaning`: the body under the passed attributes and declared defaults).  So, at the level of whole
traces: inlining = calling, constants shared through the cache keep their values, and nothing else is disturbed.
Operands of an inlining may be values, `None` or Python literals (promoted through the constant cache, 06b8334).
Hypothesis: function bodies are SSA (each body node's output names are distinct).
`_partial`: no `subgraph` items (graph-valued attributes are not interpreted). -/
theorem build_computes_trace_partial {α : Type} (S : OpSem α) (fns : List Fn) (args : List α) (tr : List Item)
    (hssa : ∀ f ∈ fns, ∀ n ∈ f.nodes, n.outs.Nodup) (h : ∀ it ∈ tr, simItem it = true) :
    (build fns tr).handles.map (fun o => o.bind (evalGraph S (build fns tr) args))
      = (replay S fns args tr).henv :=
  (sim_foldl S fns args hssa tr St.init ⟨[], 0⟩ h (Sim.init S args)).vals

/-- **Inlining = calling, α-renaming** (`inline_eq_call`, functions without attributes).  The nodes
`call_inline` makes from the body of `f` (`inlineClones`: formals ↦ actuals, every body value a fresh id,
names prefixed), evaluated in *any* environment `e`, give at the function's outputs exactly the values of the
body evaluated over its own names on the actuals' values (`evalBody` — what a call node denotes when the
function symbol is expanded), and leave every earlier value untouched.  Hypotheses: the actuals exist
(`< st.L`) and each body node's outputs are distinct names (SSA body). -/
theorem inline_eq_call_partial {α : Type} (S : OpSem α) (total : Bool) (st : St) (f : Fn)
    (actuals : List (Option Nat)) (e : Env α) (ha : ∀ i, some i ∈ actuals → i < st.L)
    (hssa : ∀ n ∈ f.nodes, n.outs.Nodup) :
    (f.outputs.map (vmapGet (inlineClones total st f actuals).2.1)).map
        (fun o => o.bind (evalNodes S e (inlineClones total st f actuals).2.2))
      = evalBody S f (actuals.map (fun a => a.bind e)) ∧
    ∀ i, i < st.L → evalNodes S e (inlineClones total st f actuals).2.2 i = e i := by
  obtain ⟨c1, c2, _⟩ := cloneNodes_sim S
    (autoNodeName st.cur (nodeCount total st) f.name ++ "/") f.nodes st (f.formals.zip actuals) e
    (bindFormals f.formals (actuals.map (fun a => a.bind e)))
    (vmapGet_zip_bound f.formals actuals st.L ha) (rel_formals e f.formals actuals) hssa
  refine ⟨?_, c2⟩
  simp only [inlineClones, evalBody, List.map_map]
  apply List.map_congr_left
  intro x _
  exact c1 x

/-- `call_inline` really appends those clones (and nothing else) to the current graph and hands back the
values the function's outputs are mapped to — on its success path (all operands are values, not too many,
`_outputs` of the right length). -/
theorem inline_appends_clones (total : Bool) (fns : List Fn) (st : St) (fi : Nat) (args : List Arg)
    (outs : Option (List String)) (pfx : String) (as : List (String × AVal)) (f : Fn) (hf : fns[fi]? = some f)
    (h1 : args.all isRef = true) (h2 : ¬ args.length > f.formals.length) (h3 : outsMismatch outs f = false) :
    (doInline total fns st fi args outs pfx as).cur.nodes = st.cur.nodes ++
      (inlineClones total (if pfx = "" then st else pushScope st pfx) (resolveFn (effectiveAttrs total f as) f)
        (resolveArgs (if pfx = "" then st else pushScope st pfx) args).2).2.2 ∧
    (doInline total fns st fi args outs pfx as).handles = st.handles ++ f.outputs.map (vmapGet
      (inlineClones total (if pfx = "" then st else pushScope st pfx) (resolveFn (effectiveAttrs total f as) f)
        (resolveArgs (if pfx = "" then st else pushScope st pfx) args).2).2.1) :=
  doInline_appends total fns st fi args outs pfx as f hf h1 h2 h3

/-- Corollary (near-definitional: `inline_eq_call_partial` rewritten with the hypothesis `hdef`): under an
interpretation that gives the function symbol the meaning of its body, the values `call_inline` returns equal the
values `call` returns. -/
theorem inline_eq_call_values {α : Type} (S : OpSem α) (total : Bool) (st : St) (f : Fn)
    (actuals : List (Option Nat)) (e : Env α) (ha : ∀ i, some i ∈ actuals → i < st.L)
    (hssa : ∀ n ∈ f.nodes, n.outs.Nodup)
    (as : List (String × AVal))
    (hdef : takeN (S.op f.domain f.name f.overload as (actuals.map (fun a => a.bind e))) f.outputs.length
      = evalBody S f (actuals.map (fun a => a.bind e))) :
    (f.outputs.map (vmapGet (inlineClones total st f actuals).2.1)).map
        (fun o => o.bind (evalNodes S e (inlineClones total st f actuals).2.2))
      = takeN (S.op f.domain f.name f.overload as (actuals.map (fun a => a.bind e))) f.outputs.length := by
  rw [hdef]
  exact (inline_eq_call_partial S total st f actuals e ha hssa).1

/-! ### attributes: `call_inline` with declared defaults = `call` -/

/-- **Inlining = calling, with attributes** (seeded-change class C18-4; D20d).  For every function `f` (body
nodes may carry attribute values and references to attribute parameters, parameters may declare defaults), every
list `passed` of attribute values given by the caller, every actuals, environment and operator interpretation: the
nodes `call_inline` appends — the clones of the body with every reference attribute resolved under
`effectiveAttrs true f passed` = passed values, then the declared default of each parameter not passed — evaluate,
at the function's outputs, to what a *call node* carrying `passed` denotes (`callMeaning`: the body with reference
attributes bound to the passed value, else the declared default), and touch no earlier value.
That `doInline` appends exactly these clones is `inline_appends_clones`.
Hypotheses (the same as `inline_eq_call_partial`, of which this is the instance for the resolved function): the actuals
exist (`< st.L`) and each body node's outputs are distinct names (SSA body). -/
theorem inline_attrs_eq_call {α : Type} (S : OpSem α) (st : St) (f : Fn) (passed : List (String × AVal))
    (actuals : List (Option Nat)) (e : Env α) (ha : ∀ i, some i ∈ actuals → i < st.L)
    (hssa : ∀ n ∈ f.nodes, n.outs.Nodup) :
    (f.outputs.map (vmapGet (inlineClones true st (resolveFn (effectiveAttrs true f passed) f) actuals).2.1)).map
        (fun o => o.bind (evalNodes S e
          (inlineClones true st (resolveFn (effectiveAttrs true f passed) f) actuals).2.2))
      = callMeaning S f passed (actuals.map (fun a => a.bind e)) ∧
    ∀ i, i < st.L → evalNodes S e
      (inlineClones true st (resolveFn (effectiveAttrs true f passed) f) actuals).2.2 i = e i := by
  have hssa' : ∀ n ∈ (resolveFn (effectiveAttrs true f passed) f).nodes, n.outs.Nodup := by
    intro n hn
    simp only [resolveFn, List.mem_map] at hn
    obtain ⟨n0, hn0, rfl⟩ := hn
    exact hssa n0 hn0
  exact inline_eq_call_partial S true st (resolveFn (effectiveAttrs true f passed) f) actuals e ha hssa'

/-- A declared default is used **whatever its value** (`0`, `0.0`, `""`, `[]` included) as soon as the caller does
not pass the attribute… -/
theorem declared_default_is_used (f : Fn) (passed : List (String × AVal)) (p : String) (d : AVal)
    (hp : attrGet passed p = none) (hd : (p, some d) ∈ f.attrParams) :
    (p, d) ∈ effectiveAttrs true f passed := by
  unfold effectiveAttrs
  apply List.mem_append_right
  simp only [if_true, List.mem_filterMap]
  exact ⟨(p, some d), hd, by simp [hp]⟩

/-- …and a passed value always wins over the default. -/
theorem passed_attr_wins (f : Fn) (passed : List (String × AVal)) (p : String) (v : AVal)
    (hp : attrGet passed p = some v) : attrGet (effectiveAttrs true f passed) p = some v := by
  unfold effectiveAttrs attrGet at *
  rw [List.find?_append]
  cases h : passed.find? (fun e => e.1 = p) with
  | none => simp [h] at hp
  | some e => simpa [h] using hp

/-- `leaky(a, alpha = 0.0) = LeakyRelu(a, alpha=alpha)`: a falsy declared default. -/
def fLeaky : Fn := ⟨"leaky", "this", "", ["a"],
  [⟨"n0", "", "LeakyRelu", [some "a"], ["return_val"], [("alpha", .ref "alpha")]⟩], ["return_val"],
  [("alpha", some "f:0.0")]⟩

/-- an interpretation in which the attribute matters: LeakyRelu with `alpha = 0.0` clamps at 0, with the
    operator's own default (attribute absent) it lets negative inputs through. -/
def attrSem : OpSem Int where
  op := fun _ t _ as vs =>
    match t, vs with
    | "LeakyRelu", [some a] => if attrGet as "alpha" = some "f:0.0" then [max a 0] else [a]
    | _, _ => []
  lit := fun _ => 0

def oneInput : St := build [] [.input "x"]

example : (inlineClones true oneInput (resolveFn (effectiveAttrs true fLeaky []) fLeaky) [some 0]).2.2.map
    (fun n => (n.op, n.attrs)) = [("LeakyRelu", [("alpha", "f:0.0")])] := by decide
example : callMeaning attrSem fLeaky [] [some (-5)] = [some 0] := by decide
example : ("alpha", "f:0.0") ∈ effectiveAttrs true fLeaky [] :=
  declared_default_is_used fLeaky [] "alpha" "f:0.0" rfl (by decide)

/-- **Before commit 1ed6700** `call_inline` handed only the passed attributes to the inliner: the reference
attribute of the body was dropped and the inlined node fell back to the operator's own default — inlining ≠ calling
(D20d; the seeded change C18-4 re-creates this for falsy defaults). -/
theorem inline_attrs_prefix_refuted :
    ¬ (∀ (f : Fn) (passed : List (String × AVal)) (e : Env Int),
        (f.outputs.map (vmapGet (inlineClones false oneInput (resolveFn (effectiveAttrs false f passed) f)
            [some 0]).2.1)).map (fun o => o.bind (evalNodes attrSem e
              (inlineClones false oneInput (resolveFn (effectiveAttrs false f passed) f) [some 0]).2.2))
          = callMeaning attrSem f passed [e 0]) := by
  intro h
  have := h fLeaky [] (fun _ => some (-5))
  revert this
  decide

/-! ### non-vacuity -/

/-- a concrete interpretation over `Int`. -/
def intSem : OpSem Int where
  op := fun _ t _ _ vs =>
    match t, vs with
    | "Add", [some a, some b] => [a + b]
    | "Mul", [some a, some b] => [a * b]
    | "Neg", [some a] => [-a]
    | "addmul", [some a, some b] => [a + b, a * b]
    | _, _ => []
  lit := fun k => match k with
    | .num r _ => if r = "3" then 3 else 0
    | .ints _ _ => 0

def semTrace : List Item :=
  [.input "x", .input "y", .op "Add" [.ref 0, .lit (.num "3" 3000 "i64")] (.auto 1) none [] [],
   .push "blk", .op "Mul" [.ref 2, .ref 1] (.named ["p"]) none [] [], .pop,
   .op "Add" [.lit (.num "3" 3000 "i64"), .ref 3] (.auto 1) none [] [], .call 0 [.ref 4, .ref 0] none [],
   .inline 0 [.ref 5, .ref 1] none "pre" [], .inline 0 [.ref 5, .lit (.num "3" 3000 "i64")] none "" [],
   .output 8 (some "out")]

example : ∀ it ∈ semTrace, simItem it = true := by decide
example : (replay intSem [fAddMul] [5, 7] semTrace).henv =
    [some 5, some 7, some 8, some 56, some 59, some 64, some 295, some 71, some 448, some 67, some 192] := by decide
example : ∀ f ∈ [fAddMul], ∀ n ∈ f.nodes, n.outs.Nodup := by decide
example : (build [fAddMul] semTrace).handles.map
      (fun o => o.bind (evalGraph intSem (build [fAddMul] semTrace) [5, 7]))
    = [some 5, some 7, some 8, some 56, some 59, some 64, some 295, some 71, some 448, some 67, some 192] := by decide

/-- `inline_eq_call_partial` instance: inlining `addmul(x, y)` into a graph with inputs 0 ↦ 5, 1 ↦ 7. -/
def twoInputs : St := build [] [.input "x", .input "y"]
example : (inlineClones true twoInputs fAddMul [some 0, some 1]).2.2.map (fun n => (n.op, n.ins, n.outs))
    = [("Add", [some 0, some 1], [2]), ("Mul", [some 0, some 1], [3])] := by decide
example : evalBody intSem fAddMul [some 5, some 7] = [some 12, some 35] := by decide
example : ∀ n ∈ fAddMul.nodes, n.outs.Nodup := by decide

/-! ## Part D — splitting a call's arguments into inputs and attributes -/

/-- **No positional argument is lost.**  For every operator signature (any number of inputs / attributes, with or
without a variadic input), every list of positional arguments and keyword arguments: if
`_partition_inputs_attributes` returns (instead of raising `TypeError`), every positional argument of the traced
call is an input or the value of an attribute of the node.  (Holds for both behaviours of the helper; `~` is the
placeholder token and not an argument.) -/
theorem partition_keeps_positionals (ph : Bool) (sig : List SigParam) (args : List String)
    (kwargs : List (String × String)) (I : List String) (A : List (String × String))
    (hne : ∀ a ∈ args, a ≠ "~") (h : partitionWith ph sig args kwargs = .ok (I, A)) :
    ∀ a ∈ args, a ∈ I ∨ a ∈ A.map (·.2) := by
  unfold partitionWith at h
  split at h
  · cases h
  · exact (partGo_keeps ph sig args kwargs [] [] I A h hne).1

/-- **Every input sits at the position of its parameter** (helper with placeholders, commit b7afd5e).  For a
signature whose inputs are **all non-variadic** and precede its attributes — the shape of an `OpSignature` *without* a
variadic input; operators with one (Concat, Sum, Max, Min, Loop, …) are outside this theorem: for them only
`partition_keeps_positionals` and the per-run `part` correspondence apply — and every call:
the node's inputs are, position by position, the positional argument at that index, else the keyword argument of
that parameter's name, else absent; absent inputs at the end are dropped.  In particular an input given by keyword
after an omitted optional input stays in its own slot (`Clip(x, max=hi)` = `Clip(x, ∅, hi)`). -/
theorem partition_input_positions (ins ats : List SigParam) (args : List String) (kwargs : List (String × String))
    (I : List String) (A : List (String × String))
    (hi : ∀ p ∈ ins, p.isInput = true ∧ p.variadic = false) (ha : ∀ p ∈ ats, p.isInput = false)
    (h : partitionWith true (ins ++ ats) args kwargs = .ok (I, A)) :
    I = stripPh (expectedFrom ins args kwargs) := by
  unfold partitionWith at h
  split at h
  · cases h
  · simpa using partGo_positions ins ats args kwargs [] [] I A hi ha h

def sigClip : List SigParam :=
  [⟨"input", true, false, true, false⟩, ⟨"min", true, false, false, false⟩, ⟨"max", true, false, false, false⟩]

example : partitionWith true sigClip ["x"] [("max", "hi")] = .ok (["x", "~", "hi"], []) := by decide
example : partitionWith true sigClip ["x"] [("min", "lo")] = .ok (["x", "lo"], []) := by decide
example : partitionWith true sigClip ["x"] [] = .ok (["x"], []) := by decide

/-- **Before commit b7afd5e** (helper without placeholders, D20g) the statement was false: `Clip(x, max=hi)` puts
`hi` into the `min` slot. -/
theorem partition_input_positions_prefix_refuted :
    ¬ (∀ (ins ats : List SigParam) (args : List String) (kwargs : List (String × String)) (I : List String)
        (A : List (String × String)), (∀ p ∈ ins, p.isInput = true ∧ p.variadic = false) →
        (∀ p ∈ ats, p.isInput = false) → partitionWith false (ins ++ ats) args kwargs = .ok (I, A) →
        I = stripPh (expectedFrom ins args kwargs)) := by
  intro h
  have := h sigClip [] ["x"] [("max", "hi")] ["x", "hi"] [] (by decide) (by decide) (by decide)
  revert this
  decide

/-- The split depends on the signature **of the call's own opset version**: with the signature of another version
the same call is split differently (`ReduceMax(x, [0])`: `axes` is an input from opset 18 on, an attribute before —
the seeded change C18-5 memoised the signature per operator name). -/
def sigReduceMax17 : List SigParam :=
  [⟨"data", true, false, true, false⟩, ⟨"axes", false, false, false, false⟩, ⟨"keepdims", false, false, false, true⟩]
def sigReduceMax18 : List SigParam :=
  [⟨"data", true, false, true, false⟩, ⟨"axes", true, false, false, false⟩, ⟨"keepdims", false, false, false, true⟩,
   ⟨"noop_with_empty_axes", false, false, false, true⟩]

theorem partition_version_sensitive :
    partition sigReduceMax17 ["x", "ax"] [] ≠ partition sigReduceMax18 ["x", "ax"] [] := by decide

example : partition sigReduceMax18 ["x", "ax"] [("keepdims", "1")] = .ok (["x", "ax"], [("keepdims", "1")]) := by
  decide
example : partition sigReduceMax17 ["x", "ax"] [] = .ok (["x"], [("axes", "ax")]) := by decide
example : partition sigReduceMax17 ["x"] [("axis", "0")] = .error .extraKwargs := by decide
example : partition sigReduceMax17 [] [] = .error (.missing "data") := by decide
example : partition sigReduceMax17 ["x", "a", "k", "z"] [] = .error .tooMany := by decide

end OV.Props.C18
