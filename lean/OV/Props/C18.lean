import OV.Model.C18Builder
import OV.Model.C18NN
import OV.Lemmas.C18NN
import OV.Lemmas.C18Builder
/-!
# C18 — GraphBuilder / nn.Module graphs compute the trace; parameters named like PyTorch

Property theorems only.  Models: `OV.Model.C18Builder` (trace → graphs), `OV.Model.C18NN` (module trees).
-/
namespace OV.Props.C18
open OV.C18

/-! ## Part B — parameters are named like `state_dict()` -/

/-- Module objects a program can build with the public operations of `onnxscript.nn`, each object attached
at most once (`TreeNotDag` at the level of the program), and explicit names only where they agree with the
key (`ExplicitNamesAgree`): a fresh `Module` (any explicit name — it is judged where the object is
attached), `self.attr = Parameter(name=None | attr)`, `self.attr = child` for an unnamed child or a plain
`Module` explicitly named `attr`, the empty `ModuleList()` / `Sequential()`, `append` of an unnamed object
(hence `ModuleList([...])`, `Sequential(...)`, `extend`), and slicing. -/
inductive Built : Mod → Prop
  | module (n : Option String) : Built (mkModule n)
  | param {m : Mod} (attr : String) (pname : Option String) (pid : Nat) :
      Built m → m.kind ≠ .list → (pname = none ∨ pname = some attr) → Built (setParam m attr pname pid)
  | child {m c : Mod} (attr : String) :
      Built m → m.kind = .module → Built c → attr ≠ "" →
      (c.name = none ∨ (c.kind = .module ∧ c.name = some attr)) → Built (setChild m attr c)
  | emptyList : Built (.mk .list none [] .nil)
  | emptySeq : Built (.mk .seq none [] .nil)
  | append {l c : Mod} : Built l → l.kind ≠ .module → Built c → Built (append l c)
  | slice {l : Mod} (idxs : List Nat) : Built l → l.kind ≠ .module → Built (slice l idxs)

/-- Every object built by the public operations satisfies the detached-object invariant: its parameters are
named like their attributes and, once it is given a name by whoever attaches it, all stored names below it
are the ones `Module.__call__`'s scope stack needs. (Structural induction over the construction.) -/
theorem built_good {m : Mod} (h : Built m) : GoodT m := by
  induction h with
  | module n => simp [mkModule, GoodT, ParamsAgree, NamedKey]
  | param attr pname pid _ hk hp ih => exact GoodT.setParam _ attr pname pid hk hp ih
  | child attr _ hm _ ha hcn ihm ihc => exact GoodT.setChild _ _ attr hm ha hcn ihm ihc
  | emptyList => simp [GoodT, GoodAll]
  | emptySeq => simp [GoodT, GoodAll, ParamsAgree]
  | append _ hl _ ihl ihc => exact GoodT.append _ _ hl ihl ihc
  | slice idxs _ hl ih => exact GoodT.slice _ idxs hl ih

/-- **The property (initializer names).**  For every module tree built by the public operations and called
as the root — whatever its depth, its mix of `Module` / `ModuleList` / `Sequential`, its own name (or none)
— the parameters realised by `Module.__call__`/`Parameter._realize`, *in realisation order*, are exactly the
`state_dict()` entries, each initializer named `root.name + "." + key`; every parameter exactly once.
Hypotheses the proof forces: `Built` (explicit names agree with keys, linear construction) and distinct
parameter objects (`TreeNotDag`).  Their necessity: `initializer_names_full_refuted_explicit`,
`initializer_names_full_refuted_shared`. -/
theorem initializer_names_eq_state_dict_partial (root : Mod) (hb : Built root) (hk : root.kind = .module)
    (hd : (pids root).Nodup) :
    realize root = (stateDict "" root).map (fun x => (rootKey root x.1, x.2)) :=
  realize_eq root (GoodT.rootNamed_module root hk (built_good hb)) hd

/-- Same for a `Sequential` that received its name through `_set_name` (assigned to an attribute, then
called as the root of the trace). -/
theorem initializer_names_eq_state_dict_seq_partial (root : Mod) (e : String) (hb : Built root)
    (hk : root.kind = .seq) (hd : (pids (setName root e)).Nodup) :
    realize (setName root e)
      = (stateDict "" (setName root e)).map (fun x => (rootKey (setName root e) x.1, x.2)) :=
  realize_eq _ (GoodT.rootNamed_seq root e hk (built_good hb)) hd

/-- Each parameter appears exactly once: the realised parameter objects are the tree's parameters. -/
theorem each_parameter_once_partial (root : Mod) (hb : Built root) (hk : root.kind = .module)
    (hd : (pids root).Nodup) :
    (realize root).map (·.2) = pids root ∧ ((realize root).map (·.2)).Nodup := by
  have h := initializer_names_eq_state_dict_partial root hb hk hd
  have h2 : (realize root).map (·.2) = pids root := by
    rw [h]
    simp only [List.map_map]
    exact stateDict_pids "" root
  exact ⟨h2, h2 ▸ hd⟩

/-- The invariant at any depth: a child object named as its class dictates realises, under *any* scope
stack, exactly its own `state_dict()` prefixed by the stack and its name (the scope-stack invariant). -/
theorem realize_child_eq_state_dict (m : Mod) (sc : List String) (e : String) (he : e ≠ "")
    (h : Named e m) :
    visit sc m = (stateDict "" m).map (fun x => (qualifyInit (sc ++ [e]) x.1, x.2)) :=
  visit_eq m sc e he h

mutual
  /-- `named_parameters()` and `state_dict()` enumerate the same keys for the same parameters. -/
  theorem named_parameters_eq_state_dict (p : String) : ∀ m : Mod, namedParams p m = stateDict p m
    | .mk _ _ ps cs => by
      simp only [namedParams, stateDict]
      rw [named_parameters_all_eq p cs]
  theorem named_parameters_all_eq (p : String) : ∀ cs : Mods, namedParamsAll p cs = stateDictAll p cs
    | .nil => rfl
    | .cons k m r => by
      simp only [namedParamsAll, stateDictAll]
      rw [named_parameters_eq_state_dict (pfx p k) m, named_parameters_all_eq p r]
end

/-- `append` on a list that already has its name (`self.layers.append(m)` after `self.layers = ModuleList()`)
keeps the invariant: the new child is renamed `name.key` by `_register_child`. -/
theorem append_after_naming_keeps_names (l c : Mod) (e : String) (hl : l.kind = .list) (hn : Named e l)
    (hc : GoodT c) (hcn : c.name = none) : Named e (append l c) := by
  cases l with
  | mk k n ps cs =>
    simp only [Mod.kind] at hl
    subst hl
    simp only [Named] at hn
    obtain ⟨rfl, hp, hps, hq⟩ := hn
    simp only [append, regChild, Mod.kind, regChildList, Named]
    refine ⟨trivial, hp, hps, NamedQual.insert cs e _ _ (toString_nat_ne_empty _) ?_ hq⟩
    simp only [listChild, hcn]
    exact GoodT.named c _ hc

/-! ### non-vacuity and witnesses -/

def lin (name : Option String) (pid : Nat) : Mod := setParam (mkModule name) "weight" none pid

/-- `net{ fc: Lin, layers: ModuleList([Lin, Sequential(Lin, Lin)]) }` -/
def sampleNet : Mod :=
  setChild (setChild (mkModule (some "net")) "fc" (lin none 0)) "layers"
    (append (append (.mk .list none [] .nil) (lin none 1))
      (append (append (.mk .seq none [] .nil) (lin none 2)) (lin none 3)))

theorem lin_built (n : Option String) (p : Nat) : Built (lin n p) :=
  Built.param "weight" none p (Built.module n) (by simp [mkModule, Mod.kind]) (Or.inl rfl)

example : Built sampleNet :=
  Built.child "layers"
    (Built.child "fc" (Built.module _) rfl (lin_built _ _) (by decide) (Or.inl rfl)) rfl
    (Built.append (Built.append Built.emptyList (by decide) (lin_built _ _)) (by decide)
      (Built.append (Built.append Built.emptySeq (by decide) (lin_built _ _)) (by decide) (lin_built _ _)))
    (by decide) (Or.inl rfl)

example : realize sampleNet =
    [("net.fc.weight", 0), ("net.layers.0.weight", 1), ("net.layers.1.0.weight", 2),
     ("net.layers.1.1.weight", 3)] := by decide

example : (pids sampleNet).Nodup := by decide

/-- D20b: `self.fc = Lin(name="custom")`. -/
def explicitNet : Mod := setChild (mkModule (some "net")) "fc" (lin (some "custom") 0)

/-- The full statement (any explicit name) is false: initializer `net.custom.weight`, key `fc.weight`. -/
theorem initializer_names_full_refuted_explicit :
    ¬ (∀ root : Mod, (pids root).Nodup →
        realize root = (stateDict "" root).map (fun x => (rootKey root x.1, x.2))) := by
  intro h
  have := h explicitNet (by decide)
  revert this
  decide

/-- One `Lin` object registered under two parents (`b1.fc` and `b2.fc`; both keys are `fc`, so every stored
name agrees with its key): realised once, listed twice by `state_dict()`. -/
def sharedNet : Mod :=
  setChild (setChild (mkModule (some "net")) "b1" (setChild (mkModule none) "fc" (lin none 0))) "b2"
    (setChild (mkModule none) "fc" (lin none 0))

/-- Without `TreeNotDag` the statement is false even when every name agrees with its key. -/
theorem initializer_names_full_refuted_shared :
    ¬ (∀ root : Mod, RootNamed root →
        realize root = (stateDict "" root).map (fun x => (rootKey root x.1, x.2))) := by
  intro h
  have hr : RootNamed sharedNet := by
    simp [sharedNet, setChild, attrChild, mkModule, lin, setParam, insertParam, Mods.insert, Mod.name,
      setName, RootNamed, NamedKey, Named, ParamsAgree]
  have := h sharedNet hr
  revert this
  decide

/-! ## Part A — names generated by `GraphBuilder` -/

/-- **Names are unique** (after commit e9794aa — no `NoSubgraphs` hypothesis any more).  In every trace —
operator calls, function calls, literals, explicit names, module scopes and **arbitrarily nested
`subgraph` constructions** — every automatically generated value name is made from a *different*
(scope, op, node-count, output-index) tuple: `_adapt_outputs` reads `_node_count()` = the nodes of the
root graph and of all subgraphs of the builder tree, every call appends exactly one node to one of them,
opening and closing a subgraph only moves graphs between "current / enclosing / finished", so the count
strictly increases along the trace.
Still `_partial`: (i) `call_inline` is excluded (`simpleItem`): its names are `prefix + body name`, another
family, and can collide (`names_unique_noinline_needed`, D20c); (ii) the statement is about the tuples, not
their rendering `v_{scope}.{op}_{count}[_{i}]`, which is not injective
(`names_unique_refuted_opname`, D20f). -/
theorem names_unique_partial (fns : List Fn) (tr : List Item) (h : ∀ it ∈ tr, simpleItem it = true) :
    ((build fns tr).vkeys.filter isAutoKey).Nodup :=
  (Inv.foldl fns tr St.init h Inv.init).2

/-- …and each of those tuples carries a count below the final number of nodes of the whole builder tree. -/
theorem auto_counts_bounded_partial (fns : List Fn) (tr : List Item) (h : ∀ it ∈ tr, simpleItem it = true) :
    ∀ k ∈ (build fns tr).vkeys, ∀ p o c i, k = VKey.auto p o c i → c < nodeCount true (build fns tr) :=
  (Inv.foldl fns tr St.init h Inv.init).1

/-- D20a witness (regression case): main graph, `then` and `else` bodies each call `Add` first. -/
def d20aTrace : List Item :=
  [.input "x", .input "c", .op "Add" [.ref 0, .ref 0] (.auto 1) none [],
   .beginSub "then" [], .op "Add" [.ref 0, .lit (.num "1.0" 1000 "f32")] (.auto 1) none [], .endSub [3] [""],
   .beginSub "else" [], .op "Add" [.ref 0, .lit (.num "2.0" 2000 "f32")] (.auto 1) none [], .endSub [4] [""],
   .op "If" [.ref 1] (.auto 1) none [0, 1]]

/-- **Before the fix** (per-graph counter, `buildPrefix`) the statement was false — for the tuples, the
rendered value names and the node names alike: all three graphs defined `v_Add_0` / `Add_node_0`. -/
theorem names_unique_prefix_refuted :
    ¬ (∀ tr : List Item, ((buildPrefix [] tr).vkeys.filter isAutoKey).Nodup) ∧
    ¬ (∀ tr : List Item, (buildPrefix [] tr).valueNames.Nodup) ∧
    ¬ (∀ tr : List Item, (buildPrefix [] tr).nodeNames.Nodup) := by
  refine ⟨fun h => ?_, fun h => ?_, fun h => ?_⟩ <;>
  · have := h d20aTrace
    revert this
    decide

example : (buildPrefix [] d20aTrace).valueNames =
    ["x", "c", "v_Add_0", "const_1.0_f32", "v_Add_0", "const_2.0_f32", "v_Add_0", "v_If_1"] := by decide

/-- the same trace on the current code (also the non-vacuity instance with subgraphs). -/
example : (build [] d20aTrace).valueNames =
    ["x", "c", "v_Add_0", "const_1.0_f32", "v_Add_1", "const_2.0_f32", "v_Add_2", "v_If_3"] := by decide
example : (build [] d20aTrace).nodeNames = ["Add_node_0", "If_node_3", "Add_node_1", "Add_node_2"] := by decide
example : ∀ it ∈ d20aTrace, simpleItem it = true := by decide

/-- non-vacuity of `names_unique_partial`: a trace with scopes, literals, a multi-output op and a call. -/
def simpleTrace : List Item :=
  [.input "x", .push "blk", .op "Add" [.ref 0, .lit (.num "1" 1000 "f32")] (.auto 1) none [],
   .op "Split" [.ref 1] (.auto 3) none [], .pop, .call 0 [.ref 2, .ref 3] none, .output 5 (some "out")]

def fAddMul : Fn := ⟨"addmul", "c18", "", ["a0", "a1"],
  [⟨"Add_node_0", "", "Add", [some "a0", some "a1"], ["v_Add_0"]⟩,
   ⟨"Mul_node_1", "", "Mul", [some "a0", some "a1"], ["v_Mul_1"]⟩], ["v_Add_0", "v_Mul_1"]⟩

example : ∀ it ∈ simpleTrace, simpleItem it = true := by decide
example : (build [fAddMul] simpleTrace).valueNames =
    ["x", "const_1_f32", "v_blk.Add_0", "v_blk.Split_1_0", "v_blk.Split_1_1", "v_blk.Split_1_2",
     "out", "v_addmul_2_1"] := by decide

/-- D20c: `call_inline` of a function returning its own input renames the caller's value in place. -/
def fIdent : Fn := ⟨"ident", "c18", "", ["a0"], [], ["a0"]⟩
def d20cTrace : List Item :=
  [.input "x", .op "Relu" [.ref 0] (.named ["x"]) none [], .inline 0 [.ref 0] none ""]

/-- with `call_inline` allowed, rendered value names are not unique even without subgraphs. -/
theorem names_unique_noinline_needed :
    ¬ (∀ (fns : List Fn) (tr : List Item), (∀ it ∈ tr, isSub it = false) →
        (build fns tr).valueNames.Nodup) := by
  intro h
  have := h [fIdent] d20cTrace (by decide)
  revert this
  decide

example : (build [fIdent] d20cTrace).valueNames = ["v_x", "v_x"] := by decide

/-- D20f: the rendering is not injective — `f` (4 outputs, node 1) and `f_1` (1 output, node 3) both give
`v_f_1_3`, in a trace of plain calls. -/
def fFour : Fn := ⟨"f", "c18", "", ["a0"], [], ["a0", "a0", "a0", "a0"]⟩
def fOne : Fn := ⟨"f_1", "c18", "", ["a0"], [], ["a0"]⟩
def d20fTrace : List Item :=
  [.input "x", .op "Relu" [.ref 0] (.auto 1) none [], .call 0 [.ref 1] none,
   .op "Add" [.ref 2, .ref 3] (.auto 1) none [], .call 1 [.ref 6] none]

theorem names_unique_refuted_opname :
    ¬ (∀ (fns : List Fn) (tr : List Item), (∀ it ∈ tr, simpleItem it = true) →
        (build fns tr).valueNames.Nodup) := by
  intro h
  have := h [fFour, fOne] d20fTrace (by decide)
  revert this
  decide

end OV.Props.C18
