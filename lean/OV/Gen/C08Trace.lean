import OV.Gen.C08Trace0
import OV.Gen.C08Trace1
import OV.Gen.C08Trace2
import OV.Gen.C08Trace3
import OV.Gen.C08Trace4
import OV.Gen.C08Trace5
import OV.Gen.C08Trace6
import OV.Gen.C08Trace7
import OV.Gen.C08Trace8
import OV.Gen.C08Trace9
import OV.Gen.C08Trace10
import OV.Gen.C08Trace11
import OV.Gen.C08Trace12
import OV.Gen.C08Trace13
import OV.Gen.C08Trace14
import OV.Gen.C08Trace15
import OV.Gen.C08Trace16
import OV.Gen.C08Trace17
import OV.Gen.C08Trace18
import OV.Gen.C08Trace19
import OV.Gen.C08Trace20
import OV.Gen.C08Trace21
import OV.Gen.C08Trace22
import OV.Gen.C08Trace23
import OV.Gen.C08Trace24
import OV.Gen.C08Trace25
import OV.Gen.C08Trace26
import OV.Gen.C08Trace27
import OV.Gen.C08Trace28
import OV.Gen.C08Trace29
/-! GENERATED — the whole trace table. -/
namespace OV.Gen.C08Trace
def traceTable : List (String × String) := table0 ++ (table1 ++ (table2 ++ (table3 ++ (table4 ++ (table5 ++ (table6 ++ (table7 ++ (table8 ++ (table9 ++ (table10 ++ (table11 ++ (table12 ++ (table13 ++ (table14 ++ (table15 ++ (table16 ++ (table17 ++ (table18 ++ (table19 ++ (table20 ++ (table21 ++ (table22 ++ (table23 ++ (table24 ++ (table25 ++ (table26 ++ (table27 ++ (table28 ++ (table29)))))))))))))))))))))))))))))
def nRows : Nat := 957

theorem ok_all : ∀ e ∈ traceTable, e.1 = e.2 := by
  intro e he
  simp only [traceTable, List.mem_append] at he
  rcases he with he | he | he | he | he | he | he | he | he | he | he | he | he | he | he | he | he | he | he | he | he | he | he | he | he | he | he | he | he | he
  all_goals first | exact ok0 e he | exact ok1 e he | exact ok2 e he | exact ok3 e he | exact ok4 e he | exact ok5 e he | exact ok6 e he | exact ok7 e he | exact ok8 e he | exact ok9 e he | exact ok10 e he | exact ok11 e he | exact ok12 e he | exact ok13 e he | exact ok14 e he | exact ok15 e he | exact ok16 e he | exact ok17 e he | exact ok18 e he | exact ok19 e he | exact ok20 e he | exact ok21 e he | exact ok22 e he | exact ok23 e he | exact ok24 e he | exact ok25 e he | exact ok26 e he | exact ok27 e he | exact ok28 e he | exact ok29 e he
end OV.Gen.C08Trace
