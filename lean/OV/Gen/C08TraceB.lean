import OV.Gen.C08TraceB0
import OV.Gen.C08TraceB1
/-! GENERATED — the second trace table (round-5 families). -/
namespace OV.Gen.C08TraceB
def traceTable : List (String × String) := table0 ++ (table1)
def nRows : Nat := 57

theorem ok_all : ∀ e ∈ traceTable, e.1 = e.2 := by
  intro e he
  simp only [traceTable, List.mem_append] at he
  rcases he with he | he
  all_goals first | exact ok0 e he | exact ok1 e he
end OV.Gen.C08TraceB
