import OV.Model.C07Graph
/-
  OV.Model.C07Apply — C07: what `RewriteRuleSet.apply_to_model` does to a model.

  Core Lean only.  Anchors (onnxscript/rewriter/_rewrite_rule.py):
    `_update_opset_imports`                    → `updOpsets`
    `RewriteRule.try_rewrite`                  → `tryRule` (match, replacement, output arity, opsets)
    `_apply_to_graph_or_function`              → `passLoop` (iteration over the *mutating* node list,
                                                  first applicable rule, recursion into the graph
                                                  attributes of the node that was just visited)
    initializer registration (≈703-722)        → `registerInits` (clash: the new value is renamed `name_k`; fix 340a24c)
                                                 `registerInitsPrefix` = the code before the fix (overwrite)
    `as_function` branch, `_copy_for_function`,
    `_get_new_overload`                        → `asFunction`, `newOverload`
    rule-name tag + `MetadataMerger`           → `tagAndMerge`
    `convenience.replace_nodes_and_values`     → `applyAt` (onnx_ir; contract parameter, executed for real by the tie)
    `RewriteRuleSet.apply_to_model`            → `applyToModel`
    `rewrite()` (rewriter/__init__.py)         → `rewriteModel` (= `applyToModel` + the three clean-up passes)

  The matcher is C06's.  Theorems take a `Match` as given; the driver needs *some* executable
  matcher to predict whole passes, so `matchAt` transcribes `SimplePatternMatcher` for the
  pattern class the C07 generators use (single output node, variables, constant attributes).
-/
namespace OV.C07

def RULE_NAME_TAG : String := "pkg.onnxscript.rewriter.rule_name"

/-! ## Rules -/

inductive PRef where
  | var (k : Nat) | out (node idx : Nat) | none
  deriving DecidableEq, Repr, Inhabited

structure PNode where
  op : String
  domain : String
  inputs : List PRef
  nOut : Nat
  attrs : List (String × String) := []
  deriving Repr, Inhabited

/-- Pattern with a single output node `root`; `outputs` are `out root j`. -/
structure Pat where
  nodes : List PNode
  root : Nat
  outputs : List PRef
  deriving Repr, Inhabited

inductive TRef where
  | var (k : Nat) | out (node idx : Nat) | init (k : Nat) | none
  deriving DecidableEq, Repr, Inhabited

structure TNode where
  op : String
  domain : String
  version : Option Nat
  inputs : List TRef
  nOut : Nat
  attrs : List (String × String) := []
  deriving Repr, Inhabited

/-- What the replacement function does on its tape: initializers, nodes, returned values.
`uniqueInits`: the function numbers its initializer names by call (`name_<call#>`). -/
structure Repl where
  inits : List (String × String)
  uniqueInits : Bool
  nodes : List TNode
  outputs : List TRef
  deriving Repr, Inhabited

structure Rule where
  name : String            -- "" = unnamed
  removeNodes : Bool
  asFunction : Bool
  guardTag : Bool          -- condition function: root not already tagged by this rule
  pat : Pat
  repl : Repl
  deriving Repr, Inhabited

/-- A successful match, as `MatchResult` reports it. -/
structure Match where
  root : Nat                          -- id of the node the pattern's output node matched
  nodes : List Nat                    -- ids of matched nodes, in binding order
  bindings : List (Nat × Option Name) -- pattern variable ↦ value
  outputs : List Name                 -- values bound to the pattern outputs
  deriving Repr, Inhabited, DecidableEq

/-! ## Graph queries -/

def producer (g : Graph) (x : Name) : Option (Node × Nat) :=
  g.nodes.findSome? fun n => (n.outputs.idxOf? x).map fun i => (n, i)

def nodeById (g : Graph) (id : Nat) : Option Node := g.nodes.find? (·.id == id)

/-- `Value.uses()` restricted to consumers: nodes of `g` reading `x` directly or from a body. -/
def consumers (g : Graph) (x : Name) : List Nat :=
  (g.nodes.filter fun n => n.reads.contains x).map (·.id)

/-- `_valid_to_replace` -/
def validToReplace (g : Graph) (matched : List Nat) (outs : List Name) : Bool :=
  (g.nodes.filter fun n => matched.contains n.id).all fun n =>
    n.outputs.all fun v =>
      outs.contains v ||
      (!(g.outputs.contains v) && (consumers g v).all (matched.contains ·))

/-! ## `SimplePatternMatcher` for the pattern class above -/

structure MSt where
  nb : List (Nat × Nat) := []                 -- pattern node ↦ node id
  vb : List (PRef × Option Name) := []        -- value bindings
  nodes : List Nat := []
  deriving Inhabited

def bindValue (st : MSt) (p : PRef) (v : Option Name) : Option MSt :=
  match st.vb.lookup p with
  | some v' => if v' == v then some st else none
  | none => some { st with vb := st.vb ++ [(p, v)] }

def attrsMatch (want : List (String × String)) (have_ : List (String × String)) : Bool :=
  want.all fun kv => have_.lookup kv.1 == some kv.2

mutual
def matchNode (g : Graph) (p : Pat) : Nat → MSt → Nat → Node → Option MSt
  | 0, _, _, _ => none
  | f + 1, st, pi, node =>
    match st.nb.lookup pi with
    | some nid => if nid == node.id then some st else none
    | none =>
      match p.nodes[pi]? with
      | none => none
      | some pn =>
        if !(pn.op == node.op && pn.domain == node.domain && attrsMatch pn.attrs node.attrs) then none
        else
          let st := { st with nb := st.nb ++ [(pi, node.id)], nodes := st.nodes ++ [node.id] }
          if node.inputs.length > pn.inputs.length then none
          else
            let vals := node.inputs ++ List.replicate (pn.inputs.length - node.inputs.length) none
            match matchInputs g p f st (vals.zip pn.inputs) with
            | none => none
            | some st =>
              if pn.nOut > node.outputs.length then none
              else (List.range pn.nOut).foldlM (fun st j => bindValue st (.out pi j) (node.outputs[j]?)) st
def matchInputs (g : Graph) (p : Pat) : Nat → MSt → List (Option Name × PRef) → Option MSt
  | 0, _, _ => none
  | _ + 1, st, [] => some st
  | f + 1, st, (v, pr) :: rest =>
    match matchValue g p f st v pr with
    | none => none
    | some st => matchInputs g p f st rest
def matchValue (g : Graph) (p : Pat) : Nat → MSt → Option Name → PRef → Option MSt
  | 0, _, _, _ => none
  | f + 1, st, v, pr =>
    match pr with
    | .none => if v.isNone then some st else none
    | .var k =>
      match bindValue st (.var k) v with
      | none => none
      | some st => if v.isNone then none else some st
    | .out pi j =>
      match v with
      | none => none
      | some x =>
        if !(g.defined.contains x) then none   -- value of another graph: only variables may bind it
        else match bindValue st (.out pi j) v with
          | none => none
          | some st =>
            match producer g x with
            | none => none
            | some (n, i) => if i != j then none else matchNode g p f st pi n
end

/-- backward slice of a pattern node (the pattern nodes it reaches through its inputs) -/
def backSlice (p : Pat) : Nat → List Nat → List Nat → List Nat
  | 0, acc, _ => acc
  | _ + 1, acc, [] => acc
  | f + 1, acc, i :: todo =>
    if acc.contains i then backSlice p f acc todo
    else
      let ins := (p.nodes[i]?.map (·.inputs)).getD []
      backSlice p f (acc ++ [i]) (ins.filterMap (fun r => match r with | .out n _ => some n | _ => none) ++ todo)

/-- `GraphPattern.output_nodes`: producers of the outputs, in order, skipping those already
covered by the backward slice of an earlier one. -/
def outputNodes (p : Pat) : List Nat :=
  (p.outputs.foldl (fun (acc : List Nat × List Nat) o => match o with
    | .out n _ => if acc.2.contains n then acc else (acc.1 ++ [n], backSlice p 1000 acc.2 [n])
    | _ => acc) ([], [])).1

/-- `itertools.product`: the last list varies fastest -/
def product {α} : List (List α) → List (List α)
  | [] => [[]]
  | l :: rest => l.flatMap fun x => (product rest).map (x :: ·)

/-- one candidate assignment of graph nodes to the pattern's output nodes (`_multi_match`; for a
single output node `_match_single_output_node`): structural match, output values, removability -/
def matchCombo (g : Graph) (r : Rule) (ghost : List Name) (combo : List (Nat × Node)) : Option (MSt × List Name) :=
  match combo.foldlM (fun st (pi, n) => matchNode g r.pat 1000 st pi n) ({} : MSt) with
  | none => none
  | some st =>
    match r.pat.outputs.mapM (fun o => (st.vb.lookup o).bind id) with
    | none => none
    | some outs =>
      -- `ghost`: values still read by replacement nodes that were built and then discarded (`uses()` sees them)
      let interior := ((g.nodes.filter fun n => st.nodes.contains n.id).flatMap (·.outputs)).filter fun v => !(outs.contains v)
      if r.removeNodes && (!(validToReplace g st.nodes outs) || interior.any (ghost.contains ·)) then none
      else some (st, outs)

/-- `Pattern.match` at `node`.  The node is matched against the pattern's first output node; for
the remaining output nodes every combination of graph nodes with the same operator identifier is
tried in graph order (`SimplePatternMatcher.match`), the first one that matches structurally and
is removable wins; then the `guardTag` condition function. -/
def matchAt (g : Graph) (r : Rule) (node : Node) (ghost : List Name := []) : Option Match :=
  match outputNodes r.pat with
  | [] => none
  | first :: others =>
    let cands := others.map fun pi =>
      match r.pat.nodes[pi]? with
      -- since 750cd8e the candidates are keyed by (domain, op_type) only: `NodePattern.matches` ignores the overload
      | some pn => (g.nodes.filter fun n => n.domain == pn.domain && n.op == pn.op).map fun n => (pi, n)
      | none => []
    match (product ([(first, node)] :: cands)).findSome? (matchCombo g r ghost) with
    | none => none
    | some (st, outs) =>
      let tagged := match node.mprops.lookup RULE_NAME_TAG with
        | some t => (t.splitOn ", ").contains r.name
        | none => false
      if r.guardTag && tagged then none
      else
        let binds := st.vb.filterMap fun (pr, v) => match pr with | .var k => some (k, v) | _ => none
        some { root := node.id, nodes := st.nodes, bindings := binds, outputs := outs }

/-! ## Model-level state -/

structure Func where
  domain : String
  name : String
  overload : String
  opsets : List (String × Nat)
  body : Graph
  deriving Inhabited

structure Model where
  opsets : List (String × Nat)
  graph : Graph
  funcs : List Func
  ghost : List Name := []   -- uses held by detached bodies (see dead-code elimination)
  deriving Inhabited

inductive Kind where | main | func | sub
  deriving DecidableEq, Repr

/-- State threaded through a pass: model-wide opset imports, functions, fresh-id counter,
application count, number of replacement-function calls. -/
structure PassSt where
  mainOpsets : List (String × Nat)
  funcs : List Func
  nextId : Nat
  count : Nat := 0
  calls : Nat := 0
  ghost : List Name := []   -- values still "used" by replacement nodes that were built and then discarded
  names : List Name := []   -- `RewriteRuleSet._value_names`: names of all values of the model (fix c9666a4)
  deriving Inhabited

/-- `_update_opset_imports`: `none` = `ValueError` (two versions of one domain). -/
def updOpsets (imports : List (String × Nat)) : List (String × Option Nat) → Option (List (String × Nat))
  | [] => some imports
  | (d, v) :: rest =>
    match imports.lookup d with
    | none => updOpsets (imports ++ [(d, v.getD 1)]) rest
    | some cur =>
      match v with
      | some v' => if v' != cur then none else updOpsets imports rest
      | none => updOpsets imports rest

/-! ## Instantiating the replacement -/

/-- A value returned by the replacement function: an output of one of its new nodes, a value that
already existed (a bound input, an initializer), or `None`. -/
inductive NewOut where
  | fresh (t : Name) | existing (x : Name) | none
  deriving DecidableEq, Repr, Inhabited

structure Delta where
  newNodes : List Node
  newOutputs : List NewOut
  newInits : List (Name × String)
  usedOpsets : List (String × Option Nat)
  deriving Inhabited

def freshName (id j : Nat) : Name := s!"%{id}_{j}"

def tref (m : Match) (base : Nat) (inits : List (Name × String)) : TRef → Option Name
  | .var k => (m.bindings.lookup k).bind id
  | .out n j => some (freshName (base + n) j)
  | .init k => (inits[k]?).map (·.1)
  | .none => none

/-- order of fix 630be50: `sorted(used_opsets, key=(domain, version is not None, version or 0))` -/
def usedLe (a b : String × Option Nat) : Bool :=
  if a.1 != b.1 then a.1 < b.1
  else match a.2, b.2 with
    | none, _ => true
    | some _, none => false
    | some x, some y => x ≤ y

def insertUsed (x : String × Option Nat) : List (String × Option Nat) → List (String × Option Nat)
  | [] => [x]
  | y :: r => if usedLe x y then x :: y :: r else y :: insertUsed x r

/-- `TapeBuilder.used_opsets` (a set of (domain, version)), in the order `_update_opset_imports`
iterates it since 630be50 -/
def usedOf (ns : List TNode) : List (String × Option Nat) :=
  (ns.foldl (fun acc n => if acc.contains (n.domain, n.version) then acc else acc ++ [(n.domain, n.version)]) []).foldl
    (fun acc x => insertUsed x acc) []

/-- `ReplacementPatternFunction.get_replacement`: new nodes get ids `base, base+1, …`. -/
def nominalInits (r : Repl) (call : Nat) : List (Name × String) :=
  r.inits.map fun (n, t) => (if r.uniqueInits then s!"{n}_{call}" else n, t)

/-- `inits`: the initializer values the function created, under the names they end up with (a
value renamed at registration is the same object the tape nodes read). -/
def instantiate (r : Repl) (m : Match) (base : Nat) (inits : List (Name × String)) : Delta :=
  let nodes := (List.range r.nodes.length).zip r.nodes |>.map fun (i, tn) =>
    Node.mk (base + i) tn.op tn.domain "" (tn.inputs.map (tref m base inits))
      ((List.range tn.nOut).map (freshName (base + i))) tn.attrs [] [] []
  { newNodes := nodes
    newOutputs := r.outputs.map fun o => match o with
      | .out n j => .fresh (freshName (base + n) j)
      | o => match tref m base inits o with | some x => .existing x | none => .none
    newInits := inits
    usedOpsets := usedOf r.nodes }

/-! ## Renaming -/

def renName (a b : Name) (x : Name) : Name := if x == a then b else x

mutual
def renNode (a b : Name) : Nat → Node → Node
  | 0, n => n
  | d + 1, n =>
    .mk n.id n.op n.domain n.overload (n.inputs.map (·.map (renName a b))) (n.outputs.map (renName a b))
      n.attrs n.mprops (n.caps.map (renName a b)) (n.subs.map fun s => (s.1, renGraph a b d s.2))
def renGraph (a b : Name) : Nat → Graph → Graph
  | 0, g => g
  | d + 1, g =>
    .mk (g.inputs.map (renName a b)) (g.inits.map fun (x, t) => (renName a b x, t))
      (g.nodes.map (renNode a b d)) (g.outputs.map (renName a b))
end

/-- redirect the *uses* of `a` to `b` (not its definition): inputs, captures, bodies, graph outputs -/
def redirectUses (a b : Name) (d : Nat) (g : Graph) : Graph :=
  .mk g.inputs g.inits
    (g.nodes.map fun n =>
      .mk n.id n.op n.domain n.overload (n.inputs.map (·.map (renName a b))) n.outputs n.attrs n.mprops
        (n.caps.map (renName a b)) (n.subs.map fun s => (s.1, renGraph a b d s.2)))
    (g.outputs.map (renName a b))

/-! ## Naming and initializer registration (after fixes 340a24c and c9666a4)

`RewriteRuleSet._value_names` holds the names of all values of the model (all graphs, subgraphs and
functions; collected by `apply_to_model`, extended by every name given here).
`_fresh_value_name(base)` = the first `base_k` (k = 1, 2, …) not in the set, which is then added.
A new initializer whose name is a key of `graph.initializers` or is in the set is renamed that
way; otherwise its name is added to the set; nothing registered is ever replaced.
The search is rendered over `k ≤ |names| + 1` (`none` only if none of these is free). -/

def freshIn (names : List Name) (base : Name) : Option Name :=
  ((List.range (names.length + 1)).map fun k => base ++ "_" ++ toString (k + 1)).find? fun y => !(names.contains y)

def freshInitName (names taken : List Name) (x : Name) : Option Name :=
  if !(taken.contains x) && !(names.contains x) then some x else freshIn names x

/-- Returns the graph, the initializers under their final names, and the extended name set. -/
def registerInits (names : List Name) (g : Graph) :
    List (Name × String) → Option (Graph × List (Name × String) × List Name)
  | [] => some (g, [], names)
  | (x, t) :: rest =>
    match freshInitName names g.initNames x with
    | none => none
    | some y =>
      match registerInits (names ++ [y]) (g.setInits (g.inits ++ [(y, t)])) rest with
      | none => none
      | some (g', r, names') => some (g', (y, t) :: r, names')

/-- `for n in delta.new_nodes: for v in n.outputs: if not v.name: v.name = _fresh_value_name("val")`:
`temps` are the (still unnamed, rendered `%id_j`) outputs of the new nodes in order. -/
def nameNewValues : List Name → List Name → List Node → List NewOut → Option (List Node × List NewOut × List Name)
  | names, [], ns, os => some (ns, os, names)
  | names, t :: temps, ns, os =>
    match freshIn names "val" with
    | none => none
    | some y =>
      nameNewValues (names ++ [y]) temps (ns.map (renNode t y 1))
        (os.map fun o => match o with | .fresh t' => if t' == t then .fresh y else .fresh t' | o => o)

/-! ### the code before the fix (kept for the refutation `registerInits_prefix_refuted`)

The first loop only printed on a clash; the second loop assigned unconditionally.  Assigning to an
existing key replaces the registered `ir.Value` object: the users of the old object keep pointing
at a value that is no longer an initializer.  Name-based rendering: the old users are redirected
to the dangling name `†<name>`. -/

def dangling (x : Name) : Name := "†" ++ x

def registerInitPrefix (d : Nat) (g : Graph) (x : Name) (tok : String) : Graph :=
  if g.initNames.contains x then
    let g := redirectUses x (dangling x) d g
    g.setInits (g.inits.map fun (y, t) => if y == x then (y, tok) else (y, t))
  else g.setInits (g.inits ++ [(x, tok)])

def registerInitsPrefix (d : Nat) (g : Graph) (is : List (Name × String)) : Graph :=
  is.foldl (fun g (x, t) => registerInitPrefix d g x t) g

/-! ## Metadata (rule-name tag, `MetadataMerger.copy_merged_metadata`) -/

def metaSet (m : List (String × String)) (k v : String) : List (String × String) :=
  if (m.lookup k).isSome then m.map fun (k', v') => if k' == k then (k', v) else (k', v') else m ++ [(k, v)]

/-- `MetadataMerger.update_dict` with mergers `{RULE_NAME_TAG: join(", ")}`, default `None`. -/
def updateDict (updated updates : List (String × String)) : List (String × String) :=
  updates.foldl (fun upd (k, nv) =>
    if nv == "" then upd
    else match upd.lookup k with
      | some ov =>
        if ov != "" then (if k == RULE_NAME_TAG then metaSet upd k (ov ++ ", " ++ nv) else upd)
        else metaSet upd k nv
      | none => metaSet upd k nv) updated

def tagAndMerge (ruleName : String) (from_ : List Node) (to : List Node) : List Node :=
  let to := if ruleName != "" then to.map fun n => n.setMeta (metaSet n.mprops RULE_NAME_TAG ruleName) else to
  match to with
  | [t] => [t.setMeta (from_.foldl (fun u n => updateDict u n.mprops) t.mprops)]
  | _ =>
    let merged := from_.foldl (fun u n => updateDict u n.mprops) []
    to.map fun t => t.setMeta (updateDict t.mprops merged)

/-! ## The splice: `convenience.replace_nodes_and_values(graph, root, old_nodes, new_nodes, old_values, new_values)`

Name-based rendering of the object-level steps:
 1. each new value takes the *name* of the old value it replaces;
 2. every use of an old value (node inputs, captures inside nested bodies, graph outputs) is
    redirected to the new value — textually the same name once step 1 is done; if the old
    producer is kept (`remove_nodes=False`) its now unused output is left behind under a dead name;
    if the new value is an *existing* value (the replacement returned one of its inputs) that
    existing value is renamed everywhere it occurs, graph inputs included;
 3. the new nodes are inserted after the root node, 4. the old nodes are removed. -/

def deadName (x : Name) : Name := "‡" ++ x

def insertAfter (ns : List Node) (rootId : Nat) (new : List Node) : List Node :=
  ns.flatMap fun n => if n.id == rootId then n :: new else [n]

/-- step 1 on the new nodes: each fresh output name becomes the name of the value it replaces -/
def transferNames (pairs : List (Name × NewOut)) (newNodes : List Node) : List Node :=
  pairs.foldl (fun ns (o, nv) => match nv with
      | .fresh t => ns.map (renNode t o 1)
      | _ => ns) newNodes

/-- old producers that stay (`remove_nodes=False`): their replaced outputs become dead names -/
def retireOld (g : Graph) (m : Match) (removeNodes : Bool) : Graph :=
  if removeNodes then g else
    g.setNodes (g.nodes.map fun n =>
      if m.nodes.contains n.id then n.setOutputs (n.outputs.map fun o => if m.outputs.contains o then deadName o else o) else n)

/-- steps 3 and 4: insert after the root, remove the matched nodes iff `removeNodes` -/
def spliceNodes (ns : List Node) (rootId : Nat) (matched : List Nat) (new : List Node) (removeNodes : Bool) :
    List Node :=
  let ns1 := insertAfter ns rootId new
  if removeNodes then ns1.filter fun n => !(matched.contains n.id) else ns1

/-- an *existing* value returned by the replacement is renamed to the old output's name, everywhere -/
def renamePassthru (d : Nat) (pairs : List (Name × NewOut)) (g : Graph) : Graph :=
  pairs.foldl (fun g (o, nv) => match nv with
    | .existing x => renGraph x o d g
    | _ => g) g

/-- Two pattern outputs may be bound to the *same* old value (two pattern nodes matched by one
graph node): the first new value takes over its uses and its name, the later ones replace a value
that has no uses left and end up under another name (`NameFixPass`). -/
def dedupOuts : List Name → List Name → List Name
  | _, [] => []
  | seen, o :: rest =>
    (if seen.contains o then deadName (o ++ "#" ++ toString seen.length) else o) :: dedupOuts (seen ++ [o]) rest

def applyAt (d : Nat) (g : Graph) (m : Match) (newNodes : List Node) (newOutputs : List NewOut)
    (removeNodes : Bool) : Graph :=
  let pairs := (dedupOuts [] m.outputs).zip newOutputs
  let g1 := retireOld g m removeNodes
  renamePassthru d pairs
    (g1.setNodes (spliceNodes g1.nodes m.root m.nodes (transferNames pairs newNodes) removeNodes))

/-! ## `as_function` (≈725-755) -/

def newOverload (funcs : List Func) (domain name : String) : Nat → Nat → String
  | 0, k => toString k
  | f + 1, k =>
    if funcs.any (fun fn => fn.domain == domain && fn.name == name && fn.overload == toString k)
    then newOverload funcs domain name f (k + 1) else toString k

/-- Python `{**base, **over}`: `base`'s keys in order with `over`'s values where it has the key,
then the `over`-only keys. -/
def mergeOpsets (base over : List (String × Nat)) : List (String × Nat) :=
  base.map (fun kv => (kv.1, (over.lookup kv.1).getD kv.2)) ++
    over.filter (fun kv => !(base.any (fun mv => mv.1 == kv.1)))

/-- The imports an extracted function's own are filtered from (fixes 35ad500, 04d2d07): inside a
model-local *function* the function's imports override the model's; in a graph or subgraph the
model's imports override the container's own dict (which may hold default versions recorded by
`_update_opset_imports`). -/
def parentOpsets (isFunc : Bool) (main lo : List (String × Nat)) : List (String × Nat) :=
  if isFunc then mergeOpsets main lo else mergeOpsets lo main

/-- Result: the call node with its overload set, and the new function; `none` = the code raises.
`parentOpsets`: the imports the function's own are filtered from (see `OV.C07.parentOpsets`; the
container's alone before 35ad500, `mergeOpsets model container` before 04d2d07). -/
def asFunction (g : Graph) (parentOpsets : List (String × Nat)) (funcs : List Func) (m : Match)
    (newNodes : List Node) : Option (Node × Func) :=
  match newNodes with
  | [call] =>
    let ov := newOverload funcs call.domain call.op (funcs.length + 1) 1
    let orig := g.nodes.filter fun n => m.nodes.contains n.id
    let formals := call.inputs.map fun x => x.getD ""
    let known := formals ++ orig.flatMap (·.outputs)
    -- `_copy_for_function`: graph attributes unsupported; every read must be a formal or computed inside
    if orig.any (fun n => !n.subs.isEmpty) then none
    else if !(orig.all fun n => n.inputNames.all (known.contains ·)) then none
    else if !(m.outputs.all (known.contains ·)) then none
    else
      let used := orig.map (·.domain)
      let body : Graph := .mk formals [] orig m.outputs
      some (call.setOverload ov,
        { domain := call.domain, name := call.op, overload := ov,
          opsets := parentOpsets.filter (fun kv => used.contains kv.1), body := body })
  | _ => none

def BIG : Nat := 100000

mutual
def bodyReadsNodes : Nat → List Node → List Name
  | 0, _ => []
  | d + 1, ns => ns.flatMap fun n => n.inputNames ++ n.subs.flatMap fun s => bodyReadsGraph d s.2
def bodyReadsGraph : Nat → Graph → List Name
  | 0, _ => []
  | d + 1, g => bodyReadsNodes d g.nodes
end

/-- `graph.remove(old_nodes, safe=True)` raises when a value of a removed node still has a user
outside the removed set: a replacement node reading an *interior* matched value (a pattern
variable may bind the output of another matched node; `_valid_to_replace` does not look at the
replacement). -/
def unsafeRemove (matched : List Node) (outs : List Name) (newNodes : List Node) : Bool :=
  let interior := (matched.flatMap (·.outputs)).filter fun v => !(outs.contains v)
  newNodes.any fun n => n.reads.any (interior.contains ·)

/-- The test of fix f6e9b0d: some replacement node reads, or the replacement returns, an interior
value of the match. -/
def readsRemoved (matched : List Node) (outs : List Name) (newNodes : List Node) (newOutputs : List NewOut) : Bool :=
  let interior := (matched.flatMap (·.outputs)).filter fun v => !(outs.contains v)
  unsafeRemove matched outs newNodes ||
    newOutputs.any fun o => match o with | .existing x => interior.contains x | _ => false

/-- Fixes e8a0767, 1dc987d, aef7e04: every returned value that is one of the listed names (`routeNames`:
inputs and outputs of the graph or function being rewritten, values of another graph) is replaced by
the output of a new `Identity` node reading it. -/
def addIdentities (inputs : List Name) : Nat → List NewOut → List Node × List NewOut
  | _, [] => ([], [])
  | base, .existing x :: rest =>
    if inputs.contains x then
      (Node.mk base "Identity" "" "" [some x] [freshName base 0] [] [] [] [] :: (addIdentities inputs (base + 1) rest).1,
       .fresh (freshName base 0) :: (addIdentities inputs (base + 1) rest).2)
    else ((addIdentities inputs base rest).1, .existing x :: (addIdentities inputs base rest).2)
  | base, .fresh t :: rest => ((addIdentities inputs base rest).1, .fresh t :: (addIdentities inputs base rest).2)
  | base, .none :: rest => ((addIdentities inputs base rest).1, .none :: (addIdentities inputs base rest).2)

/-- Fix aef7e04: returned values that belong to *another* graph — an existing value that the graph
being rewritten does not define (an outer-scope value seen from inside an If/Loop body). -/
def foreignOuts (g : Graph) (outs : List NewOut) : List Name :=
  outs.filterMap fun o => match o with
    | .existing x => if g.defined.contains x then none else some x
    | _ => none

/-- `_must_route(v)`: graph input, graph output, or — when the container is a `Graph`, not a
`Function` — a value of another graph. -/
def routeNames (isFunc : Bool) (g : Graph) (outs : List NewOut) : List Name :=
  g.inputs ++ g.outputs ++ (if isFunc then [] else foreignOuts g outs)

/-- The test of fix f8abc79: the replacement has no nodes of its own, exactly one routing `Identity`
was created, the match is exactly one node, a default-domain `Identity`, and its input is the routed value. -/
def noProgress (g : Graph) (m : Match) (newNodes idNodes : List Node) : Bool :=
  newNodes.isEmpty && idNodes.length == 1 &&
  match m.nodes, idNodes with
  | [nid], [idn] =>
    (match nodeById g nid with
     | some n => n.op == "Identity" && n.domain == "" && n.inputs.head? == idn.inputs.head?
     | none => false)
  | _, _ => false

/-! ## `try_rewrite` + the body of the rule loop -/

inductive Err where
  | opsetClash | outputArity | asFunction | unsafeRemove | fuel | unmodelled (what : String)
  deriving Repr, DecidableEq

/-- Outcome of offering one rule at one node. -/
inductive Step where
  | noMatch (st : PassSt) (lo : List (String × Nat))
  | skipped (st : PassSt) (lo : List (String × Nat))         -- function + new initializers: `continue`
  | applied (st : PassSt) (lo : List (String × Nat)) (g : Graph) (firstNew : Nat)


def tryRule (kind : Kind) (r : Rule) (st : PassSt) (lo : List (String × Nat)) (g : Graph) (node : Node) :
    Except Err Step :=
  match matchAt g r node st.ghost with
  | none => .ok (.noMatch st lo)
  | some m =>
    let st := { st with calls := st.calls + 1 }
    let nominal := nominalInits r.repl st.calls
    -- functions take no initializers (the rule is skipped below); otherwise the values are registered,
    -- renamed on a clash; the registered graph is used only once the opset updates went through
    match (if kind == .func then some (g, nominal, st.names) else registerInits st.names g nominal) with
    | none => .error (.unmodelled "no free initializer name")
    | some (gReg, finalInits, namesReg) =>
    let δ := instantiate r.repl m st.nextId finalInits
    let st := { st with nextId := st.nextId + δ.newNodes.length }
    if δ.newOutputs.length != r.pat.outputs.length then .error .outputArity
    else
      -- `_update_opset_imports(graph_or_function)`, then `_update_opset_imports(model.graph)`
      let loIn := if kind == .main then st.mainOpsets else lo
      match updOpsets loIn δ.usedOpsets with
      | none => .error .opsetClash
      | some lo1 =>
        match updOpsets (if kind == .main then lo1 else st.mainOpsets) δ.usedOpsets with
        | none => .error .opsetClash
        | some main1 =>
          let st := { st with mainOpsets := main1 }
          let lo1 := if kind == .main then main1 else lo1
          -- fix f6e9b0d: a replacement that reads (or returns) a value of a node about to be removed is skipped
          let matched0 := m.nodes.filterMap (nodeById g)
          let tapeGhost := (δ.newNodes.flatMap (·.inputNames)).filter (fun x => !((δ.newInits.map (·.1)).contains x))
          if r.removeNodes && readsRemoved matched0 m.outputs δ.newNodes δ.newOutputs then
            .ok (.skipped { st with ghost := st.ghost ++ tapeGhost } lo1)
          else
          if !δ.newInits.isEmpty && kind == .func then
            -- the tape nodes are dropped but stay registered as users of the values they read
            -- (the initializer values created by this call are new objects, not the registered ones)
            .ok (.skipped { st with ghost := st.ghost ++
              (δ.newNodes.flatMap (·.inputNames)).filter (fun x => !((δ.newInits.map (·.1)).contains x)) } lo1)
          else
            let g := gReg
            let st := { st with names := namesReg }
            let res : Except Err (PassSt × List Node) :=
              if r.asFunction then
                match asFunction g (parentOpsets (kind == .func) st.mainOpsets lo1) st.funcs m δ.newNodes with
                | none => .error .asFunction
                | some (call, fn) => .ok ({ st with funcs := st.funcs ++ [fn] }, [call])
              else .ok (st, δ.newNodes)
            match res with
            | .error e => .error e
            | .ok (st, newNodes) =>
              -- fixes e8a0767, 1dc987d, aef7e04: a returned graph input, graph output or value of another graph
              -- goes through an Identity node
              let (idNodes, newOuts) := addIdentities (routeNames (kind == .func) g δ.newOutputs) st.nextId δ.newOutputs
              -- fix f8abc79: replacing `Identity(v)` by the routing `Identity(v)` is no progress (and the new node would be
              -- matched again for ever): the rule is skipped, the next rule is tried, nothing is counted
              if noProgress g m newNodes idNodes then
                if !δ.newInits.isEmpty then .error (.unmodelled "no-progress skip after initializer registration")
                else .ok (.skipped { st with ghost := st.ghost ++ idNodes.flatMap (·.inputNames) } lo1)   -- the discarded Identity keeps its use
              else
              let st := { st with nextId := st.nextId + idNodes.length }
              let newNodes := newNodes ++ idNodes
              let δ := { δ with newOutputs := newOuts }
              let matchedNodes := m.nodes.filterMap (nodeById g)
              let newNodes := tagAndMerge r.name matchedNodes newNodes
              -- fix c9666a4: the unnamed new values get model-wide fresh `val_k` names before insertion
              match nameNewValues st.names (newNodes.flatMap (·.outputs)) newNodes δ.newOutputs with
              | none => .error (.unmodelled "no free value name")
              | some (newNodes, namedOuts, names') =>
              let st := { st with names := names' }
              let δ := { δ with newOutputs := namedOuts }
              if δ.newOutputs.any (· == .none) then .error (.unmodelled "replacement returned None")
              else if !r.removeNodes && δ.newOutputs.any (fun o => match o with | .existing _ => true | _ => false) then
                .error (.unmodelled "passthru with kept nodes")
              else
                let g' := applyAt BIG g m newNodes δ.newOutputs r.removeNodes
                .ok (.applied { st with count := st.count + 1 } lo1 g' (newNodes.head?.map (·.id) |>.getD 0))

/-- `for rule in self.rules: …; break` -/
def tryRules (kind : Kind) : List Rule → PassSt → List (String × Nat) → Graph → Node → Except Err Step
  | [], st, lo, _, _ => .ok (.noMatch st lo)
  | r :: rs, st, lo, g, node =>
    match tryRule kind r st lo g node with
    | .error e => .error e
    | .ok (.applied st lo g' f) => .ok (.applied st lo g' f)
    | .ok (.noMatch st lo) => tryRules kind rs st lo g node
    | .ok (.skipped st lo) => tryRules kind rs st lo g node

/-! ## `_apply_to_graph_or_function`: the iteration discipline

`for node in graph_or_function` walks `onnx_ir`'s doubly linked list: after the body ran for
`node`, the iterator follows `node`'s *own* `next` link as it is then.  New nodes were inserted
right after `node` before it was unlinked, so **the nodes of the replacement are visited next**;
a replacement that matches its own pattern is rewritten again.  The model keeps the current graph
and the id of the node under the cursor; `successor` reads the link after the body ran. -/

def Graph.ids (g : Graph) : List Nat := g.nodes.map (·.id)

/-- on node ids (object identities), before and after the body ran -/
def successor (before after : List Nat) (cur : Nat) : Option Nat :=
  -- `cur` still linked: its successor in `after`; unlinked: first new node if any, else its old successor
  match after.dropWhile (· != cur) with
  | _ :: nxt :: _ => some nxt
  | [_] => none
  | [] => ((before.dropWhile (· != cur)).drop 1).find? (after.contains ·)

/-- apply `recurse` to every body of `node` in attribute order, threading the state -/
def recurseBodies (recurse : PassSt → Graph → Except Err (PassSt × Graph)) :
    PassSt → List (String × Graph) → Except Err (PassSt × List (String × Graph))
  | st, [] => .ok (st, [])
  | st, (k, b) :: rest =>
    match recurse st b with
    | .error e => .error e
    | .ok (st, b') =>
      match recurseBodies recurse st rest with
      | .error e => .error e
      | .ok (st, rest') => .ok (st, (k, b') :: rest')

def passLoop (rules : List Rule) (kind : Kind)
    (recurse : PassSt → Graph → Except Err (PassSt × Graph)) :
    Nat → PassSt → List (String × Nat) → Graph → Option Nat → Except Err (PassSt × List (String × Nat) × Graph)
  | 0, _, _, _, _ => .error .fuel
  | _ + 1, st, lo, g, none => .ok (st, lo, g)
  | fuel + 1, st, lo, g, some cur =>
    match nodeById g cur with
    | none => .error (.unmodelled "cursor lost")
    | some node =>
      match tryRules kind rules st lo g node with
      | .error e => .error e
      | .ok step =>
        let (st, lo, g1, next) := match step with
          | .applied st lo g' first =>
            -- new nodes sit right after the root; if the splice inserted nothing, fall back to the link
            (st, lo, g', if g'.ids.contains first then some first else successor g.ids g'.ids cur)
          | .noMatch st lo => (st, lo, g, successor g.ids g.ids cur)
          | .skipped st lo => (st, lo, g, successor g.ids g.ids cur)
        -- "Apply rewrite rules to subgraphs of the node" — the node object visited, even if just removed
        match recurseBodies recurse st node.subs with
        | .error e => .error e
        | .ok (st, subs') =>
          let g2 := g1.setNodes (g1.nodes.map fun n =>
            if n.id == cur then n.setBodies (capsOf BIG subs') subs' else n)
          passLoop rules kind recurse fuel st lo g2 next

/-! ## `Graph.sort()` (onnx_ir; contract, executable rendering) — fix a8da06e calls it at the end
of `_apply_to_graph_or_function` when a rule with several output nodes is in the set and the call
applied something.  Reverse Kahn over the graph and all its subgraphs: nodes in pre-order
(a node, then the nodes of its bodies); predecessors of a node = producers of its inputs (if in
the set) and the top-level nodes of its bodies; repeatedly pop the zero-child node with the
largest index; each graph's new order is the reverse of its pop order.  Identity on sorted graphs. -/

mutual
def flatNodes : Nat → List Node → List Node
  | 0, _ => []
  | d + 1, ns => ns.flatMap fun n => n :: n.subs.flatMap fun s => flatGraph d s.2
def flatGraph : Nat → Graph → List Node
  | 0, _ => []
  | d + 1, g => flatNodes d g.nodes
end

def sortPreds (flat : List Node) (n : Node) : List Nat :=
  (n.inputNames.filterMap fun x => (flat.find? fun m => m.outputs.contains x).map (·.id)) ++
    n.subs.flatMap fun s => s.2.nodes.map (·.id)

def countOcc (l : List Nat) (x : Nat) : Nat := (l.filter (· == x)).length

/-- pop order; `depth` = remaining child counts, `queue` = ids with zero children -/
def kahn (idx : Nat → Nat) (preds : Nat → List Nat) : Nat → List (Nat × Nat) → List Nat → List Nat → List Nat
  | 0, _, _, acc => acc
  | _ + 1, _, [], acc => acc
  | f + 1, depth, q :: queue, acc =>
    let cur := (q :: queue).foldl (fun b x => if idx x > idx b then x else b) q
    let queue := (q :: queue).filter (· != cur)
    let (depth, queue) := (preds cur).foldl (fun (dq : List (Nat × Nat) × List Nat) p =>
        let depth := dq.1.map fun (i, c) => if i == p then (i, c - 1) else (i, c)
        if (depth.lookup p) == some 0 then (depth, dq.2 ++ [p]) else (depth, dq.2)) (depth, queue)
    kahn idx preds f depth queue (acc ++ [cur])

mutual
def reorderNodes : Nat → List Nat → List Node → List Node
  | 0, _, ns => ns
  | d + 1, order, ns =>
    let ids := ns.map (·.id)
    (order.filter (ids.contains ·)).filterMap fun i =>
      (ns.find? (·.id == i)).map fun n => n.setBodies n.caps (n.subs.map fun s => (s.1, reorderGraph d order s.2))
def reorderGraph : Nat → List Nat → Graph → Graph
  | 0, _, g => g
  | d + 1, order, g => g.setNodes (reorderNodes d order g.nodes)
end

def sortGraph (g : Graph) : Graph :=
  let flat := flatGraph BIG g
  let allPreds := flat.flatMap (sortPreds flat)
  let depth := flat.map fun n => (n.id, countOcc allPreds n.id)
  let idx (i : Nat) : Nat := (flat.map (·.id)).idxOf i
  let preds (i : Nat) : List Nat := ((flat.find? (·.id == i)).map (sortPreds flat)).getD []
  let queue := (depth.filter (·.2 == 0)).map (·.1)
  let pops := kahn idx preds (flat.length + 1) depth queue []
  reorderGraph BIG pops.reverse g

/-- one graph-or-function: depth-indexed knot for the recursion into bodies; a body starts with
its own (empty after deserialisation) `opset_imports` -/
def applyRules (rules : List Rule) (fuel : Nat) : Nat → Kind → PassSt → List (String × Nat) → Graph →
    Except Err (PassSt × List (String × Nat) × Graph)
  | 0, _, _, _, _ => .error .fuel
  | d + 1, kind, st, lo, g =>
    match passLoop rules kind
      (fun st b => match applyRules rules fuel d .sub st [] b with
        | .error e => .error e
        | .ok (st, _, b') => .ok (st, b'))
      fuel st lo g (g.nodes.head?.map (·.id)) with
    | .error e => .error e
    | .ok (st', lo', g') =>
      -- fix a8da06e: `if count and any(not has_single_output_node …): graph_or_function.sort()`
      if st'.count > st.count && rules.any (fun r => (outputNodes r.pat).length != 1) then .ok (st', lo', sortGraph g')
      else .ok (st', lo', g')

/-! ## Dead-code elimination (`RemoveUnusedNodesPass`, onnx_ir — contract; executable rendering)

Reverse sweep; a node goes when none of its outputs is a graph output or has a use.  Removing a
node detaches *its* inputs, but the nodes inside the bodies of a removed `If`/`Loop` keep their
uses: values they read stay "used" (`ghost` names) for the rest of this pass and for later passes. -/

/-- uses that survive the removal of `n` -/
def ghostOf (n : Node) : List Name := n.subs.flatMap fun s => freeGraph BIG s.2   -- outer values only: names bound inside the bodies are other objects

mutual
/-- nodes in *reverse* order; `live` = graph outputs + ghosts + reads of the later nodes kept so far.
Returns the kept nodes (in order) and the ghost names created. -/
def dceNodes : Nat → List Name → List Node → List Node × List Name
  | 0, _, ns => (ns.reverse, [])
  | _ + 1, _, [] => ([], [])
  | d + 1, live, n :: before =>
    if n.outputs.any (live.contains ·) then
      let (subs', gh) := dceSubs d live n.subs
      let n' := n.setBodies (capsOf BIG subs') subs'
      let (kept, gh') := dceNodes d (live ++ n'.reads ++ gh) before
      (kept ++ [n'], gh ++ gh')
    else
      let gh := ghostOf n
      let (kept, gh') := dceNodes d (live ++ gh) before
      (kept, gh ++ gh')
def dceSubs : Nat → List Name → List (String × Graph) → List (String × Graph) × List Name
  | 0, _, ss => (ss, [])
  | _ + 1, _, [] => ([], [])
  | d + 1, live, (k, g) :: rest =>
    let (g', gh) := dceGraph d live g
    let (rest', gh') := dceSubs d (live ++ gh) rest
    ((k, g') :: rest', gh ++ gh')
def dceGraph : Nat → List Name → Graph → Graph × List Name
  | 0, _, g => (g, [])
  | d + 1, ghosts, g =>
    let (ns, gh) := dceNodes d (g.outputs ++ ghosts) g.nodes.reverse
    (g.setNodes ns, gh)
end

def allReads (g : Graph) : List Name := g.outputs ++ g.nodes.flatMap (·.reads)

def dceFuncs (ghost : List Name) : List Func → List Func × List Name
  | [] => ([], ghost)
  | f :: rest =>
    let (b, gh) := dceGraph BIG ghost f.body
    let (rest', gh') := dceFuncs (ghost ++ gh) rest
    ({ f with body := b } :: rest', gh')

def dceModel (m : Model) : Model :=
  let (g, gh) := dceGraph BIG m.ghost m.graph
  let ghost := m.ghost ++ gh
  let used := allReads g ++ g.inputs ++ ghost
  let g := g.setInits (g.inits.filter fun (x, _) => used.contains x)
  let (fs, ghost) := dceFuncs ghost m.funcs
  { m with graph := g, funcs := fs, ghost := ghost }

/-! ## `RemoveUnusedFunctionsPass`, `RemoveUnusedOpsetsPass` (onnx_ir; executable rendering) -/

mutual
def opIdsNodes : Nat → List Node → List (String × String × String)
  | 0, _ => []
  | d + 1, ns => ns.flatMap fun n => (n.domain, n.op, n.overload) :: n.subs.flatMap fun s => opIdsGraph d s.2
def opIdsGraph : Nat → Graph → List (String × String × String)
  | 0, _ => []
  | d + 1, g => opIdsNodes d g.nodes
end

def Func.ident (f : Func) : String × String × String := (f.domain, f.name, f.overload)

def reachableFuncs (funcs : List Func) : Nat → List (String × String × String) → List (String × String × String) →
    List (String × String × String)
  | 0, seen, _ => seen
  | _ + 1, seen, [] => seen
  | fuel + 1, seen, id :: todo =>
    if seen.contains id then reachableFuncs funcs fuel seen todo
    else match funcs.find? (·.ident == id) with
      | none => reachableFuncs funcs fuel seen todo
      | some f => reachableFuncs funcs fuel (seen ++ [id]) (opIdsGraph BIG f.body ++ todo)

def removeUnusedFunctions (m : Model) : Model :=
  let used := reachableFuncs m.funcs BIG [] (opIdsGraph BIG m.graph)
  { m with funcs := m.funcs.filter fun f => used.contains f.ident }

def removeUnusedOpsets (m : Model) : Model :=
  -- the default domain "" is always retained; the main graph also retains every function's domain
  let doms (g : Graph) := (opIdsGraph BIG g).map (·.1)
  { m with
    opsets := m.opsets.filter (fun kv => ("" :: doms m.graph ++ m.funcs.map (·.domain)).contains kv.1)
    funcs := m.funcs.map fun f => { f with opsets := f.opsets.filter fun kv => ("" :: doms f.body).contains kv.1 } }

/-! ## `RewriteRuleSet(rules, commute=True)`: `RewriteRule.commute` / `GraphPattern.commute` -/

def COMMUTATIVE_OPS : List String :=
  ["Add", "Mul", "And", "Or", "Xor", "BitwiseAnd", "BitwiseOr", "BitwiseXor", "Equal", "Max", "Mean", "Min", "Sum"]

def commuteChoices (pn : PNode) : List Bool :=
  if pn.domain == "" && COMMUTATIVE_OPS.contains pn.op && pn.inputs.length == 2 then [false, true] else [false]

/-- One rule per element of `itertools.product` over the pattern's nodes (the last node varies
fastest): the pattern with the operands of the flagged commutative binary nodes swapped; matcher,
condition, replacement, name, `remove_nodes`, `as_function` and the visitors are those of the rule. -/
def commuteRule (r : Rule) : List Rule :=
  (product (r.pat.nodes.map commuteChoices)).map fun sw =>
    { r with pat := { r.pat with nodes := (r.pat.nodes.zip sw).map fun (pn, s) =>
        if s then { pn with inputs := pn.inputs.reverse } else pn } }

/-! ## `RewriteRuleSet.apply_to_model` and `rewrite()` -/

mutual
def maxIdNodes : Nat → List Node → Nat
  | 0, _ => 0
  | d + 1, ns => ns.foldl (fun acc n => max acc (max n.id ((n.subs.map fun s => maxIdGraph d s.2).foldl max 0))) 0
def maxIdGraph : Nat → Graph → Nat
  | 0, _ => 0
  | d + 1, g => maxIdNodes d g.nodes
end

mutual
/-- `_collect_value_names`: inputs, initializers and node outputs of a graph and all its subgraphs -/
def collectNamesNodes : Nat → List Node → List Name
  | 0, _ => []
  | d + 1, ns => ns.flatMap fun n => n.outputs ++ n.subs.flatMap fun s => collectNames d s.2
def collectNames : Nat → Graph → List Name
  | 0, _ => []
  | d + 1, g => g.inputs ++ g.initNames ++ collectNamesNodes d g.nodes
end

def applyFuncs (rules : List Rule) (fuel : Nat) (orig : List (String × String × String)) :
    PassSt → List (String × String × String) → Except Err PassSt
  | st, [] => .ok st
  | st, id :: rest =>
    if !orig.contains id then applyFuncs rules fuel orig st rest else
    match st.funcs.find? (·.ident == id) with
    | none => applyFuncs rules fuel orig st rest
    | some f =>
      match applyRules rules fuel 64 .func st f.opsets f.body with
      | .error e => .error e
      | .ok (st, lo, body') =>
        let st := { st with funcs := st.funcs.map fun f' => if f'.ident == id then { f' with opsets := lo, body := body' } else f' }
        applyFuncs rules fuel orig st rest

/-- Returns the application count and the rewritten model.  `NameFixPass` (run when count > 0)
only renames; the rendering keeps names symbolic and the tie compares modulo renaming of
non-interface values, so it is the identity here. -/
def applyToModel (rules : List Rule) (fuel : Nat) (m : Model) : Except Err (Nat × Model) :=
  let base := max (maxIdGraph BIG m.graph) ((m.funcs.map fun f => maxIdGraph BIG f.body).foldl max 0) + 1
  let st : PassSt := { mainOpsets := m.opsets, funcs := m.funcs, nextId := base,
                       names := collectNames BIG m.graph ++ m.funcs.flatMap fun f => collectNames BIG f.body }
  let orig := m.funcs.map (·.ident)
  match applyRules rules fuel 64 .main st m.opsets m.graph with
  | .error e => .error e
  | .ok (st, _, g') =>
    match applyFuncs rules fuel orig st orig with
    | .error e => .error e
    | .ok st =>
      let m' : Model := { opsets := st.mainOpsets, graph := g', funcs := st.funcs, ghost := st.ghost }
      let m' := if rules.any (fun r => !r.removeNodes) then dceModel m' else m'
      .ok (st.count, m')

/-- `rewrite(model, rules)`: `RewritePass`, then RemoveUnusedNodes/Functions/Opsets. -/
def rewriteModel (rules : List Rule) (fuel : Nat) (m : Model) : Except Err (Nat × Model) :=
  match applyToModel rules fuel m with
  | .error e => .error e
  | .ok (c, m') => .ok (c, removeUnusedOpsets (removeUnusedFunctions (dceModel m')))

end OV.C07
