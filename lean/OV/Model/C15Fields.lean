import OV.Model.C15Wrappers
/-!
# C15 — the proto fields behind the carriers

`fieldCarrier msg field` is the model's claim of which carrier a field of `ModelProto` / `GraphProto` belongs to
(`NodeProto` fields live inside `nodes`, `FunctionProto` fields inside `functions`).  `ModelProto.graph` is the
container of the graph-level carriers and has no carrier of its own.  A field the model does not know maps to
`none` — the table theorem over the installed descriptors (`OV.Props.C15Fields`) then fails.

Core Lean only.
-/
namespace OV.C15

def fieldCarrier : String → String → Option Carrier
  | "ModelProto", "ir_version" => some .irVersion
  | "ModelProto", "opset_import" => some .opsetImports
  | "ModelProto", "producer_name" => some .producerName
  | "ModelProto", "producer_version" => some .producerVersion
  | "ModelProto", "domain" => some .domain
  | "ModelProto", "model_version" => some .modelVersion
  | "ModelProto", "doc_string" => some .docString
  | "ModelProto", "metadata_props" => some .metadataProps
  | "ModelProto", "training_info" => some .otherModel
  | "ModelProto", "configuration" => some .otherModel
  | "ModelProto", "functions" => some .functions
  | "GraphProto", "node" => some .nodes
  | "GraphProto", "name" => some .graphName
  | "GraphProto", "initializer" => some .initializers
  | "GraphProto", "sparse_initializer" => some .otherGraph
  | "GraphProto", "doc_string" => some .graphDoc
  | "GraphProto", "input" => some .graphInputs
  | "GraphProto", "output" => some .graphOutputs
  | "GraphProto", "value_info" => some .valueInfo
  | "GraphProto", "quantization_annotation" => some .otherGraph
  | "GraphProto", "metadata_props" => some .graphMeta
  | "NodeProto", _ => some .nodes
  | "FunctionProto", _ => some .functions
  | _, _ => none

/-- Fields `onnx_ir` has no carrier for: populated in `M`, gone in `N M` (finding C15-SPARSE). -/
def knownLoss : List (String × String) :=
  [("ModelProto", "training_info"), ("GraphProto", "sparse_initializer")]

/-- Carriers on which the serde contract "everything populated reappears" is claimed. -/
def Carrier.lossless : Carrier → Bool
  | .otherGraph | .otherModel => false
  | _ => true

end OV.C15
