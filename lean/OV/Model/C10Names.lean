/-!
# C10 — names of the values created by adapters (`_collect_value_names`, `_name_new_values`)

Since 40eff54 the converter collects every value name of the model once (`used`) and gives each value an adapter
creates the first `val_<n>` (counter `n` only goes up) that is not in `used`.  Only names of the form `val_<n>`
can clash with those, so a name is `val n` or `other s`.  Core Lean only.
-/
namespace OV.C10.Names

inductive VName
  | val (n : Nat)
  | other (s : String)
  deriving DecidableEq, Repr

/-- The `while True:` loop: `name = f"val_{counter}"; counter += 1; if name not in used: break`.
`fuel` bounds the number of iterations (`used.length + 1` always suffices: `firstFresh_total`). -/
def firstFresh (used : List VName) : Nat → Nat → Option Nat
  | 0, _ => none
  | fuel + 1, c => if used.contains (.val c) then firstFresh used fuel (c + 1) else some c

structure St where
  used : List VName
  ctr : Nat
  deriving Repr

/-- name one value -/
def nameOne (st : St) : Option (Nat × St) :=
  (firstFresh st.used (st.used.length + 1) st.ctr).map (fun k => (k, { used := .val k :: st.used, ctr := k + 1 }))

/-- `_name_new_values(new_nodes)`: one name per new node's output, in tape order -/
def nameMany : Nat → St → Option (List Nat × St)
  | 0, st => some ([], st)
  | n + 1, st =>
    match nameOne st with
    | none => none
    | some (k, st1) =>
      match nameMany n st1 with
      | none => none
      | some (ks, st2) => some (k :: ks, st2)

/-- One replacement of `n` new nodes: all `n` outputs are named, then `replace_nodes_and_values` gives the last one
the replaced node's output name — its `val_<k>` stays reserved but is not visible in the graph. -/
def nameReplacement (n : Nat) (st : St) : Option (List Nat × St) :=
  (nameMany n st).map (fun r => (r.1.dropLast, r.2))

/-- The replacements of a whole conversion, in visiting order. -/
def nameAll : List Nat → St → Option (List (List Nat))
  | [], _ => some []
  | n :: ns, st =>
    match nameReplacement n st with
    | none => none
    | some (vis, st1) => (nameAll ns st1).map (vis :: ·)

end OV.C10.Names
