/-
  OV.Model.C03Graph — the ONNX graph fragment used by C03/C04 and its semantics.

  Core Lean only.

  * `Node` / `Graph` : nodes with optional inputs, plain attributes, graph-valued attributes
    (`subs`), graphs with formal inputs, initializers (name + constant token), nodes, outputs.
  * `evalGraph sem d outer g args` : the meaning of a graph.  Every operator is the
    uninterpreted `sem.op`; a node carrying graph attributes other than `If` is the
    uninterpreted higher-order `sem.ctl` applied to the *denotations* of its bodies (closed
    over the enclosing environment — ONNX outer-scope visibility); `If` is interpreted
    (`sem.truth` of the condition selects the branch); `Constant{value=t}` denotes `sem.tensor t`,
    `Constant{value_ints=l}` denotes `sem.intsTensor l`, `Constant{value_int=i}` `sem.intTensor i`.
    `d` bounds the nesting depth only (structural recursion); it is not a step count.
-/
namespace OV.C03

abbrev Name := String

inductive Attr where
  | int (i : Int)
  | ints (l : List Int)
  | tensor (tok : String)
  | opaque (id : String)
  | ref (name : String)      -- attribute reference inside a function body (`ref_attr_name`); its value is None
  deriving DecidableEq, Repr, Inhabited

mutual
inductive Node where
  | mk (op domain : String) (inputs : List (Option Name)) (outputs : List Name)
       (attrs : List (String × Attr)) (subs : List (String × Graph))
inductive Graph where
  | mk (inputs : List Name) (inits : List (Name × String)) (nodes : List Node) (outputs : List Name)
end

instance : Inhabited Graph := ⟨.mk [] [] [] []⟩
instance : Inhabited Node := ⟨.mk "" "" [] [] [] []⟩

namespace Node
def op : Node → String | .mk o _ _ _ _ _ => o
def domain : Node → String | .mk _ d _ _ _ _ => d
def inputs : Node → List (Option Name) | .mk _ _ i _ _ _ => i
def outputs : Node → List Name | .mk _ _ _ o _ _ => o
def attrs : Node → List (String × Attr) | .mk _ _ _ _ a _ => a
def subs : Node → List (String × Graph) | .mk _ _ _ _ _ s => s
def attr (n : Node) (k : String) : Option Attr := (n.attrs.find? (·.1 == k)).map (·.2)
def sub (n : Node) (k : String) : Option Graph := (n.subs.find? (·.1 == k)).map (·.2)
def setInputs (n : Node) (i : List (Option Name)) : Node := .mk n.op n.domain i n.outputs n.attrs n.subs
def setSubs (n : Node) (s : List (String × Graph)) : Node := .mk n.op n.domain n.inputs n.outputs n.attrs s
/-- `utils.is_onnx_domain` -/
def isOnnxDomain (n : Node) : Bool := n.domain == "" || n.domain == "ai.onnx"
def isOp (n : Node) (o : String) : Bool := n.op == o && n.isOnnxDomain
end Node

namespace Graph
def inputs : Graph → List Name | .mk i _ _ _ => i
def inits : Graph → List (Name × String) | .mk _ i _ _ => i
def nodes : Graph → List Node | .mk _ _ n _ => n
def outputs : Graph → List Name | .mk _ _ _ o => o
def initTok (g : Graph) (x : Name) : Option String := (g.inits.find? (·.1 == x)).map (·.2)
end Graph

/-! ## Semantics -/

structure Sem (V : Type) where
  op : String → String → List (String × Attr) → List (Option V) → Option (List V)
  ctl : String → String → List (String × Attr) → List (Option V) →
        List (List V → Option (List V)) → Option (List V)
  truth : V → Option Bool
  tensor : String → V
  intsTensor : List Int → V
  intTensor : Int → V

def Env (V : Type) := Name → Option V

def Env.set {V} (ρ : Env V) (x : Name) (v : V) : Env V := fun y => if y = x then some v else ρ y

/-- Bind a node's declared outputs; trailing optional outputs the node does not declare are dropped. -/
def bindOuts {V} (ρ : Env V) : List Name → List V → Option (Env V)
  | [], _ => some ρ
  | x :: xs, v :: vs => bindOuts (ρ.set x v) xs vs
  | _ :: _, [] => none

def lookupIn {V} (ρ : Env V) : Option Name → Option (Option V)
  | none => some none
  | some x => (ρ x).map some

def lookupAll {V} (ρ : Env V) : List (Option Name) → Option (List (Option V))
  | [] => some []
  | x :: xs => (lookupIn ρ x).bind fun v => (lookupAll ρ xs).map (v :: ·)

def lookupOuts {V} (ρ : Env V) : List Name → Option (List V)
  | [] => some []
  | x :: xs => (ρ x).bind fun v => (lookupOuts ρ xs).map (v :: ·)

/-- The meaning of the three `Constant` forms the folder itself creates or reads. -/
def constDenote {V} (sem : Sem V) (n : Node) : Option V :=
  if n.isOp "Constant" && n.subs.isEmpty && n.inputs.isEmpty then
    match n.attrs with
    | [("value", .tensor t)] => some (sem.tensor t)
    | [("value_ints", .ints l)] => some (sem.intsTensor l)
    | [("value_int", .int i)] => some (sem.intTensor i)
    | [("value", .ints l)] => some (sem.intsTensor l)   -- the same integers as a tensor-valued attribute (below opset 12)
    | [("value", .int i)] => some (sem.intTensor i)
    | _ => none
  else none

/-- Outputs of one node from its (already looked-up) inputs. `sub` evaluates a body in the
current environment. -/
def nodeOutputs {V} (sem : Sem V) (sub : Env V → Graph → List (Option V) → Option (List V))
    (ρ : Env V) (n : Node) (args : List (Option V)) : Option (List V) :=
  if n.subs.isEmpty then
    match constDenote sem n with
    | some v => some [v]
    | none => sem.op n.op n.domain n.attrs args
  else if n.isOp "If" then
    match args, n.sub "then_branch", n.sub "else_branch" with
    | [some c], some t, some e => (sem.truth c).bind fun b => sub ρ (if b then t else e) []
    | _, _, _ => none
  else
    sem.ctl n.op n.domain n.attrs args
      (n.subs.map fun sg => fun vs => sub ρ sg.2 (vs.map some))

def evalNode {V} (sem : Sem V) (sub : Env V → Graph → List (Option V) → Option (List V))
    (ρ : Env V) (n : Node) : Option (Env V) :=
  (lookupAll ρ n.inputs).bind fun args =>
  (nodeOutputs sem sub ρ n args).bind fun vs =>
  bindOuts ρ n.outputs vs

def evalNodes {V} (f : Env V → Node → Option (Env V)) : Env V → List Node → Option (Env V)
  | ρ, [] => some ρ
  | ρ, n :: ns => (f ρ n).bind fun ρ' => evalNodes f ρ' ns

def bindInits {V} (sem : Sem V) (ρ : Env V) : List (Name × String) → Env V
  | [] => ρ
  | (x, t) :: r => bindInits sem (ρ.set x (sem.tensor t)) r

/-- Formal inputs: a supplied argument overrides an initializer of the same name; an omitted
argument is legal only when such an initializer (the default) exists. -/
def bindInputs {V} (hasDefault : Name → Bool) (ρ : Env V) :
    List Name → List (Option V) → Option (Env V)
  | [], [] => some ρ
  | x :: xs, some v :: as => bindInputs hasDefault (ρ.set x v) xs as
  | x :: xs, none :: as => if hasDefault x then bindInputs hasDefault ρ xs as else none
  | _, _ => none

def startEnv {V} (sem : Sem V) (outer : Env V) (g : Graph) (args : List (Option V)) : Option (Env V) :=
  bindInputs (fun x => (g.initTok x).isSome) (bindInits sem outer g.inits) g.inputs args

/-- Meaning of a graph in an enclosing environment (`outer` is empty for a model's main graph). -/
def evalGraph {V} (sem : Sem V) : Nat → Env V → Graph → List (Option V) → Option (List V)
  | 0, _, _, _ => none
  | d + 1, outer, g, args =>
    (startEnv sem outer g args).bind fun ρ0 =>
    (evalNodes (evalNode sem (evalGraph sem d)) ρ0 g.nodes).bind fun ρ =>
    lookupOuts ρ g.outputs

def Env.empty {V} : Env V := fun _ => none

end OV.C03
