/-!
# C18 — model of `onnxscript.nn` naming (Module / ModuleList / Sequential / Parameter)

Core Lean only (the driver `drv_c18` is compiled from this file).

What is restated here, and from where (`/repo/onnxscript/nn/`):

* `Mod` — one module object after construction: its class family (`Kind`: plain `Module`
  subclass, `ModuleList`, `Sequential`), the stored `_name`, the `_parameters` dict
  (`attr ↦ Parameter`, each with its *stored* `name` and an identity `pid`) and the
  `_modules` dict (`key ↦ child`), both in insertion order.
* `setName` — the three `_set_name` overrides (`_module.py:50`, `_module_list.py:40`,
  `_sequential.py:37`): `Module` stores the name; `ModuleList` stores it and renames every child
  to `name.key` (recursively through the child's own `_set_name`); `Sequential` stores it and
  renames every child to its bare key.
* `setParam` / `setChild` — `Module.__setattr__` (`_module.py:54-70`): a `Parameter` without a
  name takes the attribute name; a child module without a name gets `_set_name(attr)`; an
  explicitly named one keeps its name.  Dict assignment replaces in place.
* `regChildList` / `regChildSeq` — the two `_register_child` (`_module_list.py:46`,
  `_sequential.py:49`): unnamed child of a *named* list → `_set_name(name.key)`; unnamed child of
  an unnamed list or of a Sequential → the bare key is stored **directly** (no propagation).
* `mkList`, `mkSeq`, `append`, `extend`, `slice` — constructors, `append`/`extend`
  (`key = str(len(_modules))`) and `__getitem__(slice)` (a fresh plain `ModuleList` whose children are
  re-registered under `0,1,…`; they keep their names).
* `realize` — what `Module.__call__` (`_module.py:72-85`) + `Parameter._realize`
  (`_parameter.py:60-86`) + `GraphBuilder._qualify_initializer_name` (`builder.py:841`) do when the
  root is called and every `forward` calls its registered children once, in order (`Sequential.forward`
  does exactly that; a `ModuleList` is iterated, never called): push `_name or ""`, name every own
  parameter `".".join(non-empty scope names) + "." + param.name`, idempotent per `Parameter` object.
* `stateDict`, `namedParams` — `Module.state_dict` (`_module.py:141`) and `named_parameters`
  (`_module.py:101`), transcribed separately.

Value semantics: a `Mod` is a tree; an object used in two places is two copies.  The real objects are
shared and mutable, so this model is faithful for *linear* construction programs (every object attached
at most once) — `TreeNotDag` in the theorems.
-/
namespace OV.C18

inductive Kind
  | module | list | seq
  deriving DecidableEq, Repr, BEq

structure Param where
  attr : String
  name : String
  pid : Nat
  deriving DecidableEq, Repr

mutual
  inductive Mod
    | mk (kind : Kind) (name : Option String) (params : List Param) (children : Mods)
  inductive Mods
    | nil
    | cons (key : String) (m : Mod) (rest : Mods)
end

namespace Mod
def kind : Mod → Kind | .mk k _ _ _ => k
def name : Mod → Option String | .mk _ n _ _ => n
def params : Mod → List Param | .mk _ _ p _ => p
def children : Mod → Mods | .mk _ _ _ c => c
/-- `object.__setattr__(m, "_name", n)`: the name is stored, nothing is propagated. -/
def rawName : Mod → String → Mod | .mk k _ p c, n => .mk k (some n) p c
end Mod

namespace Mods
def length : Mods → Nat
  | .nil => 0
  | .cons _ _ r => r.length + 1
def snoc : Mods → String → Mod → Mods
  | .nil, k, m => .cons k m .nil
  | .cons k' m' r, k, m => .cons k' m' (snoc r k m)
/-- dict assignment `d[k] = m`: replace in place, else append. -/
def insert : Mods → String → Mod → Mods
  | .nil, k, m => .cons k m .nil
  | .cons k' m' r, k, m => if k' = k then .cons k m r else .cons k' m' (insert r k m)
def toList : Mods → List (String × Mod)
  | .nil => []
  | .cons k m r => (k, m) :: r.toList
def ofList : List (String × Mod) → Mods
  | [] => .nil
  | (k, m) :: r => .cons k m (ofList r)
def find? : Mods → String → Option Mod
  | .nil, _ => none
  | .cons k m r, k' => if k = k' then some m else r.find? k'
end Mods

/-! ## `_set_name` (three overrides) -/

mutual
  def setName : Mod → String → Mod
    | .mk .module _ ps cs, n => .mk .module (some n) ps cs
    | .mk .list _ ps cs, n => .mk .list (some n) ps (setNamesQual cs n)
    | .mk .seq _ ps cs, n => .mk .seq (some n) ps (setNamesKey cs)
  /-- `ModuleList._set_name`: `child._set_name(f"{name}.{key}")`. -/
  def setNamesQual : Mods → String → Mods
    | .nil, _ => .nil
    | .cons k m r, n => .cons k (setName m (n ++ "." ++ k)) (setNamesQual r n)
  /-- `Sequential._set_name`: `child._set_name(key)`. -/
  def setNamesKey : Mods → Mods
    | .nil => .nil
    | .cons k m r => .cons k (setName m k) (setNamesKey r)
end

/-! ## construction operations -/

def mkModule (name : Option String) : Mod := .mk .module name [] .nil

def insertParam : List Param → Param → List Param
  | [], p => [p]
  | q :: r, p => if q.attr = p.attr then p :: r else q :: insertParam r p

/-- `self.<attr> = Parameter(..., name=pname)`. -/
def setParam (m : Mod) (attr : String) (pname : Option String) (pid : Nat) : Mod :=
  match m with
  | .mk k n ps cs => .mk k n (insertParam ps ⟨attr, pname.getD attr, pid⟩) cs

/-- the object stored by `self.<attr> = child`: an unnamed child gets `_set_name(attr)`. -/
def attrChild (attr : String) (c : Mod) : Mod :=
  match c.name with
  | none => setName c attr
  | some _ => c

/-- `self.<attr> = child` (child a Module instance). -/
def setChild (m : Mod) (attr : String) (c : Mod) : Mod :=
  match m with
  | .mk k n ps cs => .mk k n ps (cs.insert attr (attrChild attr c))

/-- the object stored by `ModuleList._register_child(key, module)` of a list named `ln`. -/
def listChild (ln : Option String) (key : String) (c : Mod) : Mod :=
  match c.name with
  | none =>
    match ln with
    | some ln => setName c (ln ++ "." ++ key)
    | none => c.rawName key
  | some _ => c

/-- `ModuleList._register_child(key, module)`. -/
def regChildList (l : Mod) (key : String) (c : Mod) : Mod :=
  match l with
  | .mk k n ps cs => .mk k n ps (cs.insert key (listChild n key c))

/-- the object stored by `Sequential._register_child(key, module)`. -/
def seqChild (key : String) (c : Mod) : Mod :=
  match c.name with
  | none => c.rawName key
  | some _ => c

/-- `Sequential._register_child(key, module)`. -/
def regChildSeq (l : Mod) (key : String) (c : Mod) : Mod :=
  match l with
  | .mk k n ps cs => .mk k n ps (cs.insert key (seqChild key c))

def regChild (l : Mod) (key : String) (c : Mod) : Mod :=
  match l.kind with
  | .seq => regChildSeq l key c
  | _ => regChildList l key c

/-- `append`: `key = str(len(self._modules))`. -/
def append (l : Mod) (c : Mod) : Mod := regChild l (toString l.children.length) c

def extend (l : Mod) (cs : List Mod) : Mod := cs.foldl append l

def mkList (cs : List Mod) : Mod := extend (.mk .list none [] .nil) cs
def mkSeq (cs : List Mod) : Mod := extend (.mk .seq none [] .nil) cs

def regAll : Mod → Nat → List Mod → Mod
  | l, _, [] => l
  | l, i, c :: r => regAll (regChildList l (toString i) c) (i + 1) r

/-- `self[a:b:c]`: `idxs` are the positions CPython's slice selects (computed by the caller). -/
def slice (l : Mod) (idxs : List Nat) : Mod :=
  let kids := l.children.toList
  regAll (.mk .list none [] .nil) 0 (idxs.filterMap (fun i => (kids[i]?).map (·.2)))

/-- apply `f` to the descendant reached by following child keys. -/
def modifyAt : List String → (Mod → Mod) → Mod → Mod
  | [], f, m => f m
  | k :: ks, f, .mk kd n ps cs => .mk kd n ps (go k ks f cs)
where
  go (k : String) (ks : List String) (f : Mod → Mod) : Mods → Mods
    | .nil => .nil
    | .cons k' m r => if k' = k then .cons k' (modifyAt ks f m) r else .cons k' m (go k ks f r)

/-- the descendant reached by following child keys (what a statement like `self.blocks[0].layers.append(m)`
    in an `__init__` acts on). -/
def nodeAt : List String → Mod → Option Mod
  | [], m => some m
  | k :: ks, .mk _ _ _ cs => (cs.find? k).bind (nodeAt ks)

/-! ## realisation (`Module.__call__` → `Parameter._realize`) -/

/-- `sep.join(parts)` (own recursion: core's `String.intercalate` hides an accumulator). -/
def joinWith (sep : String) : List String → String
  | [] => ""
  | [a] => a
  | a :: b :: r => a ++ sep ++ joinWith sep (b :: r)

/-- `_qualify_initializer_name` on a scope stack (outermost first). -/
def qualifyInit (scope : List String) (name : String) : String :=
  let parts := scope.filter (· ≠ "")
  if parts.isEmpty then name else joinWith "." parts ++ "." ++ name

mutual
  /-- visit a registered child from its parent's `forward`: a `ModuleList` is iterated, anything
      else is called. -/
  def visit (scope : List String) : Mod → List (String × Nat)
    | .mk .list _ _ cs => visitAll scope cs
    | .mk _ n ps cs =>
      let scope' := scope ++ [n.getD ""]
      ps.map (fun p => (qualifyInit scope' p.name, p.pid)) ++ visitAll scope' cs
  def visitAll (scope : List String) : Mods → List (String × Nat)
    | .nil => []
    | .cons _ m r => visit scope m ++ visitAll scope r
end

/-- keep the first entry per `pid` (`Parameter._realize` is idempotent per object). -/
def dedupPid : List (String × Nat) → List Nat → List (String × Nat)
  | [], _ => []
  | (n, p) :: r, seen => if p ∈ seen then dedupPid r seen else (n, p) :: dedupPid r (p :: seen)

/-- the root is *called* (whatever its kind; calling a bare ModuleList raises in the real code). -/
def callRoot : Mod → List (String × Nat)
  | .mk _ n ps cs =>
    let scope' := [n.getD ""]
    ps.map (fun p => (qualifyInit scope' p.name, p.pid)) ++ visitAll scope' cs

/-- realised parameters in realisation order: `(final name, pid)`. -/
def realize (root : Mod) : List (String × Nat) := dedupPid (callRoot root) []

/-- `graph.initializers` keys: `initializers[name] = param` keeps the first position of a name. -/
def initKeys (l : List (String × Nat)) : List String :=
  l.foldl (fun acc x => if x.1 ∈ acc then acc else acc ++ [x.1]) []

/- a `Sequential` with a `ModuleList` child cannot be called (`ModuleList.forward` raises). -/
mutual
  def callable : Mod → Bool
    | .mk .seq _ _ cs => noListChild cs && callableAll cs
    | .mk _ _ _ cs => callableAll cs
  def callableAll : Mods → Bool
    | .nil => true
    | .cons _ m r => callable m && callableAll r
  def noListChild : Mods → Bool
    | .nil => true
    | .cons _ (.mk .list _ _ _) _ => false
    | .cons _ _ r => noListChild r
end

/-! ## `state_dict()` / `named_parameters()` -/

def pfx (p k : String) : String := if p = "" then k else p ++ "." ++ k

mutual
  def stateDict (p : String) : Mod → List (String × Nat)
    | .mk _ _ ps cs => ps.map (fun q => (pfx p q.attr, q.pid)) ++ stateDictAll p cs
  def stateDictAll (p : String) : Mods → List (String × Nat)
    | .nil => []
    | .cons k m r => stateDict (pfx p k) m ++ stateDictAll p r
end

mutual
  def namedParams (p : String) : Mod → List (String × Nat)
    | .mk _ _ ps cs => ps.map (fun q => (pfx p q.attr, q.pid)) ++ namedParamsAll p cs
  def namedParamsAll (p : String) : Mods → List (String × Nat)
    | .nil => []
    | .cons k m r => namedParams (pfx p k) m ++ namedParamsAll p r
end

/-- `state_dict()` is a dict: a repeated key keeps its first position. -/
def dictKeys (l : List (String × Nat)) : List String := initKeys l

mutual
  def pids : Mod → List Nat
    | .mk _ _ ps cs => ps.map (·.pid) ++ pidsAll cs
  def pidsAll : Mods → List Nat
    | .nil => []
    | .cons _ m r => pids m ++ pidsAll r
end

/-- expected initializer name for a `state_dict` key: prefixed with the root's name (if it has one). -/
def rootKey (root : Mod) (k : String) : String := qualifyInit [root.name.getD ""] k

/-! ## realisation when `forward`s build subgraphs

A module's `forward` may call its children from inside the trace function of `GraphBuilder.subgraph`
(an `If`/`Loop`/`Scan` body), to any nesting depth.  The builders then form a stack: `Module.__call__` pushes the
module's name on the builder it is called with (the innermost one), `build_graph` (`builder.py:211`) gives the
sub-builder a **copy of its parent's** scope stack, `Parameter._realize` (`_parameter.py:60`, since commit
77b0052) qualifies with the scope of the builder the module is called with and registers in the root graph.
`ctl` lists the paths (child keys from the root) of the modules whose `forward` runs the children in a
sub-builder.  The two policies make the earlier / mutated behaviours expressible for the refutation witnesses. -/

structure SubPolicy where
  /-- sub-builder scope := copy of the *parent's* scope (`false`: of the root's). -/
  inheritParent : Bool
  /-- parameters are qualified with the *current* builder's scope (`false`: with the root builder's). -/
  qualifyCurrent : Bool
  deriving DecidableEq, Repr

/-- the code: `list(parent._scope_stack)` and `builder._qualify_initializer_name`. -/
def SubPolicy.code : SubPolicy := ⟨true, true⟩

/-- scope of the root builder = last element of the builder stack. -/
def rootScope (top : List String) (rest : List (List String)) : List String := (top :: rest).getLast (by simp)

mutual
  def visitB (pol : SubPolicy) (ctl : List (List String)) (path : List String) (top : List String)
      (rest : List (List String)) : Mod → List (String × Nat)
    | .mk .list _ _ cs => visitAllB pol ctl path top rest cs
    | .mk _ n ps cs =>
      let top' := top ++ [n.getD ""]
      -- the push goes to the current builder; the root builder's own scope only changes when it *is* the current one
      let rest' := rest
      let q := if pol.qualifyCurrent then top' else rootScope top' rest'
      ps.map (fun p => (qualifyInit q p.name, p.pid)) ++
        (if ctl.contains path then
          let sub := if pol.inheritParent then top' else rootScope top' rest'
          visitAllB pol ctl path sub (top' :: rest') cs
        else visitAllB pol ctl path top' rest' cs)
  def visitAllB (pol : SubPolicy) (ctl : List (List String)) (path : List String) (top : List String)
      (rest : List (List String)) : Mods → List (String × Nat)
    | .nil => []
    | .cons k m r => visitB pol ctl (path ++ [k]) top rest m ++ visitAllB pol ctl path top rest r
end

/-- the root is called on the root builder (empty scope, no enclosing builders). -/
def realizeB (pol : SubPolicy) (ctl : List (List String)) (root : Mod) : List (String × Nat) :=
  match root with
  | .mk _ n ps cs =>
    let top' := [n.getD ""]
    dedupPid (ps.map (fun p => (qualifyInit top' p.name, p.pid)) ++
      (if ctl.contains [] then visitAllB pol ctl [] top' [top'] cs else visitAllB pol ctl [] top' [] cs)) []

end OV.C18
