/-!
# C08 — shape / index level semantics of the ONNX operators torch_lib emits

Transcribed from the ONNX operator specification (opset 18) and, where the specification leaves
the failure behaviour open, from onnxruntime's CPU kernels (`ReshapeHelper`, `SliceBase`,
`SplitBase`, `Range`).  Core Lean only.  A result `none` means: the runtime refuses the node.

These definitions are *one side* of the agreement theorems of `OV.Props.C08`; the other side
(`torch*` functions in the family files) is transcribed from PyTorch's documented semantics /
`c10`, `ATen/native/TensorShape.cpp`.
-/
namespace OV.C08

abbrev Shape := List Nat

/-- Number of elements. -/
def numel : Shape → Nat
  | [] => 1
  | d :: ds => d * numel ds

/-- Axis normalisation shared by ONNX and PyTorch: valid range `[-r, r-1]`. -/
def normAxis (r : Nat) (a : Int) : Option Nat :=
  if 0 ≤ a ∧ a < (r : Int) then some a.toNat
  else if a < 0 ∧ -(r : Int) ≤ a then some (a + r).toNat
  else none

/-- `normAxis` for every element; fails if one fails. -/
def normAxes (r : Nat) (as : List Int) : Option (List Nat) := as.mapM (normAxis r)

def hasDup : List Nat → Bool
  | [] => false
  | a :: as => as.contains a || hasDup as

/-! ## Reshape (opset 14+, `allowzero`) — onnxruntime `ReshapeHelper` -/

/-- A `0` in the requested shape copies the input dimension *at the same index* unless `allowzero`. -/
def resolveZeros (allowzero : Bool) (inp : Shape) : List Int → Nat → Option (List Int)
  | [], _ => some []
  | t :: ts, i =>
    if t == 0 && !allowzero then
      match inp[i]? with
      | none => none
      | some d => (resolveZeros allowzero inp ts (i + 1)).map ((d : Int) :: ·)
    else (resolveZeros allowzero inp ts (i + 1)).map (t :: ·)

/-- Product of the entries different from `-1`. -/
def knownProd : List Int → Int
  | [] => 1
  | t :: ts => if t == -1 then knownProd ts else t * knownProd ts

def countNeg1 (l : List Int) : Nat := (l.filter (· == -1)).length

/-- Product of the non-zero entries (onnxruntime's lenient `-1` inference under `allowzero`). -/
def nzProd : List Int → Int
  | [] => 1
  | t :: ts => if t == -1 || t == 0 then nzProd ts else t * nzProd ts

def reshape (allowzero : Bool) (inp : Shape) (tgt : List Int) : Option Shape :=
  if tgt.any (· < -1) then none
  else if countNeg1 tgt > 1 then none
  else
    match resolveZeros allowzero inp tgt 0 with
    | none => none
    | some rs =>
      let k := (knownProd rs).toNat
      let n := numel inp
      if countNeg1 rs = 1 then
        if allowzero && rs.contains 0 then
          -- outside the ONNX specification (0 together with -1 under allowzero); onnxruntime infers
          -- the -1 from the non-zero dims of both sides and requires an empty input
          let ni := (nzProd (inp.map (Int.ofNat ·))).toNat
          let nr := (nzProd rs).toNat
          if n ≠ 0 ∨ ni % nr ≠ 0 then none
          else some (rs.map (fun t => if t == -1 then ni / nr else t.toNat))
        else if k = 0 ∨ n % k ≠ 0 then none
        else some (rs.map (fun t => if t == -1 then n / k else t.toNat))
      else if k = n then some (rs.map Int.toNat) else none

/-! ## Flatten, Transpose, Squeeze, Unsqueeze -/

/-- `Flatten(axis)`: `[prod shape[:axis], prod shape[axis:]]`, axis in `[-r, r]`. -/
def flattenOp (s : Shape) (axis : Int) : Option Shape :=
  let r : Int := s.length
  if -r ≤ axis ∧ axis ≤ r then
    let a := (if axis < 0 then axis + r else axis).toNat
    some [numel (s.take a), numel (s.drop a)]
  else none

def isPerm (r : Nat) (p : List Nat) : Bool :=
  p.length == r && p.all (· < r) && !hasDup p

/-- `Transpose(perm)`: `out[i] = in[perm[i]]`. -/
def transposeOp (s : Shape) (perm : List Nat) : Option Shape :=
  if isPerm s.length perm then some (perm.map (fun i => s.getD i 0)) else none

/-- `Transpose` without `perm`: reverse. -/
def transposeDefault (s : Shape) : Shape := s.reverse

def removeIdxs (s : Shape) (idxs : List Nat) : Shape :=
  (s.zipIdx.filter (fun p => !idxs.contains p.2)).map (·.1)

/-- `Squeeze(axes)`: every named axis must have size 1. -/
def squeezeOp (s : Shape) (axes : List Int) : Option Shape :=
  match normAxes s.length axes with
  | none => none
  | some ax => if ax.all (fun a => s.getD a 0 == 1) then some (removeIdxs s ax) else none

/-- `Squeeze` without axes: drop all size-1 dims. -/
def squeezeAll (s : Shape) : Shape := s.filter (· != 1)

/-- Insert `1` so that it ends up at position `a` of the output. -/
def insertOne (s : Shape) (a : Nat) : Shape := s.take a ++ 1 :: s.drop a

/-- `Unsqueeze(axes=[a])`: the axis is normalised against the *output* rank. -/
def unsqueeze1 (s : Shape) (a : Int) : Option Shape :=
  (normAxis (s.length + 1) a).map (insertOne s)

/-! ## Slice (one axis) — onnxruntime `SliceBase::PrepareForCompute` -/

/-- onnxruntime's clamp is `min(max(x, lo), hi)`: when `lo > hi` (an axis of size 0 with a negative
step) the upper bound wins. -/
def clampI (x lo hi : Int) : Int := min (max x lo) hi

/-- Normalised `(start, end)` of ONNX `Slice` on an axis of size `d`. -/
def sliceNorm (d start stop step : Int) : Int × Int :=
  let s0 := if start < 0 then start + d else start
  let e0 := if stop < 0 then stop + d else stop
  if step > 0 then (clampI s0 0 d, clampI e0 0 d)
  else (clampI s0 0 (d - 1), clampI e0 (-1) (d - 1))

/-- Number of selected elements. -/
def sliceLen (d start stop step : Int) : Nat :=
  let sn := sliceNorm d start stop step
  if step > 0 then ((sn.2 - sn.1 + step - 1) / step).toNat
  else if step < 0 then ((sn.1 - sn.2 + (-step) - 1) / (-step)).toNat
  else 0

/-- Source indices selected by ONNX `Slice` with that start/stop/step on an axis of size `d`. -/
def sliceIdx (d start stop step : Int) : List Nat :=
  (List.range (sliceLen d start stop step)).map
    (fun (i : Nat) => ((sliceNorm d start stop step).1 + (i : Int) * step).toNat)

def setAt (s : Shape) (a : Nat) (v : Nat) : Shape := s.set a v

/-- `Slice(x, [start], [stop], [axis], [step])` at shape level. -/
def sliceOp (s : Shape) (axis start stop step : Int) : Option Shape :=
  if step == 0 then none else
  match normAxis s.length axis with
  | none => none
  | some a => some (setAt s a (sliceLen (s.getD a 0) start stop step))

/-! ## Concat, Expand, Tile, Gather -/

def sameExcept (a : Nat) (s t : Shape) : Bool :=
  s.length == t.length && (List.range s.length).all (fun i => i == a || s.getD i 0 == t.getD i 0)

/-- `Concat(axis)`: equal ranks, equal sizes off the axis. -/
def concatOp (ss : List Shape) (axis : Int) : Option Shape :=
  match ss with
  | [] => none
  | s :: rest =>
    match normAxis s.length axis with
    | none => none
    | some a =>
      if rest.all (sameExcept a s) then
        some (setAt s a ((s :: rest).foldl (fun acc t => acc + t.getD a 0) 0))
      else none

/-- Multidirectional broadcast of two right-aligned shapes (reversed lists). -/
def bcastRev : List Nat → List Nat → Option (List Nat)
  | [], t => some t
  | s, [] => some s
  | a :: s, b :: t =>
    if a == b then (bcastRev s t).map (a :: ·)
    else if a == 1 then (bcastRev s t).map (b :: ·)
    else if b == 1 then (bcastRev s t).map (a :: ·)
    else none

/-- `Expand(x, shape)`: output = broadcast(x.shape, shape). -/
def expandOp (s : Shape) (tgt : List Nat) : Option Shape :=
  (bcastRev s.reverse tgt.reverse).map List.reverse

/-- `Tile(x, repeats)`: `repeats` has exactly `rank` non-negative entries. -/
def tileOp (s : Shape) (reps : List Int) : Option Shape :=
  if reps.length == s.length && reps.all (0 ≤ ·) then
    some (List.zipWith (fun d r => d * r.toNat) s reps)
  else none

/-- `Gather(axis)` with a rank-0 index `i`: the axis disappears; `i` in `[-d, d-1]`. -/
def gatherScalar (s : Shape) (axis i : Int) : Option Shape :=
  match normAxis s.length axis with
  | none => none
  | some a =>
    let d : Int := s.getD a 0
    if -d ≤ i ∧ i < d then some (removeIdxs s [a]) else none

/-- `Gather(axis)` with a rank-1 index of length `n` (all entries in range). -/
def gatherVec (s : Shape) (axis : Int) (n : Nat) : Option Shape :=
  (normAxis s.length axis).map (fun a => setAt s a n)

/-! ## Split / SplitToSequence -/

/-- `Split(num_outputs=n)` (opset 18): chunk size `ceil(d/n)`, the last chunk takes what is
left; onnxruntime rejects `n > d` ("Invalid num_outputs value") and a last chunk that would be
empty or start beyond the end ("Split size exceeds the remaining size"). -/
def splitNumOutputs (d n : Nat) : Option (List Nat) :=
  if n = 0 ∨ n > d then none else
  let c := (d + n - 1) / n
  if (n - 1) * c < d then some (List.replicate (n - 1) c ++ [d - (n - 1) * c]) else none

/-- `SplitToSequence(split = scalar c)`: full chunks of `c`, then the remainder if any. -/
def splitScalar (d c : Nat) : Option (List Nat) :=
  if c = 0 then none
  else some (List.replicate (d / c) c ++ (if d % c = 0 then [] else [d % c]))

/-- `SplitToSequence(split = 1-D sizes)`: sizes must sum to `d`. -/
def splitSizes (d : Nat) (sz : List Int) : Option (List Nat) :=
  if sz.all (0 ≤ ·) && (sz.foldl (· + ·) 0) == (d : Int) then some (sz.map Int.toNat) else none

/-! ## Reductions, ArgMax, Range, Trilu -/

/-- `Reduce*(axes, keepdims, noop_with_empty_axes=0)`: empty `axes` reduces everything. -/
def reduceOp (s : Shape) (axes : List Int) (keepdims : Bool) : Option Shape :=
  match normAxes s.length axes with
  | none => none
  | some ax =>
    let ax := if ax.isEmpty then List.range s.length else ax
    if keepdims then some (s.zipIdx.map (fun p => if ax.contains p.2 then 1 else p.1))
    else some (removeIdxs s ax)

/-- `ArgMax/ArgMin(axis, keepdims)`: the axis must be non-empty. -/
def argOp (s : Shape) (axis : Int) (keepdims : Bool) : Option Shape :=
  match normAxis s.length axis with
  | none => none
  | some a =>
    if s.getD a 0 == 0 then none
    else if keepdims then some (setAt s a 1) else some (removeIdxs s [a])

/-- Ceiling division for a positive divisor. -/
def ceilDivPos (n d : Int) : Int := (n + d - 1) / d

/-- `Range(start, limit, delta)` on integers: `max(ceil((limit-start)/delta), 0)` elements. -/
def rangeLen (start limit delta : Int) : Nat :=
  if delta > 0 then (ceilDivPos (limit - start) delta).toNat
  else if delta < 0 then (ceilDivPos (start - limit) (-delta)).toNat
  else 0

/-- `Trilu(k, upper)`: is element `(i, j)` of the last two axes retained? -/
def triluKeep (upper : Bool) (k : Int) (i j : Nat) : Bool :=
  if upper then decide ((j : Int) - i ≥ k) else decide ((j : Int) - i ≤ k)

end OV.C08
