/-
  OV.Model.C13Values — value rendering of inlined INT64 constants (`_get_const_repr`) and how the text is read back.

  * `render`: `str(np.int64(i))` (rank 0) and `repr(nparray.tolist())` (rank 1): decimal digits with a leading `-`
    for negatives; a list is `[` items separated by `, ` `]`.
  * `constLitI64`: `_get_const_repr` on an INT64 tensor given by its `dims` and its elements: refusal when a
    dimension is 0, a scalar for rank 0, a list for rank 1 with fewer than 5 elements, refusal otherwise.
  * `parse`: how Python reads such a text back (the converter evaluates the literal with Python itself): an
    optional `-` and decimal digits is an `int`; `[` … `]` with items separated by `, ` is a list of `int`.
    (Python's grammar is larger — `+1`, `0x10`, other spacing; and it forbids leading zeros, which `parse`
    accepts.  The harness compares the two readers on the exporter's texts and on mutants of them.)
  Core Lean only.
-/
namespace OV.C13V

/-- an inlined INT64 constant: rank 0 or rank 1 -/
inductive Lit where
  | scalar (i : Int)
  | list (l : List Int)
  deriving DecidableEq, Repr

/-- the items of `repr(list)`: `repr` of each element, separated by `", "` -/
def renderItems : List Int → List Char
  | [] => []
  | [i] => (Int.repr i).toList
  | i :: j :: rest => (Int.repr i).toList ++ ',' :: ' ' :: renderItems (j :: rest)

/-- `str(array[0])` / `repr(nparray.tolist())` for INT64 -/
def render : Lit → String
  | .scalar i => Int.repr i
  | .list l => String.ofList ('[' :: (renderItems l ++ [']']))

/-- `_get_const_repr` on an INT64 tensor with dimensions `dims` and (row-major) elements `vals`:
    `None` when a dimension is 0 or the rank is above 1 or a rank-1 tensor has 5 or more elements -/
def constLitI64 (dims : List Nat) (vals : List Int) : Option Lit :=
  if dims.contains 0 then none
  else match dims with
    | [] => match vals with
      | [v] => some (.scalar v)
      | _ => none
    | [n] => if n < 5 then some (.list vals) else none
    | _ => none

/-- the text `_get_const_repr` returns for an INT64 tensor -/
def constReprI64 (dims : List Nat) (vals : List Int) : Option String := (constLitI64 dims vals).map render

/-! ## reading the text back -/

/-- split at every `", "` -/
def splitSep : List Char → List (List Char)
  | [] => [[]]
  | ',' :: ' ' :: rest => [] :: splitSep rest
  | c :: rest =>
    match splitSep rest with
    | [] => [[c]]
    | w :: ws => (c :: w) :: ws

/-- an integer literal: optional `-`, decimal digits -/
def parseIntL (cs : List Char) : Option Int := (String.ofList cs).toInt?

def parseAll : List (List Char) → Option (List Int)
  | [] => some []
  | w :: ws =>
    match parseIntL w, parseAll ws with
    | some i, some is => some (i :: is)
    | _, _ => none

/-- the reading of an inlined literal: `[` items `]` is a list, anything else must be an integer literal -/
def parseL (cs : List Char) : Option Lit :=
  match cs with
  | '[' :: rest =>
    if rest.getLast? = some ']' then
      if rest.dropLast = [] then some (.list [])
      else (parseAll (splitSep rest.dropLast)).map .list
    else none
  | _ => (parseIntL cs).map .scalar

def parse (s : String) : Option Lit := parseL s.toList

end OV.C13V
