import OV.Model.C18Builder
/-!
# C18 — meaning of a built graph and of a trace, over uninterpreted operators

Core Lean only.  Used by the theorems `build_computes_trace` and `inline_eq_call`.

* `OpSem α` — assumption A-op: an operator (domain, op type, overload) is *a function* of its input values
  (attributes are not modelled: they are part of the operator's identity here); a promoted literal's value is
  a function of its cache key `(repr, dtype)`.
* `evalNodes` — the meaning of a node list: nodes in order, each binding its output ids.
* `replay` — the trace's own meaning: every `op`/`call` item applies the operator to the values of its
  operands (handles, literals, `None`) and yields the values of its new handles.
* `evalBody` — the meaning of a function body over value *names* (what a call node denotes when the function
  is expanded).
-/
namespace OV.C18

structure OpSem (α : Type) where
  /-- (domain, op type, overload, attributes) applied to the input values. -/
  op : String → String → String → List (String × AVal) → List (Option α) → List α
  lit : CKey → α

abbrev Env (α : Type) := Nat → Option α

def Env.set {α : Type} (e : Env α) (i : Nat) (v : Option α) : Env α := fun j => if j = i then v else e j

/-- bind output ids to results, position by position (a missing result leaves `none`). -/
def bindOuts {α : Type} (e : Env α) : List Nat → List α → Env α
  | [], _ => e
  | o :: os, vs => bindOuts (e.set o vs.head?) os vs.tail

def evalNode {α : Type} (S : OpSem α) (e : Env α) (n : Node) : Env α :=
  bindOuts e n.outs (S.op n.domain n.op n.overload n.attrs (n.ins.map (fun i => i.bind e)))

def evalNodes {α : Type} (S : OpSem α) (e : Env α) (ns : List Node) : Env α := ns.foldl (evalNode S) e

/-- position of `i` in a list of ids. -/
def posOf (i : Nat) : List Nat → Option Nat
  | [] => none
  | x :: xs => if x = i then some 0 else (posOf i xs).map (· + 1)

/-- the environment a graph starts from: root initializers hold their literal's value, the current graph's
    inputs hold the arguments in order. -/
def baseOf {α : Type} (S : OpSem α) (cache : List (CKey × Nat)) (inputs : List Nat) (args : List α) : Env α :=
  fun i =>
    match cache.find? (fun e => e.2 = i) with
    | some e => some (S.lit e.1)
    | none =>
      match posOf i inputs with
      | some k => args[k]?
      | none => none

def baseEnv {α : Type} (S : OpSem α) (st : St) (args : List α) : Env α := baseOf S st.cache st.cur.inputs args

/-- the meaning of the (root) graph of a state on `args`. -/
def evalGraph {α : Type} (S : OpSem α) (st : St) (args : List α) : Env α :=
  evalNodes S (baseEnv S st args) st.cur.nodes

/-! ## function bodies over names -/

abbrev NEnv (α : Type) := String → Option α

def NEnv.set {α : Type} (e : NEnv α) (k : String) (v : Option α) : NEnv α := fun j => if j = k then v else e j

def bindNames {α : Type} (e : NEnv α) : List String → List α → NEnv α
  | [], _ => e
  | o :: os, vs => bindNames (e.set o vs.head?) os vs.tail

def evalFNode {α : Type} (S : OpSem α) (e : NEnv α) (n : FNode) : NEnv α :=
  bindNames e n.outs (S.op n.domain n.op "" (plainAttrs n.attrs) (n.ins.map (fun i => i.bind e)))

def bindFormals {α : Type} : List String → List (Option α) → NEnv α
  | f :: fs, v :: vs => (bindFormals fs vs).set f v
  | _, _ => fun _ => none

/-- the values of a function's outputs on given actual values (the body's attributes as they stand: a
    reference attribute that is still unresolved is absent). -/
def evalBody {α : Type} (S : OpSem α) (f : Fn) (actuals : List (Option α)) : List (Option α) :=
  let e := f.nodes.foldl (evalFNode S) (bindFormals f.formals actuals)
  f.outputs.map e

/-- what a function-call node with the attributes `passed` denotes (ONNX function semantics): the body with
    every reference attribute bound to the passed value, else to the parameter's declared default. -/
def callMeaning {α : Type} (S : OpSem α) (f : Fn) (passed : List (String × AVal)) (actuals : List (Option α)) :
    List (Option α) :=
  evalBody S (resolveFn (effectiveAttrs true f passed) f) actuals

/-! ## the trace's own meaning -/

structure RSt (α : Type) where
  henv : List (Option α)
  nin : Nat

def argVal {α : Type} (S : OpSem α) (henv : List (Option α)) : Arg → Option α
  | .ref h => henv.getD h none
  | .lit l => some (S.lit (litKey l))
  | .none => none

def outCount : Outs → Nat
  | .auto n => n
  | .named ns => ns.length

def takeN {α : Type} (vs : List α) : Nat → List (Option α)
  | 0 => []
  | n + 1 => vs.head? :: takeN vs.tail n

def replayStep {α : Type} (S : OpSem α) (fns : List Fn) (args : List α) (r : RSt α) : Item → RSt α
  | .input _ => ⟨r.henv ++ [args[r.nin]?], r.nin + 1⟩
  | .op t a o _ _ as =>
    let vs := S.op "" t "" as (a.map (argVal S r.henv))
    ⟨r.henv ++ takeN vs (outCount o), r.nin⟩
  | .call fi a o as =>
    match fns[fi]? with
    | none => r
    | some f =>
      let vs := S.op f.domain f.name f.overload as (a.map (argVal S r.henv))
      ⟨r.henv ++ takeN vs (outCount (o.getD (.auto f.outputs.length))), r.nin⟩
  | .inline fi a o _ as =>
    -- inlining a function means what calling it means (ONNX function semantics); where `call_inline` refuses
    -- (unknown function, too many operands, wrong number of `_outputs`; before 06b8334 also a literal operand) nothing is traced
    match fns[fi]? with
    | none => r
    | some f =>
      if (!inlineAdapts && !(a.all isRef)) || decide (a.length > f.formals.length) || outsMismatch o f then r
      else ⟨r.henv ++ callMeaning S f as (a.map (argVal S r.henv)), r.nin⟩
  | _ => r

def replay {α : Type} (S : OpSem α) (fns : List Fn) (args : List α) (tr : List Item) : RSt α :=
  tr.foldl (replayStep S fns args) ⟨[], 0⟩


end OV.C18
