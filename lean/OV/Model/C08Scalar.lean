import OV.Model.C08View
/-!
# C08 — scalar-promotion bookkeeping and creation: which operators `aten_add/sub/mul/clamp/masked_fill/where` and
`aten_full/zeros/ones/*_like/new_*` emit for each dtype class / omitted optional, and the broadcast output shape.
The arithmetic itself is the operators' (A-op; integer `alpha` placement is proved in `C08IntArith`).
-/
namespace OV.C08

/-- dtype classes used by the trace-time branching. -/
inductive DC where | f32 | i64 | bool deriving DecidableEq, Repr

/-- A Python scalar given in halves (`n` = `n/2`) printed as the traced constant of that dtype class:
`2.5:FLOAT` for f32, the integer `n/2` for i64 (only even `n` are generated for integers). -/
def halfStr (dc : DC) (n : Int) : String :=
  match dc with
  | .f32 =>
    let a := n.natAbs
    (if n < 0 then "-" else "") ++ toString (a / 2) ++ (if a % 2 = 0 then ".0" else ".5") ++ ":FLOAT"
  | _ => toString (n / 2)

/-- two-operand broadcast (ONNX multidirectional = PyTorch broadcasting) -/
def bcast2 (a b : Shape) : Option Shape := (bcastRev a.reverse b.reverse).map List.reverse

namespace addsub

/-- `aten_add(self, other, alpha)` / `aten_sub`: bool → `Or(self, other)`, with `other := And(other, False)` when `alpha == 0` (fix a26d309: the
broadcast is kept); `alpha != 1` → `Mul(other, CastLike(alpha, other))` first.  `alpha2` is alpha in halves. -/
def term (isAdd : Bool) (dc : DC) (other : String) (alpha2 : Int) : String :=
  if isAdd && dc == .bool then
    tOp "Or" ["x0", if alpha2 = 0 then tOp "And" [other, "0:BOOL"] else other]
  else
    let o := if alpha2 = 2 then other else tOp "Mul" [other, tOp "CastLike" [halfStr dc alpha2, other]]
    tOp (if isAdd then "Add" else "Sub") ["x0", o]

def model (_isAdd : Bool) (_dc : DC) (a b : Shape) (_alpha2 : Int) : Option Shape := bcast2 a b

def spec (a b : Shape) : Option Shape := bcast2 a b

/-- boolean `add`: `self | (alpha & other)` -/
def boolModel (x y alpha : Bool) : Bool := if alpha = false then x || (y && false) else x || y
def boolSpec (x y alpha : Bool) : Bool := x || (alpha && y)

end addsub

namespace clamp

/-- `aten_clamp(self, min?, max?)` with Python scalars (in halves). -/
def term (dc : DC) (lo hi : Option Int) : String :=
  match lo, hi with
  | none, none => tOp "Identity" ["x0"]
  | some l, none => tOp "Clip" ["x0", tOp "CastLike" [halfStr dc l, "x0"]]
  | none, some h => tOp "Clip" ["x0", "_", tOp "CastLike" [halfStr dc h, "x0"]]
  | some l, some h => tOp "Clip" ["x0", tOp "CastLike" [halfStr dc l, "x0"], tOp "CastLike" [halfStr dc h, "x0"]]

/-- `aten_clamp_tensor(self, min?, max?)`: `Max` first, then `Min` (so that `min > max` gives `max`, as PyTorch). -/
def termTensor (hasLo hasHi : Bool) : String :=
  match hasLo, hasHi with
  | false, false => tOp "Identity" ["x0"]
  | true, false => tOp "Max" ["x0", tOp "CastLike" ["x1", "x0"]]
  | false, true => tOp "Min" ["x0", tOp "CastLike" ["x1", "x0"]]
  | true, true => tOp "Min" [tOp "Max" ["x0", tOp "CastLike" ["x1", "x0"]], tOp "CastLike" ["x2", "x0"]]

/-- value level on an ordered carrier (`Int` here): `Max` then `Min` -/
def valModel (x : Int) (lo hi : Option Int) : Int :=
  let y := match lo with | some l => max x l | none => x
  match hi with | some h => min y h | none => y
/-- `torch.clamp`: `min(max(x, lo), hi)`; when `lo > hi` every element becomes `hi`. -/
def valSpec (x : Int) (lo hi : Option Int) : Int :=
  match lo, hi with
  | some l, some h => if l > h then h else min (max x l) h
  | some l, none => max x l
  | none, some h => min x h
  | none, none => x

end clamp

namespace creation

def dtCode (dc : DC) : String := match dc with | .f32 => "1" | .i64 => "7" | .bool => "9"

/-- `aten_full(size, 1.5, dtype?)` -/
def termFull (size : List Int) (dtype : Option DC) : String :=
  let v := match dtype with | none => "1.5:FLOAT" | some d => tOp "Cast" ["1.5:FLOAT"] [("to", dtCode d)]
  tOp "Expand" [v, tOp "Cast" [tInts size] [("to", "7")]]

/-- `aten_zeros(size, dtype)`: the dtype default is FLOAT; the constant is created in that dtype. -/
def termZeros (size : List Int) (dtype : Option DC) : String :=
  let v := match dtype with | none => "0.0:FLOAT" | some .f32 => "0.0:FLOAT" | some .i64 => "0" | some .bool => "0:BOOL"
  tOp "Expand" [v, tMergeDims size]

def termLike (fill : String) (dtype : Option DC) : String :=
  let v := match dtype with | none => tOp "CastLike" [fill, "x0"] | some d => tOp "Cast" [fill] [("to", dtCode d)]
  tOp "Expand" [v, tOp "Shape" ["x0"] [("start", "0")]]

def termNewFull (size : List Int) (dtype : Option DC) : String :=
  let v := match dtype with | none => tOp "CastLike" ["3", "x0"] | some d => tOp "Cast" ["3"] [("to", dtCode d)]
  tOp "Expand" [v, tInts size]

def termNewZeros (size : List Int) (dtype : Option DC) : String :=
  match dtype with
  | none => tOp "CastLike" [tOp "ConstantOfShape" [tInts size], "x0"]
  | some d => tOp "Cast" [tOp "ConstantOfShape" [tInts size]] [("to", dtCode d)]

end creation

end OV.C08
