import OV.Model.C05Shape
import OV.Model.C05Unit
/-!
# C05 — second batch of rule models: `check_if_not_need_reshape` (broadcast_to_matmul, gemm_to_matmul_add),
hard-swish/hard-sigmoid fusions, conv-affine guards, dynamic ScatterND, Slice+Slice→Split, cast∘ConstantOfShape,
layer-norm / rms-norm guards.  Core Lean only.
-/
namespace OV.C05.More
open OV.C05.Shape

/-! ## `check_if_not_need_reshape` (`_broadcast_to_matmul.py`) -/

/-- The loop over `zip(reversed(a_except), reversed(b_except))`: `ra`, `rb` are the *reversed* lists; `idx` the
position; `acc` the output dims collected so far (prepended).  `none` = "not broadcastable" (return False). -/
def bcLoop : List Nat → List Nat → Nat → List Nat → Option (List Nat)
  | da :: ra, db :: rb, idx, acc =>
    if da == 1 || da == db then
      bcLoop ra rb (idx + 1) (if idx > 0 then (max da db) :: acc else acc)
    else none
  | _, _, _, acc => some acc

/-- `check_if_not_need_reshape(input_a, input_b, shape_c)` on static shapes `a`, `b` (rank ≥ 1) and the constant 1-D
`shape_c`.  Returns the `broadcast_matmul_output_shape` it computes, or `none` when it returns False early. -/
def matmulOutShape (a b : List Nat) : Option (List Nat) :=
  let aRank := a.length
  let bRank := b.length
  if aRank == 0 || bRank == 0 then none else
  if aRank < 2 && bRank < 2 then none else
  -- 1.a
  let okA : Bool := if aRank < 2 then a.getLastD 0 == b.getD (bRank - 2) 0 else true
  if !okA then none else
  let mimicA := aRank < 2
  let a := if mimicA then 1 :: a else a
  let aRank := a.length
  -- 1.b
  let okB : Bool := if bRank < 2 then b.getLastD 0 == a.getLastD 0 else true
  if !okB then none else
  let mimicB := bRank < 2
  let b := if mimicB then b ++ [1] else b
  let bRank := b.length
  -- 1.c
  let aExcept := a.take (aRank - 2) ++ [a.getLastD 0]
  let bExcept := b.take (bRank - 1)
  match bcLoop aExcept.reverse bExcept.reverse 0 [a.getD (aRank - 2) 0, b.getLastD 0] with
  | none => none
  | some out =>
    let (longer, shorter) := if aRank > bRank then (a, b) else (b, a)
    let out := longer.take (longer.length - shorter.length) ++ out
    let out := if mimicB && bRank == 2 && b.getLastD 0 == 1 then out.take (out.length - 1) else out
    let out := if mimicA && aRank == 2 && a.getD 0 0 == 1 then out.eraseIdx (out.length - 2) else out
    some out

structure MatmulReshape where
  a : Option (List Dim)          -- `input_a.shape` (None = unknown)
  b : Option (List Dim)
  shapeC : Option (List Int)     -- constant value of `shape_c` if constant and 1-D
  shapeCRank1 : Bool := true     -- `len(shape_c_tensor.shape) == 1`

def matmulReshapeCheck (p : MatmulReshape) : Bool :=
  match p.shapeC with
  | none => false
  | some c =>
    if !p.shapeCRank1 then false else
    match p.a, p.b with
    | some a, some b =>
      match allKnown a, allKnown b with
      | some an, some bn =>
        (match matmulOutShape an bn with
         | some out => c == out.map Int.ofNat
         | none => false)
      | _, _ => false      -- symbolic dims are not supported by the rule
    | _, _ => false

/-- NumPy / ONNX `MatMul` result shape: 1-D operands are promoted and the added axis removed; batch dims broadcast
both ways; inner dims must agree.  `none` = invalid. -/
def specMatMulShape (a b : List Nat) : Option (List Nat) :=
  if a.length == 0 || b.length == 0 then none else
  let a' := if a.length == 1 then 1 :: a else a
  let b' := if b.length == 1 then b ++ [1] else b
  let m := a'.getD (a'.length - 2) 0
  let k := a'.getLastD 0
  let k' := b'.getD (b'.length - 2) 0
  let n := b'.getLastD 0
  if k != k' then none else
  match specBroadcast (a'.take (a'.length - 2)) (b'.take (b'.length - 2)) with
  | none => none
  | some batch =>
    let core := (if a.length == 1 then [] else [m]) ++ (if b.length == 1 then [] else [n])
    some (batch ++ core)

/-- `gemm_to_matmul_add`: the pattern fixes `alpha = 1.0`, `beta = 1.0` (attribute literals, exact) and allows other
attributes — `transA`/`transB` are not looked at (finding C05-N5). -/
structure GemmToMatmul where
  core : MatmulReshape
  alphaAttr : Option Rat
  betaAttr : Option Rat
  transA : Bool := false
  transB : Bool := false

/-- Before commit ae98696 (finding C05-N5, fixed): `transA`/`transB` were not looked at. -/
def gemmToMatmulCheckPrefix (p : GemmToMatmul) : Bool :=
  p.alphaAttr == some 1 && p.betaAttr == some 1 && matmulReshapeCheck p.core

def gemmToMatmulHyp (p : GemmToMatmul) : Bool := !p.transA && !p.transB

/-- `_check_gemm_to_matmul_add` as it is now: no transposed operand, then `check_if_not_need_reshape`. -/
def gemmToMatmulCheck (p : GemmToMatmul) : Bool :=
  p.alphaAttr == some 1 && p.betaAttr == some 1 && gemmToMatmulHyp p && matmulReshapeCheck p.core

/-! ## Hard-swish / hard-sigmoid (`_fuse_hardswish.py`) -/
open OV.C05.Unit

/-- `is_singleton_value(v, expected: float, rtol=1e-4)`: `math.isclose(scalar, expected, rel_tol=1e-4)` (abs_tol 0). -/
def closeTo (v : Option Rat) (expected : Rat) : Bool :=
  match v with
  | some x => isclose x expected (1 / 10000) 0
  | none => false

structure HardSig where
  clipMin : Option Rat     -- `get_singleton_value` of each operand (none: not a one-element constant)
  clipMax : Option Rat
  bias : Option Rat
  divisor : Option Rat

/-- The four tests of `_HardSigmoidFusionBase.check` as data: (operand, expected, rtol, exact-int compare). -/
def hardSigConstants : List (String × Rat × Option Rat × Bool) :=
  [("clip_min", 0, none, true), ("clip_max", 6, none, true), ("bias", 3, none, true), ("divisor", 6, none, true)]

/-- `_HardSigmoidFusionBase.check` before commit 9b9326e (finding C05-N8, fixed): `isclose(·, rel_tol=1e-4)`. -/
def HardSig.checkPrefix (p : HardSig) : Bool :=
  closeTo p.clipMin 0 && closeTo p.clipMax 6 && closeTo p.bias 3 && closeTo p.divisor 6

/-- `_HardSigmoidFusionBase.check` as it is now: `is_singleton_value(v, <int>)` compares exactly. -/
def HardSig.check (p : HardSig) : Bool :=
  p.clipMin == some 0 && p.clipMax == some 6 && p.bias == some 3 && p.divisor == some 6

/-- The constants are exactly 0, 6, 3, 6 (what the replacement `HardSigmoid(alpha=1/6, beta=0.5)` / `HardSwish` means). -/
def HardSig.exact (p : HardSig) : Bool :=
  p.clipMin == some 0 && p.clipMax == some 6 && p.bias == some 3 && p.divisor == some 6

/-- `np.isclose(a, b)`: `|a - b| ≤ 1e-8 + 1e-5 * |b|`. -/
def npIsclose (a b : Rat) : Bool := decide (absR (a - b) ≤ 1 / 100000000 + (1 / 100000) * absR b)

/-- `HardSwishFusionFromHardSigmoid.check`: attributes default to `-1` when absent. -/
def hardSwishFromSigmoidCheck (alpha beta : Option Rat) : Bool :=
  npIsclose (alpha.getD (-1)) (1 / 6) && npIsclose (beta.getD (-1)) (1 / 2)

/-! ## Conv ∘ affine guards (`_fuse_conv_affine.py`) -/

structure ConvAffine where
  wConst : Bool
  bConst : Bool
  scaleSingleton : Bool
  offsetSingleton : Bool
  /-- affine_conv only: the Conv has the attribute `pads == [0,0,0,0]` (attribute literal of the pattern) -/
  padsZeroAttr : Bool := true

def ConvAffine.check (p : ConvAffine) : Bool :=
  p.wConst && p.bConst && p.scaleSingleton && p.offsetSingleton && p.padsZeroAttr

/-! ## Dynamic full-range ScatterND (`ScatterAllDynamic`) -/

/-- `same_dim`. -/
def sameDim : Dim → Dim → Bool
  | .known a, .known b => a == b
  | .sym a, .sym b => a == b
  | _, _ => false

/-- `ScatterAllDynamic.check`: `axis` = `get_singleton_value(axis)` if it is an int. -/
def dynScatterRun (axis : Option Int) (dataShape tShape : Option Shape) : Outcome Unit :=
  match axis with
  | none => .nofire
  | some ax =>
    match dataShape with
    | none => .nofire
    | some ds =>
      match pyIndex ds ax with
      | none => .raises
      | some d =>
        match tShape with
        | none => .nofire
        | some [] => .raises
        | some (t0 :: _) => if sameDim d t0 then .fire () else .nofire

/-! ## Slice + Slice → Split (`SlicesSplit`) -/

structure SliceSplit where
  xShape : Option Shape
  axes0 : Option (List Int)
  axes1 : Option (List Int)
  begin0 : Option (List Int)
  end0 : Option (List Int)
  begin1 : Option (List Int)
  end1 : Option (List Int)
  /-- the model's default-domain opset is ≥ 18 (`Split.num_outputs` exists) -/
  opsetGe18 : Bool := true

/-- `SlicesSplit.check` before commit 462c374 (findings C05-N9 / C05-N10, fixed). -/
def SliceSplit.checkPrefix (p : SliceSplit) : Bool :=
  match p.axes0, p.axes1 with
  | some a0, some a1 =>
    if a0 != a1 then false else
    if a0.length != 1 then false else
    match p.xShape with
    | none => false
    | some xs =>
      let rank := xs.length
      if a0.getD 0 0 != -1 && a0.getD 0 0 != (rank : Int) - 1 then false else
      match p.begin0, p.end0, p.begin1, p.end1 with
      | some b0, some e0, some b1, some e1 =>
        if b0 != [0] then false else
        if e0.getD 0 0 != b1.getD 0 0 then false else
        match xs.getLast? with
        | some (.known d) =>
          if (d : Int) != e1.getD 0 0 then false else
          ((d / 2 : Nat) : Int) == b1.getD 0 0
        | _ => false
      | _, _, _, _ => false
  | _, _ => false

/-- `SlicesSplit.check` as it is now: additionally the last dim is even and the opset is ≥ 18. -/
def SliceSplit.check (p : SliceSplit) : Bool :=
  p.checkPrefix &&
  (match p.xShape.bind List.getLast? with
   | some (.known d) => d % 2 == 0
   | _ => false) && p.opsetGe18

/-- ONNX `Split(num_outputs=2)` chunk sizes on a dim `d`: `ceil(d/2)` and the rest. -/
def specSplit2 (d : Nat) : Nat × Nat := ((d + 1) / 2, d - (d + 1) / 2)

/-- What the two matched slices `[0, d/2)` and `[d/2, d)` keep. -/
def sliceHalves (d : Nat) : Nat × Nat := (d / 2, d - d / 2)

/-- The multi-output matcher fixes the first pattern output to the visited node and takes, for the second, the first
`Slice` of the graph in node order that matches *structurally* (it never retries after `check` fails).  With the two
slices `lo = Slice(x,0,h)`, `hi = Slice(x,h,d)`: the rule can only fire when visiting `lo` while `hi` is the first Slice in
the graph. -/
def sliceSplitFires (checkOk : Bool) (hiComesFirst : Bool) : Bool := checkOk && hiComesFirst

/-! ## Cast ∘ ConstantOfShape (`_cast_constant_of_shape.py`): no `check`; `rewrite` converts the fill value with
`ir.tensor([scalar.item()], dtype=to)`, which raises `OverflowError` for a negative value and an unsigned target. -/

def unsignedTypes : List Nat := [2, 4, 12, 13]     -- UINT8, UINT16, UINT32, UINT64

def castConstantOfShapeRun (dst : Nat) (value : Option Rat) : Outcome Nat :=
  match value with
  | some v => if unsignedTypes.contains dst && v < 0 then .raises else .fire dst
  | none => .fire dst

/-! ## Layer-norm / RMS-norm guards -/

/-- `LayerNormFusion.check`: `x.dtype ∈ {FLOAT, DOUBLE}` and epsilon is a one-element constant. -/
def layerNormComputeTypes : List Nat := [1, 11]     -- FLOAT, DOUBLE

def layerNormCheck (xDtype : Option Nat) (epsSingleton : Bool) : Bool :=
  (match xDtype with | some t => layerNormComputeTypes.contains t | none => false) && epsSingleton

/-! ## Layer-norm / RMS-norm fusion rules (`rules/fusion/_layer_norm.py`, `_rms_normalization.py`) -/

inductive NormKind where
  | layerNorm        -- `LayerNormFusion`
  | layerNormBias    -- `LayerNormBiasFusion` (no check)
  | rmsNorm          -- `RmsNormFusion` (both operand orders of the final Mul)
  deriving Repr, DecidableEq

def floatTypes : List Nat := [1, 10, 16, 11]     -- FLOAT, FLOAT16, BFLOAT16, DOUBLE

structure NormFusion where
  kind : NormKind
  xDtype : Option Nat
  scaleDtype : Option Nat := none
  epsSingleton : Bool := true        -- `get_singleton_value(epsilon) is not None`
  epsIsFloat : Bool := true          -- rms: `isinstance(epsilon_value, float)`
  computeDtype : Option Nat := none  -- rms: the `to` of the optional leading Cast
  /-- rank of x and of the scale (bias for `layerNormBias`); `none` = shape unknown -/
  xRank : Option Nat := some 2
  otherRank : Option Nat := some 1
  /-- what `check` does not look at: the opset -/
  opset : Nat := 23

structure NormRepl where
  stashType : Option Nat      -- `stash_type` attribute (none for the bias rule: attributes are copied)
  deriving Repr, DecidableEq

def dtypeIn (l : List Nat) : Option Nat → Bool
  | some t => l.contains t
  | none => false

/-- `LayerNormFusion.check`. -/
def NormFusion.lnOk (p : NormFusion) : Bool := dtypeIn layerNormComputeTypes p.xDtype && p.epsSingleton

/-- `self._stash_dtype = compute_dtype if present else x.dtype`. -/
def NormFusion.rmsStash (p : NormFusion) : Option Nat :=
  match p.computeDtype with | some c => some c | none => p.xDtype

/-- `RmsNormFusion.check`. -/
def NormFusion.rmsOk (p : NormFusion) : Bool :=
  p.epsSingleton && p.epsIsFloat && dtypeIn floatTypes p.xDtype && dtypeIn floatTypes p.scaleDtype &&
  dtypeIn layerNormComputeTypes p.rmsStash

/-- Guard added by commit fd3c959 (finding C05-N11, fixed): both shapes known and the scale / bias does not outrank x. -/
def NormFusion.rankOk (p : NormFusion) : Bool :=
  match p.xRank, p.otherRank with
  | some rx, some ro => decide (ro ≤ rx)
  | _, _ => false

/-- The three rules before commit fd3c959. -/
def NormFusion.runPrefix (p : NormFusion) : Outcome NormRepl :=
  match p.kind with
  | .layerNorm => if p.lnOk then .fire { stashType := p.xDtype } else .nofire
  | .layerNormBias => .fire { stashType := none }
  | .rmsNorm => if p.rmsOk then .fire { stashType := p.rmsStash } else .nofire

def NormFusion.run (p : NormFusion) : Outcome NormRepl :=
  if p.rankOk then p.runPrefix else .nofire

/-- Side condition the fusion checks do not establish: `RMSNormalization` exists only from opset 23 (finding C05-N12). -/
def NormFusion.hyp (p : NormFusion) : Bool := p.kind != .rmsNorm || decide (23 ≤ p.opset)

/-! ## ONNX `Slice` with step 1 on one axis, any start/end (for `collapse_slice2`) -/

def clampI (v : Int) (d : Nat) : Nat := if v < 0 then 0 else if v > d then d else v.toNat

/-- `Slice(l, start, end, step = 1)`: negative indices count from the end, then both are clamped to `[0, d]`. -/
def specSliceStep1 {β : Type} (l : List β) (st en : Int) : List β :=
  let d := l.length
  let s := clampI (if st < 0 then st + d else st) d
  let e := clampI (if en < 0 then en + d else en) d
  (l.drop s).take (e - s)

/-! ## `_cast_constant_of_shape.rules`: two rules on one root, first match wins -/
/-- `cast_constant_of_shape_rule`: the pattern names the `value` attribute, so it matches only a node that has one; the
fused node is filled with that value (cast). -/
def ccosWithValueRule (value : Option Rat) : Option Rat := value
/-- `cast_constant_of_shape_without_value_rule`: the pattern lists no attribute and node patterns allow unlisted attributes,
so it matches **every** `Cast(ConstantOfShape(·))`; the fused node is filled with 0. -/
def ccosWithoutValueRule (_value : Option Rat) : Option Rat := some 0
/-- first-match-wins over a list of these two rules -/
def ccosRuleSet (rules : List (Option Rat → Option Rat)) (value : Option Rat) : Option Rat :=
  rules.findSome? (fun r => r value)
/-- fill value of `ConstantOfShape(shape, value?)` (ONNX: default 0) -/
def ccosFill (value : Option Rat) : Rat := value.getD 0

end OV.C05.More
