/-
  OV.Model.C07Graph — C07: the host-model fragment the rewriter's splice acts on, and its meaning.

  Core Lean only.

  * `Node` carries an `id` (Python object identity of the `ir.Node`), op identifier, optional
    inputs, outputs, opaque attributes, `metadata_props`, graph-valued attributes (`subs`; a GRAPHS
    attribute is several entries under one key) and `caps`: the names its bodies read from the
    enclosing scopes (what `Value.uses()` reports for uses inside nested subgraphs).
  * `Graph` = formal inputs, initializers (name ↦ constant token), nodes, outputs.
  * `evalGraph sem d outer g args`: operators are the uninterpreted `sem.op`; a node with bodies is
    the uninterpreted higher-order `sem.ctl` applied to the *denotations* of its bodies closed over
    the enclosing environment restricted to `caps` (ONNX outer-scope visibility: a body can only
    observe the outer values it names).  `d` bounds nesting depth only.
-/
namespace OV.C07

abbrev Name := String

mutual
inductive Node where
  | mk (id : Nat) (op domain overload : String) (inputs : List (Option Name)) (outputs : List Name)
       (attrs : List (String × String)) (mprops : List (String × String))
       (caps : List Name) (subs : List (String × Graph))
inductive Graph where
  | mk (inputs : List Name) (inits : List (Name × String)) (nodes : List Node) (outputs : List Name)
end

instance : Inhabited Graph := ⟨.mk [] [] [] []⟩
instance : Inhabited Node := ⟨.mk 0 "" "" "" [] [] [] [] [] []⟩

namespace Node
def id : Node → Nat | .mk i _ _ _ _ _ _ _ _ _ => i
def op : Node → String | .mk _ o _ _ _ _ _ _ _ _ => o
def domain : Node → String | .mk _ _ d _ _ _ _ _ _ _ => d
def overload : Node → String | .mk _ _ _ v _ _ _ _ _ _ => v
def inputs : Node → List (Option Name) | .mk _ _ _ _ i _ _ _ _ _ => i
def outputs : Node → List Name | .mk _ _ _ _ _ o _ _ _ _ => o
def attrs : Node → List (String × String) | .mk _ _ _ _ _ _ a _ _ _ => a
def mprops : Node → List (String × String) | .mk _ _ _ _ _ _ _ m _ _ => m
def caps : Node → List Name | .mk _ _ _ _ _ _ _ _ c _ => c
def subs : Node → List (String × Graph) | .mk _ _ _ _ _ _ _ _ _ s => s

def setInputs (n : Node) (i : List (Option Name)) : Node :=
  .mk n.id n.op n.domain n.overload i n.outputs n.attrs n.mprops n.caps n.subs
def setOutputs (n : Node) (o : List Name) : Node :=
  .mk n.id n.op n.domain n.overload n.inputs o n.attrs n.mprops n.caps n.subs
def setMeta (n : Node) (m : List (String × String)) : Node :=
  .mk n.id n.op n.domain n.overload n.inputs n.outputs n.attrs m n.caps n.subs
def setOverload (n : Node) (v : String) : Node :=
  .mk n.id n.op n.domain v n.inputs n.outputs n.attrs n.mprops n.caps n.subs
def setBodies (n : Node) (c : List Name) (s : List (String × Graph)) : Node :=
  .mk n.id n.op n.domain n.overload n.inputs n.outputs n.attrs n.mprops c s

/-- Names a node reads: its inputs and what its bodies capture. -/
def inputNames (n : Node) : List Name := n.inputs.filterMap (fun x => x)
def reads (n : Node) : List Name := n.inputNames ++ n.caps
end Node

namespace Graph
def inputs : Graph → List Name | .mk i _ _ _ => i
def inits : Graph → List (Name × String) | .mk _ i _ _ => i
def nodes : Graph → List Node | .mk _ _ n _ => n
def outputs : Graph → List Name | .mk _ _ _ o => o
def setNodes (g : Graph) (ns : List Node) : Graph := .mk g.inputs g.inits ns g.outputs
def setInits (g : Graph) (i : List (Name × String)) : Graph := .mk g.inputs i g.nodes g.outputs
def initNames (g : Graph) : List Name := g.inits.map (·.1)
/-- Names defined by the graph itself (inputs, initializers, node outputs). -/
def defined (g : Graph) : List Name := g.inputs ++ g.initNames ++ g.nodes.flatMap (·.outputs)
end Graph

/-! ## Semantics -/

structure Sem (V : Type) where
  op : String → String → String → List (String × String) → List (Option V) → Option (List V)
  ctl : String → String → List (String × String) → List (Option V) →
        List (List (Option V) → Option (List V)) → Option (List V)
  tensor : String → V

def Env (V : Type) := Name → Option V

def Env.empty {V} : Env V := fun _ => none
def Env.set {V} (ρ : Env V) (x : Name) (v : V) : Env V := fun y => if y = x then some v else ρ y
def Env.restrict {V} (ρ : Env V) (S : List Name) : Env V := fun y => if y ∈ S then ρ y else none

def bindOuts {V} (ρ : Env V) : List Name → List V → Option (Env V)
  | [], [] => some ρ
  | x :: xs, v :: vs => bindOuts (ρ.set x v) xs vs
  | _, _ => none

def lookupIn {V} (ρ : Env V) : Option Name → Option (Option V)
  | none => some none
  | some x => (ρ x).map some

def lookupAll {V} (ρ : Env V) : List (Option Name) → Option (List (Option V))
  | [] => some []
  | x :: xs => (lookupIn ρ x).bind fun v => (lookupAll ρ xs).map (v :: ·)

def lookupOuts {V} (ρ : Env V) : List Name → Option (List V)
  | [] => some []
  | x :: xs => (ρ x).bind fun v => (lookupOuts ρ xs).map (v :: ·)

/-- Outputs of one node from its looked-up inputs; `sub` gives the meaning of a body in an
enclosing environment. -/
def nodeOutputs {V} (sem : Sem V) (sub : Env V → Graph → List (Option V) → Option (List V))
    (ρ : Env V) (n : Node) (args : List (Option V)) : Option (List V) :=
  if n.subs.isEmpty then sem.op n.op n.domain n.overload n.attrs args
  else sem.ctl n.op n.domain n.attrs args
    (n.subs.map fun sg => fun vs => sub (ρ.restrict n.caps) sg.2 vs)

def evalNode {V} (sem : Sem V) (sub : Env V → Graph → List (Option V) → Option (List V))
    (ρ : Env V) (n : Node) : Option (Env V) :=
  (lookupAll ρ n.inputs).bind fun args =>
  (nodeOutputs sem sub ρ n args).bind fun vs =>
  bindOuts ρ n.outputs vs

def evalNodes {V} (f : Env V → Node → Option (Env V)) : Env V → List Node → Option (Env V)
  | ρ, [] => some ρ
  | ρ, n :: ns => (f ρ n).bind fun ρ' => evalNodes f ρ' ns

def bindInits {V} (sem : Sem V) (ρ : Env V) : List (Name × String) → Env V
  | [] => ρ
  | (x, t) :: r => bindInits sem (ρ.set x (sem.tensor t)) r

def bindInputs {V} (ρ : Env V) : List Name → List (Option V) → Option (Env V)
  | [], [] => some ρ
  | x :: xs, some v :: as => bindInputs (ρ.set x v) xs as
  | _ :: xs, none :: as => bindInputs ρ xs as
  | _, _ => none

def startEnv {V} (sem : Sem V) (outer : Env V) (g : Graph) (args : List (Option V)) : Option (Env V) :=
  bindInputs (bindInits sem outer g.inits) g.inputs args

/-- Meaning of a graph in an enclosing environment (`outer` is empty for a main graph or a
function body). -/
def evalGraph {V} (sem : Sem V) : Nat → Env V → Graph → List (Option V) → Option (List V)
  | 0, _, _, _ => none
  | d + 1, outer, g, args =>
    (startEnv sem outer g args).bind fun ρ0 =>
    (evalNodes (evalNode sem (evalGraph sem d)) ρ0 g.nodes).bind fun ρ =>
    lookupOuts ρ g.outputs

/-! ## Free names of bodies (what `caps` must contain), fuel-bounded traversal -/

def dedup (l : List Name) : List Name := l.foldl (fun acc x => if x ∈ acc then acc else acc ++ [x]) []

mutual
/-- names read by the nodes (inputs and, recursively, bodies) that are not defined by `bound`
or by an earlier node of the list; the fuel decreases at every node and every descent -/
def freeNodes : Nat → List Name → List Node → List Name
  | 0, _, _ => []
  | _ + 1, _, [] => []
  | d + 1, bound, n :: ns =>
    let own := (n.inputNames ++ n.subs.flatMap (fun s => freeGraph d s.2)).filter (fun x => !(bound.contains x))
    own ++ freeNodes d (bound ++ n.outputs) ns
def freeGraph : Nat → Graph → List Name
  | 0, _ => []
  | d + 1, g =>
    let bound := g.inputs ++ g.initNames
    (freeNodes d bound g.nodes ++ g.outputs.filter (fun x =>
      !((bound ++ g.nodes.flatMap (·.outputs)).contains x)))
end

/-- `caps` a node ought to carry for its current bodies. -/
def capsOf (d : Nat) (subs : List (String × Graph)) : List Name :=
  dedup (subs.flatMap (fun s => freeGraph d s.2))

/-! ## Well-formedness used by the splice theorems (one scope level)

`Sorted ns`: later nodes never write what an earlier node reads or writes — the list form of
"single assignment + definition before use" that `onnx.checker` enforces. -/

def disjoint (a b : List Name) : Bool := a.all (fun x => !(b.contains x))

/-- `b` may follow `a`: `b` writes neither a read nor a write of `a`. -/
def follows (a b : Node) : Bool := disjoint b.outputs a.reads && disjoint b.outputs a.outputs

def sortedNodes : List Node → Bool
  | [] => true
  | a :: r => r.all (follows a) && sortedNodes r

/-- One-level structural validity of a graph in a scope where `outerNames` are visible:
distinct outputs per node and across nodes, no redefinition of visible names, every read defined
earlier, graph outputs defined. -/
def wfNodes : List Name → List Node → Bool
  | _, [] => true
  | avail, n :: ns =>
    n.reads.all (avail.contains ·) && n.outputs.all (fun o => !(avail.contains o)) &&
    n.outputs.eraseDups.length == n.outputs.length && wfNodes (avail ++ n.outputs) ns

def wfGraph (outerNames : List Name) (g : Graph) : Bool :=
  let avail := outerNames ++ g.inputs ++ g.initNames
  wfNodes avail g.nodes && g.outputs.all ((avail ++ g.nodes.flatMap (·.outputs)).contains ·)

end OV.C07
