/-!
# C09 — shape logic of the optimizer and the shape-dependent rewrite rules

One-to-one restatement (bugs included) of
* `onnxscript/optimizer/_constant_folding.py`: `_same_shape`, `_merge_shapes`, the partial evaluators
  `add`, `abs`, `gather`, `reshape`, `squeeze`, `shape`, `size`, `concat`, `expand`, `identity`;
* `onnxscript/rewriter/_ir_utils.py`: `same_shape`, `same_dim`, `get_dim`;
* `onnxscript/rewriter/rules/common/_remove_expand_before_binary_op.py`: `_compute_broadcast_dim`,
  `_compute_broadcast_shape`, `_check_dims_sufficient`, `_check_expand_removable` (strategies 1–3);
* `_materialize_reshape_shape.py` (`MaterializeReshapeShape.check`), `_basic_rules.py`
  (`Flatten2Reshape.check`, `ExpandIdentity.check`, `ReshapeReshape.check`);
and the part of the ONNX operator specification the theorems compare against (`broadcast`,
`reshapeTarget`, `flattenSpec`, `onnxShapeSlice`).  Core Lean only.

A dimension of an `ir.Shape` is an `int` (`known`), a named `SymbolicDim` (`sym`), or `SymbolicDim(None)`
(`unknown`).  Python's `==` on dims is structural: `SymbolicDim(None) == SymbolicDim(None)` is `True`
(`onnx_ir._core.SymbolicDim.__eq__` compares `_value`), an `int` never equals a `SymbolicDim`.  That is
exactly the derived `DecidableEq` below.  The same class is used by the fold pass for *shape values*
(contents of a 1-D INT64 tensor), whose entries may be negative — hence `known (n : Int)`.
-/
namespace OV.C09

inductive Dim where
  | known (n : Int)
  | sym (s : String)
  | unknown
  deriving DecidableEq, Repr, Inhabited

abbrev Shape := List Dim

def Dim.isUnknown : Dim → Bool
  | .unknown => true
  | _ => false

def Dim.isInt : Dim → Bool
  | .known _ => true
  | _ => false

def Dim.int? : Dim → Option Int
  | .known n => some n
  | _ => none

/-- `shape.has_unknown_dim()` / `any(isinstance(d, SymbolicDim) and d.value is None for d in shape)`. -/
def hasUnknown (s : Shape) : Bool := s.any Dim.isUnknown

/-- all dims are `int`s → the list of ints (`all(isinstance(d, int) for d in …)`). -/
def allInts : Shape → Option (List Int)
  | [] => some []
  | .known n :: t => (allInts t).map (n :: ·)
  | _ :: _ => none

/-! ## Equality helpers -/

/-- `_constant_folding._same_shape`: only `shape1` is scanned for unknown dims, then `dims ==`. -/
def sameShapeFold (s1 s2 : Shape) : Bool :=
  if hasUnknown s1 then false else decide (s1 = s2)

/-- `_ir_utils.same_shape`. -/
def sameShape (s1 s2 : Option Shape) : Bool :=
  match s1, s2 with
  | some a, some b => if hasUnknown a || hasUnknown b then false else decide (a = b)
  | _, _ => false

/-- `_ir_utils.same_dim`. -/
def sameDim : Dim → Dim → Bool
  | .known a, .known b => decide (a = b)
  | .sym a, .sym b => decide (a = b)
  | _, _ => false

/-- `_ir_utils.get_dim(value, dim)` on the value's shape (`none` = not statically known). -/
def getDim (s : Option Shape) (i : Int) : Option Dim :=
  match s with
  | none => none
  | some sh =>
    let r : Int := sh.length
    let j := if i < 0 then i + r else i
    if j < 0 || j ≥ r then none else sh[j.toNat]?

/-! ## `_merge_shapes` -/

def mergeDim (d1 d2 : Dim) : Dim :=
  if d1 = d2 then d1
  else if d1.isInt then d1
  else if d2.isInt then d2
  else if d1.isUnknown then d2
  else d1

/-- `_merge_shapes(preferred, other)`; `.error` is the `ValueError` on a rank mismatch. -/
def mergeShapes (p o : Option Shape) : Except Unit (Option Shape) :=
  match p, o with
  | none, o => .ok o
  | some p, none => .ok (some p)
  | some p, some o =>
    if p.length ≠ o.length then .error () else .ok (some (List.zipWith mergeDim p o))

/-! ## Symbolic broadcasting (`_remove_expand_before_binary_op.py`) -/

/-- `_same_dim(d1, d2)` of `_remove_expand_before_binary_op.py` (commit 9477c4c): `d1 == d2` as a fact
about run-time values — unnamed dims are never known to be equal. -/
def semEq (d1 d2 : Dim) : Bool := !d1.isUnknown && !d2.isUnknown && decide (d1 = d2)

/-- `_compute_broadcast_dim`. -/
def bcastDim (d1 d2 : Dim) : Option Dim :=
  if d1 = .known 1 then some d2
  else if d2 = .known 1 then some d1
  else if semEq d1 d2 then some d1
  else none

def seqOpt {α} : List (Option α) → Option (List α)
  | [] => some []
  | none :: _ => none
  | some a :: t => (seqOpt t).map (a :: ·)

/-- `shape[idx] if idx >= 0 else 1` on a reversed shape: the current dim, `1` once exhausted. -/
def hd1 (s : Shape) : Dim := s.headD (.known 1)

/-- `_compute_broadcast_shape` on *reversed* shapes, `n = max(rank1, rank2)` dims (the Python loop
walks the same right-aligned pairs; it returns `None` as soon as one pair is `None`). -/
def bcastShapeN : Nat → Shape → Shape → Option Shape
  | 0, _, _ => some []
  | n + 1, x, y => (bcastDim (hd1 x) (hd1 y)).bind fun d => (bcastShapeN n x.tail y.tail).map (d :: ·)

/-- `_compute_broadcast_shape` (ranks are always known for an `ir.Shape`). -/
def bcastShape (s1 s2 : Shape) : Option Shape :=
  (bcastShapeN (max s1.length s2.length) s1.reverse s2.reverse).map List.reverse

/-- per-dimension test of `_check_dims_sufficient` (`isinstance(e_d, int) and e_d == 1`, `_same_dim`). -/
def dimOk2 (e x y : Dim) : Bool :=
  decide (e = .known 1) || semEq x e || semEq y e

/-- per-dimension test of strategy 1 (constant expand shape; `isinstance(x_d, int) and x_d == e_d`). -/
def dimOk1 (e : Int) (x y : Dim) : Bool :=
  decide (e = 1) || decide (x = .known e) || decide (y = .known e)

/-- The loop of `_check_dims_sufficient` over `rev_i = k, k+1, …` on reversed shapes: `some rev_i` of
the first failing dimension. -/
def suffRev : Shape → Shape → Shape → Nat → Option Nat
  | [], _, _, _ => none
  | e :: es, x, y, k => if dimOk2 e (hd1 x) (hd1 y) then suffRev es x.tail y.tail (k + 1) else some k

inductive SuffVerdict where
  | ok
  | rankFail              -- "Expand adds leading dimensions that neither operand has." (commit 48b48d2)
  | dimFail (i : Nat)     -- "Cannot verify … at dimension i"
  deriving DecidableEq, Repr

/-- `_check_dims_sufficient(expand_shape, x_shape, y_shape)`; `dimFail i` names the dimension index
`i = e_rank - 1 - rev_i` of the failure reason. -/
def dimsSufficient (e x y : Shape) : SuffVerdict :=
  if e.length > max x.length y.length then .rankFail
  else match suffRev e.reverse x.reverse y.reverse 0 with
    | none => .ok
    | some k => .dimFail (e.length - 1 - k)

/-- The loop of strategy 1 (expand target is a constant) on reversed lists. -/
def s1Rev : List Int → Shape → Shape → Nat → Option Nat
  | [], _, _, _ => none
  | e :: es, x, y, k => if dimOk1 e (hd1 x) (hd1 y) then s1Rev es x.tail y.tail (k + 1) else some k

/-- Strategy 1 (constant target), with the rank guard of commit 48b48d2. -/
def strategy1 (e : List Int) (x y : Shape) : SuffVerdict :=
  if e.length > max x.length y.length then .rankFail
  else match s1Rev e.reverse x.reverse y.reverse 0 with
    | none => .ok
    | some k => .dimFail (e.length - 1 - k)

/-- Strategy 3: `computed is not None and len(computed) == rank and all(_same_dim(c, a) for c, a in zip(…))`. -/
def strategy3 (x y out : Shape) : Bool :=
  match bcastShape x y with
  | some c => decide (c.length = out.length) && (List.zipWith semEq c out).all id
  | none => false

inductive ExpandVerdict where
  | noShapes                 -- "Input shapes are not known."
  | ok1 | fail1 (i : Nat) | rank1   -- strategy 1
  | ok2 | fail2 (i : Nat) | rank2   -- strategy 2
  | ok3 | fail3              -- strategy 3
  | noInfo                   -- "Expand target shape is not a constant and no shape annotations …"
  deriving DecidableEq, Repr

def ExpandVerdict.removable : ExpandVerdict → Bool
  | .ok1 | .ok2 | .ok3 => true
  | _ => false

/-- `_check_expand_removable(expand_input, shape, other_input, expand_output, binary_op_output)`:
`xs`,`ys` the shapes of `x`,`y`; `const` the constant value of the Expand target if it is one;
`eOut`,`bOut` the shape annotations of the Expand output and of the binary op output. -/
def expandRemovable (xs ys : Option Shape) (const : Option (List Int)) (eOut bOut : Option Shape) :
    ExpandVerdict :=
  match xs, ys with
  | some x, some y =>
    match const with
    | some e => (match strategy1 e x y with | .ok => .ok1 | .rankFail => .rank1 | .dimFail i => .fail1 i)
    | none =>
      match eOut with
      | some eo => (match dimsSufficient eo x y with | .ok => .ok2 | .rankFail => .rank2 | .dimFail i => .fail2 i)
      | none =>
        match bOut with
        | some o => if strategy3 x y o then .ok3 else .fail3
        | none => .noInfo
  | _, _ => .noShapes

/-- Which rule objects `_make_expand_before_binary_op_rules` generates: `_ExpandSecondInput` for all 19 ops,
`_ExpandFirstInput` for all but `PRelu` (commit dd5f7df: PRelu's output has X's shape, the slope is only
unidirectionally broadcastable).  `side` 0 = Expand on the first operand.  `useSet` = the exported rule set is
applied (as opposed to the single rule object for that side). -/
def expandRuleFires (op : String) (side : Nat) (useSet : Bool) (v : ExpandVerdict) : Bool :=
  v.removable && !(useSet && side == 0 && op == "PRelu")

/-! ## Python list slicing / indexing (used on `ir.Shape`) -/

def pyClamp (n : Nat) (i : Int) : Nat :=
  if i < 0 then (i + n).toNat else min i.toNat n

/-- `l[start:stop]` (step 1); `none` bound = omitted. -/
def pySlice {α} (l : List α) (start stop : Option Int) : List α :=
  let s := match start with | some i => pyClamp l.length i | none => 0
  let e := match stop with | some i => pyClamp l.length i | none => l.length
  (l.take e).drop s

/-- `l[i]` with Python's negative wrap; `none` = `IndexError`. -/
def pyIndex {α} (l : List α) (i : Int) : Option α :=
  let j := if i < 0 then i + l.length else i
  if j < 0 then none else l[j.toNat]?

/-! ## Fold-time partial evaluators (`_constant_folding.py`)

A *shape value* (`state.get_shape_value(v)`) is an `Option Shape`: the `ir.Shape` built from a small
1-D INT64 constant, or the symbolic value recorded for `v`. -/

def prodInt (l : List Int) : Int := l.foldr (· * ·) 1

structure SymConst where
  sym : Option Shape           -- `state.set_sym_value(output, …)`
  const : Option (List Int)    -- returned `op.Constant(value_ints=…)`
  deriving DecidableEq, Repr

/-- `shape(node)`: input's shape annotation, attributes `start` (default 0), `end` (default None). -/
def evalShape (inShape : Option Shape) (start : Int) (stop : Option Int) : Option SymConst :=
  match inShape with
  | none => none
  | some s =>
    let sl := pySlice s (some start) stop
    some { sym := some sl, const := allInts sl }

/-- `size(node)`: a constant only when every dim is an int. -/
def evalSize (inShape : Option Shape) : Option Int :=
  match inShape with
  | none => none
  | some s => (allInts s).map prodInt

inductive Raised (α : Type) where
  | raised            -- an exception escapes the evaluator (`process_node` wraps it in RuntimeError)
  | ret (a : α)
  deriving DecidableEq, Repr

/-- `gather(node)`: `symIn` shape value of input 0, `axis` the attribute if present, `idx` the 1-D
constant indices (`none`: not a constant / not 1-D). -/
def evalGather (symIn : Option Shape) (axis : Option Int) (idx : Option (List Int)) :
    Raised (Option SymConst) :=
  match symIn with
  | none => .ret none
  | some s =>
    if axis ≠ some 0 then .ret none else
    match idx with
    | none => .ret none
    | some is =>
      match seqOpt (is.map (pyIndex s)) with
      | none => .raised
      | some g => .ret (some { sym := some g, const := allInts g })

/-- `dim if isinstance(dim, int) else dim.value` rendered by the f-string. -/
def Dim.render : Dim → Option String
  | .known n => some (toString n)
  | .sym s => some s
  | .unknown => none

def Dim.isNegInt : Dim → Bool
  | .known n => decide (n < 0)
  | _ => false

/-- `add(node)`: new shape value of the output (`none`: nothing recorded).  Since commit 4b0f9eb no
symbolic sum is built when one operand is a negative int (`N + (-5)` may be negative, and symbolic
entries are assumed non-negative downstream). -/
def evalAdd (a b : Option Shape) : Option Shape :=
  match a, b with
  | some [d0], some [d1] =>
    match d0, d1 with
    | .known x, .known y => some [.known (x + y)]
    | _, _ =>
      match d0.render, d1.render with
      | some r0, some r1 =>
        if d0.isNegInt || d1.isNegInt then none else some [.sym (r0 ++ "+" ++ r1)]
      | _, _ => none
  | _, _ => none

/-- `abs(node)`: `true` = replaced by `Identity`. -/
def evalAbs (a : Option Shape) : Bool :=
  match a with
  | none => false
  | some s => !(s.any Dim.isNegInt)

structure ReshapeEval where
  identity : Bool            -- replaced by `Identity(input)`
  sym : Option Shape         -- value recorded for the output by `_propagate_shape_value`
  deriving DecidableEq, Repr

/-- `reshape(node)`: `inShape` annotation of input 0, `shapeVal` shape value of input 1, `inSym` shape
value of input 0. -/
def evalReshape (inShape shapeVal inSym : Option Shape) : ReshapeEval :=
  match inShape, shapeVal with
  | some i, some v => if sameShapeFold i v then ⟨true, none⟩ else ⟨false, inSym⟩
  | _, _ => ⟨false, inSym⟩

/-- `squeeze(node)` = `_propagate_shape_value`. -/
def evalSqueeze (inSym : Option Shape) : Option Shape := inSym

/-- `expand(node)`: `constT` = the target as a constant (`some none` = constant whose `ndim != 1`),
`symT` its shape value otherwise.  `true` = replaced by `Identity`. -/
def evalExpand (inShape : Option Shape) (constT : Option (Option (List Int))) (symT : Option Shape) : Bool :=
  match inShape with
  | none => false
  | some i =>
    match constT with
    | none => (match symT with | some t => sameShapeFold i t | none => false)
    | some none => false
    | some (some t) => decide (i = t.map Dim.known)

inductive ConcatEval where
  | identity (k : Nat)            -- `Identity(inputs[k])`
  | concat (keep : List Nat)      -- `Concat(*kept, axis)`
  | sym (s : Shape)               -- only a symbolic value recorded
  | nothing
  deriving DecidableEq, Repr

/-- `has_zero_size(operand)`: `shape[axis]` with Python indexing, `== 0` only for the int 0. -/
def hasZeroSize (s : Option Shape) (axis : Int) : Bool :=
  match s with
  | none => false
  | some sh => (match pyIndex sh axis with | some d => decide (d = .known 0) | none => false)

/-- `concat(node)`: per input its tensor shape annotation and its shape value; `axis` attribute. -/
def evalConcat (ins : List (Option Shape × Option Shape)) (axis : Option Int) : ConcatEval :=
  if ins.length = 1 then .identity 0 else
  match axis with
  | none => .nothing
  | some ax =>
    let keep := (List.range ins.length).filter (fun k => !(hasZeroSize (ins.getD k (none, none)).1 ax))
    if keep.length ≠ ins.length then
      (if keep.isEmpty then (if ins.isEmpty then .nothing else .identity 0) else .concat keep)
    else if ax ≠ 0 then .nothing
    else match seqOpt (ins.map (·.2)) with
      | none => .nothing
      | some ss => .sym ss.flatten

/-- `identity(node)`: `input.shape = _merge_shapes(input.shape, output.shape)`; a raised merge is
logged and ignored (input shape unchanged).  Since commit 71af564 nothing is merged onto a formal graph input
(its declared shape is part of the model's interface).  Result: the input's shape annotation afterwards. -/
def evalIdentity (inputIsGraphInput : Bool) (inShape outShape : Option Shape) : Option Shape :=
  if inputIsGraphInput then inShape else
  match mergeShapes inShape outShape with
  | .ok s => s
  | .error _ => inShape

/-! ## Rewrite rules deriving constants from shape annotations -/

/-- `MaterializeReshapeShape.check` → `_new_dims` (`none`: the rule does not fire). -/
def materialize (outShape : Option Shape) (shapeIsConst : Bool) : Option (List Int) :=
  if shapeIsConst then none else
  match outShape with
  | none => none
  | some o =>
    -- since commit 49df852: `sym_count == 1 and any(isinstance(d, int) and d == 0 for d in dims)` fails the check
    if (o.filter (fun d => !d.isInt)).length = 1 && o.any (fun d => decide (d = .known 0)) then none
    else if (o.filter (fun d => !d.isInt)).length ≤ 1 then
      some (o.map (fun d => match d with | .known n => n | _ => -1))
    else none

def setAt (l : List Int) (i : Nat) (v : Int) : List Int := l.set i v

/-- `Flatten2Reshape.check`, step "compute reshape shape following axis attribute". -/
def flatPhase1 (axis : Int) (rank? : Option Int) : List Int :=
  if axis = 0 then [1, -1]
  else if axis = 1 then [0, -1]
  else if some axis = rank? then [-1, 1] else [-1, -1]

/-- step "try to update shape if output is known":
`for i, dim in enumerate(output_shape): if isinstance(dim, int): new_shape[i] = dim`
(a Flatten output has rank 2; a longer annotation would index past the 2-element array). -/
def flatPhase2 (outShape : Option Shape) (ns : List Int) : List Int :=
  match outShape with
  | some o =>
    let ns : List Int := match (o[0]? : Option Dim) with | some (Dim.known n) => setAt ns 0 n | _ => ns
    match (o[1]? : Option Dim) with | some (Dim.known n) => setAt ns 1 n | _ => ns
  | none => ns

/-- step "try to update shape if input is known" (`np.prod(input_shape[:axis])`, `[axis:]`). -/
def flatPhase3 (inShape : Option Shape) (axis : Int) (ns : List Int) : List Int :=
  match inShape with
  | some s =>
    let ns : List Int := match allInts (pySlice s none (some axis)) with | some l => setAt ns 0 (prodInt l) | none => ns
    match allInts (pySlice s (some axis) none) with | some l => setAt ns 1 (prodInt l) | none => ns
  | none => ns

def hasStaticZero (inShape : Option Shape) : Bool :=
  match inShape with
  | some s => s.any (fun d => decide (d = .known 0))
  | none => false

/-- `Flatten2Reshape.check` → `_new_shape` (`none`: the rule does not fire).
`axisAttr` is the `axis` attribute (default 1). -/
def flattenTarget (inShape outShape : Option Shape) (axisAttr : Int) : Option (List Int) :=
  let rank? : Option Int := inShape.map (fun s => (s.length : Int))
  let axis : Int := match rank? with
    | some r => if axisAttr < 0 then axisAttr + r else axisAttr
    | none => axisAttr
  -- commit 02f546a: `any(isinstance(dim, int) and dim == 0 for dim in input_shape)` fails the check
  -- ("a 0 in the Reshape target means copy the input dim")
  if hasStaticZero inShape then none else
  let ns := flatPhase3 inShape axis (flatPhase2 outShape (flatPhase1 axis rank?))
  if (ns.filter (· == -1)).length > 1 then none else some ns

/-- `ExpandIdentity.check` (`x_shape.dims != tuple(shape.const_value.numpy().tolist())` fails). -/
def expandIdentityRule (xShape : Option Shape) (const : Option (List Int)) : Bool :=
  match const, xShape with
  | some t, some x => decide (x = t.map Dim.known)
  | _, _ => false

/-- `ScatterAllDynamic` (`_redundant_scatter_nd.py`): the pattern asks for `Shape(data, start=0)` (the
attribute must be present and 0), `Gather(shape, axis, axis=0)` with a constant integer `axis`; `check`
compares `data.shape[axis]` (Python indexing) with `transposed_data.shape[0]` by `same_dim`.
`true` = `ScatterND(transposed_data, Unsqueeze(Range(0, dim, 1)), updates)` is replaced by `Identity(updates)`. -/
def scatterAllDynamic (startAttr : Option Int) (axis : Option Int) (data td : Option Shape) : Bool :=
  match startAttr, axis, data, td with
  | some 0, some a, some s, some t =>
    (match pyIndex s a, t.head? with
     | some d1, some d2 => sameDim d1 d2
     | _, _ => false)
  | _, _, _, _ => false

/-- `ScatterAllStatic.check`: `reduction == "none"`, `same_shape(data, updates)`, constant `indices`
equal to `[[0], [1], …, [data.shape[0]-1]]` with `data.shape[0]` an int.  (Rank-0 `data` would raise; not
generated.)  `true` = `ScatterND(data, indices, updates)` is replaced by `Identity(updates)`. -/
def scatterAllStatic (reductionNone : Bool) (data upd : Option Shape) (indices : Option (List (List Int))) : Bool :=
  reductionNone && sameShape data upd &&
  (match indices, data with
   | some idx, some (.known n :: _) => decide (idx = (List.range n.toNat).map (fun (i : Nat) => [(i : Int)]))
   | _, _ => false)

def INT64_MAX : Int := 9223372036854775807

/-- `_collapse_slices._check_if_redundant_slice`: each of starts/ends/axes/steps is `some v` when it is a
constant of size 1 (its single element), `none` otherwise. -/
def redundantSlice (start stop axis step : Option Int) (data : Option Shape) : Bool :=
  match start, stop, axis, step with
  | some st, some en, some ax, some sp =>
    if sp ≠ 1 then false
    else if st ≠ 0 then false
    else if en = INT64_MAX then true
    else match data with
      | none => false
      | some s =>
        (match pyIndex s ax with
         | some (.known d) => !(decide (en < d))
         | _ => false)
  | _, _, _, _ => false

/-- `_collapse_slices._same_shape` (rule `collapse_slice2`): every step 1 (`steps` a constant) and
`same_shape(data, slice_output)`. -/
def sliceSameShape (data out : Option Shape) (steps : Option (List Int)) : Bool :=
  match data, out with
  | some _, some _ =>
    (match steps with
     | some sp => sp.all (· == 1) && sameShape data out
     | none => false)
  | _, _ => false

/-- `SqueezeReshape.check` (`Reshape(Squeeze(x), [-1])` → `Identity(x)`): `has_rank(x, 1)`. -/
def squeezeReshape1d (x : Option Shape) : Bool :=
  match x with
  | some s => decide (s.length = 1)
  | none => false

structure ConstInfo where
  isInt64 : Bool
  ndim : Nat
  vals : List Int        -- flattened contents; `size = vals.length`
  deriving DecidableEq, Repr

/-- `OptimizerState.get_shape_value(value)`: a constant is read only if INT64 and of size ≤ 10
(`_get_numpy_value(value, INT64, size_limit=10)`, which since 3131a7c also answers None for graph inputs:
pass `none`); then it must be 1-D, otherwise `None` *without* falling back to the symbolic value. -/
def getShapeValue (c : Option ConstInfo) (sym : Option Shape) : Option Shape :=
  match c with
  | some ci =>
    if ci.isInt64 && decide (ci.vals.length ≤ 10) then
      (if ci.ndim = 1 then some (ci.vals.map Dim.known) else none)
    else sym
  | none => sym

/-- Shape part of `SimplePatternMatcher._match_constant` for a *scalar* pattern literal (`x * 1`, `x + 0`, …):
the matched constant must have `ndim == 0` (a one-element tensor of rank ≥ 1 is not a scalar). -/
def matchScalarShape (ndim : Nat) : Bool := ndim == 0

/-- … and for a list literal (`[-1]`): `numpy_value.shape == (len(literal),)`. -/
def matchListShape (shape : List Nat) (len : Nat) : Bool := decide (shape = [len])

inductive NoOp where
  | mul1 | add0 | sub0 | div1
  deriving DecidableEq, Repr

/-- The arithmetic rules of `rules/common/_no_op.py` (`mul_by_1`, `add_0` with their commuted forms, `sub_0`,
`div_by_1`): `constSide` = operand position of the constant, `cNdim` its rank, `neutral` = its single value equals
the pattern literal.  `true` = the node is replaced by `Identity(x)`. -/
def noOpFires (op : NoOp) (constSide : Nat) (cNdim : Nat) (neutral : Bool) : Bool :=
  matchScalarShape cNdim && neutral &&
  (match op with
   | .mul1 | .add0 => constSide == 0 || constSide == 1
   | .sub0 | .div1 => constSide == 1)

/-- `isinstance(dim, int) and dim > 0`. -/
def Dim.posInt? : Dim → Option Int
  | .known n => if 0 < n then some n else none
  | _ => none

/-- `ReshapeReshape.check`, step "replace {0,-1} values in shape if reshape output is known":
`for i, dim in enumerate(reshape_output): if isinstance(dim, int) and dim > 0: new_shape[i] = dim`.
`raised` = the `IndexError` of an assignment past the end of the target (annotation longer than the target). -/
def rrUpdate : Shape → List Int → Raised (List Int)
  | [], s => .ret s
  | d :: o, [] =>
    (match d.posInt? with
     | some _ => .raised
     | none => rrUpdate o [])
  | d :: o, v :: s =>
    (match rrUpdate o s with
     | .raised => .raised
     | .ret r => .ret ((match d.posInt? with | some n => n | none => v) :: r))

/-- `ReshapeReshape.check` → (`_new_shape`, `_allowzero == 1`) of `Reshape(Reshape(x, _), shape)` → `Reshape(x, new_shape)`.
`shape` = the second target if it is a constant, `out` = annotation of the second Reshape's output, `az` = its
`allowzero` attribute (default 0).  `ret none`: the check fails. -/
def reshapeReshape (shape : Option (List Int)) (out : Option Shape) (az : Int) : Raised (Option (List Int × Bool)) :=
  match shape with
  | none => .ret none
  | some t =>
    match (match out with | some o => rrUpdate o t | none => .ret t) with
    | .raised => .raised
    | .ret u =>
      if az = 1 && u.contains 0 then .ret (some (u, true))
      else if u.contains 0 && u.any (· < 0) then .ret none
      else if (u.filter (· == 0)).length > 1 then .ret none
      else .ret (some (u.map (fun d => if d = 0 then -1 else d), false))

/-! ## The ONNX specification side -/

/-- multidirectional broadcasting of two dimension values. -/
def bdim (a b : Int) : Option Int :=
  if a = 1 then some b else if b = 1 then some a else if a = b then some a else none

/-- Right-aligned broadcasting on *reversed* shapes, `n = max rank` dims; an exhausted shape counts
as `1` ("dimensions are compared from the trailing one; a missing dimension is treated as 1"). -/
def bcastN : Nat → List Int → List Int → Option (List Int)
  | 0, _, _ => some []
  | n + 1, a, b => (bdim (a.headD 1) (b.headD 1)).bind fun d => (bcastN n a.tail b.tail).map (d :: ·)

/-- numpy-style (multidirectional) broadcast of two concrete shapes (`none`: incompatible → the
runtime rejects the inputs). -/
def broadcast (a b : List Int) : Option (List Int) :=
  (bcastN (max a.length b.length) a.reverse b.reverse).map List.reverse

/-- `Expand(x, e)` output shape. -/
def expandSpec (x e : List Int) : Option (List Int) := broadcast x e

/-- `Shape(start, end)` of the operator specification: negative values count from the end, then both
are clamped to `[0, rank]`. -/
def onnxShapeSlice (l : List Int) (start : Int) (stop : Option Int) : List Int :=
  let r : Int := l.length
  let norm (i : Int) : Nat := (max 0 (min r (if i < 0 then i + r else i))).toNat
  let s := norm start
  let e := match stop with | some i => norm i | none => l.length
  (l.take e).drop s

/-- ONNX `Gather(data, indices, axis=0)` on a 1-D `data` with 1-D `indices`, per the operator specification:
every index must lie in `[-s, s-1]` (`s` = size of the axis), a negative index counts from the end; an index out
of bounds is an error (`none`). -/
def onnxGatherAxis0 (l : List Int) (idx : List Int) : Option (List Int) :=
  let s : Int := l.length
  seqOpt (idx.map fun i => if -s ≤ i ∧ i < s then l[(if i < 0 then i + s else i).toNat]? else none)

def resolveZeros (inp : List Int) : List Int → Nat → Option (List Int)
  | [], _ => some []
  | d :: t, i =>
    match (if d = 0 then inp[i]? else some d), resolveZeros inp t (i + 1) with
    | some v, some r => some (v :: r)
    | _, _ => none

/-- `Reshape(data, shape, allowzero)` output shape per the operator specification
(opset ≥ 14): at most one `-1`; `0` copies the input dim unless `allowzero`; with `allowzero` a `0`
together with `-1` is invalid; the `-1` is inferred from the element count, which is impossible when
the other dims multiply to 0; element counts must agree. -/
def reshapeTarget (inp tgt : List Int) (allowzero : Bool) : Option (List Int) :=
  if (tgt.filter (· == -1)).length > 1 then none
  else if tgt.any (· < -1) then none
  else if allowzero && tgt.contains 0 && tgt.contains (-1) then none
  else
    match (if allowzero then some tgt else resolveZeros inp tgt 0) with
    | none => none
    | some t1 =>
      if t1.contains (-1) then
        let k := prodInt (t1.filter (· != -1))
        if k = 0 then none
        else if prodInt inp % k ≠ 0 then none
        else some (t1.map (fun d => if d = -1 then prodInt inp / k else d))
      else if prodInt t1 = prodInt inp then some t1 else none

/-- `Flatten(axis)` for `0 ≤ axis ≤ rank`. -/
def flattenSpec (inp : List Int) (axis : Nat) : List Int :=
  [prodInt (inp.take axis), prodInt (inp.drop axis)]

/-- ONNX `Slice` along one axis with step 1 on a dim of size `d`: negative bounds count from the end,
both are clamped to `[0, d]`; the selected index range is `[s, e)`. -/
def sliceRange1 (d start stop : Int) : Int × Int :=
  let c (i : Int) : Int := max 0 (min d (if i < 0 then i + d else i))
  (c start, c stop)

/-- `Squeeze(x)` without axes: every dim of size 1 is removed. -/
def squeezeAllSpec (l : List Int) : List Int := l.filter (· != 1)

/-- element of `x` (reversed shape `xs`) read for the reversed output index `idx` under broadcasting:
size-1 dims read position 0, dims beyond `x`'s rank are dropped. -/
def readIdx (xs idx : List Int) : List Int := List.zipWith (fun a i => if a = 1 then 0 else i) xs idx

/-! ## Meaning of a shape annotation -/

/-- A concrete dimension value `v` satisfies the annotation `d` under the binding `σ` of symbols.
An unnamed (`unknown`) dim is satisfied by anything. -/
def Dim.Admits (σ : String → Nat) : Dim → Int → Prop
  | .known k, v => k = v
  | .sym a, v => (σ a : Int) = v
  | .unknown, _ => True

/-- The annotation `s` is truthful for the concrete shape / tensor contents `l` under `σ`. -/
def Admits (σ : String → Nat) : Shape → List Int → Prop
  | [], [] => True
  | d :: s, v :: l => d.Admits σ v ∧ Admits σ s l
  | _, _ => False

/-- The entries of `l` that sit at *unnamed* positions of `s` are non-negative.  Every unnamed entry of a shape
value comes from a tensor dimension (through `Shape`, `Gather`, `Concat`, `Squeeze`/`Reshape` propagation); `add`
never creates one. -/
def UnnamedNonneg : Shape → List Int → Prop
  | d :: s, v :: l => (d = .unknown → 0 ≤ v) ∧ UnnamedNonneg s l
  | _, _ => True

def Dim.val (σ : String → Nat) : Dim → Option Int
  | .known k => some k
  | .sym a => some (σ a)
  | .unknown => none

/-- The concrete list denoted by a shape without unnamed dims. -/
def denote (σ : String → Nat) (s : Shape) : Option (List Int) := seqOpt (s.map (Dim.val σ))

/-! ## Pre-fix restatements (kept only for the regression refutations in `OV.Props.C09`) -/

/-- `add(node)` as it was before commit 4b0f9eb (finding D5). -/
def evalAddBefore4b0f9eb (a b : Option Shape) : Option Shape :=
  match a, b with
  | some [d0], some [d1] =>
    match d0, d1 with
    | .known x, .known y => some [.known (x + y)]
    | _, _ =>
      match d0.render, d1.render with
      | some r0, some r1 => some [.sym (r0 ++ "+" ++ r1)]
      | _, _ => none
  | _, _ => none

/-- `MaterializeReshapeShape.check` as it was before commit 49df852 (finding C09-D16c / D16c2). -/
def materializeBefore49df852 (outShape : Option Shape) (shapeIsConst : Bool) : Option (List Int) :=
  if shapeIsConst then none else
  match outShape with
  | none => none
  | some o =>
    if (o.filter (fun d => !d.isInt)).length ≤ 1 then
      some (o.map (fun d => match d with | .known n => n | _ => -1))
    else none

/-! ### expand-before-binary-op as it was before commits 48b48d2 / 9477c4c (findings C09-N2, C09-N1) -/

def bcastDimBefore9477c4c (d1 d2 : Dim) : Option Dim :=
  if d1 = .known 1 then some d2
  else if d2 = .known 1 then some d1
  else if d1 = d2 then some d1
  else none

def bcastShapeNBefore9477c4c : Nat → Shape → Shape → Option Shape
  | 0, _, _ => some []
  | n + 1, x, y => (bcastDimBefore9477c4c (hd1 x) (hd1 y)).bind fun d => (bcastShapeNBefore9477c4c n x.tail y.tail).map (d :: ·)

def bcastShapeBefore9477c4c (s1 s2 : Shape) : Option Shape :=
  (bcastShapeNBefore9477c4c (max s1.length s2.length) s1.reverse s2.reverse).map List.reverse

def dimOk2Before9477c4c (e x y : Dim) : Bool :=
  decide (e = .known 1) || decide (x = e) || decide (y = e)

def suffRevBefore9477c4c : Shape → Shape → Shape → Nat → Option Nat
  | [], _, _, _ => none
  | e :: es, x, y, k =>
    if dimOk2Before9477c4c e (hd1 x) (hd1 y) then suffRevBefore9477c4c es x.tail y.tail (k + 1) else some k

/-- `_check_dims_sufficient` before both fixes: no rank guard, Python `==` on dims. -/
def dimsSufficientBefore (e x y : Shape) : Option Nat :=
  (suffRevBefore9477c4c e.reverse x.reverse y.reverse 0).map fun k => e.length - 1 - k

/-- strategy 2 with the rank guard (48b48d2) but still Python `==` (before 9477c4c). -/
def dimsSufficientBefore9477c4c (e x y : Shape) : Option Nat :=
  if e.length > max x.length y.length then some 0 else dimsSufficientBefore e x y

/-- strategy 1 before commit 48b48d2: no rank guard. -/
def strategy1Before48b48d2 (e : List Int) (x y : Shape) : Option Nat :=
  (s1Rev e.reverse x.reverse y.reverse 0).map fun k => e.length - 1 - k

/-- strategy 3 before commit 9477c4c. -/
def strategy3Before9477c4c (x y out : Shape) : Bool :=
  match bcastShapeBefore9477c4c x y with
  | some c => decide (c = out)
  | none => false

/-- `Flatten2Reshape.check` as it was before commit 02f546a (static-zero half of finding D6). -/
def flattenTargetBefore02f546a (inShape outShape : Option Shape) (axisAttr : Int) : Option (List Int) :=
  let rank? : Option Int := inShape.map (fun s => (s.length : Int))
  let axis : Int := match rank? with
    | some r => if axisAttr < 0 then axisAttr + r else axisAttr
    | none => axisAttr
  let ns := flatPhase3 inShape axis (flatPhase2 outShape (flatPhase1 axis rank?))
  if (ns.filter (· == -1)).length > 1 then none else some ns

end OV.C09
