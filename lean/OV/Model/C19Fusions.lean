/-!
# C19 — executable model of the ORT fusion decisions (`onnxscript/rewriter/ort_fusions/*.py`)

Core Lean only.  Every `def` below restates the *decision* a fusion rule takes (structural match,
`check`, rule order inside a rule set) and the *attributes / input wiring* its `rewrite` emits, as a
function of the facts the rule reads from the graph (shapes, dtypes, constants, attributes).  The
numeric side (what the fused operator computes) is in `OV.Lemmas.C19Algebra` / `OV.Model.C19Index`.
-/
namespace OV.C19

/-! ## dims, `_fusion_utils.check_shape_bool` -/

/-- An `onnx_ir` dimension: `int`, `SymbolicDim("N")`, `SymbolicDim(None)`. -/
inductive Dim where
  | int (n : Nat)
  | sym (s : String)
  | unk
  deriving DecidableEq, Repr, Inhabited

/-- Python `actual == bindings[expected]` on `onnx_ir` dims.  `SymbolicDim.__eq__` compares the
`.value`s, so **two unknown dims (`None`) compare equal**; an `int` never equals a `SymbolicDim`. -/
def Dim.pyEq : Dim → Dim → Bool
  | .int a, .int b => a == b
  | .sym a, .sym b => a == b
  | .unk, .unk => true
  | _, _ => false

def Dim.isKnown : Dim → Bool
  | .unk => false
  | _ => true

def Dim.isInt : Dim → Bool
  | .int _ => true
  | _ => false

abbrev Shape := List Dim
abbrev Bindings := List (String × Dim)

/-- The loop of `check_shape_bool` / `check_shape`: first occurrence of a name binds, later ones compare. -/
def unify : Bindings → List (Dim × String) → Option Bindings
  | b, [] => some b
  | b, (d, n) :: rest =>
    match b.lookup n with
    | none => unify ((n, d) :: b) rest
    | some d' => if d.pyEq d' then unify b rest else none

/-- `check_shape_bool(bindings, val, names)`; `none` = `False` (unknown shape, rank mismatch, dim mismatch). -/
def checkShape (b : Bindings) (shape : Option Shape) (names : List String) : Option Bindings :=
  match shape with
  | none => none
  | some s => if s.length != names.length then none else unify b (s.zip names)

def hasRank (shape : Option Shape) (r : Nat) : Bool :=
  match shape with
  | none => false
  | some s => s.length == r

/-! ## floats as seen by the Python code (IEEE binary64; only used by the decision, never by theorems) -/

def fabs (x : Float) : Float := if x < 0 then -x else x
def fmax (a b : Float) : Float := if a < b then b else a

/-- `math.isclose(a, b, rel_tol, abs_tol)` for finite values, over ANY carrier that has the operations the
C implementation uses (`a == b`, `fabs(a-b)`, two `fmax`, one product).  The driver runs it at `Float` (IEEE
binary64, `isclose` below); the theorems `isclose_*` of `OV.Props.C19` are about the same definition at an ordered
field (exact arithmetic: rounding inside the test itself is not modelled). -/
def iscloseG {α : Type} [Sub α] [Mul α] [Neg α] [OfNat α 0] [LT α] [LE α] [DecidableLT α] [DecidableLE α] [BEq α]
    (a b rel abs : α) : Bool :=
  let ab : α → α := fun x => if x < 0 then -x else x
  let mx : α → α → α := fun x y => if x < y then y else x
  a == b || decide (ab (a - b) ≤ mx (rel * mx (ab a) (ab b)) abs)

/-- `math.isclose(a, b, rel_tol, abs_tol)` at IEEE binary64. -/
def isclose (a b rel abs : Float) : Bool := iscloseG a b rel abs

/-- A scalar *float* pattern literal (`_matcher._match_constant`): rank 0 and `isclose(·, expected, 1e-5, 1e-8)`. -/
def constMatches (rank : Nat) (v expected : Float) : Bool :=
  rank == 0 && isclose v expected 1e-5 1e-8

/-- A scalar *integer* pattern literal (`op.Pow(x, 3)`, `op.Add(t, 1)`): since /repo commit 6800bd1 integer
literals default to zero tolerance, i.e. `isclose(·, expected, 0, 0)` = equality. -/
def constMatchesExact (rank : Nat) (v expected : Float) : Bool :=
  rank == 0 && isclose v expected 0.0 0.0

def showF (x : Float) : String := "f" ++ toString x.toBits.toNat

/-! ## RMS normalization (`rms_normalization.py`) -/

structure RmsIn where
  xdt : Nat
  sdt : Nat
  castIn : Bool
  cdt : Nat
  castOut : Bool
  tdt : Nat
  scaleCast : Bool
  mulOrder : Bool
  innerSwap : Bool
  epsConst : Bool
  epsSize : Nat
  eps : Float
  axes : List Int
  pow : Float
  powRank : Nat
  keepdims : Option Int
  noop : Option Int
  xRank : Nat := 0
  scaleRank : Nat := 0
  epsRank : Nat := 0
  /-- `true` (the default, what the driver uses) = the rule of /repo after commits 860eec7 (F6), 655e32d (F7),
      a2dc518 (F10); `false` = the rule before that commit, kept only for the `…_prefix_refuted` theorems. -/
  fix8 : Bool := true    -- /repo commit ca48b9a: the exponent literal is the integer 2 (exact); `false` = before (finding C19-F8)
  fix6 : Bool := true    -- no fusion when the scale's Cast changes its element type
  fix7 : Bool := true    -- no fusion when rank(scale) > rank(x)
  fix10 : Bool := true   -- no fusion when rank(epsilon) > rank(x)

/-- `float_types` / `fp_float_types` as ONNX dtype numbers (FLOAT=1, FLOAT16=10, DOUBLE=11, BFLOAT16=16). -/
def floatTypes : List Nat := [1, 10, 16, 11]
def fpFloatTypes : List Nat := [1, 11]

/-- One `OrValue([Cast(v, to=compute_dtype), v])`: the Cast alternative is taken when a Cast is there and
its `to` agrees with the binding `compute_dtype` already has; otherwise the variable is bound to the Cast's
output itself.  Returns (bound to the pre-cast value?, dtype of the bound value, new binding). -/
def orCast (castPresent : Bool) (to orig : Nat) (cd : Option Nat) : Bool × Nat × Option Nat :=
  if castPresent then
    if cd.isNone || cd == some to then (true, orig, some to) else (false, to, cd)
  else (false, orig, cd)

/-- The variable bindings the matcher ends with: (x bound before its Cast?, dtype of bound x, scale bound before
its Cast?, dtype of bound scale, `compute_dtype`).  Visiting order: `mul_order=True` → normalized (hence x) first,
then scale; `False` → scale first. -/
def rmsBind (i : RmsIn) : Bool × Nat × Bool × Nat × Option Nat :=
  if i.mulOrder then
    let (xp, xd, cd1) := orCast i.castIn i.cdt i.xdt none
    let (sp, sd, cd2) := orCast i.scaleCast i.tdt i.sdt cd1
    (xp, xd, sp, sd, cd2)
  else
    let (sp, sd, cd1) := orCast i.scaleCast i.tdt i.sdt none
    let (xp, xd, cd2) := orCast i.castIn i.cdt i.xdt cd1
    (xp, xd, sp, sd, cd2)

/-- `RmsNormFusion.check` on those bindings (everything after the structural match). -/
def rmsCheck (i : RmsIn) : Bool :=
  let (_, xdtB, sPre, sdtB, cd) := rmsBind i
  let epsOk := i.epsConst && i.epsSize == 1
  let stash := cd.getD xdtB
  epsOk && floatTypes.contains xdtB && floatTypes.contains sdtB && fpFloatTypes.contains stash
    && !(i.fix10 && i.epsRank > i.xRank)
    && !(i.fix7 && i.scaleRank > i.xRank)
    && !(i.fix6 && i.scaleCast && sPre && i.sdt != i.tdt)

/-- Decision + emitted node of `RmsNormFusion` (`_rule1`: `Mul(scale, normalized)`, `_rule2`:
`Mul(normalized, scale)`; the matcher visits the root's inputs left to right). -/
def rms (i : RmsIn) : String :=
  let structural :=
    !i.innerSwap && (if i.fix8 then constMatchesExact i.powRank i.pow 2.0 else constMatches i.powRank i.pow 2.0)
      && i.axes == [-1]
      && i.keepdims == some 1 && i.noop == some 0
  if !structural then "count=0" else
  if !rmsCheck i then "count=0" else
    let (xPre, xdtB, sPre, _, cd) := rmsBind i
    let stash := cd.getD xdtB
    let xn := if i.castIn && !xPre then "@Cast" else "x"
    let sn := if i.scaleCast && !sPre then "@Cast" else "scale"
    s!"count=1 SimplifiedLayerNormalization@\{axis=-1;epsilon={showF i.eps};stash_type={stash}}({xn},{sn})->1"

/-! ## Skip(Simplified)LayerNormalization (`skip_normalization.py`) -/

/-- The `Add` tree feeding the normalization node, with the shapes shape-inference attached. -/
inductive E where
  | leaf (name : String) (shape : Option Shape)
  | add (shape : Option Shape) (l r : E)
  deriving Inhabited

def E.shape : E → Option Shape
  | .leaf _ s => s
  | .add s _ _ => s

def E.show : E → String
  | .leaf n _ => n
  | .add _ _ _ => "@Add"

structure SkipIn where
  layer : Bool                 -- LayerNormalization (else SimplifiedLayerNormalization)
  top : E                      -- first input of the normalization node
  gamma : Option Shape
  beta : Option (Option Shape) -- `none`: the node has no third input
  stash : Option Int
  eps : Option Float
  axis : Option Int

/-- Structural match of one of the three rules; result = (input, skip, bias?). -/
def skipMatch (variant : String) (t : E) : Option (E × E × Option E) :=
  match variant, t with
  | "none", .add _ l r => some (r, l, none)                       -- Add(skip, input) is tried first
  | "post", .add _ (.add _ l1 r1) r => some (r1, l1, some r)      -- Add(Add(skip,input), bias)
  | "pre", .add _ l (.add _ r1 r2) => some (r1, l, some r2)       -- Add(skip, Add(input,bias))
  | "pre", .add _ (.add _ l1 l2) r => some (l1, r, some l2)       -- Add(Add(input,bias), skip)
  | _, _ => none

def skipCheck (i : SkipIn) (input skip : E) (bias : Option E) : Bool :=
  match checkShape [] input.shape ["B", "S", "D"] with
  | none => false
  | some b1 =>
  match checkShape b1 skip.shape ["B", "S", "D"] with
  | none => false
  | some b2 =>
  match checkShape b2 i.gamma ["D"] with
  | none => false
  | some b3 =>
    let b4? := if i.layer then (match i.beta with
                                | some bs => checkShape b3 bs ["D"]
                                | none => none) else some b3
    match b4? with
    | none => false
    | some b4 =>
      let b5? := match bias with
                 | some e => checkShape b4 e.shape ["D"]
                 | none => some b4
      match b5? with
      | none => false
      | some _ => i.stash.getD 1 == 1

def defaultEps : Float := 1e-5

/-- Rule sets `[pre-bias, post-bias, no-bias]`, first rule whose pattern matches *and* whose check passes. -/
def skip (i : SkipIn) : String :=
  -- the pattern spells `axis=-1`; a node without the attribute does not match
  if i.axis != some (-1) then "count=0" else
  if i.layer && i.beta.isNone then "count=0" else
  let tryRule (v : String) : Option String :=
    match skipMatch v i.top with
    | none => none
    | some (input, sk, bias) =>
      if skipCheck i input sk bias then
        let eps := showF (i.eps.getD defaultEps)
        if i.layer then
          let bn := match bias with | some e => e.show | none => "_"
          some s!"count=1 SkipLayerNormalization@com.microsoft\{epsilon={eps}}({input.show},{sk.show},gamma,beta,{bn})->4"
        else
          let bn := match bias with | some e => "," ++ e.show | none => ""
          some s!"count=1 SkipSimplifiedLayerNormalization@com.microsoft\{epsilon={eps}}({input.show},{sk.show},gamma{bn})->4"
      else none
  match tryRule "pre" with
  | some r => r
  | none => match tryRule "post" with
    | some r => r
    | none => match tryRule "none" with
      | some r => r
      | none => "count=0"

/-! ## GELU (`gelu.py`, `erfgelu.py`) -/

def sqrtTwoOverPi : Float := Float.sqrt (2.0 / 3.141592653589793)
def sqrtTwo : Float := Float.sqrt 2.0

/-- `exact`: positions whose pattern literal is a Python `int` (matched exactly). -/
def allClose (rank1 : Int) (exact : List Nat := []) : Nat → List Float → List Float → Bool
  | _, [], [] => true
  | k, v :: vs, e :: es =>
    (if exact.contains k then constMatchesExact (if rank1 == (k : Int) then 1 else 0) v e
     else constMatches (if rank1 == (k : Int) then 1 else 0) v e) && allClose rank1 exact (k + 1) vs es
  | _, _, _ => false

/-- `fuse_erfgelu` then `fuse_gelu` on one GELU-shaped expression.  `sw[k] = 1` when the k-th binary node of
the generator's form has its operands swapped w.r.t. the form's nominal order. -/
def gelu (form : String) (sw : List Nat) (consts : List Float) (rank1 : Int) : String :=
  let s (k : Nat) := sw.getD k 0
  match form with
  | "tanh" =>
    if sw.all (· == 0) && allClose rank1 [0, 3] 0 consts [3.0, 0.044715, sqrtTwoOverPi, 1.0, 0.5] then
      "count=1 FastGelu@com.microsoft{}(x)->1" else "count=0"
  | _ =>
    let cOk := allClose rank1 [] 0 consts [sqrtTwo, 1.0, 0.5]
    -- three shapes exist: E  = Mul(Mul(x,T), h)   (gelu.py)
    --                     EG1 = Mul(h, Mul(x,T))   (erfgelu rule1)
    --                     EG2 = Mul(x, Mul(h,T))   (erfgelu rule2);  T = Add(Erf(Div(x,√2)), 1)
    let shapeOk := match form with
      | "erf" => s 1 == 0          -- inner Mul(x,T); either outer order is one of E / EG1
      | "eg1" => s 1 == 0
      | "eg2" => s 1 == 0 && s 2 == 0
      | _ => false
    if cOk && s 0 == 0 && shapeOk then "count=1 Gelu@com.microsoft{}(x)->1" else "count=0"

/-! ## BiasGelu (`bias_gelu.py`) -/

/-- `BiasGeluFusion.check` on (`input`, `bias`).  `fixed = true` is the rule of /repo (commit 0030071): bias of
rank 1, input shape known with rank ≥ 1, bias length an `int` equal to the input's last dimension.
`fixed = false` is the rule before that commit (rank of the bias only, finding C19-F1); it is kept only for the
`…_prefix_refuted` theorems. -/
def biasOk (fixed : Bool) (input bias : Option Shape) : Bool :=
  hasRank bias 1 &&
    (!fixed ||
      (match input, bias with
       | some ish, some [.int n] => (match ish.getLast? with
                                      | some (.int m) => n == m
                                      | _ => false)
       | _, _ => false))

/-- `[rule, rule.commuted]` for the chosen Gelu flavour: `Add(input, bias)` then `Add(bias, input)`. -/
def biasGeluV (fixed : Bool) (approxTanh : Bool) (a b : Option Shape) : String :=
  if approxTanh then "count=0"
  else if biasOk fixed a b then "count=1 BiasGelu@com.microsoft{}(a,b)->1"
  else if biasOk fixed b a then "count=1 BiasGelu@com.microsoft{}(b,a)->1"
  else "count=0"

/-- The model of the current code. -/
def biasGelu (approxTanh : Bool) (a b : Option Shape) : String := biasGeluV true approxTanh a b

/-! ## Softmax upcast removal (`softmax.py`) -/

def softmax (dt up down : Nat) (axis : Option Int) : String :=
  if up == 1 && down == 10 && dt == 10 then
    match axis with
    | some a => s!"count=1 Softmax@\{axis={a}}(x)->1"
    | none => "count=1 Softmax@{}(x)->1"
  else "count=0"

/-! ## FusedMatMul rule set (`fused_matmul_rule_sets.py`) -/

structure FAttrs where
  transA : Option Int
  transB : Option Int
  transBatchA : Option Int
  transBatchB : Option Int
  alpha : Option Float

def FAttrs.empty : FAttrs := ⟨none, none, none, none, none⟩

def FAttrs.show (a : FAttrs) : String :=
  let parts :=
    (match a.alpha with | some v => [s!"alpha={showF v}"] | none => []) ++
    (match a.transA with | some v => [s!"transA={v}"] | none => []) ++
    (match a.transB with | some v => [s!"transB={v}"] | none => []) ++
    (match a.transBatchA with | some v => [s!"transBatchA={v}"] | none => []) ++
    (match a.transBatchB with | some v => [s!"transBatchB={v}"] | none => [])
  ";".intercalate parts

/-! Axis maps: `p k` = the *input* axis that output axis `k` of `Transpose(·, perm=p)` reads. -/

/-- swap of the last two axes (`transA`/`transB`) -/
def axSwap (n k : Nat) : Nat := if k + 2 = n then n - 1 else if k + 1 = n then n - 2 else k
/-- `[1, …, N-1, 0]` -/
def axRotL (n k : Nat) : Nat := if k + 1 = n then 0 else k + 1
/-- `[N-1, 0, …, N-2]` -/
def axRotR (n k : Nat) : Nat := if k = 0 then n - 1 else k - 1
/-- `[1, …, N-2, 0, N-1]` (`transBatch`) -/
def axBatch (n k : Nat) : Nat := if k + 1 = n then n - 1 else if k + 2 = n then 0 else k + 1
/-- `[N-2, 0, …, N-3, N-1]` -/
def axBatchInv (n k : Nat) : Nat := if k + 1 = n then n - 1 else if k = 0 then n - 2 else k - 1
/-- `[N-1, 1, …, N-2, 0]` -/
def axSwap0L (n k : Nat) : Nat := if k = 0 then n - 1 else if k + 1 = n then 0 else k

def permOf (f : Nat → Nat → Nat) (n : Nat) : List Int := (List.range n).map (fun k => Int.ofNat (f n k))

def permSwap := permOf axSwap
def permRotL := permOf axRotL
def permRotR := permOf axRotR
def permBatch := permOf axBatch
def permBatchInv := permOf axBatchInv
def permSwap0L := permOf axSwap0L

structure FmmIn where
  kind : String            -- div | t1 | t2 | mt
  rank : Nat               -- rank of both operands when they agree
  xRank : Nat := rank      -- rank of the first operand (before its Transpose, if any)
  yRank : Nat := rank      -- rank of the second operand
  inner : Option FAttrs    -- none: plain MatMul
  perm : Option (List Int)
  cstConst : Bool
  cstShape : List Nat
  cst : Float
  /-- `true` (the default, what the driver uses) = the rule of /repo after commits a12b4ef (F3: flag swap in
      `MatMulTranspose.rewrite`), fe00de2 (F4: rank ≥ 3 in the batch rules), 549a083 (F5: `get_ints("perm")`),
      6dfb298 (F9: divisor of rank ≤ 1 with exactly one element).  `false` = the rule before that commit, kept
      only for the `…_prefix_refuted` theorems. -/
  fix3 : Bool := true
  fix4 : Bool := true
  fix5 : Bool := true
  fix9 : Bool := true
  /-- `true` (default, what the driver uses) = /repo after commit d043511: the batch rules require the OTHER
      operand to have rank `len(perm)`.  `false` = the rule before that commit (finding C19-F15), kept only for
      the `…_prefix_refuted` theorem. -/
  fix15 : Bool := true

def flip (v : Option Int) : Option Int := some (1 - v.getD 0)

/-- `(transA, transB)` emitted by `MatMulTranspose.rewrite` for an inner `(a, b)` (operands are swapped):
before commit a12b4ef `(1-a, 1-b)` (finding C19-F3); now `(1-b, 1-a)`. -/
def mtFlags (fixed : Bool) (a b : Int) : Int × Int :=
  if fixed then (1 - b, 1 - a) else (1 - a, 1 - b)

def fmmOut (a : FAttrs) (swapped : Bool) : String :=
  s!"count=1 FusedMatMul@com.microsoft\{{a.show}}({if swapped then "y,x" else "x,y"})->1"

/-- Decision of the three batch-transpose rules, in rule order (FlippedBatch, FlippedBatchAndTranspose,
BatchAndTranspose), for a Transpose `perm = p` in front of an operand whose `transBatch` flag is `tb`:
`some (flipBatch, flipTrans)` or `none`. -/
def batchRule (tb : Int) (p : List Int) : Option (Bool × Bool) :=
  let n := p.length
  if p == (if tb == 0 then permBatch n else permBatchInv n) then some (true, false)
  else if p == (if tb == 0 then permRotL n else permRotR n) then some (true, true)
  else if p == permSwap0L n && tb == 1 then some (false, true)
  else none

/-- The rule list of `fused_matmul_rule_sets()` in order; `EXC` = the rewriter raises. -/
def fmm (i : FmmIn) : String :=
  let size := i.cstShape.foldl (· * ·) 1
  match i.kind with
  | "div" =>
    if !(i.cstConst && size ≤ 1) then "count=0" else
    -- repaired check: exactly one element and rank ≤ 1
    if i.fix9 && !(size == 1 && i.cstShape.length ≤ 1) then "count=0" else
    -- `float(value[0] if value.shape == (1,) else value)`: NumPy ≥ 2 refuses float() of a rank ≥ 2 (or rank-1
    -- handled above) array → the rewrite raises TypeError
    if i.cstShape.length ≥ 2 then "EXC" else
    (match i.inner with
     | none => fmmOut { FAttrs.empty with alpha := some (1.0 / i.cst) } false
     | some a => fmmOut { a with alpha := some ((a.alpha.getD 1.0) / i.cst) } false)
  | "mt" =>
    -- (Fused)MatMulTranspose: both operands rank 2, perm absent or (1,0)
    let ok := i.xRank == 2 && i.yRank == 2 && (match i.perm with | none => true | some p => p.isEmpty || p == [1, 0])
    if !ok then "count=0" else
    let a := i.inner.getD FAttrs.empty
    let (ta, tb) := mtFlags i.fix3 (a.transA.getD 0) (a.transB.getD 0)
    fmmOut { a with transA := some ta, transB := some tb } true
  | k =>
    if k != "t1" && k != "t2" then "count=0" else
    let pos1 := k == "t1"
    let a := i.inner.getD FAttrs.empty
    let tb := ((if pos1 then a.transBatchA else a.transBatchB).getD 0)
    -- rules 5–8: Transpose(Fused)MatMul1/2
    -- a Transpose without `perm` reverses ALL axes: only for a rank-2 *transposed operand* is that transA/transB
    let opRank := if pos1 then i.xRank else i.yRank
    let basicOk :=
      (match i.perm with
       | some p => if p.isEmpty then opRank == 2 else p == permSwap p.length
       | none => opRank == 2) && (i.inner.isNone || tb == 0)
    if basicOk then
      fmmOut (if pos1 then { a with transA := flip a.transA } else { a with transB := flip a.transB }) false
    else if i.inner.isNone then "count=0"
    else
      match i.perm with
      | none => if i.fix5 then "count=0" else "EXC"   -- `transposed_node.attributes["perm"]` → KeyError
      | some p =>
        if p.isEmpty then "count=0" else
        let n := p.length
        if i.fix15 && (if pos1 then i.yRank else i.xRank) != n then "count=0" else
        if i.fix4 && n < 3 then "count=0" else
        let flipB (x : FAttrs) := if pos1 then { x with transBatchA := flip x.transBatchA } else { x with transBatchB := flip x.transBatchB }
        let flipT (x : FAttrs) := if pos1 then { x with transA := flip x.transA } else { x with transB := flip x.transB }
        match batchRule tb p with
        | some (fb, ft) => fmmOut ((if ft then flipT else id) ((if fb then flipB else id) a)) false
        | none => "count=0"

/-! ## Rotary embedding, cos/sin cache, partial rotary (`rotary_embedding.py`, `cos_sin_cache.py`) -/

structure RopeIn where
  x : Option Shape          -- the model input
  xe : Option Shape         -- the value that is rotated (x itself, or its leading slice when partial)
  sl : List Int             -- start1, end1, start2, end2
  partialRot : Bool
  pEnd1 : Int
  pStart2 : Int
  posRank : Nat
  inv0 : Nat                -- leading dim of the (constant-folded) inv_freq tensor
  odd : Bool
  cast16 : Bool := false    -- Cos/Sin are cast to float16 before use (rules `CosSinCache_cast…`); a Cast to the
                            -- type they already have is removed by `optimize` and never reaches the rule
  posConst : Bool := false  -- position_ids is a constant: `optimize` folds the whole cos/sin computation away

/-- `RotaryEmbeddingFusion.check`; returns num_heads. -/
def rotaryCheck (xe : Option Shape) (sl : List Int) : Option Nat :=
  match xe, sl with
  | some [_, .int h, _, .int d], [s1, e1, s2, e2] =>
    let half : Int := (d / 2 : Nat)
    if s1 == 0 && e1 == half && s2 == half && e2 ≥ (d : Int) then some h else none
  | _, _ => none

/-- The three rotary stages in the order `fuse_xformers` runs them — `fuse_rotary_embedding`, `fuse_cos_sin_cache`,
(CSE,) `fuse_partial_rotary_embedding` — as counts, plus `num_heads`.  Each stage consumes the previous one's node:
the cos/sin-cache rule matches the `ai.onnxruntime._fusion` RotaryEmbedding the first stage emits, the partial rule
the `com.microsoft` RotaryEmbedding the second emits. -/
def ropeStages (i : RopeIn) : Nat × Nat × Nat × Nat :=
  match rotaryCheck i.xe i.sl with
  | none => (0, 0, 0, 0)
  | some h =>
    -- the cos/sin-cache pattern needs emb = Concat(freqs, freqs): impossible for an odd rotary dim;
    -- `inv_freq` must be a constant of shape [1, ., 1]; constant position ids are folded away by `optimize`
    if i.odd || i.inv0 != 1 || i.posConst then (1, 0, 0, h)
    else if i.partialRot && i.pEnd1 == i.pStart2 then (1, 1, 1, h)
    else (1, 1, 0, h)

def rope (i : RopeIn) : String :=
  let (c1, c2, c3, h) := ropeStages i
  if c2 == 0 then s!"count={c1}/0/0" else
    let pos := if i.posRank == 1 then "@Unsqueeze" else "position_ids"
    -- the cast rules re-apply the Cast to the rebuilt cache
    let cs := if i.cast16 then "@Cast,@Cast" else "@Cos,@Sin"
    if c3 == 1 then
      s!"count=1/1/1 RotaryEmbedding@com.microsoft\{interleaved=0;num_heads={h};rotary_embedding_dim={i.pEnd1}}(x,{pos},{cs})->1"
    else
      let xn := if i.partialRot then "@Slice" else "x"
      s!"count=1/1/0 RotaryEmbedding@com.microsoft\{interleaved=0;num_heads={h}}({xn},{pos},{cs})->1"

/-! ## SDPA (`sdpa.py`) and its MHA realisation (`sdpa_via_mha.py`) -/

structure Scaling where
  op : String      -- Mul | Div
  isConst : Bool
  value : Float

structure SdpaIn where
  q : Option Shape
  k : Option Shape
  v : Option Shape
  kpat : Nat        -- 1: Transpose(0,1,3,2)  2: Reshape/Transpose/Reshape  3: Transpose(0,2,3,1)
  permOk : Bool
  mask : Bool
  qs : Option Scaling
  ks : Option Scaling
  qks : Option Scaling

def scaleValue : Option Scaling → Option Float
  | none => some 1.0
  | some s => if !s.isConst then none else some (if s.op == "Mul" then s.value else 1.0 / s.value)

/-- `SDPA.check`: (key_format, H, emitted scale) or `none`. -/
def sdpaCheck (i : SdpaIn) : Option (String × Dim × Option Float) :=
  if !i.permOk then none else
  let fmt := if i.kpat == 3 then "BSHd" else "BHSd"
  match checkShape [] i.q ["B", "H", "S", "Dh"] with
  | none => none
  | some b1 =>
  match checkShape b1 i.k (if fmt == "BHSd" then ["B", "H", "Skv", "Dh"] else ["B", "Skv", "H", "Dh"]) with
  | none => none
  | some b2 =>
  match checkShape b2 i.v ["B", "H", "Skv", "Dv"] with
  | none => none
  | some b3 =>
  match scaleValue i.qs, scaleValue i.ks, scaleValue i.qks with
  | some a, some b, some c =>
    let scale := a * b * c
    let h := (b3.lookup "H").getD .unk
    match b3.lookup "Dh" with
    | some (.int d) =>
      let dflt := 1.0 / Float.sqrt d.toFloat
      some (fmt, h, if isclose scale dflt 1e-5 1e-8 then none else some scale)
    | _ => some (fmt, h, some scale)
  | _, _, _ => none

/-- What `replace_sdpa_by_mha` (`sdpa_via_mha.py`) builds around `MultiHeadAttention` for `num_heads = h`:
per operand the `Transpose` perm (none for a key already in BSHd layout) and the constant `Reshape` shape that bring
`(B,H,S,d)` to `(B,S,H·d)`; the `Reshape` shape and `Transpose` perm that bring the result back to `(B,H,S,Dv)`;
and the `scale` attribute, which is the SDPA node's own (absent stays absent: both operators then default to
`1/sqrt(head size of the query)`, see `sdpa_via_mha_default_scale`). -/
structure ViaMha where
  qPerm : Option (List Int)
  kPerm : Option (List Int)
  vPerm : Option (List Int)
  to3d : List Int
  to4d : List Int
  outPerm : List Int
  numHeads : Nat
  deriving DecidableEq, Repr

def viaMha (fmt : String) (h : Nat) : ViaMha :=
  { qPerm := some [0, 2, 1, 3], kPerm := if fmt == "BHSd" then some [0, 2, 1, 3] else none, vPerm := some [0, 2, 1, 3],
    to3d := [0, 0, -1], to4d := [0, 0, (h : Int), -1], outPerm := [0, 2, 1, 3], numHeads := h }

def showInts (sep : String) (l : List Int) : String := sep.intercalate (l.map toString)

def ViaMha.show (v : ViaMha) : String :=
  let one (p : Option (List Int)) := (match p with | some q => "T" ++ showInts "" q | none => "") ++ "R" ++ showInts "/" v.to3d
  s!"via={one v.qPerm}|{one v.kPerm}|{one v.vPerm}|R{showInts "/" v.to4d}T{showInts "" v.outPerm}"

def sdpa (i : SdpaIn) : String :=
  match sdpaCheck i with
  | none => "count=0/0"
  | some (fmt, h, scale) =>
    let sc := match scale with | some s => s!";scale={showF s}" | none => ""
    let m := if i.mask then ",mask" else ""
    let rec1 := s!"SDPA@ai.onnxruntime._fusion\{key_format=q{fmt}{sc}}(query,key,value{m})->1"
    match h with
    | .int n =>
      let sc2 := match scale with | some s => s!";scale={showF s}" | none => ""
      let m2 := if i.mask then ",_,_,@Expand" else ""
      s!"count=1/1 {rec1} ; {(viaMha fmt n).show} MultiHeadAttention@com.microsoft\{num_heads={n}{sc2}}(@Reshape,@Reshape,@Reshape{m2})->1"
    | _ => s!"count=1/0 {rec1} ;"

/-! ## MultiHeadAttention (`mha.py`), on the graphs the harness builds (self-attention, no rotary) -/

structure MhaIn where
  past : Bool
  keyT : Bool
  qPermOk : Bool
  cross : Bool := false         -- cross-attention rules: key/value are already (B,H,Skv,Dh); no past allowed
  rotary : Bool := false        -- com.microsoft.RotaryEmbedding on the transposed query and key
  rotIl : Int := 0              -- their `interleaved` attribute (the harness gives both nodes the same value)
  /-- `true` (default, what the driver uses) = /repo after commit 9411688: `interleaved` is forwarded to the
      re-created nodes.  `false` = the rule before that commit (finding C19-F14), kept for `…_prefix_refuted`. -/
  fix14 : Bool := true
  scale : Option Float          -- the SDPA node's `scale` attribute
  query : Option Shape
  key : Option Shape
  value : Option Shape
  q4 : Option Shape
  pastKey : Option Shape
  pastValue : Option Shape
  mask : Option (Option Shape)  -- `none`: SDPA has three inputs

def mha (i : MhaIn) : String :=
  let fail := "count=1/0/0"
  if !i.qPermOk then fail else
  match checkShape [] i.query ["B", "S", "D"] with
  | none => fail
  | some b1 =>
  match checkShape b1 i.q4 ["B", "S", "H", "Dh"] with
  | none => fail
  | some b2 =>
  match checkShape b2 i.key (if i.cross then ["B", "H", "Skv", "Dh"] else ["B", "Skv", "D"]) with
  | none => fail
  | some b3 =>
  match checkShape b3 i.value (if i.cross then ["B", "H", "Skv", "Dv"] else ["B", "Skv", "D"]) with
  | none => fail
  | some b4 =>
    let b6? := if i.cross then (if i.past then none else some b4) else if i.past then
        (match checkShape b4 i.pastKey ["B", "H", "Spast", "Dh"] with
         | none => none
         | some b5 => checkShape b5 i.pastValue ["B", "H", "Spast", "Dv"])
      else some b4
    match b6? with
    | none => fail
    | some b6 =>
      -- mask: rank 4 → dim 2 must be S (no broadcast) or 1 (Expand); rank 2 → Expand; else reject
      let maskR : Option String :=
        match i.mask with
        | none => some "_"
        | some none => none
        | some (some ms) =>
          if ms.length == 4 then
            (match checkShape b6 (some ms) ["B_or_1", "H_or_1", "S_or_1", "St"] with
             | none => none
             | some b7 =>
               let d2 := (b7.lookup "S_or_1").getD .unk
               let s := (b7.lookup "S").getD .unk
               if d2.pyEq s then some "mask" else if d2 == .int 1 then some "@Expand" else none)
          else if ms.length == 2 then some "@Expand" else none
      match maskR, (b6.lookup "H") with
      | some m, some (.int h) =>
        let sc := match i.scale with | some s => s!";scale={showF s}" | none => ""
        -- rotary rules: the rewrite re-emits RotaryEmbedding on the 3-D inputs; since commit 9411688 with the
        -- matched nodes' `interleaved` (before: without any attribute, finding C19-F14)
        let ra := if i.fix14 then s!"interleaved={i.rotIl}" else ""
        let pre := if i.rotary then
            s!"RotaryEmbedding@com.microsoft\{{ra}}(query,position_ids,cos,sin)->1 RotaryEmbedding@com.microsoft\{{ra}}(key,position_ids,cos,sin)->1 "
          else ""
        let qk := if i.rotary then "@RotaryEmbedding,@RotaryEmbedding" else "query,key"
        if i.cross then
          -- key/value are brought to (B,Skv,H·Dh) by Transpose(0,2,1,3) + Reshape([0,0,-1])
          s!"count=1/0/1 MultiHeadAttention@com.microsoft\{num_heads={h}{sc}}(query,@Reshape,@Reshape,_,_,{m},_,_)->1"
        else if i.past then
          s!"count=1/1/0 {pre}MultiHeadAttention@com.microsoft\{num_heads={h}{sc}}({qk},value,_,_,{m},past_key,past_value)->3"
        else
          s!"count=1/0/1 {pre}MultiHeadAttention@com.microsoft\{num_heads={h}{sc}}({qk},value,_,_,{m},_,_)->1"
      | _, _ => fail

/-! ## InstanceNormalization → GroupNorm (`instance_to_group_normalization.py`) -/

structure I2gIn where
  x : Shape
  g : Nat
  wnConst : Bool
  wOnes : Bool
  bZeros : Bool
  wf : Shape
  bf : Shape
  adj : Option (List Int)     -- constant value of the first Reshape's shape, if constant
  orig : Option (List Int)    -- constant value of the second Reshape's shape, if constant
  eps : Float

def dimIsOne : Dim → Bool
  | .int 1 => true
  | _ => false

def dimEqInt (d : Dim) (v : Int) : Bool :=
  match d with
  | .int n => (n : Int) == v
  | _ => false

def listEqShape : List Int → Shape → Bool
  | [], [] => true
  | v :: vs, d :: ds => dimEqInt d v && listEqShape vs ds
  | _, _ => false

/-- `check_if_simulated_instance_norm_is_used` -/
def i2gOk (i : I2gIn) : Bool :=
  i.wnConst && i.wOnes && i.bZeros
    && i.wf.length == i.x.length - 1 && i.bf.length == i.x.length - 1
    && i.x.length == 4
    && (i.wf.drop 1).all dimIsOne && (i.bf.drop 1).all dimIsOne
    && i.adj == some [0, (i.g : Int), -1]
    && (match i.orig with | some o => listEqShape o i.x | none => false)

def i2g (i : I2gIn) : String :=
  if i2gOk i then
    s!"count=1 GroupNorm@com.microsoft\{activation=0;channels_last=1;epsilon={showF i.eps};groups={i.g}}(@Transpose,@Reshape,@Reshape)->1"
  else "count=0"

/-! ## Attention (`attention.py`) -/

structure AttnIn where
  noSlice : Bool
  past : Bool
  heads : Nat
  sl : List Int     -- start1,end1,start2,end2,start3,end3
  scale : Option Float
  input : Option Shape
  weight : Option Shape
  projected : Option Shape
  qS : Option Shape
  kS : Option Shape
  vS : Option Shape
  wq : Option Shape
  wk : Option Shape
  wv : Option Shape

def lookupInt (b : Bindings) (n : String) : Option Nat :=
  match b.lookup n with
  | some (.int k) => some k
  | _ => none

def attn (i : AttnIn) : String :=
  let fail := "count=0"
  match checkShape [] i.input ["B", "S", "D"] with
  | none => fail
  | some b1 =>
    let b? : Option Bindings :=
      if !i.noSlice then
        match i.projected, i.sl with
        | some [_, _, .int hidden], [s1, e1, s2, e2, s3, e3] =>
          if !(s1 == 0 && e1 == s2 && e2 == s3 && e3 ≥ (hidden : Int)) then none else
          (match checkShape b1 i.weight ["D", "Dh"] with
           | none => none
           | some b2 => match checkShape b2 i.qS ["B", "S", "Dh_q"] with
             | none => none
             | some b3 => match checkShape b3 i.kS ["B", "S", "Dh_k"] with
               | none => none
               | some b4 => checkShape b4 i.vS ["B", "S", "Dh_v"])
        | _, _ => none
      else
        match checkShape b1 i.wq ["D", "Dh_q"] with
        | none => none
        | some b2 => match checkShape b2 i.wk ["D", "Dh_k"] with
          | none => none
          | some b3 => checkShape b3 i.wv ["D", "Dh_v"]
    match b? with
    | none => fail
    | some b =>
      match lookupInt b "Dh_q", lookupInt b "Dh_k", lookupInt b "Dh_v" with
      | some dq, some dk, some dv =>
        let sumOk := i.noSlice || (match lookupInt b "Dh" with | some d => d == dq + dk + dv | none => false)
        if !sumOk then fail else
        let sc := match i.scale with | some s => s!";scale={showF s}" | none => ""
        let w := if i.noSlice then "@Concat" else "weight"
        if i.past then
          s!"count=1 Attention@com.microsoft\{num_heads={i.heads};qkv_hidden_sizes=[{dq}/{dk}/{dv}]{sc}}(input,{w},bias,_,past,_)->2"
        else
          s!"count=1 Attention@com.microsoft\{num_heads={i.heads};qkv_hidden_sizes=[{dq}/{dk}/{dv}]{sc}}(input,{w},bias,_,_,_,_)->1"
      | _, _, _ => fail

/-! ## GroupQueryAttention (`gqa.py`) on the Phi-style source graph of `gqa_test.py` -/

structure GqaIn where
  query : Option Shape
  key : Option Shape
  value : Option Shape
  pastKey : Option Shape
  pastValue : Option Shape
  q4 : Option Shape          -- query after Reshape to (B,S,H,Dh)
  k4 : Option Shape          -- key after Reshape to (B,S,Hkv,Dh)
  ilq : Int                  -- `interleaved` of the two RotaryEmbedding nodes
  ilk : Int
  maskOk : Bool              -- is the mask really the causal-mask pattern?  (NOT consulted, see below)
  /-- `true` (default) = /repo after commit 971aae6: no fusion when the head size (dim 3 of `q4`) is a known
      non-multiple of 16.  `false` = the rule before that commit (finding C19-F11). -/
  fix11 : Bool := true

def dimAt (s : Option Shape) (k : Nat) : Option Dim :=
  match s with
  | some l => l[k]?
  | none => none

/-- `GroupQueryAttention.check` + the attributes of `rewrite`.  The mask test of the code,
`_causal_mask_pattern.match(...) is None`, never fails on a structural mismatch (`match` returns a *failed
MatchResult*, not `None`), so `maskOk` does not enter the decision (finding C19-F13). -/
def gqa (i : GqaIn) : String :=
  let fail := "count=1/0"
  match checkShape [] i.query ["B", "S", "D"] with
  | none => fail
  | some b1 =>
  match checkShape b1 i.key ["B", "S", "Dkv"] with
  | none => fail
  | some b2 =>
  match checkShape b2 i.value ["B", "S", "Dkv"] with
  | none => fail
  | some b3 =>
  match checkShape b3 i.pastKey ["B", "Hkv", "P", "Dh"] with
  | none => fail
  | some b4 =>
  match checkShape b4 i.pastValue ["B", "Hkv", "P", "Dv"] with
  | none => fail
  | some _ =>
    match dimAt i.q4 2, dimAt i.k4 2 with
    | some (.int h), some (.int hkv) =>
      let badHead := match dimAt i.q4 3 with
        | some (.int dh) => dh % 16 != 0
        | _ => false
      if i.fix11 && badHead then fail else
      if i.ilq != i.ilk then fail else
      s!"count=1/1 GroupQueryAttention@com.microsoft\{do_rotary=1;kv_num_heads={hkv};num_heads={h};rotary_interleaved={i.ilq}}(query,key,value,past_key,past_value,@Cast,@Add,cos,sin)->3"
    | _, _ => fail

/-! ## Packed QKV for GQA (`gqa_packed_qkv.py`) -/

structure PqkvIn where
  packed : Option Shape
  qS : Option Shape
  kS : Option Shape
  vS : Option Shape
  h : Nat
  hkv : Nat
  il : Int
  sl : List Int       -- start1,end1,start2,end2,start3,end3
  axisOk : Bool       -- the three Slices are on axis 2 with step 1 (pattern constants)

/-- The split the check demands: `(head, q_hidden, kv_hidden)` from the packed hidden size. -/
def packedSplit (hidden h hkv : Nat) : Nat × Nat × Nat :=
  let head := hidden / (h + 2 * hkv)
  (head, head * h, head * hkv)

def pqkv (i : PqkvIn) : String :=
  let fail := "count=0"
  if !i.axisOk then fail else
  match i.packed, i.sl with
  | some [_, _, .int hidden], [s1, e1, s2, e2, s3, e3] =>
    let (_, qh, kvh) := packedSplit hidden i.h i.hkv
    if !(s1 == 0 && e1 == (qh : Int) && s2 == (qh : Int) && e2 == ((qh + kvh : Nat) : Int)
         && s3 == ((qh + kvh : Nat) : Int) && e3 ≥ (hidden : Int)) then fail else
    (match checkShape [] i.packed ["B", "S", "D"] with
     | none => fail
     | some b1 => match checkShape b1 i.qS ["B", "S", "Dq"] with
       | none => fail
       | some b2 => match checkShape b2 i.kS ["B", "S", "Dkv"] with
         | none => fail
         | some b3 => match checkShape b3 i.vS ["B", "S", "Dkv"] with
           | none => fail
           | some b4 =>
             match lookupInt b4 "D", lookupInt b4 "Dq", lookupInt b4 "Dkv" with
             | some d, some dq, some dkv =>
               if dq + 2 * dkv != d then fail else
               s!"count=1 GroupQueryAttention@com.microsoft\{do_rotary=1;kv_num_heads={i.hkv};num_heads={i.h};rotary_interleaved={i.il}}(packed,_,_,past_key,past_value,@Constant,@Constant,cos,sin)->3"
             | _, _, _ => fail)
  | _, _ => fail

/-! ## `mha_scale.py` then `mha_bias.py` on a `com.microsoft.MultiHeadAttention` node -/

structure MhabIn where
  qm : Option Shape
  km : Option Shape
  vm : Option Shape
  qbias : Option Shape     -- shape of the value added to the query projection (when `qb`)
  qmul : Option Shape := none  -- inferred shape of `Mul(query, pre)` (it stays in front of MHA when `pre` is not constant)
  dt : Nat
  qb : Bool
  kb : Bool
  vb : Bool
  biasFirst : Bool         -- the Adds are written `Add(bias, matmul)`
  heads : Nat
  pre : Option Float       -- `Mul(query, pre)` in front of the MHA node
  preConst : Bool
  ascale : Option Float    -- the node's own `scale` attribute
  mask : Bool
  /-- `true` (default, what the driver uses) = /repo after commit 639f07c: every matched bias is 1-D of its
      projection's hidden size.  `false` = the rule before that commit (finding C19-F12), kept for `…_prefix_refuted`. -/
  fix12 : Bool := true
  /-- the source MHA node already has a packed `bias` input (index 3) -/
  bias0 : Bool := false
  /-- `true` (default, what the driver uses) = /repo after commit a202620: `FuseMHAScale.check` fails when the node has
      a bias input.  `false` = the rule before that commit (finding C19-F16), kept for `…_prefix_refuted`. -/
  fix16 : Bool := true

def mhab (i : MhabIn) : String :=
  -- fuse_mha_scale: the Mul's second operand must be a one-element numeric constant; the node must have no bias input
  let c1 := i.pre.isSome && i.preConst && !(i.fix16 && i.bias0)
  let scale1 : Option Float :=
    if c1 then
      match i.pre, dimAt i.qm 2 with
      | some p, some (.int d) =>
        let orig := match i.ascale with
          | some a => a
          | none => 1.0 / Float.sqrt ((d / i.heads).toFloat)
        some (p * orig)
      | _, _ => i.ascale
    else i.ascale
  -- what the MHA node's first input is after that
  let mulLeft := i.pre.isSome && !c1
  -- fuse_mha_bias: `OrValue([Add(matmul, bias), matmul])` per projection, Add not commuted
  -- result: (bias matched?, shape bound as projection, its name, shape bound as bias)
  let pick (on : Bool) (mat bias : Option Shape) (matN biasN : String)
      : Bool × Option Shape × String × Option Shape :=
    if on then (if i.biasFirst then (true, bias, biasN, mat) else (true, mat, matN, bias))
    else (false, mat, matN, none)
  let (hq, qsh, qn, qbs) := if mulLeft then (false, i.qmul, "@Mul", none) else pick i.qb i.qm i.qbias "qm" "qbias"
  let dshape : Option Shape := match i.qm with
    | some l => l.getLast?.map (fun d => [d])
    | none => none
  let (hk, ksh, kn, kbs) := pick i.kb i.km dshape "km" "kbias"
  let (hv, vsh, vn, vbs) := pick i.vb i.vm dshape "vm" "vbias"
  let biasFits (has : Bool) (bs : Option Shape) (hidden : Option Nat) : Bool :=
    !has || (match bs, hidden with
             | some [.int n], some d => n == d
             | _, _ => false)
  let okBias :=
    !i.bias0 && (hq || hk || hv) && (i.dt == 1 || i.dt == 10) &&
    (match checkShape [] qsh ["B", "S", "D"] with
     | none => false
     | some b1 => match checkShape b1 ksh ["B", "Skv", "Dk"] with
       | none => false
       | some b2 => match checkShape b2 vsh ["B", "Skv", "Dv"] with
         | none => false
         | some b3 => (lookupInt b3 "D").isSome && (lookupInt b3 "Dk").isSome && (lookupInt b3 "Dv").isSome
             && (!i.fix12 || (biasFits hq qbs (lookupInt b3 "D") && biasFits hk kbs (lookupInt b3 "Dk")
                              && biasFits hv vbs (lookupInt b3 "Dv"))))
  let sc := match scale1 with | some s => s!";scale={showF s}" | none => ""
  let head := s!"count={if c1 then 1 else 0}/{if okBias then 1 else 0}"
  if okBias then
    s!"{head} MultiHeadAttention@com.microsoft\{num_heads={i.heads}{sc}}({qn},{kn},{vn},@Concat,_,{if i.mask then "mask" else "_"},_,_)->1"
  else if c1 then
    let q0 := if i.qb then "@Add" else "qm"
    let k0 := if i.kb then "@Add" else "km"
    let v0 := if i.vb then "@Add" else "vm"
    s!"{head} MultiHeadAttention@com.microsoft\{num_heads={i.heads}{sc}}({q0},{k0},{v0}{if i.mask then ",_,_,mask" else ""})->1"
  else head

/-! ## Pipeline level: the attention stages of `_core.fuse_xformers` on one attention block -/

structure PipeIn where
  qm : Option Shape        -- the query projection (B,S,D)
  heads : Nat
  qProj : String           -- how the query fed to attention is built from it: none | scale | bias | scale_bias | bias_scale
  kb : Bool                -- key / value projections carry a bias
  vb : Bool
  s : Float                -- the scale constant
  sdpaScale : Option Float -- `scale` of the SDPA node (`none`: default 1/√Dh)
  mask : Bool
  mask1d : Bool := false   -- the mask has rank 1: accepted by SDPA, refused by every MHA rule

/-- What sits on top of a projection on its way into attention (innermost first). -/
inductive QOp where
  | mul   -- `Mul(·, s)` with a one-element constant `s`
  | add   -- `Add(·, b)` with a 1-D bias `b`
  deriving DecidableEq, Repr

/-- `fuse_mha_scale`: only a `Mul` that feeds MHA *directly* (the outermost op) is folded. -/
def peelMul (ops : List QOp) : List QOp × Bool :=
  if ops.getLast? = some .mul then (ops.dropLast, true) else (ops, false)

/-- `fuse_mha_bias`: only an `Add` that feeds MHA directly is folded. -/
def peelAdd (ops : List QOp) : List QOp × Bool :=
  if ops.getLast? = some .add then (ops.dropLast, true) else (ops, false)

/-- **The stage order of `fuse_xformers`: `mha_scale` ONCE, then `mha_bias`** (Float-free core of `pipe`).
Result: (what is left in front of MHA's query, was the scale folded, was the query bias folded).  `otherBias`: the
key or value projection has a bias (then `mha_bias` fires even without a query bias). -/
def pipeStages (ops : List QOp) (otherBias : Bool) : List QOp × Bool × Bool :=
  let (o1, ms) := peelMul ops
  let (o2, qb) := peelAdd o1
  if qb || otherBias then (o2, ms, qb) else (o1, ms, false)

/-- The order `fuse_xformers` runs the attention stages in — `sdpa`, `mha1/mha2`, **`mha_scale` once, then
`mha_bias`**, then `attention` — on a block whose query is the projection with a `Mul` and/or an `Add` on top
(outermost last).  `mha_scale` only sees a `Mul` that feeds MHA directly; `mha_bias` then only an `Add`.  In
particular for `q = (x·Wq)·s + b` the bias is folded and the `Mul` STAYS in front of MHA: folding it into `scale`
afterwards would also scale the bias (MHA adds its packed bias before scaling the scores). -/
def pipe (i : PipeIn) : String :=
  -- `if mha1 == 0 and mha2 == 0: mha_bias = attention = 0` — the bias / attention stages are skipped altogether;
  -- `mha_scale` (which runs before that test) finds no MHA node; `replace_sdpa_by_mha` realises the SDPA at the end
  if i.mask1d then
    let sc := match i.sdpaScale with | some v => s!";scale={showF v}" | none => ""
    s!"count=1/0/0/0/0 MultiHeadAttention@com.microsoft\{num_heads={i.heads}{sc}}(*)->1"
  else
  let ops0 : List QOp := match i.qProj with
    | "scale" => [.mul]
    | "bias" => [.add]
    | "scale_bias" => [.mul, .add]
    | "bias_scale" => [.add, .mul]
    | _ => []
  let headSize : Nat := match dimAt i.qm 2 with
    | some (.int d) => d / i.heads
    | _ => 0
  let (opsF, ms, qb) := pipeStages ops0 (i.kb || i.vb)
  let mb := qb || i.kb || i.vb
  let scale : Option Float :=
    if ms then some (i.s * (i.sdpaScale.getD (1.0 / Float.sqrt headSize.toFloat))) else i.sdpaScale
  let qn := match opsF.getLast? with
    | some .mul => "@Mul"
    | some .add => "@Add"
    | none => "qm"
  let kn := if i.kb && !mb then "@Add" else "km"
  let vn := if i.vb && !mb then "@Add" else "vm"
  let sc := match scale with | some v => s!";scale={showF v}" | none => ""
  let tail := (if mb then ",@Concat" else "") ++
    (if i.mask then (if mb then ",_,mask" else ",_,_,mask") else "")
  s!"count=1/1/{if ms then 1 else 0}/{if mb then 1 else 0}/0 MultiHeadAttention@com.microsoft\{num_heads={i.heads}{sc}}({qn},{kn},{vn}{tail})->1"

/-! ## `shape_optimization.ExtractDim` (runs in `_pre_optimize` inside `fuse_xformers` / `optimize_for_ort`) -/

/-- Python `l[start:end]` (step 1) on a list of length `n`: the two clamped bounds (`PySlice_AdjustIndices`). -/
def pyBound (n : Nat) (v : Int) : Nat :=
  if v < 0 then (if v + n < 0 then 0 else (v + n).toNat) else (if v > n then n else v.toNat)

def pySlice {α : Type} (l : List α) (s e : Int) : List α :=
  (l.take (pyBound l.length e)).drop (pyBound l.length s)

structure ExtractIn where
  nSliceInputs : Nat          -- 3: Slice(shape, starts, ends); 4: + axes; 5: + steps
  start : Int
  stop : Int
  startConst : Bool           -- starts is a one-element constant (ends always is, in the generated graphs)
  allowzero : Option Int      -- attribute of the Reshape
  perm : List Int             -- attribute of the Transpose
  shapeStart : Option Int     -- attributes of the Shape node
  shapeEnd : Option Int
  dimsKnown : Bool            -- each of the four concatenated dims has the static shape [1]

/-- `ExtractDim`: pattern + `check`.  The pattern's `op.Slice(final_shape, start, end)` has exactly three inputs:
a Slice that spells out `axes` (and `steps`) does not match, so a non-unit step can never be taken for step 1. -/
def extractOk (i : ExtractIn) : Bool :=
  i.nSliceInputs == 3 && i.allowzero == some 1 && i.perm == [0, 2, 1, 3]
    && i.dimsKnown && i.shapeEnd.isNone && (i.shapeStart.isNone || i.shapeStart == some 0) && i.startConst

/-- what replaces the Slice: the dims of `Transpose(Reshape(x,[d0,d1,d2,d3]), perm=[0,2,1,3])`, Python-sliced -/
def extractDims (i : ExtractIn) : List String := pySlice ["dim0", "dim2", "dim1", "dim3"] i.start i.stop

def shapeopt (i : ExtractIn) : String :=
  if !extractOk i then "count=0" else
  match extractDims i with
  | [] => "count=1 Constant()"
  | [d] => s!"count=1 Identity({d})"
  | ds => s!"count=1 Concat({",".intercalate ds})"

end OV.C19
