import OV.Model.C01Convert
import OV.Model.C01Env
/-
  OV.Model.C01SExp — S-expression wire format between the harness and the C01/C02 driver:
  programs in, graphs out (and graphs in, for the verified well-formedness check run on the
  protos the *real* converter emitted).  Not part of any theorem.
-/
namespace OV.C01

inductive SExp
  | atom (s : String)
  | list (xs : List SExp)
deriving Repr, Inhabited

/-! ## Reading -/

def tokenize (s : String) : List String :=
  let step := fun (st : List String × String) (c : Char) =>
    let (acc, cur) := st
    if c = '(' || c = ')' then
      ((String.singleton c) :: (if cur.isEmpty then acc else cur :: acc), "")
    else if c = ' ' || c = '\t' || c = '\n' then
      ((if cur.isEmpty then acc else cur :: acc), "")
    else (acc, cur.push c)
  let (acc, cur) := s.foldl step ([], "")
  (if cur.isEmpty then acc else cur :: acc).reverse

/-- Parse with an explicit stack of open lists (total, no recursion on fuel). -/
def parseTokens (toks : List String) : Option SExp :=
  let step := fun (st : Option (List (List SExp) × Option SExp)) (t : String) =>
    match st with
    | none => none
    | some (stack, done) =>
      if done.isSome then none
      else if t = "(" then some ([] :: stack, none)
      else if t = ")" then
        match stack with
        | [] => none
        | top :: [] => some ([], some (.list top.reverse))
        | top :: parent :: rest => some ((SExp.list top.reverse :: parent) :: rest, none)
      else
        match stack with
        | [] => some ([], some (.atom t))
        | top :: rest => some ((SExp.atom t :: top) :: rest, none)
  match toks.foldl step (some ([], none)) with
  | some ([], some e) => some e
  | _ => none

def parseSExp (s : String) : Option SExp := parseTokens (tokenize s)

/-! ## Writing -/

mutual
def SExp.show : SExp → String
  | .atom s => s
  | .list xs => "(" ++ SExp.showL xs ++ ")"
def SExp.showL : List SExp → String
  | [] => ""
  | [x] => x.show
  | x :: xs => x.show ++ " " ++ SExp.showL xs
end

/-! ## Decoding programs -/

def atoms (xs : List SExp) : Option (List String) :=
  xs.mapM (fun x => match x with | .atom s => some s | .list _ => none)

def decBool (s : String) : Bool := s = "T" || s = "true" || s = "1"

def decAttrs (xs : List SExp) : Option (List (String × AttrV)) :=
  xs.mapM (fun x =>
    match x with
    | .list [.atom k, .list [.atom "c", .atom r]] => some (k, AttrV.const r)
    | .list [.atom k, .list [.atom "r", .atom p]] => some (k, AttrV.ref p)
    | _ => none)

def decSig : SExp → Option Sig
  | .list [.atom "sig", .atom known, .atom variadic, .atom homog, .list tvs, .atom ver] => do
    let ts ← atoms tvs
    some { known := decBool known, variadic := decBool variadic, homog := decBool homog,
           tvs := ts.map (fun t => if t = "_" then none else some t), ver := ver.toNat?.getD 0 }
  | .list [.atom "sig", .atom known, .atom variadic, .atom homog, .list tvs] => do
    let ts ← atoms tvs
    some { known := decBool known, variadic := decBool variadic, homog := decBool homog,
           tvs := ts.map (fun t => if t = "_" then none else some t) }
  | _ => none

def decOptInt (s : String) : Option (Option Int) :=
  if s = "_" then some none else s.toInt?.map some

def decIdx : SExp → Option Idx
  | .list [.atom "k", .atom v] => v.toInt?.map Idx.scalar
  | .list [.atom "sl", .atom lo, .atom up, .atom st] => do
    let l ← decOptInt lo
    let u ← decOptInt up
    let t ← decOptInt st
    some (.slice l u t)
  | _ => none

mutual
def decExpr : SExp → Option Expr
  | .list [.atom "var", .atom x] => some (.var x)
  | .list [.atom "int", .atom v] => v.toInt?.map (fun i => .lit (.int i))
  | .list [.atom "flt", .atom m] => some (.lit (.flt false m))
  | .list [.atom "bool", .atom b] => some (.lit (.bool (decBool b)))
  | .list (.atom "ints" :: vs) => do
    let as ← atoms vs
    let is ← as.mapM (fun a => a.toInt?)
    some (.lit (.ints is))
  | .list [.atom "call", .atom dom, .atom op, sg, .list args, .list attrs] => do
    let sig ← decSig sg
    let as ← decExprs args
    let ats ← decAttrs attrs
    some (.call (if dom = "_" then "" else dom) op sig as ats)
  | .list [.atom "binop", .atom o, a, b] => do
    let a' ← decExpr a
    let b' ← decExpr b
    some (.binop o a' b')
  | .list [.atom "unop", .atom o, a] => do
    let a' ← decExpr a
    some (.unop o a')
  | .list [.atom "cmp", .atom o, a, b] => do
    let a' ← decExpr a
    let b' ← decExpr b
    some (.cmp o a' b')
  | .list [.atom "subscript", b, .list idx] => do
    let b' ← decExpr b
    let is ← idx.mapM decIdx
    some (.subscript b' is)
  | .list (.atom "other" :: us) => (atoms us).map Expr.other
  | _ => none
def decExprs : List SExp → Option (List Expr)
  | [] => some []
  | x :: xs => do
    let e ← decExpr x
    let es ← decExprs xs
    some (e :: es)
end

mutual
def decStmt : SExp → Option Stmt
  | .list [.atom "assign", .atom x, e] => (decExpr e).map (Stmt.assign x)
  | .list [.atom "par", .list xs, .list es] => do
    let xs' ← atoms xs
    let es' ← decExprs es
    some (.par xs' es')
  | .list [.atom "tuple", .list xs, e] => do
    let xs' ← atoms xs
    let e' ← decExpr e
    some (.tuple xs' e')
  | .list [.atom "badassign", .list xs, e] => do
    let xs' ← atoms xs
    let e' ← decExpr e
    some (.badAssign xs' e')
  | .list [.atom "if", c, .list t, .list e] => do
    let c' ← decExpr c
    let t' ← decStmts t
    let e' ← decStmts e
    some (.ite c' t' e')
  | .list [.atom "for", .atom i, .atom ok, b, .list body] => do
    let b' ← decExpr b
    let body' ← decStmts body
    some (.for_ i (decBool ok) b' body')
  | .list [.atom "while", c, .list body] => do
    let c' ← decExpr c
    let body' ← decStmts body
    some (.while_ c' body')
  | .list [.atom "break", c] => (decExpr c).map Stmt.brk
  | .list (.atom "return" :: es) => (decExprs es).map (fun es' => Stmt.ret es' false)
  | .list [.atom "barereturn"] => some (.ret [] true)
  | .list [.atom "skip"] => some .skip
  | .list [.atom "unsupported"] => some .unsupported
  | _ => none
def decStmts : List SExp → Option (List Stmt)
  | [] => some []
  | x :: xs => do
    let s ← decStmt x
    let ss ← decStmts xs
    some (s :: ss)
end

def decAttrTy : String → AttrTy
  | "float" => .float | "int" => .int | "string" => .string | "ints" => .ints | "bool" => .bool
  | _ => .unsupported

def decParam : SExp → Option Param
  | .list [.atom "t", .atom x] => some (.tensor x)
  | .list [.atom "a", .atom x, .atom ty] => some (.attr x (decAttrTy ty))
  | _ => none

/-- `(func NAME (params P*) (ret N|_) (body S*))` -/
def decFunc : SExp → Option Func
  | .list [.atom "func", .atom name, .list (.atom "params" :: ps), .list [.atom "ret", .atom r],
           .list [.atom "opset", .atom ov], .list (.atom "body" :: ss)] => do
    let ps' ← ps.mapM decParam
    let ss' ← decStmts ss
    some { name := name, params := ps', retCount := r.toNat?, body := ss', opsetVer := ov.toNat?.getD 0 }
  | .list [.atom "func", .atom name, .list (.atom "params" :: ps), .list [.atom "ret", .atom r],
           .list (.atom "body" :: ss)] => do
    let ps' ← ps.mapM decParam
    let ss' ← decStmts ss
    some { name := name, params := ps', retCount := r.toNat?, body := ss' }
  | _ => none

/-- `(k <literal>)` entries of an environment section. -/
def decEnvEntries (xs : List SExp) : Option (List (Name × Lit)) :=
  xs.mapM (fun x =>
    match x with
    | .list [.atom k, v] =>
      (match decExpr v with
       | some (.lit l) => some (k, l)
       | _ => none)
    | _ => none)

/-- A program as the harness sends it: `<func>` or `(withenv (closure E*) (globals E*) <func>)`; the result is
the function with its free names resolved (`resolveEnv`). -/
def decProgram : SExp → Option Func
  | .list [.atom "withenv", .list (.atom "closure" :: cs), .list (.atom "globals" :: gs), f] => do
    let cs' ← decEnvEntries cs
    let gs' ← decEnvEntries gs
    let f' ← decFunc f
    some (resolveEnv cs' gs' f')
  | e => decFunc e

/-! ## Encoding / decoding graphs -/

def encNames (tag : String) (xs : List Name) : SExp := .list (.atom tag :: xs.map SExp.atom)

def encAttrV : AttrV → SExp
  | .const r => .list [.atom "c", .atom r]
  | .ref p => .list [.atom "r", .atom p]

mutual
def encNode : Node → SExp
  | .op dom name ins outs attrs =>
    .list [.atom "op", .atom (if dom = "" then "_" else dom), .atom name,
           encNames "ins" (ins.map (fun i => i.getD "_")), encNames "outs" outs,
           .list (.atom "attrs" :: attrs.map (fun kv => SExp.list [.atom kv.1, encAttrV kv.2]))]
  | .ifN c outs tn to en eo =>
    .list [.atom "if", .atom c, encNames "outs" outs,
           .list (.atom "nodes" :: encNodes tn), encNames "outs" to,
           .list (.atom "nodes" :: encNodes en), encNames "outs" eo]
  | .loop b c inits outs bi bn bo =>
    .list [.atom "loop", .atom (b.getD "_"), .atom (c.getD "_"), encNames "inits" inits,
           encNames "outs" outs, encNames "ins" bi, .list (.atom "nodes" :: encNodes bn),
           encNames "outs" bo]
def encNodes : List Node → List SExp
  | [] => []
  | n :: ns => encNode n :: encNodes ns
end

def encGraph (g : Graph) : SExp :=
  .list [.atom "graph", encNames "ins" g.inputs, encNames "attrs" g.attrs,
         .list (.atom "nodes" :: encNodes g.nodes), encNames "outs" g.outputs]

def optName (s : String) : Option Name := if s = "_" then none else some s

mutual
def decNode : SExp → Option Node
  | .list [.atom "op", .atom dom, .atom name, .list (.atom "ins" :: ins),
           .list (.atom "outs" :: outs), .list (.atom "attrs" :: attrs)] => do
    let ins' ← atoms ins
    let outs' ← atoms outs
    let attrs' ← decAttrs attrs
    some (.op (if dom = "_" then "" else dom) name (ins'.map optName) outs' attrs')
  | .list [.atom "if", .atom c, .list (.atom "outs" :: outs),
           .list (.atom "nodes" :: tn), .list (.atom "outs" :: to),
           .list (.atom "nodes" :: en), .list (.atom "outs" :: eo)] => do
    let outs' ← atoms outs
    let tn' ← decNodes tn
    let to' ← atoms to
    let en' ← decNodes en
    let eo' ← atoms eo
    some (.ifN c outs' tn' to' en' eo')
  | .list [.atom "loop", .atom b, .atom c, .list (.atom "inits" :: inits),
           .list (.atom "outs" :: outs), .list (.atom "ins" :: bi),
           .list (.atom "nodes" :: bn), .list (.atom "outs" :: bo)] => do
    let inits' ← atoms inits
    let outs' ← atoms outs
    let bi' ← atoms bi
    let bn' ← decNodes bn
    let bo' ← atoms bo
    some (.loop (optName b) (optName c) inits' outs' bi' bn' bo')
  | _ => none
def decNodes : List SExp → Option (List Node)
  | [] => some []
  | x :: xs => do
    let n ← decNode x
    let ns ← decNodes xs
    some (n :: ns)
end

def decGraph : SExp → Option Graph
  | .list [.atom "graph", .list (.atom "ins" :: ins), .list (.atom "attrs" :: ats),
           .list (.atom "nodes" :: ns), .list (.atom "outs" :: outs)] => do
    let ins' ← atoms ins
    let ats' ← atoms ats
    let ns' ← decNodes ns
    let outs' ← atoms outs
    some { inputs := ins', attrs := ats', nodes := ns', outputs := outs' }
  | _ => none

def showErr : Err → String
  | .translation => "TranslationError"
  | .value => "ValueError"
  | .syntax => "SyntaxError"
  | .type => "TypeError"
  | .attribute => "AttributeError"
  | .index => "IndexError"
  | .fuel => "MODEL-FUEL"

end OV.C01
