import OV.Model.C01Eager
/-
  OV.Model.C01Separate — `param_manipulation.separate_input_attributes_from_arguments`, the function
  `Converter._translate_call_expr` uses to split the positional and keyword arguments of `op.Foo(a, b, k=…)` /
  `fn(a, b, k=…)` into ONNX inputs (by position, `None` for an omitted optional input that precedes a given one)
  and attributes.  Restated branch by branch, with the `trailing_placeholders` counter.  Core Lean only.
-/
namespace OV.C01.Eager
open OV.C01

/-- loop state: `onnx_inputs` (`none` = the placeholder `None`), `trailing_placeholders`, `onnx_attributes`
(an OrderedDict: insertion order), `has_variadic` -/
structure Sep (A : Type) where
  inputs : List (Option A)
  trailing : Nat
  attrs : List (Name × A)
  hasVariadic : Bool

/-- the value the caller gave for the parameter at index `i`: `args[i]` if `i < len(args)`, else `kwargs[param.name]` -/
def given {A} (kw : List (Name × A)) (args : List A) (i : Nat) (p : SigParam) : Option A :=
  match args[i]? with | some a => some a | none => lk p.name kw

/-- the `for i, param in enumerate(op_signature.params)` loop; `args` is the re-assignable local -/
def sepLoop {A} (fill : Bool) (dflt : SigParam → A) (kw : List (Name × A)) :
    Nat → List A → List SigParam → Sep A → Except Err (Sep A)
  | _, _, [], st => .ok st
  | i, args, p :: ps, st =>
    if p.isInput && p.variadic then
      -- has_variadic = True; if args[i:]: trailing_placeholders = 0; onnx_inputs.extend(args[i:]); args = []
      sepLoop fill dflt kw (i + 1) [] ps
        { st with hasVariadic := true,
                  trailing := if (args.drop i).isEmpty then st.trailing else 0,
                  inputs := st.inputs ++ (args.drop i).map some }
    else
      match given kw args i p with
      | some v =>          -- i < len(args), else param.name in kwargs
        if p.isInput then sepLoop fill dflt kw (i + 1) args ps { st with inputs := st.inputs ++ [some v], trailing := 0 }
        else sepLoop fill dflt kw (i + 1) args ps { st with attrs := st.attrs ++ [(p.name, v)] }
      | none =>
        if !p.isInput && p.hasDefault then
          sepLoop fill dflt kw (i + 1) args ps (if fill then { st with attrs := st.attrs ++ [(p.name, dflt p)] } else st)
        else if p.required then .error .missing
        else if p.isInput then
          sepLoop fill dflt kw (i + 1) args ps { st with inputs := st.inputs ++ [none], trailing := st.trailing + 1 }
        else sepLoop fill dflt kw (i + 1) args ps st

/-- `separate_input_attributes_from_arguments` -/
def separate {A} (fill allowExtraKw allowExtraArgs : Bool) (dflt : SigParam → A) (ps : List SigParam)
    (args : List A) (kw : List (Name × A)) : Except Err (List (Option A) × List (Name × A)) :=
  if kw.any (fun e => !(ps.any (fun p => p.name = e.1))) && !allowExtraKw then .error .unexpectedKw
  else
    match sepLoop fill dflt kw 0 args ps ⟨[], 0, [], false⟩ with
    | .error e => .error e
    | .ok st =>
      -- if trailing_placeholders: del onnx_inputs[-trailing_placeholders:]
      let ins := st.inputs.take (st.inputs.length - st.trailing)
      if !allowExtraArgs && !st.hasVariadic && args.length > ps.length then .error .tooMany
      else .ok (ins, st.attrs)

/-! ## What it computes (specification used by `separate_keeps_positions`) -/

/-- one slot per *input* parameter from index `i` on, in signature order -/
def inputSlots {A} (kw : List (Name × A)) (args : List A) : Nat → List SigParam → List (Option A)
  | _, [] => []
  | i, p :: ps => if p.isInput then given kw args i p :: inputSlots kw args (i + 1) ps else inputSlots kw args (i + 1) ps

def attrSlots {A} (kw : List (Name × A)) (args : List A) : Nat → List SigParam → List (Name × A)
  | _, [] => []
  | i, p :: ps =>
    if p.isInput then attrSlots kw args (i + 1) ps
    else match given kw args i p with
      | some v => (p.name, v) :: attrSlots kw args (i + 1) ps
      | none => attrSlots kw args (i + 1) ps

/-- number of placeholders at the end of a slot list -/
def countTrail {A} : List (Option A) → Nat
  | [] => 0
  | x :: xs => if countTrail xs = xs.length ∧ x.isNone then countTrail xs + 1 else countTrail xs

def trimNone {A} (l : List (Option A)) : List (Option A) := l.take (l.length - countTrail l)

/-- every required parameter from index `i` on is given (a required attribute may instead have a default) -/
def requiredGiven {A} (kw : List (Name × A)) (args : List A) : Nat → List SigParam → Bool
  | _, [] => true
  | i, p :: ps =>
    ((given kw args i p).isSome || (!p.isInput && p.hasDefault) || !p.required) && requiredGiven kw args (i + 1) ps

def noVariadic : List SigParam → Bool
  | [] => true
  | p :: ps => !(p.isInput && p.variadic) && noVariadic ps

end OV.C01.Eager
