import OV.Model.C06Pattern
/-
  OV.Model.C06Match — C06: `SimplePatternMatcher` transcribed.

  `MatchResult` = a stack of `PartialMatchResult`s (`Stack`, head = current/top).
  Every matcher method returns the Python return value (`Bool`) together with the new state;
  the *success flag* of the current partial match is part of the state and is distinct from
  the return value (e.g. `_match_node` returns `False` without failing the match when the
  pattern asks for more outputs than the node has).

  anchors: onnxscript/rewriter/_basics.py   MatchResult / PartialMatchResult
           onnxscript/rewriter/_matcher.py  SimplePatternMatcher, _valid_to_replace
           onnxscript/rewriter/_pattern_ir.py NodePattern.matches, OpIdDispatchOr.get_pattern
           onnxscript/rewriter/_rewrite_rule.py Pattern.match (post-processing)
-/
namespace OV.C06

/-! ## MatchResult state -/

/-- `PartialMatchResult` (without `outputs`, which only exist at the top level at the end). -/
structure Partial where
  ok : Bool := true
  nodes : List NodeId := []
  bindings : List (String × Bound) := []
  vb : List (VKey × Option ValueId) := []
  nb : List (NPId × NodeId) := []
  deriving Repr, Inhabited

/-- `MatchResult._partial_matches`, head = `_current_match`. -/
abbrev Stack := List Partial

abbrev R := Bool × Stack

def updTop (f : Partial → Partial) : Stack → Stack
  | [] => []
  | c :: r => f c :: r

def topOk : Stack → Bool
  | [] => false
  | c :: _ => c.ok

/-- `MatchResult.fail` -/
def failTop (st : Stack) : Stack := updTop (fun c => { c with ok := false }) st

/-- `SimplePatternMatcher.fail`: mark the current partial match failed, return `False`. -/
def fail (st : Stack) : R := (false, failTop st)

/-- `for match in self._partial_matches: if var in match.bindings` (bottom of the stack first). -/
def lookupBinding (st : Stack) (k : String) : Option Bound :=
  st.reverse.findSome? (fun c => c.bindings.lookup k)

def lookupVB (st : Stack) (k : VKey) : Option (Option ValueId) :=
  st.reverse.findSome? (fun c => c.vb.lookup k)

/-- `MatchResult.lookup_node` -/
def lookupNode (st : Stack) (np : NPId) : Option NodeId :=
  st.reverse.findSome? (fun c => c.nb.lookup np)

/-- `MatchResult.bind` -/
def bind (st : Stack) (k : String) (b : Bound) : R :=
  match lookupBinding st k with
  | some b' => if b' == b then (true, st) else fail st
  | none => (true, updTop (fun c => { c with bindings := c.bindings ++ [(k, b)] }) st)

/-- `MatchResult.bind_value` -/
def bindValue (p : GPat) (st : Stack) (vp : VPat) (v : Option ValueId) : R :=
  match p.vname vp with
  | some nm => bind st nm (Bound.ofVal v)
  | none =>
    match vp.key with
    | none => (true, st)  -- AnyValue is never bound (not reached by the matcher)
    | some k =>
      match lookupVB st k with
      | some v' => if v' == v then (true, st) else fail st
      | none => (true, updTop (fun c => { c with vb := c.vb ++ [(k, v)] }) st)

/-- `bind_value` with repair C06-F2 (/repo 9ec39fb): a *named* pattern that carries a value-level
checker is also recorded in `value_bindings` (unless some partial match already has it), so that
`Pattern.match` runs its checker.  `fix2 = false` is the code before the repair. -/
def bindValue2 (fix2 : Bool) (p : GPat) (st : Stack) (vp : VPat) (v : Option ValueId) : R :=
  let r := bindValue p st vp v
  if fix2 && r.1 && (p.vname vp).isSome && vp.check.isSome then
    match vp.key with
    | some k =>
      if (lookupVB r.2 k).isNone then (true, updTop (fun c => { c with vb := c.vb ++ [(k, v)] }) r.2)
      else r
    | none => r
  else r

/-- `MatchResult.bind_node` -/
def bindNode (st : Stack) (np : NPId) (n : NodeId) : Stack :=
  updTop (fun c => { c with nodes := c.nodes ++ [n], nb := c.nb ++ [(np, n)] }) st

/-- `dict.update` for one key -/
def dictSet (d : List (String × Bound)) (k : String) (b : Bound) : List (String × Bound) :=
  if d.any (fun kv => kv.1 == k) then d.map (fun kv => if kv.1 == k then (k, b) else kv)
  else d ++ [(k, b)]

/-- `PartialMatchResult.merge`: only `bindings` and matched nodes are copied; the value and node
bindings of the sub-match are dropped. -/
def Partial.merge (prev cur : Partial) : Partial :=
  { prev with
    bindings := cur.bindings.foldl (fun d kv => dictSet d kv.1 kv.2) prev.bindings,
    nodes := prev.nodes ++ cur.nodes }

/-- `enter_new_match` -/
def enter (st : Stack) : Stack := ({} : Partial) :: st

/-- `abandon_current_match` -/
def abandon : Stack → Stack
  | _ :: r => r
  | [] => []

/-- `dict.update` on an association list -/
def dictUpd {α β} [BEq α] (d : List (α × β)) (k : α) (b : β) : List (α × β) :=
  if d.any (fun kv => kv.1 == k) then d.map (fun kv => if kv.1 == k then (k, b) else kv)
  else d ++ [(k, b)]

/-- the repaired `PartialMatchResult.merge` (proposed fix C06-F3): value and node bindings of the
sub-match are kept as well -/
def Partial.mergeAll (prev cur : Partial) : Partial :=
  { prev.merge cur with
    vb := cur.vb.foldl (fun d kv => dictUpd d kv.1 kv.2) prev.vb,
    nb := cur.nb.foldl (fun d kv => dictUpd d kv.1 kv.2) prev.nb }

/-- `merge_current_match` (precondition: the current match is successful) -/
def mergeTop (fix3 : Bool) : Stack → Stack
  | cur :: prev :: r => (if fix3 then prev.mergeAll cur else prev.merge cur) :: r
  | st => st

/-! ## Environment -/

structure Env where
  p : GPat
  g : Graph
  /-- which revision of `_match_node`'s output loop is restated: `true` (default) = the committed,
  repaired code (`return self.fail(...)`, /repo 778bd07); `false` = the code before the repair
  (`return False` without failing the match, finding C06-F1) — kept for the refutation witness. -/
  fixF1 : Bool := true
  /-- repair C06-F2 (/repo 9ec39fb: named patterns with a checker are recorded in `value_bindings`) -/
  fixF2 : Bool := true
  /-- repair C06-F3 (/repo e143b53: `merge` keeps node and value bindings); `false` = before the repair -/
  fixF3 : Bool := true
  /-- repair C06-F8 (/repo f949e13: a clashing tag binding fails the alternative); `false` = before -/
  fixF8 : Bool := true
  /-- repair C06-F5 (/repo 750cd8e: candidate lists of later output nodes are keyed without the overload, and a
  list replaces the shared iterator); `false` = the code before the repair -/
  fixF5 : Bool := true
  /-- repair C06-F5b (/repo fd860b7: `NodePattern.__init__` computes the identifier from `self.op`, so copies
  made by `clone` keep it); `false` = the code before the repair -/
  fixF5b : Bool := true
  /-- `math.isclose(host, pattern, rel_tol=…, abs_tol=…)` — an abstract relation indexed by the two
  tolerances the `Constant` pattern carries (C05 judges the numeric use). -/
  close : Tol → Tol → Int → Int → Bool

/-! ## NodePattern.matches -/

/-- attribute missing and the pattern cannot match `None`, or present and not matching -/
def attrBad (n : GNode) (name : String) (ap : APat) : Bool :=
  match n.attr name with
  | none => !ap.canNone
  | some a => !ap.matches a.val

def attrsLoop (n : GNode) : List (String × APat) → Stack → R
  | [], st => (true, st)
  | (name, ap) :: rest, st =>
    if attrBad n name ap then fail st else
    match ap.name with
    | some nm =>
      let r := bind st nm (Bound.ofAttr (n.attr name))
      if !r.1 then r else attrsLoop n rest r.2
    | none => attrsLoop n rest st

def nodeMatches (np : NPat) (n : GNode) (st : Stack) : R :=
  if !np.op.matches n.op then fail st
  else if !np.domain.matches n.domain then fail st
  else
    let r := attrsLoop n np.attrs st
    if !r.1 then r
    else if !np.allowOtherAttrs && n.attrs.any (fun a => !np.attrs.any (fun kv => kv.1 == a.name)) then
      fail r.2
    else r

/-! ## _match_constant -/

def allClose (close : Int → Int → Bool) : List Int → List Int → Bool
  | _, [] => true
  | [], _ :: _ => false
  | x :: xs, c :: cs => close x c && allClose close xs cs

def constOk (close : Tol → Tol → Int → Int → Bool) (c : ConstPat) (cv : ConstVal) : Bool :=
  match c.val with
  | .list l => cv.shape == [l.length] && allClose (close c.relTol c.absTol) cv.data l
  | .scalar s =>
    cv.shape.isEmpty &&
    (match cv.data with
     | x :: _ => close c.relTol c.absTol x s
     | [] => false)

def matchConstant (E : Env) (c : ConstPat) (x : ValueId) (st : Stack) : R :=
  match E.g.constOf x with
  | none => fail st
  | some cv => if constOk E.close c cv then (true, st) else fail st

/-! ## _match_value -/

/-- `OpIdDispatchOr.get_pattern` -/
def getDispatch (g : Graph) (alts : List DAlt) (x : ValueId) : Option DAlt :=
  match g.producer x with
  | none => none
  | some n =>
    match g.nodes[n]? with
    | none => none
    | some gn => alts.find? (fun a => a.domain == gn.domain && a.op == gn.op && gn.overload == "")

/-- `_match_node_output` given the recursive node matcher -/
def matchNodeOutput (E : Env) (rec : NPId → NodeId → Stack → R) (np : NPId) (idx : Nat)
    (x : ValueId) (st : Stack) : R :=
  match E.g.producer x with
  | none => fail st
  | some n => if E.g.index x != some idx then fail st else rec np n st

/-- the value belongs to another graph and the pattern is not a Var / Constant / AnyValue -/
def crossGraphBad (g : Graph) (vp : VPat) (v : Option ValueId) : Bool :=
  match v with
  | some x => g.isForeign x && !vp.crossGraphOk
  | none => false

/-- `if pattern_value.tag_var is not None: self._match.bind(tag_var, tag)` inside the sub-match -/
def tagBind (tagVar : Option String) (t : Int) (st : Stack) : Stack :=
  match tagVar with
  | some tv => (bind st tv (.tag t)).2
  | none => st

mutual
/-- `_match_value` -/
def matchValue (E : Env) (rec : NPId → NodeId → Stack → R) (vp : VPat) (v : Option ValueId)
    (st : Stack) : R :=
  if crossGraphBad E.g vp v then fail st
  else
  match vp with
  | .any => (true, st)
  | .var id name isVar canNone check =>
    let r := bindValue2 E.fixF2 E.p st (.var id name isVar canNone check) v
    if !r.1 then r
    else if v.isNone && !canNone then fail r.2 else r
  | .const id c =>
    let r := bindValue E.p st (.const id c) v
    if !r.1 then r else
    match v with
    | none => fail r.2
    | some x => matchConstant E c x r.2
  | .out np idx =>
    let r := bindValue E.p st (.out np idx) v
    if !r.1 then r else
    match v with
    | none => fail r.2
    | some x => matchNodeOutput E rec np idx x r.2
  | .orD id name tagVar alts =>
    let r := bindValue E.p st (.orD id name tagVar alts) v
    if !r.1 then r else
    match v with
    | none => fail r.2
    | some x =>
      match getDispatch E.g alts x with
      | none => fail r.2
      | some a =>
        -- `_match_value(pattern_choice, value)` with a NodeOutputPattern choice
        let r1 := bindValue E.p r.2 (.out a.np a.idx) v
        let r2 := if !r1.1 then r1 else matchNodeOutput E rec a.np a.idx x r1.2
        if r2.1 then
          match tagVar with
          | some t => (true, (bind r2.2 t (.tag a.tag)).2)   -- result of `bind` is ignored
          | none => r2
        else r2
  | .orB id name tagVar tags alts =>
    let r := bindValue E.p st (.orB id name tagVar tags alts) v
    if !r.1 then r else matchAlts E rec alts tags tagVar v r.2

/-- the `for i, pattern_choice in enumerate(pattern_value._values)` loop of BacktrackingOr -/
def matchAlts (E : Env) (rec : NPId → NodeId → Stack → R) (alts : List VPat) (tags : List Int)
    (tagVar : Option String) (v : Option ValueId) (st : Stack) : R :=
  match alts with
  | [] => fail st
  | a :: rest =>
    let r := matchValue E rec a v (enter st)
    if r.1 then
      let st2 := tagBind tagVar (tags.headD 0) r.2
      -- merge_current_match raises ValueError when the sub-match was failed by the tag
      -- binding; modelled as a failure (outside the correspondence domain)
      if topOk st2 then (true, mergeTop E.fixF3 st2)
      else if E.fixF8 then matchAlts E rec rest tags.tail tagVar v (abandon st2)
      else fail (abandon st2)
    else matchAlts E rec rest tags.tail tagVar v (abandon r.2)
end

/-! ## _match_node -/

/-- `zip` / `zip_longest(node.inputs, pattern.inputs, fillvalue=None)`: in both cases one pair
per *pattern* input; missing node inputs are `None`. -/
def zipPad : List (Option ValueId) → List (Option VPat) → List (Option ValueId × Option VPat)
  | _, [] => []
  | [], p :: ps => (none, p) :: zipPad [] ps
  | v :: vs, p :: ps => (v, p) :: zipPad vs ps

def matchInputs (mv : VPat → Option ValueId → Stack → R) :
    List (Option ValueId × Option VPat) → Stack → R
  | [], st => (true, st)
  | (v, none) :: rest, st => if v.isNone then matchInputs mv rest st else fail st
  | (v, some vp) :: rest, st =>
    let r := mv vp v st
    if !r.1 then r else matchInputs mv rest r.2

/-- the output-binding loop at the end of `_match_node` -/
def bindOutputs (fix : Bool) (p : GPat) (np : NPId) (gouts : List ValueId) :
    List (Option String) → Nat → Stack → R
  | [], _, st => (true, st)
  | _ :: rest, i, st =>
    match gouts[i]? with
    | none => if fix then fail st else (false, st)   -- as found: `return False` without failing the match
    | some x =>
      let r := bindValue p st (.out np i) (some x)
      if !r.1 then r else bindOutputs fix p np gouts rest (i + 1) r.2

def nodeStep (E : Env) (mv : VPat → Option ValueId → Stack → R) (npid : NPId) (n : NodeId)
    (st : Stack) : R :=
  match lookupNode st npid with
  | some m => if m == n then (true, st) else fail st
  | none =>
    match E.p.nodes[npid]?, E.g.nodes[n]? with
    | some np, some gn =>
      let r := nodeMatches np gn st
      if !r.1 then fail r.2 else
      let st1 := bindNode r.2 npid n
      if gn.inputs.length > np.inputs.length && !np.allowOtherInputs then fail st1 else
      let r2 := matchInputs mv (zipPad gn.inputs np.inputs) st1
      if !r2.1 then r2 else
      bindOutputs E.fixF1 E.p npid gn.outputs np.outputs 0 r2.2
    | _, _ => fail st

/-- `_match_node`; the fuel bounds the nesting depth of node patterns (≤ number of nodes). -/
def matchNode (E : Env) : Nat → NPId → NodeId → Stack → R
  | 0, _, _, st => fail st
  | f + 1, npid, n, st => nodeStep E (matchValue E (matchNode E f)) npid n st

def GPat.fuel (p : GPat) : Nat := p.nodes.length + 1

/-! ## Top level -/

/-- What `SimplePatternMatcher.match` returns (a `MatchResult` whose stack is a singleton). -/
structure Result where
  ok : Bool
  bindings : List (String × Bound)
  nodes : List NodeId
  outputs : List Bound
  nb : List (NPId × NodeId)
  vb : List (VKey × Option ValueId)
  deriving Repr, Inhabited

def Result.failed : Result := { ok := false, bindings := [], nodes := [], outputs := [], nb := [], vb := [] }

def topPartial : Stack → Partial
  | c :: _ => c
  | [] => { ok := false }

def Result.ofPartial (c : Partial) (outs : List Bound) : Result :=
  { ok := c.ok, bindings := c.bindings, nodes := c.nodes, outputs := outs, nb := c.nb, vb := c.vb }

/-- `_get_output_values` on the top-level partial match -/
def outputValues (p : GPat) (c : Partial) : Option (List Bound) :=
  p.outputs.mapM (fun vp =>
    match p.vname vp with
    | some nm => c.bindings.lookup nm
    | none =>
      match vp.key with
      | none => none
      | some k => (c.vb.lookup k).map Bound.ofVal)

/-- `_valid_to_replace` -/
def validToReplace (g : Graph) (matched : List NodeId) (outs : List Bound) : Bool :=
  matched.all (fun n =>
    match g.nodes[n]? with
    | none => true
    | some gn =>
      gn.outputs.all (fun v =>
        outs.contains (.val v) ||
        (!g.isOutput v && (g.consumers v).all (fun c => matched.contains c) && !g.extUses.contains v)))

/-- the common tail of `_match_single_output_node` and `_multi_match` -/
def finish (E : Env) (rm : Bool) (r : R) : Result :=
  let c := topPartial r.2
  if !r.1 then Result.ofPartial c []
  else
    match outputValues E.p c with
    | none => Result.ofPartial { c with ok := false } []
    | some outs =>
      if rm && !validToReplace E.g c.nodes outs then Result.ofPartial { c with ok := false } []
      else Result.ofPartial c outs

/-- `for pattern_node, node in zip(self.pattern.output_nodes, candidate)` -/
def matchOutputNodes (E : Env) : List (NPId × NodeId) → Stack → R
  | [], st => (true, st)
  | (np, n) :: rest, st =>
    let r := matchNode E E.p.fuel np n st
    if !r.1 then r else matchOutputNodes E rest r.2

def multiMatch (E : Env) (rm : Bool) (combo : List NodeId) : Result :=
  finish E rm (matchOutputNodes E (E.p.outputNodes.zip combo) [{}])

/-- `itertools.product(*candidates)` (last factor varies fastest) -/
def product {α} : List (List α) → List (List α)
  | [] => [[]]
  | c :: cs => c.flatMap (fun x => (product cs).map (x :: ·))

def GNode.opKey (n : GNode) : String × String × String := (n.domain, n.op, n.overload)

/-- `NodePattern.op_identifier()`; with repair C06-F5b a copy made by `clone` (`opIsStr = false`) has it too -/
def NPat.opIdF (fix5b : Bool) (np : NPat) : Option (String × String) :=
  if !np.opIsStr && !fix5b then none else
  match np.domain, np.op with
  | .exact d, .exact o => some (d, o)
  | _, _ => none

/-- is node `i` a candidate for a pattern node with identifier `(d, o, "")` -/
def isCandidate (E : Env) (d o : String) (i : NodeId) : Bool :=
  match E.g.nodes[i]? with
  | some gn => if E.fixF5 then gn.domain == d && gn.op == o else gn.opKey == (d, o, "")
  | none => false

/-- candidate lists for the output nodes after the first: nodes with the same operator identifier
in graph order; a pattern node without identifier gets the *shared* iterator over all nodes —
the first such gets every node, later ones find it exhausted. -/
def candidatesRest (E : Env) : List NPId → Bool → List (List NodeId)
  | [], _ => []
  | np :: rest, allUsed =>
    match (E.p.nodes[np]?).bind (NPat.opIdF E.fixF5b) with
    | none =>
      (if allUsed && !E.fixF5 then [] else List.range E.g.nodes.length) :: candidatesRest E rest true
    | some (d, o) =>
      ((List.range E.g.nodes.length).filter (isCandidate E d o)) :: candidatesRest E rest allUsed

/-- first truthy result, else the last one, else "No match found." -/
def firstMatch (E : Env) (rm : Bool) : List (List NodeId) → Option Result → Result
  | [], last => last.getD Result.failed
  | c :: cs, _ =>
    let m := multiMatch E rm c
    if m.ok then m else firstMatch E rm cs (some m)

/-- the candidate combinations `SimplePatternMatcher.match` goes through, in order: `[root]` alone
for a pattern with one output node, else `itertools.product` of `[root]` and the candidate lists -/
def combos (E : Env) (root : NodeId) : List (List NodeId) :=
  match E.p.outputNodes with
  | [_] => [[root]]
  | outs => product ([root] :: candidatesRest E outs.tail false)

/-- `SimplePatternMatcher.match` -/
def matcherMatch (E : Env) (root : NodeId) (rm : Bool) : Result :=
  match E.p.outputNodes with
  | [np] => finish E rm (matchNode E E.p.fuel np root [{}])
  | outs => firstMatch E rm (product ([root] :: candidatesRest E outs.tail false)) none

/-- node-level and value-level checkers, then the condition function (`Pattern.match`) -/
def checksPass (p : GPat) (r : Result) : Bool :=
  r.nb.all (fun kv => match p.nodes[kv.1]? with
    | some np => np.check != some false
    | none => true)

mutual
/-- table of value-level `check` results by object id, collected from the pattern -/
def vpChecks : VPat → List (Nat × Bool)
  | .var id _ _ _ (some b) => [(id, b)]
  | .orB _ _ _ _ alts => vpChecksL alts
  | _ => []
def vpChecksL : List VPat → List (Nat × Bool)
  | [] => []
  | a :: rest => vpChecks a ++ vpChecksL rest
end

def GPat.valueChecks (p : GPat) : List (Nat × Bool) :=
  (p.nodes.flatMap (fun n => n.inputs.flatMap (fun i =>
      match i with
      | some vp => vpChecks vp
      | none => []))) ++ p.outputs.flatMap vpChecks

def valueChecksPass (p : GPat) (r : Result) : Bool :=
  r.vb.all (fun kv =>
    match kv.1 with
    | .leaf id => p.valueChecks.lookup id != some false
    | .outp _ _ => true)

/-- `for var in pattern.inputs: if var.name not in match.bindings: match.bind(var.name, None)` -/
def bindInputs (ins : List (Option String)) (bs : List (String × Bound)) : List (String × Bound) :=
  ins.foldl (fun bs i =>
    match i with
    | some nm => if (bs.lookup nm).isSome then bs else bs ++ [(nm, Bound.none)]
    | none => bs) bs

/-- `Pattern.match`: the matcher, then unbound pattern inputs are bound to `None`, then the
checkers and the condition function; `none` = falsy result. -/
def patternMatch (E : Env) (root : NodeId) (rm : Bool) : Option Result :=
  let r := matcherMatch E root rm
  if !r.ok then none else
  let r := { r with bindings := bindInputs E.p.inputs r.bindings }
  if !checksPass E.p r then none
  else if !valueChecksPass E.p r then none
  else if !E.p.cond then none
  else some r

end OV.C06
