import OV.Model.C13Export
/-
  OV.Model.C13Roundtrip — the straight-line fragment of the ONNX → Python → ONNX round trip.

  * `Sem`/`evalGraph`: meaning of a straight-line graph over *uninterpreted* operators
    (`S.op domain op attrs inputs`), optional inputs (`""`) absent.
  * `SStmt`/`SProg`: the tiny target language `proto2python` prints for this fragment:
    `outs = alias.Op(args, attrs)` and operator sugar `out = a <sym> b`, a signature, a `return`, and the
    opset import table (`from onnxscript.onnx_opset import opset18` binds alias `opset18` to domain "").
  * `exportStraight`: the exporter on the fragment: every name is printed through the final table of the
    unique-name mapper (`finalTable`: requests in the exporter's order — per node outputs then inputs, then the
    signature, then the `return`); `OV.Lemmas.C13Roundtrip` proves that the string-level model `exportModel`
    prints exactly `renderProg (exportStraight …)`.
  * `progToGraph`: how the converter reads such a program back: one node per statement, the callee resolved
    through the import table, operator sugar mapped by the converter's own `primop_map` (`convTable`),
    `None` ↦ absent input.  Sugar carries no attributes.
  Core Lean only.
-/
namespace OV.C13

/-! ## semantics of straight-line graphs -/

structure Sem (V : Type) where
  /-- domain, op_type, attributes, inputs (absent = `none`) ↦ outputs -/
  op : String → String → List (String × Attr) → List (Option V) → Option (List V)

abbrev Env (V : Type) := String → Option V

def Env.set {V} (ρ : Env V) (x : String) (v : V) : Env V := fun y => if y = x then some v else ρ y

def bindOuts {V} (ρ : Env V) : List String → List V → Option (Env V)
  | [], [] => some ρ
  | x :: xs, v :: vs => bindOuts (ρ.set x v) xs vs
  | _, _ => none

/-- an input: `""` is an absent optional input, any other name must be bound -/
def lookupIn {V} (ρ : Env V) (x : String) : Option (Option V) :=
  if x = "" then some none else (ρ x).map some

def lookupIns {V} (ρ : Env V) : List String → Option (List (Option V))
  | [] => some []
  | x :: xs => match lookupIn ρ x, lookupIns ρ xs with
    | some a, some as => some (a :: as)
    | _, _ => none

def lookupOuts {V} (ρ : Env V) : List String → Option (List V)
  | [] => some []
  | x :: xs => match ρ x, lookupOuts ρ xs with
    | some a, some as => some (a :: as)
    | _, _ => none

def evalNode {V} (S : Sem V) (ρ : Env V) (n : Node) : Option (Env V) :=
  match lookupIns ρ n.ins with
  | none => none
  | some ins => match S.op n.domain n.op n.attrs ins with
    | none => none
    | some outs => bindOuts ρ n.outs outs

def evalNodes {V} (S : Sem V) : Env V → List Node → Option (Env V)
  | ρ, [] => some ρ
  | ρ, n :: ns => match evalNode S ρ n with
    | none => none
    | some ρ' => evalNodes S ρ' ns

/-- meaning of a straight-line graph (no initializers): inputs bound positionally, nodes in order, outputs read -/
def evalGraph {V} (S : Sem V) (g : Graph) (args : List V) : Option (List V) :=
  match bindOuts (fun _ => none) g.inputs args with
  | none => none
  | some ρ0 => match evalNodes S ρ0 g.nodes with
    | none => none
    | some ρ => lookupOuts ρ g.outputs

/-! ## renaming a graph -/

/-- a renaming applied to value names; the empty name (absent input) stays empty -/
def renName (f : String → String) (x : String) : String := if x = "" then "" else f x

def renNode (f : String → String) (n : Node) : Node :=
  .mk n.op n.domain "" (n.ins.map (renName f)) (n.outs.map f) n.attrs

def renGraph (f : String → String) (g : Graph) : Graph :=
  .mk (g.inputs.map f) (g.outputs.map f) [] 0 (g.nodes.map (renNode f))

/-! ## the target language -/

inductive SStmt where
  /-- `outs = alias.op(args, attrs)` -/
  | call (outs : List String) (alias op : String) (args : List String) (attrs : List (String × Attr))
  /-- `out = a sym b` -/
  | binop (out sym a b : String)

structure SProg where
  /-- the argument of `@script(…)` -/
  deco : String
  name : String
  /-- alias ↦ domain, from the generated import lines -/
  imports : List (String × String)
  params : List String
  body : List SStmt
  rets : List String

/-- does `_translate_node` print the node as operator sugar? -/
def sugarOf (o : Opts) (n : Node) : Option String := if o.useOps then opsTable.lookup n.op else none

/-- the names `_translate_node` requests from the renamer for a plain node, in order: the outputs (only the
    first one for operator sugar), then the inputs -/
def reqOfNode (o : Opts) (n : Node) : List String :=
  match sugarOf o n with
  | some _ => n.outs.getD 0 "" :: n.ins
  | none => n.outs ++ n.ins

/-- the order in which `_translate_graph` requests names: the body, then the signature, then the `return` -/
def reqOrder (o : Opts) (m : ModelP) : List String :=
  m.graph.nodes.flatMap (reqOfNode o) ++ m.graph.inputs ++ m.graph.outputs

/-- the table of the unique-name mapper at the end of the export (`rename=False`) -/
def finalTable (tys : List String) (o : Opts) (m : ModelP) : List (String × String) :=
  uniqRun (reservedTable (reservedNames tys [m.opsets] [])) (reqOrder o m)

/-- the statement `_translate_node` prints for a plain node when names are printed by `f` -/
def straightStmtF (f : String → String) (o : Opts) (opsets : List (String × Nat)) (n : Node) : SStmt :=
  match sugarOf o n with
  | some sym => .binop (f (n.outs.getD 0 "")) sym (f (n.ins.getD 0 "")) (f (n.ins.getD 1 ""))
  | none => .call (n.outs.map f) (opsetName n.domain ((opsets.lookup n.domain).getD 0)) (cleanup n.op)
              (n.ins.map f) n.attrs

/-- `_translate_opset_import`: standard domains are imported as modules bound to domain "" -/
def importOf (dv : String × Nat) : String × String :=
  (opsetName dv.1 dv.2, if dv.1 = "" ∨ dv.1 = "ai.onnx" then "" else dv.1)

/-- the exporter on the fragment: every name is printed by the final table of the unique-name mapper
    (a name keeps the Python name of its first request) -/
def exportStraight (tys : List String) (o : Opts) (m : ModelP) : SProg :=
  let f := pyT (finalTable tys o m)
  { deco := defaultOpsetArg o m.opsets
    name := m.funName
    imports := m.opsets.map importOf
    params := m.graph.inputs.map f
    body := m.graph.nodes.map (straightStmtF f o m.opsets)
    rets := m.graph.outputs.map f }

/-! ## printing (the canonical lines of `OV.C13.exportModel`) -/

def attrTok (ka : String × Attr) : String :=
  match ka.2 with
  | .ref r => ka.1 ++ "=@" ++ r
  | _ => ka.1

def renderStmt (indent : Nat) : SStmt → String
  | .call outs alias op args attrs =>
    line indent ("call " ++ comma outs ++ " = " ++ (alias ++ "." ++ op) ++ "(" ++ comma args ++ "|" ++ comma (attrs.map attrTok) ++ ")")
  | .binop out sym a b => line indent ("op " ++ out ++ " = " ++ (" " ++ sym ++ " ").intercalate [a, b])

def renderProg (p : SProg) : List String :=
  ["deco " ++ p.deco, "sig " ++ p.name ++ "(" ++ comma p.params ++ "|)"] ++ p.body.map (renderStmt 1)
    ++ [line 1 ("return " ++ comma p.rets)]

/-! ## reading the program back (the converter on this fragment) -/

/-- the converter's `primop_map`, by printed symbol -/
def convTable : List (String × String) :=
  [("+", "Add"), ("-", "Sub"), ("*", "Mul"), ("@", "MatMul"), ("/", "Div"), ("**", "Pow"), ("&", "And"),
   ("|", "Or"), (">", "Greater"), ("==", "Equal"), ("<", "Less"), (">=", "GreaterOrEqual"),
   ("<=", "LessOrEqual"), ("%", "Mod")]

/-- a printed argument read back: `None` is an absent input -/
def unPy (a : String) : String := if a = "None" then "" else a

def stmtToNode (imports : List (String × String)) : SStmt → Node
  | .call outs alias op args attrs => .mk op ((imports.lookup alias).getD "?") "" (args.map unPy) outs attrs
  | .binop out sym a b => .mk ((convTable.lookup sym).getD "?") "" "" [unPy a, unPy b] [out] []

def progToGraph (p : SProg) : Graph :=
  .mk p.params p.rets [] 0 (p.body.map (stmtToNode p.imports))

/-- the renaming the export applied: ONNX name ↦ Python name (final table) -/
def tblF (T : List (String × String)) (x : String) : String := if x = "" then "" else (T.lookup x).getD ""

/-! ## the fragment -/

/-- operator sugar is *symmetric* on a node: the converter maps the printed symbol back to the same operator,
    the node has exactly two inputs and one output, and carries no attribute (sugar prints none) -/
def sugarSymmetric (n : Node) (sym : String) : Bool :=
  convTable.lookup sym == some n.op && n.ins.length == 2 && n.outs.length == 1 && n.attrs.isEmpty

def attrPrintable : Attr → Bool
  | .plain => true
  | .tensor _ _ _ _ => true
  | _ => false

/-- a node of the fragment, under options `o` -/
def straightNode (o : Opts) (opsets : List (String × Nat)) (n : Node) : Bool :=
  n.op != "If" && n.op != "Loop" && n.op != "Scan"
  && n.domain == "" && (opsets.lookup "").isSome
  && n.attrs.all (fun ka => attrPrintable ka.2)
  && n.outs.all (· != "")
  && isPyIdentL n.op.toList && !(kwlistL.contains n.op.toList)
  && !(n.op == "Identity" && n.ins.length == 1 && n.outs.length == 1
        && (n.outs.getD 0 "" == n.ins.getD 0 "" || n.ins.getD 0 "" == ""))
  && (match sugarOf o n with
      | some sym => sugarSymmetric n sym
      | none => true)

/-- the alias of the standard opset import resolves to domain "" (no other import prints the same alias) -/
def aliasOk (opsets : List (String × Nat)) : Bool :=
  match opsets.lookup "" with
  | some v => (opsets.map importOf).lookup (opsetName "" v) == some ""
  | none => false

/-- the reserved module-level names are usable as "already used" Python names: non-empty, no keyword, no leading `-`
    (true of every header the exporter prints; checked, not assumed) -/
def reservedOk (res : List String) : Bool :=
  res.all (fun r => r != "" && !(kwlistL.contains r.toList) && r.toList.head? != some '-')

/-- the fragment: `rename=False`, `inline_const=False`, no initializers, straight-line nodes, named function,
    non-empty graph inputs/outputs, no graph input returned directly, no value returned twice -/
def straightModel (tys : List String) (o : Opts) (m : ModelP) : Bool :=
  reservedOk (reservedNames tys [m.opsets] []) &&
  !o.rename && !o.inlineConst
  && m.graph.inits.isEmpty && m.graph.nSparse == 0 && aliasOk m.opsets
  && !(m.functionName.isNone && m.graphName == "")
  && m.graph.inputs.all (· != "") && m.graph.outputs.all (· != "")
  && m.graph.nodes.all (straightNode o m.opsets)
  -- a returned graph input, or a value returned twice, makes the converter insert `Identity` copies
  && m.graph.outputs.all (fun x => !m.graph.inputs.contains x) && m.graph.outputs.eraseDups.length == m.graph.outputs.length


/-! ## initializers -/

/-- the `Constant` node `_translate_graph_body` builds for an initializer that is neither skipped nor inlined -/
def initNode (i : String × Nat × Nat × List Nat × Bool × String) : Node :=
  .mk "Constant" "" "" [] [i.1] [("value", .tensor i.2.2.1 i.2.2.2.1 i.2.2.2.2.1 i.2.2.2.2.2)]

/-- the graph with its initializers turned into leading `Constant` nodes.  This is also what an initializer
    *means* here: it denotes whatever the operator semantics gives the `Constant` node holding its tensor. -/
def initsAsNodes (g : Graph) : Graph :=
  .mk g.inputs g.outputs [] g.nSparse (g.inits.map initNode ++ g.nodes)

def ModelP.unfoldInits (m : ModelP) : ModelP := { m with graph := initsAsNodes m.graph }

/-- meaning of a straight-line graph with initializers -/
def evalGraphI {V} (S : Sem V) (g : Graph) (args : List V) : Option (List V) := evalGraph S (initsAsNodes g) args

/-- no initializer is skipped (`skip_initializers` only skips tensors of more than 4 elements) -/
def noneSkipped (o : Opts) (g : Graph) : Bool := g.inits.all (fun i => !(o.skipInit && i.2.1 > 4))

/-! ## operands that are inlined literals: how Python reads `a sym b` (C13-POW-NEG) -/

/-- an operand as `_translate_node` prints it: a name, or an inlined scalar literal (`str(value)`: an optional
    leading `-` and a magnitude) -/
inductive Operand where
  | name (s : String)
  | lit (neg : Bool) (mag : Nat)

/-- the expression Python's grammar builds from the printed text `a sym b` (no parentheses are printed) -/
inductive PyExpr where
  | atom (o : Operand)
  | neg (e : PyExpr)
  | bin (sym : String) (a b : PyExpr)

/-- unary minus binds tighter than every binary operator of the table except `**`: `-3 ** x` is `-(3 ** x)` -/
def pyRead (a : Operand) (sym : String) (b : Operand) : PyExpr :=
  match a with
  | .lit true mag => if sym = "**" then .neg (.bin sym (.atom (.lit false mag)) (.atom b)) else .bin sym (.atom a) (.atom b)
  | _ => .bin sym (.atom a) (.atom b)

/-- what the node meant: `Op(a, b)` on the operand values -/
def intended (a : Operand) (sym : String) (b : Operand) : PyExpr := .bin sym (.atom a) (.atom b)

/-- integer reading of the expressions (`**` power, `*`, `+`, `-`), enough to separate the two parses -/
def evalPy (env : String → Int) : PyExpr → Int
  | .atom (.name s) => env s
  | .atom (.lit neg mag) => if neg then -(mag : Int) else (mag : Int)
  | .neg e => -(evalPy env e)
  | .bin sym a b =>
    let x := evalPy env a
    let y := evalPy env b
    if sym = "**" then x ^ y.toNat else if sym = "*" then x * y else if sym = "+" then x + y else x - y

end OV.C13
