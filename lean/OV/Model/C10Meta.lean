/-!
# C10 — `_restore_metadata` on the C-API fallback route (since 7ba1077)

The ONNX C API converter keeps node names, node and graph doc strings, but drops `metadata_props` (graph, nodes,
values) and the doc strings of values.  After the round trip `_restore_metadata(original, converted)` re-attaches
them: values are matched by name (the last definition of a name wins), nodes by name — a name used twice
identifies no node — and operator/domain; `setdefault` never overwrites what the C API kept.  Nodes and values are
listed in traversal order (subgraphs included).  Core Lean only.
-/
namespace OV.C10.Meta

/-- `metadata_props`: an insertion-ordered dict of strings -/
abbrev Props := List (String × String)

def Props.get (d : Props) (k : String) : Option String := (d.find? (fun e => e.1 == k)).map (·.2)
def Props.has (d : Props) (k : String) : Bool := d.any (fun e => e.1 == k)
/-- `d.setdefault(k, v)` -/
def Props.setdefault (d : Props) (k v : String) : Props := if d.has k then d else d ++ [(k, v)]
/-- `for key, item in old.items(): d.setdefault(key, item)` -/
def Props.merge (d old : Props) : Props := old.foldl (fun a e => a.setdefault e.1 e.2) d

/-- `if not x.doc_string: x.doc_string = old.doc_string` -/
def mergeDoc (doc old : String) : String := if doc == "" then old else doc

structure N where
  name : Option String     -- `none`: no (or an empty) name
  op : String
  domain : String
  doc : String
  props : Props
  deriving DecidableEq, Repr

structure V where
  name : String
  doc : String
  props : Props
  deriving DecidableEq, Repr

structure Gr where
  props : Props
  doc : String
  nodes : List N
  values : List V          -- graph inputs, then the outputs of the nodes
  deriving Repr

/-- `old_nodes.get(name)`: the node if exactly one original node carries the name -/
def lookupNode (orig : List N) (name : String) : Option N :=
  match orig.filter (fun o => o.name == some name) with
  | [o] => some o
  | _ => none

/-- `old_values.get(name)`: later definitions overwrite earlier ones -/
def lookupValue (orig : List V) (name : String) : Option V :=
  (orig.filter (fun o => o.name == name)).getLast?

def restoreNode (orig : List N) (n : N) : N :=
  match n.name with
  | none => n
  | some nm =>
    match lookupNode orig nm with
    | some o =>
      if o.op == n.op && o.domain == n.domain then { n with doc := mergeDoc n.doc o.doc, props := n.props.merge o.props }
      else n
    | none => n

def restoreValue (orig : List V) (v : V) : V :=
  match lookupValue orig v.name with
  | some o => { v with doc := mergeDoc v.doc o.doc, props := v.props.merge o.props }
  | none => v

/-- `_restore_metadata(original, converted)` -/
def restore (orig conv : Gr) : Gr :=
  { props := conv.props.merge orig.props, doc := mergeDoc conv.doc orig.doc,
    nodes := conv.nodes.map (restoreNode orig.nodes), values := conv.values.map (restoreValue orig.values) }

end OV.C10.Meta
