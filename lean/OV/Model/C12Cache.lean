import OV.Model.C12Autocast
/-!
# C12 — model of `GraphBuilder._get_or_create_constant` and its `_constant_cache` (core Lean only)

Since commit 610a39a (fix F8) the cache key is `(repr(value), dtype)` for scalars and
`(repr(tuple(value)), dtype)` for lists: two requests share an initializer exactly when the `repr`
strings of their values and their key dtypes coincide.  `repr` of a Python `bool`/`int`/`float`
determines the type and the value (sign of zero included; `repr` of floats is injective — assumption
A-py).  A `Scalar.f neg num den` stands for the float whose `as_integer_ratio()` is `num/den` (the
encoding the harness uses: lowest terms, one triple per float), so key equality is `reprEq`:
same Python type and the same encoding, element by element — i.e. equality of literals
(`reprEq_iff_eq`).  `True`, `1`, `1.0` are three keys; `0.0` and `-0.0` are two.

The pre-fix cache (keyed with Python `==`/`hash` on `(value, dtype)`: `True == 1 == 1.0`,
`0.0 == -0.0`) is kept as `promotePre` for the record: its soundness statement is refuted in
`OV.Props.C12.cache_sound_prefix_refuted` (finding D10, fixed).
-/
namespace OV.Autocast

/-! ## key equality -/

/-- `repr(x) == repr(y)` for Python scalars: same type and same value (for floats: same sign — also of
zero — and the same canonical ratio). -/
def reprEqS : Scalar → Scalar → Bool
  | .b v, .b w => v == w
  | .i v, .i w => v == w
  | .f s n d, .f s' n' d' => s == s' && n == n' && d == d'
  | _, _ => false

def reprEqList : List Scalar → List Scalar → Bool
  | [], [] => true
  | x :: xs, y :: ys => reprEqS x y && reprEqList xs ys
  | _, _ => false

/-- Equality of the first key component: `repr(value)` for a scalar, `repr(tuple(value))` for a list
(a scalar's `repr` never equals a tuple's). -/
def reprEq : Lit → Lit → Bool
  | .s x, .s y => reprEqS x y
  | .l x xs, .l y ys => reprEqList (x :: xs) (y :: ys)
  | _, _ => false

/-- A Python number as a fraction `(numerator, denominator)`. -/
def Scalar.frac : Scalar → Int × Nat
  | .b v => (boolInt v, 1)
  | .i v => (v, 1)
  | .f neg n d => (signed neg n, d)

/-- Python `==` on numbers: `True == 1 == 1.0`, `0.0 == -0.0` (the PRE-FIX key equality). -/
def pyEqS (x y : Scalar) : Bool :=
  let (a, b) := x.frac
  let (c, d) := y.frac
  a * (d : Int) == c * (b : Int)

def pyEqList : List Scalar → List Scalar → Bool
  | [], [] => true
  | x :: xs, y :: ys => pyEqS x y && pyEqList xs ys
  | _, _ => false

/-- Python `==` on the first component of the PRE-FIX cache key: a scalar, or `tuple(value)`. -/
def pyEq : Lit → Lit → Bool
  | .s x, .s y => pyEqS x y
  | .l x xs, .l y ys => pyEqList (x :: xs) (y :: ys)
  | _, _ => false

/-! ## the cache -/

/-- Name given by `_constant_name`: `const_<value>_<suffix>` for scalars, `const_1d_<n>` for lists. -/
inductive CName
  | scalar (x : Scalar) (suffix : Option DType)
  | list (n : Nat)
  deriving DecidableEq, Repr

structure Entry where
  key : Lit
  keyDt : Option DType
  name : CName
  dtype : DType
  vals : List SVal
  deriving DecidableEq, Repr

abbrev Cache := List Entry

/-- `cache_key in root._constant_cache` for a given key equality. -/
def Cache.findBy (eq : Lit → Lit → Bool) (c : Cache) (l : Lit) (dt : Option DType) : Option Entry :=
  List.find? (fun e => eq e.key l && e.keyDt == dt) c

/-- Key dtype: the requested dtype, else `_PYTHON_TYPE_TO_DTYPE.get(type(value))` (none for bool and, since
fa769b8, for lists mixing types). -/
def keyDType (l : Lit) (dt : Option DType) : Option DType :=
  match dt with
  | some d => some d
  | none => builderKeyDType l

def cname (l : Lit) (kd : Option DType) (n : Nat) : CName :=
  match l with
  | .s x => .scalar x kd
  | .l .. => .list n

/-- `GraphBuilder._get_or_create_constant(value, dtype)` for a given key equality: returns the new cache
and the entry used. -/
def promoteBy (eq : Lit → Lit → Bool) (c : Cache) (l : Lit) (dt : Option DType) : Except Err (Cache × Entry) :=
  if !builderAccepts l then .error .refused else
  let kd := keyDType l dt
  match c.findBy eq l kd with
  | some e => .ok (c, e)
  | none =>
    let d := kd.getD (irDefault l)
    match mapE (fun e => npCast e d) l.elems with
    | .error e => .error e
    | .ok vs =>
      let e : Entry := ⟨l, kd, cname l kd c.length, d, vs⟩
      .ok (c ++ [e], e)

/-- The code as it is (key `(repr(value), dtype)`). -/
def promote : Cache → Lit → Option DType → Except Err (Cache × Entry) := promoteBy reprEq

/-- The code before fix F8 / commit 610a39a (key `(value, dtype)` under Python `==`). -/
def promotePre : Cache → Lit → Option DType → Except Err (Cache × Entry) := promoteBy pyEq

/-- Run a sequence of promotions; failed ones leave the cache unchanged. -/
def promoteAllBy (eq : Lit → Lit → Bool) : Cache → List (Lit × Option DType) → Cache
  | c, [] => c
  | c, (l, dt) :: rs =>
    match promoteBy eq c l dt with
    | .ok (c', _) => promoteAllBy eq c' rs
    | .error _ => promoteAllBy eq c rs

def promoteAll : Cache → List (Lit × Option DType) → Cache := promoteAllBy reprEq
def promoteAllPre : Cache → List (Lit × Option DType) → Cache := promoteAllBy pyEq

/-! ## `_cast_inputs` threaded through the cache, and histories of calls on one builder -/

/-- An operand produced by the builder: what it is (`out`) and, for a promoted literal, the name of the
initializer it refers to. -/
structure BOut where
  out : Out
  init : Option CName
  deriving DecidableEq, Repr

section
variable {κ : Type} [DecidableEq κ]

/-- `adapt` of `BuilderBase._cast_inputs` with `GraphBuilder._promote_constant` = the cache. -/
def emitBuilderC (sa : List (Slot κ × Arg)) (c : Cache) (p : Slot κ × Arg) : Except Err (Cache × BOut) :=
  match p.2 with
  | .none => .ok (c, ⟨.none, none⟩)
  | .tensor dt _ => .ok (c, ⟨.pass dt, none⟩)
  | .lit l =>
    match targetFirst sa p.1 with
    | some (dt, true) =>
      match promote c l (some dt) with
      | .error e => .error e
      | .ok (c', e) => .ok (c', ⟨.const e.dtype l.isList e.vals, some e.name⟩)
    | some (dt, false) =>
      match promote c l none with
      | .error e => .error e
      | .ok (c', e) => .ok (c', ⟨.const dt l.isList (e.vals.map (onnxCast e.dtype dt)), some e.name⟩)
    | none =>
      match promote c l none with
      | .error e => .error e
      | .ok (c', e) => .ok (c', ⟨.const e.dtype l.isList e.vals, some e.name⟩)

/-- The list comprehension `[adapt(x, typevar) for …]`: arguments in order; an exception leaves the
initializers already created for earlier arguments in the cache. -/
def mapBuilderC (sa : List (Slot κ × Arg)) : Cache → List (Slot κ × Arg) → Cache × Except Err (List BOut)
  | c, [] => (c, .ok [])
  | c, p :: ps =>
    match emitBuilderC sa c p with
    | .error e => (c, .error e)
    | .ok (c', o) =>
      match mapBuilderC sa c' ps with
      | (c'', .error e) => (c'', .error e)
      | (c'', .ok os) => (c'', .ok (o :: os))

/-- `BuilderBase._cast_inputs` on a `GraphBuilder` whose constant cache is `c`. -/
def castBuilderC (c : Cache) (fs : List (Formal κ)) (args : List Arg) : Cache × Except Err (List BOut) :=
  match assign fs args with
  | .error e => (c, .error e)
  | .ok sa => mapBuilderC sa c sa

/-- A history: calls (signature as read for that (op, opset), arguments) made one after the other on one builder.
Returns the results in order and the final cache. -/
def runCalls : Cache → List (List (Formal κ) × List Arg) → List (Except Err (List BOut)) × Cache
  | c, [] => ([], c)
  | c, (fs, args) :: rest =>
    let (c', r) := castBuilderC c fs args
    let (rs, c'') := runCalls c' rest
    (r :: rs, c'')

end

/-- The operands without the initializer names. -/
def outsOf (r : Except Err (List BOut)) : Except Err (List Out) :=
  match r with
  | .ok os => .ok (os.map (·.out))
  | .error e => .error e

/-! ## Function bodies: `lift_initializers_to_constants` (run by `build_function` on every traced function body) -/

/-- The attribute forms of an ONNX `Constant` node that can carry a number or a 1-D list of numbers. -/
inductive ConstAttr
  | value (dt : DType) (isList : Bool) (vals : List SVal)   -- `value`: a tensor with its own dtype
  | valueFloat (v : SVal)                                   -- `value_float`: a FLOAT scalar
  | valueInt (v : SVal)                                     -- `value_int`: an INT64 scalar
  | valueFloats (vs : List SVal)                            -- `value_floats`: a FLOAT 1-D tensor
  | valueInts (vs : List SVal)                              -- `value_ints`: an INT64 1-D tensor
  deriving DecidableEq, Repr

/-- The tensor a `Constant` node produces (ONNX operator specification; what a runtime, and stream 10 of the harness, see). -/
def ConstAttr.denote : ConstAttr → Out
  | .value dt isList vals => .const dt isList vals
  | .valueFloat v => .const .float false [v]
  | .valueInt v => .const .int64 false [v]
  | .valueFloats vs => .const .float true vs
  | .valueInts vs => .const .int64 true vs

/-- `lift_initializers_to_constants`: every initializer becomes `Constant(value = <the initializer's tensor>)` —
`ir.Attr("value", ir.AttributeType.TENSOR, tensor)`, never one of the compact forms. -/
def liftInitializer (dt : DType) (isList : Bool) (vals : List SVal) : ConstAttr := .value dt isList vals

/-- An operand of a function body after lifting: a promoted literal is now produced by a `Constant` node. -/
def liftOperand (o : BOut) : Out :=
  match o.out with
  | .const dt isList vals => (liftInitializer dt isList vals).denote
  | x => x

/-- `build_function`: trace the call on a fresh builder, then lift the initializers. -/
def castBuilderFunction {κ : Type} [DecidableEq κ] (fs : List (Formal κ)) (args : List Arg) : Except Err (List Out) :=
  match (castBuilderC [] fs args).2 with
  | .ok os => .ok (os.map liftOperand)
  | .error e => .error e

end OV.Autocast
