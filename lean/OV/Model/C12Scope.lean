/-!
# C12 — which operands the converter treats as polymorphic constants, across If/Loop scopes (core Lean only)

Restates the bookkeeping of `onnxscript/_internal/converter.py` that decides whether a *named* operand is
`CastLike`d to its sibling (`autocast.static_cast_inputs` asks `Converter._is_castable(x.name)`):

* `Converter._locals` — a stack of scopes `python name ↦ value`; `_enter_scope` pushes an empty scope for a
  then/else block or a loop body, `_exit_scope` pops it; `_bind` writes the innermost scope; `_lookup` searches
  from the innermost scope outwards;
* `Converter._castable` — ONE flat set of *value names* for the whole function: `_emit_const` adds the (unique)
  name of every constant it materialises; nothing is ever removed, scopes do not matter;
* after a block, the names it defines that are live afterwards are re-bound to the outputs of the `If`/`Loop`
  node (ordinary tensors).

Value names are modelled as numbers drawn from a counter (`Converter._generate_unique_name` is assumed to return
a name not used before in the function).
-/
namespace OV.Scope

abbrev PyName := Nat
abbrev VId := Nat

/-- One step of translating a function body. -/
inductive Instr
  | bindLit (n : PyName)        -- `n = <python literal>`: `_emit_const` + `_bind`
  | bindTensor (n : PyName)     -- `n = <tensor expression>`: `_bind` to a fresh non-constant value
  | use (n : PyName)            -- `n` used as an operand beside a tensor: is it CastLike'd?
  | enter                       -- `_enter_scope` (then/else block, loop body)
  | exit (outs : List PyName)   -- `_exit_scope`, then `outs` are bound to the If/Loop outputs
  /- round 5: the statement translators as they are, error branches included -/
  | enterLoop (lv : Option PyName) (state : List PyName)
      -- `_translate_loop_stmt` up to the body: no loop-carried name → "The loop has no effect"; `_enter_scope`; the
      -- loop variable (`for` only) and every loop-carried name are bound to fresh body-graph parameters
  | exitLoop (state : List PyName)
      -- after the body: `_exit_scope`; every loop-carried name is looked up in the OUTER scopes for the Loop node's
      -- inputs ("Unbound name" when it has no value before the loop); then bound to the Loop outputs
  | exitBranch (outs : List PyName)
      -- end of `_translate_block`: every live output must be visible from inside the block (its own binding, or an
      -- outer one that is copied), else "not assigned a value along a conditional branch"; `_exit_scope`
  | endIf (outs : List PyName)
      -- `_translate_if_stmt` after both blocks: no live output → "do not have any output variable"; the live
      -- outputs are bound to the If node's outputs in the current scope
  deriving DecidableEq, Repr

/-- Converter state: the scope stack (innermost first, latest binding first), the flat castable set, the name
counter, and the observations made by `use` (`none`: unbound name). -/
structure St where
  locals : List (List (PyName × VId))
  castable : List VId
  next : VId
  obs : List (Option Bool)
  /-- the translation was refused by one of the modelled error branches (`_fail`, "Unbound name") -/
  err : Bool := false
  deriving Repr

def St.init : St := ⟨[[]], [], 0, [], false⟩

def lookupScope (n : PyName) : List (PyName × VId) → Option VId
  | [] => none
  | (m, v) :: rest => if m == n then some v else lookupScope n rest

/-- `_lookup`: innermost scope first. -/
def lookup (n : PyName) : List (List (PyName × VId)) → Option VId
  | [] => none
  | s :: rest => match lookupScope n s with
    | some v => some v
    | none => lookup n rest

/-- `_bind`: write the innermost scope. -/
def bind (n : PyName) (v : VId) : List (List (PyName × VId)) → List (List (PyName × VId))
  | [] => [[(n, v)]]
  | s :: rest => ((n, v) :: s) :: rest

def bindOuts (outs : List PyName) (locals : List (List (PyName × VId))) (next : VId) :
    List (List (PyName × VId)) × VId :=
  outs.foldl (fun acc n => (bind n acc.2 acc.1, acc.2 + 1)) (locals, next)

def step (s : St) : Instr → St
  | .bindLit n => { s with locals := bind n s.next s.locals, castable := s.next :: s.castable, next := s.next + 1 }
  | .bindTensor n => { s with locals := bind n s.next s.locals, next := s.next + 1 }
  | .use n => { s with obs := s.obs ++ [(lookup n s.locals).map (fun v => s.castable.contains v)] }
  | .enter => { s with locals := [] :: s.locals }
  | .exit outs =>
    let r := bindOuts outs s.locals.tail s.next
    { s with locals := r.1, next := r.2 }
  | .enterLoop lv state =>
    let r := bindOuts (lv.toList ++ state) ([] :: s.locals) s.next
    { s with locals := r.1, next := r.2, err := s.err || state.isEmpty }
  | .exitLoop state =>
    let outer := s.locals.tail
    let r := bindOuts state outer s.next
    { s with locals := r.1, next := r.2, err := s.err || state.any (fun n => (lookup n outer).isNone) }
  | .exitBranch outs =>
    { s with locals := s.locals.tail, err := s.err || outs.any (fun n => (lookup n s.locals).isNone) }
  | .endIf outs =>
    let r := bindOuts outs s.locals s.next
    { s with locals := r.1, next := r.2, err := s.err || outs.isEmpty }

def run (prog : List Instr) : St := prog.foldl step St.init

/-! ## Specification: every binding simply remembers whether it is a literal -/

structure Sp where
  env : List (List (PyName × Bool))
  obs : List (Option Bool)
  err : Bool := false
  deriving Repr

def Sp.init : Sp := ⟨[[]], [], false⟩

def lookupScopeS (n : PyName) : List (PyName × Bool) → Option Bool
  | [] => none
  | (m, b) :: rest => if m == n then some b else lookupScopeS n rest

def lookupS (n : PyName) : List (List (PyName × Bool)) → Option Bool
  | [] => none
  | s :: rest => match lookupScopeS n s with
    | some b => some b
    | none => lookupS n rest

def bindS (n : PyName) (b : Bool) : List (List (PyName × Bool)) → List (List (PyName × Bool))
  | [] => [[(n, b)]]
  | s :: rest => ((n, b) :: s) :: rest

def stepS (s : Sp) : Instr → Sp
  | .bindLit n => { s with env := bindS n true s.env }
  | .bindTensor n => { s with env := bindS n false s.env }
  | .use n => { s with obs := s.obs ++ [lookupS n s.env] }
  | .enter => { s with env := [] :: s.env }
  | .exit outs => { s with env := outs.foldl (fun e n => bindS n false e) s.env.tail }
  | .enterLoop lv state =>
    { s with env := (lv.toList ++ state).foldl (fun e n => bindS n false e) ([] :: s.env), err := s.err || state.isEmpty }
  | .exitLoop state =>
    { s with env := state.foldl (fun e n => bindS n false e) s.env.tail,
             err := s.err || state.any (fun n => (lookupS n s.env.tail).isNone) }
  | .exitBranch outs =>
    { s with env := s.env.tail, err := s.err || outs.any (fun n => (lookupS n s.env).isNone) }
  | .endIf outs =>
    { s with env := outs.foldl (fun e n => bindS n false e) s.env, err := s.err || outs.isEmpty }

def runS (prog : List Instr) : Sp := prog.foldl stepS Sp.init

end OV.Scope
