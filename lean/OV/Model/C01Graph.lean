import OV.Model.C01Script
/-
  OV.Model.C01Graph — C01/C02: the ONNX graph fragment the converter emits, its
  well-formedness (C02) and its semantics (C01).

  Core Lean only.

  * `Node` : an ordinary operator node, `If` (two subgraphs) or `Loop` (one subgraph, carried
    state only — the converter never emits scan outputs).  Subgraphs are stored inline
    (`nodes`/`outputs`, and `inputs` for a Loop body).
  * `Graph`: function-level inputs, nodes, outputs.
  * `wfNodes`/`wfGraph` (Bool) and `allDefs`: the decision procedure for well-formedness.
    The declarative reading (`WF`) lives in `OV/Props/C02.lean` with the proof that the two
    coincide.
  * `evalNodes` / `evalGraph`: big-step semantics over an uninterpreted operator meaning.
-/
namespace OV.C01

inductive Node
  /-- ordinary node; absent optional inputs are `none` (the empty name in the proto) -/
  | op (dom name : String) (ins : List (Option Name)) (outs : List Name)
       (attrs : List (String × AttrV))
  | ifN (cond : Name) (outs : List Name)
        (tNodes : List Node) (tOuts : List Name)
        (eNodes : List Node) (eOuts : List Name)
  /-- `Loop(bound?, cond?, inits…) -> outs…` with body `(iter, condIn, state…) -> (condOut, state'…)` -/
  | loop (bound cond : Option Name) (inits : List Name) (outs : List Name)
         (bIns : List Name) (bNodes : List Node) (bOuts : List Name)
deriving Repr, Inhabited

structure Graph where
  inputs : List Name
  /-- attribute parameters of the function (not values) -/
  attrs : List Name
  nodes : List Node
  outputs : List Name
deriving Repr, Inhabited

/-! ## Names defined -/

/-- Outputs of one node (what the enclosing graph sees). -/
def Node.outs : Node → List Name
  | .op _ _ _ o _ => o
  | .ifN _ o _ _ _ _ => o
  | .loop _ _ _ o _ _ _ => o

/-- `IRFunction.assigned_names`: names assigned by the nodes of *this* graph (not nested ones). -/
def topDefs (ns : List Node) : List Name := ns.flatMap Node.outs

mutual
/-- Every name defined by a node, including everything defined inside its subgraphs
(subgraph inputs and node outputs at any depth). -/
def Node.allDefs : Node → List Name
  | .op _ _ _ o _ => o
  | .ifN _ o tn _ en _ => o ++ (allDefsL tn ++ allDefsL en)
  | .loop _ _ _ o bi bn _ => o ++ (bi ++ allDefsL bn)
def allDefsL : List Node → List Name
  | [] => []
  | n :: ns => n.allDefs ++ allDefsL ns
end

def Graph.allDefs (g : Graph) : List Name := g.inputs ++ allDefsL g.nodes

/-! ## Well-formedness, decision procedure -/

def allIn (xs vis : List Name) : Bool := xs.all (fun x => vis.contains x)

def optIn (x : Option Name) (vis : List Name) : Bool :=
  match x with
  | none => true
  | some n => vis.contains n

def nodupB : List Name → Bool
  | [] => true
  | x :: xs => !xs.contains x && nodupB xs

mutual
/-- Scoped definition-before-use: `vis` = names visible so far (this scope and all outer
ones).  A subgraph output must be produced by a node *of that subgraph*, and the outputs of a
subgraph are pairwise distinct. -/
def wfNode (vis : List Name) : Node → Bool
  | .op _ _ ins _ _ => ins.all (fun i => optIn i vis)
  | .ifN c outs tn to en eo =>
    vis.contains c && wfNodes vis tn && allIn to (topDefs tn)
      && wfNodes vis en && allIn eo (topDefs en)
      && (to.length == outs.length) && (eo.length == outs.length)
      && nodupB to && nodupB eo
  | .loop b c inits outs bi bn bo =>
    optIn b vis && optIn c vis && allIn inits vis
      && wfNodes (bi ++ vis) bn && allIn bo (topDefs bn)
      && (bi.length == inits.length + 2) && (bo.length == inits.length + 1)
      && (outs.length == inits.length) && nodupB bo
def wfNodes (vis : List Name) : List Node → Bool
  | [] => true
  | n :: ns => wfNode vis n && wfNodes (n.outs ++ vis) ns
end

/-- The whole emitted function body is well-formed:
* every name (inputs, node outputs, subgraph inputs — at every depth) is defined exactly once
  (so no subgraph redefines an outer name),
* scoped definition before use with outer-scope visibility,
* every subgraph output is produced by a node of that subgraph,
* graph outputs are visible, pairwise distinct, and none of them is a graph input. -/
def wfGraph (g : Graph) : Bool :=
  nodupB g.allDefs
    && wfNodes g.inputs g.nodes
    && allIn g.outputs (g.inputs ++ topDefs g.nodes)
    && nodupB g.outputs
    && g.outputs.all (fun o => !g.inputs.contains o)

/-- First reason `wfGraph` is false (for replay files; not used in theorems). -/
def wfWhy (g : Graph) : String :=
  if !nodupB g.allDefs then "name-defined-twice"
  else if !wfNodes g.inputs g.nodes then "use-before-def-or-subgraph-output-not-produced-inside"
  else if !allIn g.outputs (g.inputs ++ topDefs g.nodes) then "output-undefined"
  else if !nodupB g.outputs then "duplicate-output"
  else if !g.outputs.all (fun o => !g.inputs.contains o) then "input-returned-directly"
  else "ok"

/-! ## Semantics -/

/-- Uninterpreted meaning of operators and of the three coercions the control-flow
operators need (assumption A-op: every ONNX operator is *a function* of its inputs and
attributes). -/
structure Sem (V : Type) where
  op : String → String → List (Option V) → List (String × AttrV) → Option (List V)
  truth : V → Option Bool
  natOf : V → Option Nat
  ofNat : Nat → V
  ofBool : Bool → V
  /-- the Python value of an attribute parameter of the function being run (`none`: not given / not an attribute
  parameter); like `op`'s reading of `@p` references it is part of the closure the function is run in -/
  attrLit : Name → Option Lit := fun _ => none
  /-- names of the function's variables that only ever hold Python scalars (a proof device of the refinement
  theorems: which variables the invariant does not require to hold tensors; nothing evaluates it) -/
  pyVars : List Name := []

abbrev Env (V : Type) := Name → Option V

def Env.set {V} (ρ : Env V) (x : Name) (v : V) : Env V := fun y => if y = x then some v else ρ y

def Env.setMany {V} (ρ : Env V) : List Name → List V → Env V
  | x :: xs, v :: vs => Env.setMany (ρ.set x v) xs vs
  | _, _ => ρ

def Env.getMany {V} (ρ : Env V) (xs : List Name) : Option (List V) := xs.mapM ρ

def Env.getOpt {V} (ρ : Env V) : Option Name → Option (Option V)
  | none => some none
  | some x => (ρ x).map some

/-- ONNX `Loop` iteration (carried state only): run the body while the trip count allows and
the condition holds.  `body i cond state = some (cond', state')`.  `left` = remaining trip
count (`none` = unbounded); `fuel` bounds unbounded loops (a diverging `while` has no result). -/
def loopIter {V} (S : Sem V) (body : Nat → V → List V → Option (V × List V)) :
    Nat → Option Nat → Nat → V → List V → Option (List V)
  | 0, _, _, _, _ => none
  | fuel + 1, left, i, cond, st =>
    match left with
    | some 0 => some st
    | _ =>
      match S.truth cond with
      | none => none
      | some false => some st
      | some true =>
        match body i cond st with
        | none => none
        | some (c', st') => loopIter S body fuel (left.map (· - 1)) (i + 1) c' st'

/-- Trip count of a `Loop`: unbounded when the bound input is absent. -/
def loopTrip {V} (S : Sem V) (bv : Option V) : Option (Option Nat) :=
  match bv with
  | none => some none
  | some v => (S.natOf v).map some

/-- Initial condition of a `Loop`: true when the condition input is absent. -/
def loopCond0 {V} (S : Sem V) (cv : Option V) : V :=
  match cv with
  | some v => v
  | none => S.ofBool true

/-- The `Loop` operator given the meaning `body` of its body graph. -/
def loopResult {V} (S : Sem V) (body : Nat → V → List V → Option (V × List V)) (fuel : Nat)
    (bv cv : Option V) (st0 : List V) : Option (List V) :=
  match loopTrip S bv with
  | none => none
  | some left => loopIter S body fuel left 0 (loopCond0 S cv) st0

/-- Meaning of a Loop body graph, given the evaluator `ev` of its node list: bind the body inputs
`(iteration, condition, state…)`, evaluate, read `(condition', state'…)`. -/
def loopBodyFn {V} (S : Sem V) (ev : Env V → Option (Env V)) (ρ : Env V) (bi bo : List Name) :
    Nat → V → List V → Option (V × List V) := fun i cnd st =>
  match ev (ρ.setMany bi (S.ofNat i :: cnd :: st)) with
  | none => none
  | some ρ' =>
    match ρ'.getMany bo with
    | some (c' :: st') => some (c', st')
    | _ => none

mutual
/-- Meaning of one node in environment `ρ` (which includes all outer-scope values): the
extended environment. -/
def evalNode {V} (S : Sem V) (fuel : Nat) (ρ : Env V) : Node → Option (Env V)
  | .op dom name ins outs attrs =>
    match ins.mapM ρ.getOpt with
    | none => none
    | some vs =>
      match S.op dom name vs attrs with
      | none => none
      | some rs => if rs.length = outs.length then some (ρ.setMany outs rs) else none
  | .ifN c outs tn to en eo =>
    match ρ c with
    | none => none
    | some cv =>
      match S.truth cv with
      | none => none
      | some true =>
        (match evalNodes S fuel ρ tn with
         | none => none
         | some ρ' =>
           match ρ'.getMany to with
           | none => none
           | some rs => if rs.length = outs.length then some (ρ.setMany outs rs) else none)
      | some false =>
        (match evalNodes S fuel ρ en with
         | none => none
         | some ρ' =>
           match ρ'.getMany eo with
           | none => none
           | some rs => if rs.length = outs.length then some (ρ.setMany outs rs) else none)
  | .loop b c inits outs bi bn bo =>
    match fuel with
    | 0 => none
    | fuel' + 1 =>
      match ρ.getOpt b, ρ.getOpt c, ρ.getMany inits with
      | some bv, some cv, some st0 =>
        match loopResult S (loopBodyFn S (fun e => evalNodes S fuel' e bn) ρ bi bo) fuel' bv cv st0 with
        | none => none
        | some rs => if rs.length = outs.length then some (ρ.setMany outs rs) else none
      | _, _, _ => none
def evalNodes {V} (S : Sem V) (fuel : Nat) (ρ : Env V) : List Node → Option (Env V)
  | [] => some ρ
  | n :: ns =>
    match evalNode S fuel ρ n with
    | none => none
    | some ρ' => evalNodes S fuel ρ' ns
end

/-- Run a function body on argument values (attribute parameters are part of `S.op`'s
closure: a reference attribute `.ref p` is resolved by the operator meaning). -/
def evalGraph {V} (S : Sem V) (fuel : Nat) (g : Graph) (args : List V) : Option (List V) :=
  if args.length = g.inputs.length then
    match evalNodes S fuel (Env.setMany (fun _ => none) g.inputs args) g.nodes with
    | none => none
    | some ρ => ρ.getMany g.outputs
  else none

end OV.C01
