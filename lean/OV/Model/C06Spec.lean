import OV.Model.C06Match
/-
  OV.Model.C06Spec — C06: what "the subgraph ending at a node is an instance of the pattern"
  means (declarative `SatV` / `SatN` / `Instance`), and `solve`, an exhaustive search for all
  instances that shares no control structure with the transcribed matcher (no partial-match
  stack: assignments are persistent and every alternative / every candidate node is explored).
-/
namespace OV.C06

/-! ## Declarative meaning -/

/-- An assignment of pattern entities to graph entities (a homomorphism candidate). -/
structure Assign where
  names : String → Option Bound
  node : NPId → Option NodeId
  leaf : VKey → Option (Option ValueId)

/-- the value pattern `vp` is mapped to `v` (by name when it has one, else by object identity) -/
def Assign.boundTo (A : Assign) (p : GPat) (vp : VPat) (v : Option ValueId) : Prop :=
  match p.vname vp with
  | some nm => A.names nm = some (Bound.ofVal v)
  | none =>
    match vp.key with
    | some k => A.leaf k = some v
    | none => True

/-- what a pattern output is mapped to (by name when it has one, else by object identity) -/
def Assign.outputOf (A : Assign) (p : GPat) (vp : VPat) : Option Bound :=
  match p.vname vp with
  | some nm => A.names nm
  | none =>
    match vp.key with
    | none => none
    | some k => (A.leaf k).map Bound.ofVal

def inputAt (n : GNode) (i : Nat) : Option ValueId := (n.inputs[i]?).bind id

/-- one attribute pattern against the node's attribute of that name -/
def attrOk (n : GNode) (name : String) (ap : APat) : Prop :=
  match n.attr name with
  | none => ap.canNone = true
  | some a => ap.matches a.val = true

/-- attribute patterns of a node pattern against a node, with attribute variables read from `A` -/
def attrsSat (A : Assign) (np : NPat) (n : GNode) : Prop :=
  (∀ name ap, (name, ap) ∈ np.attrs →
    attrOk n name ap ∧
    (∀ nm, ap.name = some nm → A.names nm = some (Bound.ofAttr (n.attr name)))) ∧
  (np.allowOtherAttrs = false → ∀ a ∈ n.attrs, ∃ ap, (a.name, ap) ∈ np.attrs)

mutual
/-- value pattern `vp` describes (optional) value `v` under assignment `A` -/
inductive SatV (E : Env) (A : Assign) : VPat → Option ValueId → Prop
  | any (v : Option ValueId) : SatV E A .any v
  | var (id : Nat) (name : Option String) (isVar canNone : Bool) (check : Option Bool) (v : Option ValueId) :
      A.boundTo E.p (.var id name isVar canNone check) v →
      (v = none → canNone = true) →
      (∀ x, v = some x → E.g.isForeign x = true → isVar = true) →
      SatV E A (.var id name isVar canNone check) v
  | const (id : Nat) (c : ConstPat) (x : ValueId) (cv : ConstVal) :
      A.boundTo E.p (.const id c) (some x) →
      E.g.constOf x = some cv → constOk E.close c cv = true →
      SatV E A (.const id c) (some x)
  | out (np : NPId) (idx : Nat) (x : ValueId) (n : NodeId) :
      A.boundTo E.p (.out np idx) (some x) →
      E.g.isForeign x = false →
      E.g.producer x = some n → E.g.index x = some idx →
      SatN E A np n →
      SatV E A (.out np idx) (some x)
  | orD (id : Nat) (name tagVar : Option String) (alts : List DAlt) (x : ValueId) (a : DAlt) :
      A.boundTo E.p (.orD id name tagVar alts) (some x) →
      E.g.isForeign x = false →
      getDispatch E.g alts x = some a →
      SatV E A (.out a.np a.idx) (some x) →
      (∀ t, tagVar = some t → A.names t = some (.tag a.tag)) →
      SatV E A (.orD id name tagVar alts) (some x)
  | orB (id : Nat) (name tagVar : Option String) (tags : List Int) (alts : List VPat) (v : Option ValueId) (i : Nat) (alt : VPat) :
      A.boundTo E.p (.orB id name tagVar tags alts) v →
      (∀ x, v = some x → E.g.isForeign x = false) →
      alts[i]? = some alt →
      SatV E A alt v →
      -- `tags` has the length of `alts` by construction (`BacktrackingOr.__init__` enforces it)
      (∀ t, tagVar = some t → A.names t = some (.tag (tags.getD i 0))) →
      SatV E A (.orB id name tagVar tags alts) v
/-- node pattern `np` describes graph node `n` under assignment `A` -/
inductive SatN (E : Env) (A : Assign) : NPId → NodeId → Prop
  | mk (np : NPId) (n : NodeId) (P : NPat) (N : GNode) :
      E.p.nodes[np]? = some P → E.g.nodes[n]? = some N →
      A.node np = some n →
      P.op.matches N.op = true → P.domain.matches N.domain = true →
      attrsSat A P N →
      (N.inputs.length ≤ P.inputs.length ∨ P.allowOtherInputs = true) →
      (∀ i : Nat, P.inputs[i]? = some none → inputAt N i = none) →
      (∀ (i : Nat) (vp : VPat), P.inputs[i]? = some (some vp) → SatV E A vp (inputAt N i)) →
      (∀ i, i < P.outputs.length → ∃ x, N.outputs[i]? = some x ∧ A.boundTo E.p (.out np i) (some x)) →
      SatN E A np n
end

/-- `A` makes the subgraph ending at `root` an instance of the pattern: every output node of the
pattern is mapped to a graph node it describes, the first one to `root`; every pattern output is
mapped to something; the condition function accepts. -/
structure Instance (E : Env) (root : NodeId) (A : Assign) : Prop where
  rootNode : ∀ np, E.p.outputNodes.head? = some np → A.node np = some root
  outNodes : ∀ np ∈ E.p.outputNodes, ∃ n, A.node np = some n ∧ SatN E A np n
  cond : E.p.cond = true

/-- the opaque checkers accept: the node-level check of every mapped pattern node, and the
value-level check of every mapped unnamed value pattern (looked up by object id) -/
structure ChecksPass (p : GPat) (A : Assign) : Prop where
  nodes : ∀ np n P, A.node np = some n → p.nodes[np]? = some P → P.check ≠ some false
  values : ∀ id v, A.leaf (.leaf id) = some v → p.valueChecks.lookup id ≠ some false

/-- no value computed by a matched node — except the match's outputs — is a graph output or is
used outside the matched nodes -/
def Removable (g : Graph) (matched : List NodeId) (outs : List Bound) : Prop :=
  ∀ n ∈ matched, ∀ gn, g.nodes[n]? = some gn → ∀ v ∈ gn.outputs, Bound.val v ∉ outs →
    g.isOutput v = false ∧ (∀ c ∈ g.consumers v, c ∈ matched) ∧ v ∉ g.extUses

/-! ## Exhaustive search (third voice) -/

/-- persistent assignment used by the search -/
structure SA where
  names : List (String × Bound) := []
  node : List (NPId × NodeId) := []
  leaf : List (VKey × Option ValueId) := []
  deriving Repr, Inhabited

def SA.bindName (a : SA) (k : String) (b : Bound) : Option SA :=
  match a.names.lookup k with
  | some b' => if b' = b then some a else none
  | none => some { a with names := a.names ++ [(k, b)] }

def SA.bindV (a : SA) (p : GPat) (vp : VPat) (v : Option ValueId) : Option SA :=
  match p.vname vp with
  | some nm => a.bindName nm (Bound.ofVal v)
  | none =>
    match vp.key with
    | none => some a
    | some k =>
      match a.leaf.lookup k with
      | some v' => if v' = v then some a else none
      | none => some { a with leaf := a.leaf ++ [(k, v)] }

/-- the assignment a search state stands for -/
def SA.assign (a : SA) : Assign :=
  { names := fun k => a.names.lookup k
    node := fun np => a.node.lookup np
    leaf := fun k => a.leaf.lookup k }

def solveAttrs (n : GNode) : List (String × APat) → SA → Option SA
  | [], a => some a
  | (name, ap) :: rest, a =>
    if attrBad n name ap then none else
    match ap.name with
    | none => solveAttrs n rest a
    | some nm =>
      match a.bindName nm (Bound.ofAttr (n.attr name)) with
      | none => none
      | some a' => solveAttrs n rest a'

def solveOutputs (p : GPat) (np : NPId) (gouts : List ValueId) : List (Option String) → Nat → SA → Option SA
  | [], _, a => some a
  | _ :: rest, i, a =>
    match gouts[i]? with
    | none => none
    | some x =>
      match a.bindV p (.out np i) (some x) with
      | none => none
      | some a' => solveOutputs p np gouts rest (i + 1) a'

/-- value `x` is output `idx` of a node that node pattern `np` describes -/
def solveOut (E : Env) (rec : NPId → NodeId → SA → List SA) (np : NPId) (idx : Nat) (x : ValueId)
    (a : SA) : List SA :=
  match E.g.producer x with
  | none => []
  | some n =>
    if E.g.index x != some idx then [] else
    match a.bindV E.p (.out np idx) (some x) with
    | none => []
    | some a' => rec np n a'

def bindTag (tagVar : Option String) (t : Int) (a : SA) : Option SA :=
  match tagVar with
  | some tv => a.bindName tv (.tag t)
  | none => some a

def solveInputs (sv : VPat → Option ValueId → SA → List SA) :
    List (Option VPat) → Nat → GNode → SA → List SA
  | [], _, _, a => [a]
  | none :: rest, i, n, a => if (inputAt n i).isNone then solveInputs sv rest (i + 1) n a else []
  | some vp :: rest, i, n, a => (sv vp (inputAt n i) a).flatMap (solveInputs sv rest (i + 1) n)

mutual
def solveV (E : Env) (rec : NPId → NodeId → SA → List SA) (vp : VPat) (v : Option ValueId)
    (a : SA) : List SA :=
  if crossGraphBad E.g vp v then [] else
  match vp with
  | .any => [a]
  | .var id name isVar canNone check =>
    if check == some false then [] else
    if v.isNone && !canNone then [] else
    (a.bindV E.p (.var id name isVar canNone check) v).toList
  | .const id c =>
    match v with
    | none => []
    | some x =>
      match E.g.constOf x with
      | none => []
      | some cv => if constOk E.close c cv then (a.bindV E.p (.const id c) (some x)).toList else []
  | .out np idx =>
    match v with
    | none => []
    | some x => solveOut E rec np idx x a
  | .orD id name tagVar alts =>
    match v with
    | none => []
    | some x =>
      match getDispatch E.g alts x with
      | none => []
      | some d =>
        match a.bindV E.p (.orD id name tagVar alts) (some x) with
        | none => []
        | some a1 => (solveOut E rec d.np d.idx x a1).filterMap (bindTag tagVar d.tag)
  | .orB id name tagVar tags alts =>
    match a.bindV E.p (.orB id name tagVar tags alts) v with
    | none => []
    | some a1 => solveAlts E rec alts tags tagVar v a1

def solveAlts (E : Env) (rec : NPId → NodeId → SA → List SA) (alts : List VPat) (tags : List Int)
    (tagVar : Option String) (v : Option ValueId) (a : SA) : List SA :=
  match alts with
  | [] => []
  | alt :: rest =>
    ((solveV E rec alt v a).filterMap (bindTag tagVar (tags.headD 0)))
    ++ solveAlts E rec rest tags.tail tagVar v a
end

def solveNodeStep (E : Env) (sv : VPat → Option ValueId → SA → List SA) (npid : NPId) (n : NodeId)
    (a : SA) : List SA :=
  match a.node.lookup npid with
  | some m => if m = n then [a] else []
  | none =>
    match E.p.nodes[npid]?, E.g.nodes[n]? with
    | some np, some gn =>
      if np.check == some false then [] else
      if !np.op.matches gn.op || !np.domain.matches gn.domain then [] else
      if !np.allowOtherAttrs && gn.attrs.any (fun x => !np.attrs.any (fun kv => kv.1 == x.name)) then [] else
      if gn.inputs.length > np.inputs.length && !np.allowOtherInputs then [] else
      match solveAttrs gn np.attrs a with
      | none => []
      | some a =>
        let a := { a with node := a.node ++ [(npid, n)] }
        (solveInputs sv np.inputs 0 gn a).filterMap (solveOutputs E.p npid gn.outputs np.outputs 0)
    | _, _ => []

def solveN (E : Env) : Nat → NPId → NodeId → SA → List SA
  | 0, _, _, _ => []
  | f + 1, npid, n, a => solveNodeStep E (solveV E (solveN E f)) npid n a

/-- one reported instance: names (pattern inputs left unbound are `None`), outputs, matched nodes -/
structure Sol where
  names : List (String × Bound)
  outputs : List Bound
  nodes : List NodeId
  deriving Repr, Inhabited

def solveOutNodes (E : Env) : List NPId → SA → List SA
  | [], a => [a]
  | np :: rest, a =>
    (List.range E.g.nodes.length).flatMap (fun n =>
      (solveN E E.p.fuel np n a).flatMap (solveOutNodes E rest))

def solveStarts (E : Env) (root : NodeId) : List SA :=
  match E.p.outputNodes with
  | [] => [{}]
  | np :: rest => (solveN E E.p.fuel np root {}).flatMap (solveOutNodes E rest)

/-- graph nodes the pattern nodes are mapped to -/
def SA.matched (a : SA) : List NodeId := (a.node.map (·.2)).eraseDups

def finishSol (E : Env) (rm : Bool) (a : SA) : Option Sol :=
  match E.p.outputs.mapM (a.assign.outputOf E.p) with
  | none => none
  | some outs =>
    if rm && !validToReplace E.g a.matched outs then none
    else some { names := bindInputs E.p.inputs a.names, outputs := outs, nodes := a.matched }

/-- all instances of the pattern whose first output node is mapped to `root` -/
def solve (E : Env) (root : NodeId) (rm : Bool) : List Sol :=
  if !E.p.cond then [] else (solveStarts E root).filterMap (finishSol E rm)

end OV.C06
