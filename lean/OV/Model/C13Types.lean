/-
  OV.Model.C13Types — the two directions of the type-annotation rendering used by the round trip:
  `onnx_type_to_onnxscript_repr` (TypeProto → text such as `FLOAT[2,'N',None]`) and
  `TensorType.__class_getitem__` + `TensorType.to_type_proto` (the evaluated annotation → TypeProto),
  over tensor types `(dtype, shape)` with `shape : none | list of (int | symbol | unknown)`.
  The text is modelled as a small syntax tree (`Ann`); how Python evaluates a subscript (a single item is not
  a tuple, `X[None]` is `(None,)`) is part of the model.  Core Lean only.
-/
namespace OV.C13T

/-- a dimension of a TypeProto: `dim_value`, `dim_param`, or neither -/
inductive Dim where
  | val (n : Nat)
  | sym (s : String)
  | unk
  deriving DecidableEq, Repr

/-- tensor type: element type and shape (`none` = the shape field is not set: unknown rank) -/
structure TType where
  dtype : Nat
  shape : Option (List Dim)
  deriving DecidableEq, Repr

/-- `TensorProto.DataType.Name` for the element types that have a class in `onnxscript.onnx_types` -/
def dtypeTable : List (Nat × String) :=
  [(1, "FLOAT"), (2, "UINT8"), (3, "INT8"), (4, "UINT16"), (5, "INT16"), (6, "INT32"), (7, "INT64"),
   (8, "STRING"), (9, "BOOL"), (10, "FLOAT16"), (11, "DOUBLE"), (12, "UINT32"), (13, "UINT64"),
   (14, "COMPLEX64"), (15, "COMPLEX128"), (16, "BFLOAT16"), (17, "FLOAT8E4M3FN"), (18, "FLOAT8E4M3FNUZ"),
   (19, "FLOAT8E5M2"), (20, "FLOAT8E5M2FNUZ"), (21, "UINT4"), (22, "INT4"), (23, "FLOAT4E2M1"),
   (24, "FLOAT8E8M0"), (25, "UINT2"), (26, "INT2")]

/-- the classes of `onnx_types` by name (`class FLOAT(TensorType, dtype=ir.DataType.FLOAT)` …) -/
def classTable : List (String × Nat) := dtypeTable.map (fun p => (p.2, p.1))

/-- one item of a subscript as printed: an integer, a quoted string, or `None` -/
inductive Item where
  | int (n : Nat)
  | str (s : String)
  | none
  deriving DecidableEq, Repr

/-- the annotation as printed -/
inductive Ann where
  /-- `FLOAT` -/
  | bare (cls : String)
  /-- `FLOAT[...]` -/
  | ellipsis (cls : String)
  /-- `FLOAT[i1,i2,…]` (at least one item) -/
  | sub (cls : String) (items : List Item)
  deriving DecidableEq, Repr

def dimItem : Dim → Item
  | .val n => .int n
  | .sym s => .str s
  | .unk => .none

/-- `onnx_type_to_onnxscript_repr` on a tensor type whose element type has a name -/
def toAnn (t : TType) : Option Ann :=
  match dtypeTable.lookup t.dtype with
  | Option.none => Option.none
  | some name =>
    match t.shape with
    | Option.none => some (.ellipsis name)
    | some [] => some (.bare name)
    | some dims => some (.sub name (dims.map dimItem))

def renderItem : Item → String
  | .int n => Nat.repr n
  | .str s => "'" ++ s ++ "'"
  | .none => "None"

def renderAnn : Ann → String
  | .bare c => c
  | .ellipsis c => c ++ "[...]"
  | .sub c items => c ++ "[" ++ ",".intercalate (items.map renderItem) ++ "]"

/-- the value of `cls.shape` after evaluating the annotation -/
inductive PyShape where
  /-- no subscript: `cls.shape is None` -/
  | noneV
  | ellipsis
  /-- a subscript with one item that is not `None`: the item itself, not a tuple -/
  | single (i : Item)
  /-- a subscript with several items, or `X[None]` which `__class_getitem__` turns into `(None,)` -/
  | tuple (items : List Item)
  deriving DecidableEq, Repr

/-- Python's subscript evaluation followed by `TensorType.__class_getitem__` -/
def classGetitem : List Item → PyShape
  | [i] => (match i with
    | Item.none => .tuple [Item.none]
    | _ => .single i)
  | items => .tuple items

def itemDim : Item → Dim
  | .int n => .val n
  | .str s => .sym s
  | .none => .unk

/-- `TensorType.to_type_proto`: `shape is None` → `()`, `Ellipsis` → no shape, a tuple → its items,
    anything else → `[shape]` -/
def toTypeProtoShape : PyShape → Option (List Dim)
  | .noneV => some []
  | .ellipsis => Option.none
  | .tuple items => some (items.map itemDim)
  | .single i => some [itemDim i]

/-- evaluating the printed annotation and converting it back (`exec` of the text, then `to_type_proto`) -/
def evalAnn : Ann → Option TType
  | .bare c => (classTable.lookup c).map (fun d => ⟨d, toTypeProtoShape .noneV⟩)
  | .ellipsis c => (classTable.lookup c).map (fun d => ⟨d, toTypeProtoShape .ellipsis⟩)
  | .sub c items => (classTable.lookup c).map (fun d => ⟨d, toTypeProtoShape (classGetitem items)⟩)

def showDim : Dim → String
  | .val n => "i" ++ Nat.repr n
  | .sym s => "s" ++ s
  | .unk => "u"

def showShape : Option (List Dim) → String
  | Option.none => "-"
  | some ds => "[" ++ ",".intercalate (ds.map showDim) ++ "]"

end OV.C13T
