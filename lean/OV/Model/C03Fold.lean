import OV.Model.C03Graph
/-
  OV.Model.C03Fold — state of `FoldConstantsPass` and the partial evaluators of
  onnxscript/optimizer/_constant_folding.py, transcribed function by function.

  Values are identified by their (original) names; a replacement's new output takes over the
  identity of the output it replaces (`replace_nodes_and_values` copies name/type/shape/const of
  the old value onto the new one).  Constant tensors are opaque tokens with the few facts the
  code can observe (`CInfo`).
-/
namespace OV.C03

/-- `int | SymbolicDim(str) | SymbolicDim(None)` -/
inductive Dim where
  | known (n : Int)
  | sym (s : String)
  | unk
  deriving DecidableEq, Repr, Inhabited

/-- What the pass can observe of a constant tensor. `ints` is the flattened content for
integer/bool tensors (harness supplies it up to 64 elements), `isZero` is `item() == 0` for
one-element tensors. -/
structure CInfo where
  tok : String
  dtype : Nat
  shape : List Nat
  ints : Option (List Int)
  isZero : Option Bool
  deriving Repr, Inhabited, DecidableEq

def CInfo.size (c : CInfo) : Nat := c.shape.foldl (· * ·) 1

structure VInfo where
  dtype : Option Nat := none
  shape : Option (List Dim) := none
  const : Option CInfo := none
  deriving Repr, Inhabited

/-- The three forms of `_sym_value_map` entries. -/
inductive SymVal where
  | alias (y : Name)
  | seq (l : List (Option Name))
  | shape (s : List Dim)
  deriving Repr, Inhabited

/-- Result of asking the reference evaluator. -/
inductive Oracle where
  | fail            -- evaluator missing / raised / result is not a single ndarray
  | single (c : CInfo)
  deriving Repr, Inhabited

structure Ctx where
  inLimit : Nat
  outLimit : Nat
  shouldFold : Option Bool          -- constant `should_fold` callback: None / True / False
  imports : List (String × Nat)     -- opset imports
  isFunction : Bool
  toks : List (String × CInfo)      -- constants present in the input model
  oracle : List (String × Oracle)   -- reference-evaluator answers, keyed by request string
  deriving Inhabited

structure St where
  info : List (Name × VInfo) := []
  sym : List (Name × SymVal) := []
  uses : List (Name × Nat) := []
  gins : List Name := []            -- inputs of any graph
  gouts : List Name := []           -- outputs of any graph
  initNames : List Name := []       -- initializers of any graph
  removed : List Name := []         -- initializers popped by `_clear_unused_initializers`
  fresh : Nat := 0
  modified : Bool := false
  need : List String := []          -- oracle requests not in the table
  hist : List String := []          -- branch histogram (reverse order)
  err : Option String := none       -- an exception the real code would raise
  dname : List (Name × String) := [] -- explicit `_outputs=[…]` names given by evaluators (identity ≠ name there)
  initDisplay : List String := []   -- names under which initializers are currently registered
  deriving Inhabited

def DT_INT64 : Nat := 7
def DT_BOOL : Nat := 9

/-! ### assoc-list helpers -/

def lookupA {α} (l : List (Name × α)) (x : Name) : Option α := (l.find? (·.1 == x)).map (·.2)
def eraseA {α} (l : List (Name × α)) (x : Name) : List (Name × α) := l.filter (·.1 != x)
def insertA {α} (l : List (Name × α)) (x : Name) (a : α) : List (Name × α) := (x, a) :: eraseA l x

namespace St
def getInfo (st : St) (x : Name) : VInfo := (lookupA st.info x).getD {}
def setInfo (st : St) (x : Name) (v : VInfo) : St := { st with info := insertA st.info x v }
def getSym (st : St) (x : Option Name) : Option SymVal := x.bind (lookupA st.sym)
def setSym (st : St) (x : Name) (s : SymVal) : St := { st with sym := insertA st.sym x s }
def clearSym (st : St) (x : Name) : St := { st with sym := eraseA st.sym x }
def usesOf (st : St) (x : Name) : Nat := (lookupA st.uses x).getD 0
def incUse (st : St) (x : Name) : St := { st with uses := insertA st.uses x (st.usesOf x + 1) }
def decUse (st : St) (x : Name) : St := { st with uses := insertA st.uses x (st.usesOf x - 1) }
def incUses (st : St) (xs : List (Option Name)) : St := xs.foldl (fun s x => match x with | some x => s.incUse x | none => s) st
def decUses (st : St) (xs : List (Option Name)) : St := xs.foldl (fun s x => match x with | some x => s.decUse x | none => s) st
def note (st : St) (h : String) : St := { st with hist := h :: st.hist }
def isGraphInput (st : St) (x : Name) : Bool := st.gins.contains x
def isInit (st : St) (x : Name) : Bool := st.initNames.contains x && !st.removed.contains x
def freshName (st : St) : Name × St := ("%" ++ toString st.fresh, { st with fresh := st.fresh + 1 })
def constOf (st : St) (x : Name) : Option CInfo := (st.getInfo x).const
/-- the name the real value object carries -/
def display (st : St) (x : Name) : String := (lookupA st.dname x).getD x
def freshNamed (st : St) (nm : String) : Name × St :=
  let (x, st) := st.freshName
  (x, { st with dname := (x, nm) :: st.dname })
end St

/-- `_get_numpy_value(val, dtype, size_limit)` -/
def numpyValue (st : St) (x : Option Name) (dtype : Option Nat := none) (limit : Option Nat := none) : Option CInfo :=
  match x with
  | none => none
  | some x =>
    -- an initializer that is also a graph input is only an overridable default: never a constant
    if st.isGraphInput x then none else
    match st.constOf x with
    | none => none
    | some c =>
      if (match dtype with | some d => c.dtype != d | none => false) then none
      else if (match limit with | some l => decide (c.size > l) | none => false) then none
      else some c

/-- `_get_bool_value` -/
def boolValue (st : St) (x : Option Name) : Option Bool :=
  match numpyValue st x with
  | none => none
  | some c =>
    if c.size == 1 && c.dtype == DT_BOOL then
      match c.ints with
      | some [b] => some (b != 0)
      | _ => none
    else none

/-- `OptimizerState.get_shape_value` -/
def shapeValue (st : St) (x : Option Name) : Option (List Dim) :=
  match numpyValue st x (some DT_INT64) (some 10) with
  | some c => if c.shape.length == 1 then c.ints.map (·.map Dim.known) else none
  | none =>
    match st.getSym x with
    | some (.shape s) => some s
    | _ => none

/-- `_same_shape` : only the *first* shape is checked for unknown dims. -/
def sameShape (s1 s2 : List Dim) : Bool := !(s1.any (· == Dim.unk)) && s1 == s2

/-- `_merge_shapes.merge_dims` -/
def mergeDim (d1 d2 : Dim) : Dim :=
  if d1 == d2 then d1 else
  match d1, d2 with
  | .known _, _ => d1
  | _, .known _ => d2
  | .unk, _ => d2
  | _, _ => d1

/-- `_merge_shapes`; `none` result = the `ValueError` (rank mismatch) the caller catches. -/
def mergeShapes (p o : Option (List Dim)) : Option (Option (List Dim)) :=
  match p, o with
  | none, _ => some o
  | _, none => some p
  | some a, some b => if a.length != b.length then none else some (some (List.zipWith mergeDim a b))

/-- Python `l[i]` for a possibly negative index. -/
def pyGet {α} (l : List α) (i : Int) : Option α :=
  let n : Int := l.length
  if 0 ≤ i ∧ i < n then l[i.toNat]? else if -n ≤ i ∧ i < 0 then l[(i + n).toNat]? else none

/-- Python `l[start:end]` (step 1). -/
def pySlice {α} (l : List α) (start : Int) (stop : Option Int) : List α :=
  let n : Int := l.length
  let clamp (v : Int) : Int := if v < 0 then (if v + n < 0 then 0 else v + n) else (if v > n then n else v)
  let s := clamp start
  let e := match stop with | none => n | some v => clamp v
  (l.drop s.toNat).take (e - s).toNat

/-- `_get_int_attribute(node, name, default)`; a present attribute of another kind gives `None`. -/
def intAttr (n : Node) (k : String) (dflt : Option Int) : Option Int :=
  match n.attr k with
  | some (.int i) => some i
  | some _ => none
  | none => if (n.subs.any (·.1 == k)) then none else dflt

def elemType (st : St) (n : Node) (i : Nat) : Nat :=
  match n.inputs[i]? with
  | some (some x) => ((st.getInfo x).dtype).getD 0
  | _ => 0

def getInput (n : Node) (i : Nat) : Option Name := (n.inputs[i]?).join
def getOutput (n : Node) (i : Nat) : Option Name := n.outputs[i]?

/-- A replacement: new nodes (in order), the values taking the place of the node's outputs,
initializers to register in the node's graph. -/
structure Repl where
  newNodes : List Node
  newOuts : List Name
  inits : List (Name × String) := []
  inlinedIf : Bool := false
  deriving Inhabited

inductive EvRes where
  | none
  | repl (r : Repl)
  | error (msg : String)
  deriving Inhabited

def mkNode (op : String) (ins : List (Option Name)) (outs : List Name) (attrs : List (String × Attr) := []) : Node :=
  .mk op "" ins outs attrs []

/-- `op.Identity(x)` recorded on a fresh tape. -/
def replIdentity (st : St) (x : Option Name) : EvRes × St :=
  let (o, st) := st.freshName
  (.repl { newNodes := [mkNode "Identity" [x] [o]], newOuts := [o] }, st)

def allKnown (s : List Dim) : Option (List Int) :=
  s.mapM fun d => match d with | .known n => some n | _ => none

def dimStr : Dim → Option String
  | .known n => some (toString n)
  | .sym s => some s
  | .unk => none

/-! ### the partial evaluators, in registration order -/

def evAdd (st : St) (n : Node) : EvRes × St :=
  let dimOf (i : Nat) : Option Dim :=
    match getInput n i with
    | none => none
    | some x => match shapeValue st (some x) with
      | some [d] => (match d with | .unk => none | d => some d)
      | _ => none
  match dimOf 0, dimOf 1 with
  | some d0, some d1 =>
    let isNeg (d : Dim) : Bool := match d with | .known k => k < 0 | _ => false
    let bothKnown : Bool := match d0, d1 with | .known _, .known _ => true | _, _ => false
    -- symbolic dims are assumed non-negative: no symbolic sum with a negative constant
    if !bothKnown && (isNeg d0 || isNeg d1) then (.none, st.note "add:negconst") else
    let r : Dim := match d0, d1 with
      | .known a, .known b => .known (a + b)
      | a, b => .sym ((dimStr a).getD "" ++ "+" ++ (dimStr b).getD "")
    match getOutput n 0 with
    | some o => (.none, (st.setSym o (.shape [r])).note "add:sym")
    | none => (.none, st)
  | _, _ => (.none, st)

def evAbs (st : St) (n : Node) : EvRes × St :=
  match shapeValue st (getInput n 0) with
  | none => (.none, st)
  | some s =>
    if s.any (fun d => match d with | .known k => k < 0 | _ => false) then (.none, st.note "abs:neg")
    else replIdentity (st.note "abs:identity") (getInput n 0)

def evGather (st : St) (n : Node) : EvRes × St :=
  match getInput n 0, getInput n 1 with
  | some x, some idx =>
    match shapeValue st (some x) with
    | none => (.none, st)
    | some s =>
      if intAttr n "axis" none != some 0 then (.none, st.note "gather:axis") else
      match numpyValue st (some idx) with
      | none => (.none, st)
      | some c =>
        if c.shape.length != 1 then (.none, st.note "gather:ndim") else
        match c.ints with
        | none => (.error "gather: non-integer indices", st)
        | some is =>
          match is.mapM (pyGet s) with
          | none => (.error "gather: IndexError", st)
          | some gathered =>
            let st := match getOutput n 0 with | some o => st.setSym o (.shape gathered) | none => st
            match allKnown gathered with
            | some l =>
              let (o, st) := st.freshName
              (.repl { newNodes := [mkNode "Constant" [] [o] [("value_ints", .ints l)]], newOuts := [o] }, st.note "gather:const")
            | none => (.none, st.note "gather:sym")
  | _, _ => (.none, st)

def propagateShapeValue (st : St) (n : Node) : EvRes × St :=
  match getOutput n 0, shapeValue st (getInput n 0) with
  | some o, some s => (.none, (st.setSym o (.shape s)).note "propagate")
  | _, _ => (.none, st)

def evReshape (st : St) (n : Node) : EvRes × St :=
  match getInput n 0, getInput n 1 with
  | some x, some sh =>
    match (st.getInfo x).shape, shapeValue st (some sh) with
    | some ishape, some sv =>
      if sameShape ishape sv then replIdentity (st.note "reshape:identity") (some x)
      else propagateShapeValue (st.note "reshape:differ") n
    | _, _ => propagateShapeValue st n
  | _, _ => (.none, st)

def evCast (st : St) (n : Node) : EvRes × St :=
  match getInput n 0, getOutput n 0 with
  | some x, some o =>
    match intAttr n "to" none with
    | some to =>
      if (elemType st n 0 : Int) == to then replIdentity (st.note "cast:identity") (some x)
      else
        let i := st.getInfo o
        (.none, (st.setInfo o { i with dtype := some to.toNat }).note "cast:settype")
    | none => (.none, st)
  | _, _ => (.none, st)

def evCastLike (st : St) (n : Node) : EvRes × St :=
  match n.inputs with
  | [] => (.error "cast_like: IndexError", st)
  | x0 :: _ =>
    let src := elemType st n 0
    let tgt := elemType st n 1
    if tgt == 0 then (.none, st.note "castlike:undef")
    else if src == tgt then replIdentity (st.note "castlike:identity") x0
    else
      let (o, st) := st.freshName
      (.repl { newNodes := [mkNode "Cast" [x0] [o] [("to", .int tgt)]], newOuts := [o] }, st.note "castlike:cast")

def evShape (st : St) (n : Node) : EvRes × St :=
  match n.inputs with
  | [] => (.error "shape: IndexError", st)
  | none :: _ => (.none, st)
  | some x :: _ =>
    match (st.getInfo x).shape with
    | none => (.none, st)
    | some s =>
      -- a `start` attribute that is present without an int value (a reference attribute) gives `None`,
      -- and `shape[None:end]` starts at 0
      match (some ((intAttr n "start" (some 0)).getD 0) : Option Int) with
      | none => (.error "shape: start not int", st)
      | some start =>
        let sl := pySlice s start (intAttr n "end" none)
        let st := match getOutput n 0 with | some o => st.setSym o (.shape sl) | none => st
        match allKnown sl with
        | some l =>
          let (o, st) := st.freshName
          (.repl { newNodes := [mkNode "Constant" [] [o] [("value_ints", .ints l)]], newOuts := [o] }, st.note "shape:const")
        | none => (.none, st.note "shape:sym")

def evSize (st : St) (n : Node) : EvRes × St :=
  match getInput n 0 with
  | none => (.none, st)
  | some x =>
    match (st.getInfo x).shape with
    | none => (.none, st)
    | some s =>
      match allKnown s with
      | none => (.none, st.note "size:sym")
      | some l =>
        let (o, st) := st.freshName
        (.repl { newNodes := [mkNode "Constant" [] [o] [("value_int", .int (l.foldl (· * ·) 1))]], newOuts := [o] }, st.note "size:const")

def evIdentity (st : St) (n : Node) : EvRes × St :=
  match n.inputs, n.outputs with
  | some x :: _, o :: _ =>
    -- backward shape inference, never onto a graph input: its declared type is the model's interface (commit 71af564)
    if st.isGraphInput x then (.none, (st.setSym o (.alias x)).note "identity:alias") else
    let ix := st.getInfo x
    let io := st.getInfo o
    let shape' := match mergeShapes ix.shape io.shape with | some s => s | none => ix.shape
    let dtype' := match ix.dtype with | some d => some d | none => io.dtype
    let st := st.setInfo x { ix with shape := shape', dtype := dtype' }
    (.none, (st.setSym o (.alias x)).note "identity:alias")
  | [], _ => (.error "identity: IndexError", st)
  | _, [] => (.error "identity: IndexError", st)
  | _, _ => (.none, st)

def evSequenceConstruct (st : St) (n : Node) : EvRes × St :=
  match n.outputs with
  | o :: _ => (.none, (st.setSym o (.seq n.inputs)).note "seqconstruct")
  | [] => (.error "sequence_construct: IndexError", st)

def hasZeroSize (st : St) (axis : Int) (x : Option Name) : Bool :=
  match x with
  | none => false
  | some x =>
    match (st.getInfo x).shape with
    | none => false
    | some s => match pyGet s axis with | some (.known 0) => true | _ => false

def evConcat (st : St) (n : Node) : EvRes × St :=
  match n.inputs with
  | [x] => replIdentity (st.note "concat:single") x
  | inputs =>
    match intAttr n "axis" none with
    | none => (.none, st)
    | some axis =>
      let newInputs := inputs.filter (fun x => !hasZeroSize st axis x)
      if newInputs.length != inputs.length then
        if !newInputs.isEmpty then
          let (o, st) := st.freshName
          (.repl { newNodes := [mkNode "Concat" newInputs [o] [("axis", .int axis)]], newOuts := [o] }, st.note "concat:dropzero")
        else replIdentity (st.note "concat:allzero") (inputs.headD none)
      else if axis != 0 then (.none, st.note "concat:axis")
      else
        match inputs.mapM (shapeValue st) with
        | none => (.none, st)
        | some shapes =>
          match n.outputs with
          | o :: _ => (.none, (st.setSym o (.shape shapes.flatten)).note "concat:shape")
          | [] => (.error "concat: IndexError", st)

/-- token of `ir.tensor([True])` -/
def tokTrue1 : String := "TRUE1"

def evDropout (st : St) (n : Node) : EvRes × St :=
  let optimized (st : St) : EvRes × St :=
    match n.inputs with
    | [] => (.error "dropout: IndexError", st)
    | x :: _ =>
      let (o, st) := st.freshName
      let idn := mkNode "Identity" [x] [o]
      if n.outputs.length == 1 then (.repl { newNodes := [idn], newOuts := [o] }, st.note "dropout:1out")
      else
        let (s, st) := st.freshName
        let (m, st) := st.freshName
        (.repl { newNodes := [idn, mkNode "Shape" [x] [s], mkNode "ConstantOfShape" [some s] [m] [("value", .tensor tokTrue1)]],
                 newOuts := [o, m] }, st.note "dropout:2out")
  let inputs := n.inputs
  if inputs.length ≤ 2 || (inputs[2]?).join == none then optimized (st.note "dropout:notraining")
  else if boolValue st (inputs[2]?).join == some false then optimized (st.note "dropout:trainfalse")
  else
    match numpyValue st (inputs[1]?).join with
    | none => (.none, st)
    | some c =>
      if c.size != 1 then (.none, st)
      else if c.isZero == some true then optimized (st.note "dropout:ratio0")
      else (.none, st.note "dropout:keep")

def evExpand (st : St) (n : Node) : EvRes × St :=
  match n.inputs with
  | [some x, sh] =>
    match (st.getInfo x).shape with
    | none => (.none, st)
    | some ishape =>
      match numpyValue st sh with
      | none =>
        match shapeValue st sh with
        | some sv => if sameShape ishape sv then replIdentity (st.note "expand:symidentity") (some x) else (.none, st)
        | none => (.none, st)
      | some c =>
        if c.shape.length != 1 then (.none, st)
        else if (c.ints.map (·.map Dim.known)) == some ishape then replIdentity (st.note "expand:identity") (some x)
        else (.none, st.note "expand:differ")
  | _ => (.none, st)

def evConcatFromSequence (st : St) (n : Node) : EvRes × St :=
  match n.inputs with
  | [] => (.error "concat_from_sequence: IndexError", st)
  | x :: _ =>
    match st.getSym x with
    | some (.seq elems) =>
      if elems.any (· == none) then (.none, st) else
      let newAxis := intAttr n "new_axis" (some 0)
      match intAttr n "axis" none with
      | none => (.none, st)
      | some axis =>
        if newAxis == some 0 then
          let (o, st) := st.freshName
          (.repl { newNodes := [mkNode "Concat" elems [o] [("axis", .int axis)]], newOuts := [o] }, st.note "cfs:concat")
        else if newAxis == some 1 then
          let (av, st) := st.freshName
          let cst := mkNode "Constant" [] [av] [("value_int", .int axis)]
          let (uns, st) := elems.foldl (fun (acc : List (Node × Name) × St) e =>
              let (u, s) := acc.2.freshNamed ((match e with | some x => acc.2.display x | none => "") ++ "_unsqueeze_" ++ toString acc.1.length)
              (acc.1 ++ [(mkNode "Unsqueeze" [e, some av] [u], u)], s)) (([] : List (Node × Name)), st)
          let (o, st) := st.freshName
          (.repl { newNodes := cst :: uns.map (·.1) ++ [mkNode "Concat" (uns.map (fun p => some p.2)) [o] [("axis", .int axis)]],
                   newOuts := [o] }, st.note "cfs:unsqueeze")
        else (.none, st)
    | _ => (.none, st)

def evSequenceAt (st : St) (n : Node) : EvRes × St :=
  match n.inputs, n.outputs with
  | some x :: some p :: _, o :: _ =>
    match st.getSym (some x), numpyValue st (some p) with
    | some (.seq elems), some c =>
      if c.size != 1 then (.none, st) else
      match c.ints with
      | some [pos] =>
        match pyGet elems pos with
        | none => (.none, st.note "seqat:indexerror")
        | some none => (.error "sequence_at: None element", st)
        | some (some r) => replIdentity ((st.setSym o (.alias r)).note "seqat:identity") (some r)
      | _ => (.error "sequence_at: non-integer position", st)
    | _, _ => (.none, st)
  | _ :: _ :: _, _ :: _ => (.none, st)
  | _, _ => (.error "sequence_at: IndexError", st)

end OV.C03
