/-
  OV.Model.C01Script — C01/C02: the accepted source subset of `@script` functions and the
  analyses of `onnxscript/_internal/analysis.py`, transcribed equation by equation.

  Core Lean only.

  * `Expr`, `Stmt`, `Func`     the subset of Python the converter accepts (and the near misses
                                it must refuse), as the harness encodes it from the `ast`
  * `usedVars`                  = analysis._used_vars
  * `assignedStmt/Block`        = AstAnalyzer.assigned_vars
  * `liveInStmt/liveInBlock`    = AstAnalyzer.do_liveness_analysis  (live_in as a function of live_out;
                                  the two `while curr != prev` loops are iterated with fuel)
  * `exposedStmt/exposedBlock`  = AstAnalyzer.exposed_uses

  Python `set`s are sorted duplicate-free lists (`VSet`), so that `==` is set equality; the
  iteration order of a Python set is *not* modelled here — it enters the converter as an
  explicit parameter (`Ords`).
-/
namespace OV.C01

abbrev Name := String
abbrev VSet := List Name

/-! ## Sets of names as sorted duplicate-free lists -/

def vins (x : Name) : VSet → VSet
  | [] => [x]
  | y :: ys => if x < y then x :: y :: ys else if x = y then y :: ys else y :: vins x ys

def vofList (l : List Name) : VSet := l.foldr vins []
def vunion (a b : VSet) : VSet := a.foldr vins b
def vdiff (a b : VSet) : VSet := a.filter (fun x => !b.contains x)
def vinter (a b : VSet) : VSet := a.filter (fun x => b.contains x)

/-! ## Source language -/

/-- A Python literal as it reaches `_emit_const`.  Floats are carried as their decimal text
(never computed with); `ints` is a list literal such as `[1, 2]`. -/
inductive Lit
  | int (v : Int)
  | flt (neg : Bool) (mag : String)
  | bool (b : Bool)
  | ints (vs : List Int)
deriving DecidableEq, Repr, Inhabited

/-- Attribute argument of a call: a script-time constant (canonical text) or a reference to an
attribute parameter / local name of the enclosing function (`axis=k`). -/
inductive AttrV
  | const (repr : String)
  | ref (p : Name)
deriving DecidableEq, Repr, Inhabited

/-- What `autocast.cast_inputs` reads from the callee's `op_signature`: per formal input its
type-constraint name when that is an identifier (`none` when it contains `(`), whether the
last formal is variadic / homogeneous, and whether a signature exists at all. -/
structure Sig where
  known : Bool
  variadic : Bool
  homog : Bool
  tvs : List (Option String)
  /-- version of the opset object the callee was taken from (`opset17.Abs` → 17); only compared for the
  default domain (`Converter._set_default_opset`) -/
  ver : Nat := 0
deriving DecidableEq, Repr, Inhabited

/-- One index of a subscript whose components are all integer constants: `k`, or `lo:up:step` (a missing
component is `none`; `:` is `slice none none none`). -/
inductive Idx
  | scalar (k : Int)
  | slice (lo up st : Option Int)
deriving DecidableEq, Repr, Inhabited

inductive Expr
  | var (x : Name)
  | lit (l : Lit)
  /-- `op.Name(args…, k=v…)` or a call of another script function (`dom = "this"`). -/
  | call (dom op : String) (sig : Sig) (args : List Expr) (attrs : List (String × AttrV))
  /-- `a <o> b`, `o` the Python `ast` operator class name (`Add`, `Mult`, `BitAnd`, …). -/
  | binop (o : String) (a b : Expr)
  /-- `<o> a` (`USub`, `Not`, `UAdd`, `Invert`). -/
  | unop (o : String) (a : Expr)
  /-- `a <o> b` single comparison (`Lt`, `NotEq`, …). -/
  | cmp (o : String) (a b : Expr)
  /-- `base[i1, …, in]` with constant integer indices / slices (`_translate_subscript_expr`; only the
  emitted structure is modelled, the meaning of indexing belongs to C11). -/
  | subscript (base : Expr) (idx : List Idx)
  /-- anything else (`a and b`, `x if c else y`, …): `_translate_expr` raises ValueError. -/
  | other (uses : List Name)
deriving Repr, Inhabited

inductive Stmt
  /-- `x = e` -/
  | assign (x : Name) (e : Expr)
  /-- `x, y = e1, e2` (parallel assignment of expressions; translated left to right) -/
  | par (xs : List Name) (es : List Expr)
  /-- `x, y = <call>` (multi-output op) -/
  | tuple (xs : List Name) (e : Expr)
  /-- `x = y = e` and other unsupported assignment shapes (class carried for the refusal) -/
  | badAssign (xs : List Name) (e : Expr)
  | ite (c : Expr) (thn els : List Stmt)
  /-- `for i in range(bound): body`; `okIter = false` when the iterator is not `range(<one arg>)` -/
  | for_ (i : Name) (okIter : Bool) (bound : Expr) (body : List Stmt)
  /-- `while <test>: body` (the converter requires `test` to be a name) -/
  | while_ (c : Expr) (body : List Stmt)
  /-- `if <c>: break` (an `ast.If` whose body is `[Break]`: live-in = live-out ∪ uses of `c`) -/
  | brk (c : Expr)
  /-- `return e1, …, en`; `bare = true` for `return` without a value -/
  | ret (es : List Expr) (bare : Bool)
  /-- docstring / `print(...)`: ignored -/
  | skip
  /-- any other statement (`x += 1`, `assert`, `pass`, …): ValueError in the analyser -/
  | unsupported
deriving Repr, Inhabited

inductive AttrTy
  | float | int | string | ints | bool | unsupported
deriving DecidableEq, Repr, Inhabited

inductive Param
  | tensor (x : Name)
  | attr (x : Name) (ty : AttrTy)
deriving DecidableEq, Repr, Inhabited

def Param.name : Param → Name
  | .tensor x => x
  | .attr x _ => x

structure Func where
  name : String
  params : List Param
  /-- number of entries of the return annotation, if any (`check_num_outputs`) -/
  retCount : Option Nat
  body : List Stmt
  /-- version of `default_opset` given to `script(...)` -/
  opsetVer : Nat := 0
deriving Repr, Inhabited

/-! ## analysis.py -/

mutual
/-- `_used_vars(expr)`: names used, callee expression not visited, keyword values only when
they are plain names. -/
def usedVars : Expr → VSet
  | .var x => [x]
  | .lit _ => []
  | .call _ _ _ args attrs =>
    vunion (usedVarsL args)
      (vofList (attrs.filterMap (fun kv => match kv.2 with | .ref p => some p | .const _ => none)))
  | .binop _ a b => vunion (usedVars a) (usedVars b)
  | .unop _ a => usedVars a
  | .cmp _ a b => vunion (usedVars a) (usedVars b)
  | .subscript base _ => usedVars base
  | .other us => vofList us
def usedVarsL : List Expr → VSet
  | [] => []
  | e :: es => vunion (usedVars e) (usedVarsL es)
end

mutual
/-- `AstAnalyzer.assigned_vars(stmt)`; `none` = "Unsupported statement type" (ValueError). -/
def assignedStmt : Stmt → Option VSet
  | .assign x _ => some [x]
  | .par xs _ => some (vofList xs)
  | .tuple xs _ => some (vofList xs)
  | .badAssign xs _ => some (vofList xs)
  | .ite _ t e =>
    match assignedBlock t, assignedBlock e with
    | some a, some b => some (vunion a b)
    | _, _ => none
  | .for_ i _ _ body =>
    match assignedBlock body with
    | some a => some (vunion a [i])
    | none => none
  | .while_ _ body => assignedBlock body
  | .brk _ => some []
  | .ret _ _ => some []
  | .skip => some []
  | .unsupported => none
def assignedBlock : List Stmt → Option VSet
  | [] => some []
  | s :: ss =>
    match assignedStmt s, assignedBlock ss with
    | some a, some b => some (vunion a b)
    | _, _ => none
end

/-- The name an expression consists of, if it is a bare name (`y = x`, `if c:`, `while t:`). -/
def bareVar : Expr → List Name
  | .var y => [y]
  | _ => []

def bareVarL : List Expr → List Name
  | [] => []
  | e :: es => bareVar e ++ bareVarL es

mutual
/-- Every name a statement may bind, at any depth (assignment targets and `for` variables), and every name it reads
as a bare right-hand side or loop condition (`y = x`, `while t:`, `if b: break` — the places where a value is
stored or tested without meeting an operator); total, unlike `assignedStmt`.  What the refinement theorems ask of
attribute parameters is that none of them is among these names. -/
def targetsStmt : Stmt → List Name
  | .assign x e => x :: bareVar e
  | .par xs es => xs ++ bareVarL es
  | .tuple xs _ => xs
  | .badAssign xs _ => xs
  | .ite _ t e => targetsBlock t ++ targetsBlock e
  | .for_ i _ _ body => i :: targetsBlock body
  | .while_ c body => bareVar c ++ targetsBlock body
  | .brk c => bareVar c
  | _ => []
def targetsBlock : List Stmt → List Name
  | [] => []
  | s :: ss => targetsStmt s ++ targetsBlock ss
end

/-- `while curr != prev: prev = curr; curr = step prev` — with fuel (two rounds always
suffice for the gen/kill-shaped `step`s that arise; the fuel is never the reason to stop on
any generated program, which the correspondence check would expose). -/
def fixIter (step : VSet → VSet) : Nat → VSet → VSet
  | 0, curr => curr
  | n + 1, curr =>
    let next := step curr
    if next == curr then curr else fixIter step n next

def fixFuel : Nat := 64

mutual
/-- `do_visit(stmt, live_out)`: live-in of a statement from its live-out. -/
def liveInStmt : Stmt → VSet → VSet
  | .assign x e, lo => vunion (vdiff lo [x]) (usedVars e)
  | .par xs es, lo => vunion (vdiff lo (vofList xs)) (usedVarsL es)
  | .tuple xs e, lo => vunion (vdiff lo (vofList xs)) (usedVars e)
  | .badAssign xs e, lo => vunion (vdiff lo (vofList xs)) (usedVars e)
  | .ret es _, _ => usedVarsL es
  | .ite c t e, lo => vunion (vunion (liveInBlock t lo) (liveInBlock e lo)) (usedVars c)
  | .for_ i _ bound body, lo =>
    -- prev = None; curr = live_out
    -- while curr != prev: prev = curr; curr = (visit_block(body, prev) - {i}) | live_out
    -- return curr | _used_vars(stmt.iter)
    vunion (fixIter (fun prev => vunion (vdiff (liveInBlock body prev) [i]) lo) fixFuel lo) (usedVars bound)
  | .while_ c body, lo =>
    -- curr = live_out | cond_vars; while …: curr = visit_block(body, prev) | cond_vars | live_out
    fixIter (fun prev => vunion (vunion (liveInBlock body prev) (usedVars c)) lo) fixFuel
      (vunion lo (usedVars c))
  | .brk c, lo => vunion lo (usedVars c)
  | .skip, lo => lo
  | .unsupported, lo => lo
def liveInBlock : List Stmt → VSet → VSet
  | [], lo => lo
  | s :: ss, lo => liveInStmt s (liveInBlock ss lo)
end

/-- The live-out set the body of a loop was last visited with (the fixpoint `curr` of the `while curr != prev`
iteration): this is `live_out(s)` for the statements of the body.  For a `for` loop it does not contain the
uses of the loop bound, which are added to the loop's live-in afterwards. -/
def loopBodyLo : Stmt → VSet → VSet
  | .for_ i _ _ body, lo =>
    fixIter (fun prev => vunion (vdiff (liveInBlock body prev) [i]) lo) fixFuel lo
  | .while_ c body, lo =>
    fixIter (fun prev => vunion (vunion (liveInBlock body prev) (usedVars c)) lo) fixFuel
      (vunion lo (usedVars c))
  | _, lo => lo

mutual
/-- `exposed_uses.visit(stmt, live_out)`. -/
def exposedStmt : Stmt → VSet → VSet
  | .assign x e, lo => vunion (vdiff lo [x]) (usedVars e)
  | .par xs es, lo => vunion (vdiff lo (vofList xs)) (usedVarsL es)
  | .tuple xs e, lo => vunion (vdiff lo (vofList xs)) (usedVars e)
  | .badAssign xs e, lo => vunion (vdiff lo (vofList xs)) (usedVars e)
  | .ret es _, _ => usedVarsL es
  | .ite c t e, lo => vunion (vunion (exposedBlock t lo) (exposedBlock e lo)) (usedVars c)
  | .for_ i _ bound body, lo =>
    vunion (vunion (vdiff (exposedBlock body []) [i]) (usedVars bound)) (vdiff lo [i])
  | .while_ c body, lo => vunion (vunion (exposedBlock body []) (usedVars c)) lo
  | .brk c, lo => vunion lo (usedVars c)
  | .skip, lo => lo
  | .unsupported, lo => lo
def exposedBlock : List Stmt → VSet → VSet
  | [], lo => lo
  | s :: ss, lo => exposedStmt s (exposedBlock ss lo)
end

/-- `analyzer.exposed_uses(stmts)`. -/
def exposedUses (b : List Stmt) : VSet := exposedBlock b []

/-! ## `Converter._set_default_opset`: one version of the default-domain opset per function -/

mutual
/-- Every `alias.Op(...)` call of the default domain (`""`) is taken from an opset of version `v`, at every
depth of the expression. -/
def exprOpsetOK (v : Nat) : Expr → Bool
  | .call dom _ sig args _ => (dom != "" || sig.ver == v) && exprsOpsetOK v args
  | .binop _ a b => exprOpsetOK v a && exprOpsetOK v b
  | .unop _ a => exprOpsetOK v a
  | .cmp _ a b => exprOpsetOK v a && exprOpsetOK v b
  | .subscript base _ => exprOpsetOK v base
  | _ => true
def exprsOpsetOK (v : Nat) : List Expr → Bool
  | [] => true
  | e :: es => exprOpsetOK v e && exprsOpsetOK v es
end

mutual
def stmtOpsetOK (v : Nat) : Stmt → Bool
  | .assign _ e => exprOpsetOK v e
  | .par _ es => exprsOpsetOK v es
  | .tuple _ e => exprOpsetOK v e
  | .badAssign _ e => exprOpsetOK v e
  | .ite c t e => exprOpsetOK v c && blockOpsetOK v t && blockOpsetOK v e
  | .for_ _ _ b body => exprOpsetOK v b && blockOpsetOK v body
  | .while_ c body => exprOpsetOK v c && blockOpsetOK v body
  | .brk c => exprOpsetOK v c
  | .ret es _ => exprsOpsetOK v es
  | .skip => true
  | .unsupported => true
def blockOpsetOK (v : Nat) : List Stmt → Bool
  | [] => true
  | s :: ss => stmtOpsetOK v s && blockOpsetOK v ss
end

/-- The whole function — top level, branches, loop bodies — uses one version of the default-domain opset:
the one of `default_opset`. -/
def opsetsOK (f : Func) : Bool := blockOpsetOK f.opsetVer f.body

end OV.C01
