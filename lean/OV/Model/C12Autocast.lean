/-!
# C12 — model of literal promotion in the three front ends (core Lean only)

Restates the decision logic of

* `onnxscript/_internal/autocast.py` — `cast_inputs` (two-pass type-variable binding, *last* binding
  wins because the bindings are a dict that is overwritten), `static_cast_inputs` (converter:
  `Constant` made by `Converter._emit_const` = `ir.tensor(pyvalue)`, then `CastLike` to the bound
  operand), `dynamic_cast_inputs` (eager: `np.array(pyvalue, dtype = bound dtype or _get_dtype)`),
* `onnxscript/_internal/tape_builder.py` — `BuilderBase._cast_inputs` (*first* binding wins),
  `_input_to_ir_value` (static dtype when the sibling's dtype is known, dynamic `CastLike` otherwise),
* (`GraphBuilder._get_or_create_constant` and its `_constant_cache` are modelled in `OV.Model.C12Cache`.)

Values are symbolic where IEEE rounding would be needed: a float value is the real number
`±num/den` "rounded to the carrying dtype", with a flag recording a detour through float32.
-/
namespace OV.Autocast

/-! ## Element types -/

inductive DType
  | float | double | float16 | bfloat16
  | int8 | int16 | int32 | int64
  | uint8 | uint16 | uint32 | uint64
  | bool
  deriving DecidableEq, Repr, Inhabited

inductive Cls | flt | int | bool
  deriving DecidableEq, Repr

def DType.cls : DType → Cls
  | .float | .double | .float16 | .bfloat16 => .flt
  | .bool => .bool
  | _ => .int

/-- ONNX `TensorProto.DataType` number. -/
def DType.code : DType → Nat
  | .float => 1 | .uint8 => 2 | .int8 => 3 | .uint16 => 4 | .int16 => 5 | .int32 => 6 | .int64 => 7
  | .bool => 9 | .float16 => 10 | .double => 11 | .uint32 => 12 | .uint64 => 13 | .bfloat16 => 16

/-- Boolean equality on dtypes (cheap for the kernel: one `Nat.beq`). -/
def DType.beq (a b : DType) : Bool := a.code == b.code

/-- Smallest value of an integer dtype (0 for the others). -/
def DType.lo : DType → Int
  | .int8 => -128 | .int16 => -32768 | .int32 => -2147483648 | .int64 => -9223372036854775808
  | _ => 0

/-- Number of values of an integer dtype (`2^bits`). -/
def DType.card : DType → Int
  | .int8 | .uint8 => 256
  | .int16 | .uint16 => 65536
  | .int32 | .uint32 => 4294967296
  | .int64 | .uint64 => 18446744073709551616
  | _ => 1

def DType.inRange (dt : DType) (v : Int) : Bool := decide (dt.lo ≤ v) && decide (v < dt.lo + dt.card)

/-- Integers of magnitude `≤ exactBound` are exactly representable in the float dtype. -/
def DType.exactBound : DType → Nat
  | .float => 16777216 | .double => 9007199254740992 | .float16 => 2048 | .bfloat16 => 256
  | _ => 0

/-! ## Python literals -/

/-- A Python scalar.  A float is `(-1)^neg * num / den` (`den > 0`); the sign is kept so that
`-0.0 ≠ 0.0`.  `inf`/`nan` are outside the model. -/
inductive Scalar
  | b (v : Bool)
  | i (v : Int)
  | f (neg : Bool) (num den : Nat)
  deriving DecidableEq, Repr, Inhabited

inductive Kind | b | i | f
  deriving DecidableEq, Repr

def Scalar.kind : Scalar → Kind
  | .b _ => .b | .i _ => .i | .f .. => .f

def Kind.beq : Kind → Kind → Bool
  | .b, .b | .i, .i | .f, .f => true
  | _, _ => false

def Scalar.isB : Scalar → Bool | .b _ => true | _ => false
def Scalar.isI : Scalar → Bool | .i _ => true | _ => false
def Scalar.isF : Scalar → Bool | .f .. => true | _ => false

/-- A literal operand: a scalar or a non-empty list of scalars. -/
inductive Lit
  | s (x : Scalar)
  | l (x : Scalar) (xs : List Scalar)
  deriving DecidableEq, Repr, Inhabited

def Lit.isList : Lit → Bool
  | .s _ => false | .l .. => true

def Lit.head : Lit → Scalar
  | .s x => x | .l x _ => x

def Lit.elems : Lit → List Scalar
  | .s x => [x] | .l x xs => x :: xs

/-- All elements have the Python type of the first one (exact type, `bool` is not `int` here). -/
def Lit.homogeneous (l : Lit) : Bool := l.elems.all (fun e => e.kind.beq l.head.kind)

/-! ## Cast values -/

/-- One element of a materialised tensor.  `f neg num den via32` is the real `±num/den` rounded to the
carrying float dtype, after a first rounding to float32 when `via32`.  `unmodelled` marks results the
model does not determine (implementation-defined float→int overflow, inexact int→float, …). -/
inductive SVal
  | b (v : Bool)
  | i (v : Int)
  | f (neg : Bool) (num den : Nat) (via32 : Bool)
  | unmodelled
  deriving DecidableEq, Repr, Inhabited

inductive Err | tooMany | overflow | refused
  deriving DecidableEq, Repr

/-- Conservative test that `num/den` is exactly a float32 (then a detour through float32 is the identity). -/
def exactF32 (num den : Nat) : Bool :=
  decide (num < 16777216) && decide (den ≠ 0) && (den &&& (den - 1) == 0) && decide (den ≤ 2 ^ 100)

def boolInt (v : Bool) : Int := if v then 1 else 0
def boolNat (v : Bool) : Nat := if v then 1 else 0

/-- Two's-complement wrap of `v` into an integer dtype (what ONNX `Cast` does between integer types). -/
def wrap (dt : DType) (v : Int) : Int := (v - dt.lo) % dt.card + dt.lo

def signed (neg : Bool) (n : Nat) : Int := if neg then -(n : Int) else (n : Int)

/-- `np.array(pyvalue, dtype)` on one Python scalar (NumPy ≥ 2: out-of-range Python ints raise). -/
def npCast (x : Scalar) (dt : DType) : Except Err SVal :=
  match x, dt.cls with
  | .b v, .bool => .ok (.b v)
  | .b v, .int => .ok (.i (boolInt v))
  | .b v, .flt => .ok (.f false (boolNat v) 1 false)
  | .i v, .bool => .ok (.b (v != 0))
  | .i v, .int => if dt.inRange v then .ok (.i v) else .error .overflow
  | .i v, .flt =>
    if v.natAbs ≤ dt.exactBound then .ok (.f (decide (v < 0)) v.natAbs 1 false) else .ok .unmodelled
  | .f _ n _, .bool => .ok (.b (n != 0))
  | .f neg n d, .int =>
    -- NumPy truncates the Python float to a Python int and range-checks that
    let t := signed neg (n / d)
    if dt.inRange t then .ok (.i t) else .error .overflow
  | .f neg n d, .flt => .ok (.f neg n d false)

/-- ONNX `Cast`/`CastLike` of one element of a tensor of dtype `src` to dtype `dst`
(truncation toward zero, integer wrap-around, non-zero ↦ true). -/
def onnxCast (src dst : DType) (v : SVal) : SVal :=
  match v, dst.cls with
  | .unmodelled, _ => .unmodelled
  | .b v, .bool => .b v
  | .b v, .int => .i (boolInt v)
  | .b v, .flt => .f false (boolNat v) 1 false
  | .i v, .bool => .b (v != 0)
  | .i v, .int => .i (wrap dst v)
  | .i v, .flt => if v.natAbs ≤ dst.exactBound then .f (decide (v < 0)) v.natAbs 1 false else .unmodelled
  | .f neg n d via, c =>
    let via' := via || (src.beq .float && !exactF32 n d)
    match c with
    | .flt => .f neg n d (if dst.beq .float then false else via')
    | .bool => if via' then .unmodelled else .b (n != 0)
    | .int =>
      let t := signed neg (n / d)
      if via' then .unmodelled else if dst.inRange t then .i t else .unmodelled

/-- The value the *rule* assigns: the literal's numeric value in dtype `dt` (C-style truncation for
float→int, non-zero ↦ true), without implementation limits. -/
def specCast (x : Scalar) (dt : DType) : SVal :=
  match x, dt.cls with
  | .b v, .bool => .b v
  | .b v, .int => .i (boolInt v)
  | .b v, .flt => .f false (boolNat v) 1 false
  | .i v, .bool => .b (v != 0)
  | .i v, .int => .i v
  | .i v, .flt => .f (decide (v < 0)) v.natAbs 1 false
  | .f _ n _, .bool => .b (n != 0)
  | .f neg n d, .int => .i (signed neg (n / d))
  | .f neg n d, .flt => .f neg n d false

/-- The conversions of the three front ends all compute the rule's value for this scalar and dtype. -/
def representable (x : Scalar) (dt : DType) : Bool :=
  match x, dt.cls with
  | .b _, _ => true
  | .i v, .bool => DType.int64.inRange v
  | .i v, .int => dt.inRange v && DType.int64.inRange v
  | .i v, .flt => decide (v.natAbs ≤ dt.exactBound) && DType.int64.inRange v
  | .f _ n d, .bool => exactF32 n d
  | .f neg n d, .int => exactF32 n d && dt.inRange (signed neg (n / d))
  | .f _ n d, .flt => dt.beq .float || exactF32 n d

/-! ## Default dtypes (no sibling) -/

def kindDType : Kind → DType
  | .b => .bool | .i => .int64 | .f => .float

/-- INT64 / FLOAT / BOOL by the Python type of the value (of the first element for a list). -/
def pyDefault (l : Lit) : DType := kindDType l.head.kind

/-- `ir.tensor(value)` with `dtype=None` (converter `_emit_const`; builder when nothing is bound):
int→INT64, float→FLOAT, all-int list→INT64, all-float list→FLOAT, otherwise NumPy's inference
(all bool→BOOL, bool/int mix→INT64, anything with a float→DOUBLE). -/
def irDefault (l : Lit) : DType :=
  let es := l.elems
  if es.all Scalar.isI then .int64
  else if es.all Scalar.isF then .float
  else if es.all Scalar.isB then .bool
  else if es.all (fun e => !e.isF) then .int64
  else .double

/-- `np.array(list).dtype` for a list of Python bools/ints/floats. -/
def numpyInfer (l : Lit) : DType :=
  if l.elems.all Scalar.isB then .bool
  else if l.elems.all (fun e => !e.isF) then .int64
  else .double

/-- `_get_dtype` (eager), since fa769b8: a list mixing Python types gets NumPy's inferred dtype; otherwise by the
Python type of the value / of the first list element. -/
def dynDefault (l : Lit) : DType :=
  if l.homogeneous then kindDType l.head.kind else numpyInfer l

/-- The rule's default when no sibling shares the type constraint: INT64 / FLOAT / BOOL by Python type; for a list
mixing Python types, the NumPy common type (what all three front ends produce since fa769b8). -/
def ruleDefault (l : Lit) : DType := irDefault l

/-! ## Signatures and arguments -/

/-- `"(" not in typevar`: the test both `cast_inputs` and `_cast_inputs` use to recognise a type variable. -/
def isTypeVar (s : String) : Bool := !(s.toList.contains '(')

/-- One formal input as a front end reads it: the type-constraint name (of type `κ`: `String` for the
real thing, `Nat` after interning), whether that name is a type variable (`isTypeVar`), variadic?,
homogeneous?. -/
structure Formal (κ : Type) where
  tc : κ
  isVar : Bool
  variadic : Bool
  homogeneous : Bool
  deriving DecidableEq, Repr

/-- A formal as it stands in a schema: the raw string. -/
structure SFormal where
  tc : String
  variadic : Bool
  homogeneous : Bool
  deriving DecidableEq, Repr

def SFormal.formal (f : SFormal) : Formal String := ⟨f.tc, isTypeVar f.tc, f.variadic, f.homogeneous⟩

/-- An actual argument.  `tensor dt known`: a tensor operand of (run-time) dtype `dt`; `known` tells
whether the graph builder knows that dtype at construction time. -/
inductive Arg
  | tensor (dt : DType) (known : Bool)
  | lit (l : Lit)
  | none
  deriving DecidableEq, Repr

/-- What governs an argument position: a formal's type-constraint name (with its is-a-type-variable
flag), or nothing (tail of a non-homogeneous variadic). -/
inductive Slot (κ : Type)
  | tv (name : κ) (isVar : Bool)
  | untyped
  deriving DecidableEq, Repr

section
variable {κ : Type} [DecidableEq κ]

/-- First pass of `cast_inputs`/`_cast_inputs`: the formal for position `i`. -/
def slotAt (fs : List (Formal κ)) (i : Nat) : Except Err (Slot κ) :=
  match fs[i]? with
  | some f => .ok (.tv f.tc f.isVar)
  | none =>
    match fs.getLast? with
    | some l =>
      if l.variadic then (if l.homogeneous then .ok (.tv l.tc l.isVar) else .ok .untyped)
      else .error .tooMany
    | none => .error .tooMany

def assignFrom (fs : List (Formal κ)) : Nat → List Arg → Except Err (List (Slot κ × Arg))
  | _, [] => .ok []
  | i, a :: as =>
    match slotAt fs i with
    | .error e => .error e
    | .ok s =>
      match assignFrom fs (i + 1) as with
      | .error e => .error e
      | .ok rest => .ok ((s, a) :: rest)

def assign (fs : List (Formal κ)) (args : List Arg) : Except Err (List (Slot κ × Arg)) :=
  assignFrom fs 0 args

/-- Does this (slot, argument) bind type variable `tc`?  (A tensor operand in a slot whose name is
a type variable equal to `tc`.) -/
def boundTo (tc : κ) : Slot κ × Arg → Option (DType × Bool)
  | (.tv n v, .tensor dt known) => if v && n == tc then some (dt, known) else none
  | _ => none

/-- `type_bindings` of the builder: the first binding is kept. -/
def firstBinding (tc : κ) : List (Slot κ × Arg) → Option (DType × Bool)
  | [] => none
  | x :: xs => match boundTo tc x with
    | some r => some r
    | none => firstBinding tc xs

/-- `type_bindings` of `autocast.cast_inputs`: a dict overwritten in argument order — the last binding wins. -/
def lastBinding (tc : κ) : List (Slot κ × Arg) → Option (DType × Bool)
  | [] => none
  | x :: xs => match lastBinding tc xs with
    | some r => some r
    | none => boundTo tc x

def Slot.lookup (s : Slot κ) (find : κ → Option (DType × Bool)) : Option (DType × Bool) :=
  match s with
  | .tv n _ => find n
  | .untyped => none

end

/-! ## Results -/

inductive Out
  | none
  | pass (dt : DType)
  | const (dt : DType) (isList : Bool) (vals : List SVal)
  deriving DecidableEq, Repr

def mapE {α β ε} (f : α → Except ε β) : List α → Except ε (List β)
  | [] => .ok []
  | x :: xs => match f x with
    | .error e => .error e
    | .ok y => match mapE f xs with
      | .error e => .error e
      | .ok ys => .ok (y :: ys)

/-- `np.array(literal, dtype)` / `ir.tensor(literal, dtype)`. -/
def npConst (l : Lit) (dt : DType) : Except Err Out :=
  match mapE (fun e => npCast e dt) l.elems with
  | .error e => .error e
  | .ok vs => .ok (.const dt l.isList vs)

/-- Converter: `Constant(ir.tensor(literal))`, optionally followed by `CastLike(·, sibling)`. -/
def staticConst (l : Lit) (target : Option DType) : Except Err Out :=
  let d0 := irDefault l
  match mapE (fun e => npCast e d0) l.elems with
  | .error e => .error e
  | .ok vs =>
    match target with
    | none => .ok (.const d0 l.isList vs)
    | some dt => .ok (.const dt l.isList (vs.map (onnxCast d0 dt)))

section
variable {κ : Type} [DecidableEq κ]

/-- The dtype a literal in slot `s` is cast to by `autocast.cast_inputs` (last binding wins). -/
def targetLast (sa : List (Slot κ × Arg)) (s : Slot κ) : Option (DType × Bool) :=
  s.lookup (fun n => lastBinding n sa)

/-- The dtype a literal in slot `s` is cast to by `BuilderBase._cast_inputs` (first binding wins). -/
def targetFirst (sa : List (Slot κ × Arg)) (s : Slot κ) : Option (DType × Bool) :=
  s.lookup (fun n => firstBinding n sa)

/-- Second pass of `static_cast_inputs` for one argument. -/
def emitStatic (sa : List (Slot κ × Arg)) (p : Slot κ × Arg) : Except Err Out :=
  match p.2 with
  | .none => .ok .none
  | .tensor dt _ => .ok (.pass dt)
  | .lit l => staticConst l ((targetLast sa p.1).map (·.1))

/-- `autocast.static_cast_inputs` as used by the converter. -/
def castStatic (fs : List (Formal κ)) (args : List Arg) : Except Err (List Out) :=
  match assign fs args with
  | .error e => .error e
  | .ok sa => mapE (emitStatic sa) sa

/-- Second pass of `dynamic_cast_inputs` for one argument (`cast_pyvalue_to_os_tensor`). -/
def emitDynamic (sa : List (Slot κ × Arg)) (p : Slot κ × Arg) : Except Err Out :=
  match p.2 with
  | .none => .ok .none
  | .tensor dt _ => .ok (.pass dt)
  | .lit l =>
    match targetLast sa p.1 with
    | some (dt, _) => npConst l dt
    | none => npConst l (dynDefault l)

/-- `autocast.dynamic_cast_inputs` as used by eager evaluation. -/
def castDynamic (fs : List (Formal κ)) (args : List Arg) : Except Err (List Out) :=
  match assign fs args with
  | .error e => .error e
  | .ok sa => mapE (emitDynamic sa) sa

end

/-- `all(isinstance(v, type(value[0])) for v in value)` (so `[1, True]` passes, `[True, 1]` and `[1, 2.5]` do not). -/
def sameTypeAsHead (l : Lit) : Bool :=
  match l with
  | .s _ => true
  | .l x xs =>
    match x.kind with
    | .b => xs.all Scalar.isB
    | .i => xs.all (fun e => e.isI || e.isB)
    | .f => xs.all Scalar.isF

/-- `GraphBuilder._get_or_create_constant` accepts every scalar and (since fa769b8) every list of Python numbers. -/
def builderAccepts (_l : Lit) : Bool := true

/-- The dtype the builder passes to `ir.tensor` when nothing is bound: `_PYTHON_TYPE_TO_DTYPE.get(type(value[0]))`
(int→INT64, float→FLOAT, bool→None) when all elements are instances of the first one's type, else None. -/
def builderKeyDType (l : Lit) : Option DType :=
  if sameTypeAsHead l then
    (match l.head.kind with
     | .i => some .int64
     | .f => some .float
     | .b => Option.none)
  else Option.none

/-- Builder default dtype: the above, `None` left to `ir.tensor`'s inference. -/
def builderDefault (l : Lit) : DType := (builderKeyDType l).getD (irDefault l)

def builderConst (l : Lit) (dt : Option DType) : Except Err Out :=
  if builderAccepts l then npConst l (dt.getD (builderDefault l)) else .error .refused

/-- `_input_to_ir_value` when the sibling's dtype is unknown at construction time: the default constant
followed by a dynamic `CastLike`. -/
def builderCastLike (l : Lit) (dt : DType) : Except Err Out :=
  match builderConst l none with
  | .ok (.const d0 isl vs) => .ok (.const dt isl (vs.map (onnxCast d0 dt)))
  | .ok o => .ok o
  | .error e => .error e

section
variable {κ : Type} [DecidableEq κ]

/-- `adapt` of `BuilderBase._cast_inputs` for one argument (the constant cache is modelled separately
by `promote`; a fresh builder and no two cache-equal literals in one call are assumed here). -/
def emitBuilder (sa : List (Slot κ × Arg)) (p : Slot κ × Arg) : Except Err Out :=
  match p.2 with
  | .none => .ok .none
  | .tensor dt _ => .ok (.pass dt)
  | .lit l =>
    match targetFirst sa p.1 with
    | some (dt, true) => builderConst l (some dt)
    | some (dt, false) => builderCastLike l dt
    | none => builderConst l none

/-- `BuilderBase._cast_inputs` + `_input_to_ir_value` with `GraphBuilder._promote_constant`. -/
def castBuilder (fs : List (Formal κ)) (args : List Arg) : Except Err (List Out) :=
  match assign fs args with
  | .error e => .error e
  | .ok sa => mapE (emitBuilder sa) sa

/-- The dtype the rule assigns to a literal in slot `s`: that of a sibling sharing the type constraint,
else INT64 / FLOAT / BOOL by Python type. -/
def ruleDType (sa : List (Slot κ × Arg)) (s : Slot κ) (l : Lit) : DType :=
  ((targetFirst sa s).map (·.1)).getD (ruleDefault l)

/-- The rule for one argument. -/
def emitExpected (sa : List (Slot κ × Arg)) (p : Slot κ × Arg) : Out :=
  match p.2 with
  | .none => .none
  | .tensor dt _ => .pass dt
  | .lit l =>
    let dt := ruleDType sa p.1 l
    .const dt l.isList (l.elems.map (fun e => specCast e dt))

/-- The property's rule: the dtype of the sibling sharing the type constraint when there is one,
otherwise INT64 / FLOAT / BOOL by Python type; the value is the literal's value in that dtype. -/
def expected (fs : List (Formal κ)) (args : List Arg) : Except Err (List Out) :=
  match assign fs args with
  | .error e => .error e
  | .ok sa => .ok (sa.map (emitExpected sa))

end

/-- dtype view of a result (what is compared when values are outside `representable`). -/
def Out.dtype? : Out → Option DType
  | .none => Option.none
  | .pass dt => some dt
  | .const dt _ _ => some dt

def dtypes (r : Except Err (List Out)) : Option (List (Option DType)) :=
  match r with
  | .ok os => some (os.map Out.dtype?)
  | .error _ => Option.none

/-! ## Table check used by the generated registry theorems -/

/-- A signature shape: the two readings of one operator schema. -/
structure Shape where
  sig : List SFormal   -- OpSignature reading (converter, eager)
  raw : List SFormal   -- raw OpSchema reading (builder)
  deriving DecidableEq, Repr

/-- The same with type-constraint names interned to numbers (α-renaming; the casts only ever compare names). -/
structure IShape where
  sig : List (Formal Nat)
  raw : List (Formal Nat)
  deriving DecidableEq, Repr

def internWith (names : List String) (fs : List SFormal) : List (Formal Nat) :=
  fs.map (fun f => ⟨names.idxOf f.tc, isTypeVar f.tc, f.variadic, f.homogeneous⟩)

def Shape.intern (s : Shape) : IShape :=
  let names := (s.sig ++ s.raw).map (·.tc)
  ⟨internWith names s.sig, internWith names s.raw⟩

def Formal.beqNat (a b : Formal Nat) : Bool :=
  a.tc == b.tc && a.isVar == b.isVar && a.variadic == b.variadic && a.homogeneous == b.homogeneous

structure Row where
  op : String
  since : Nat
  shape : Nat
  deriving Repr

def litSet : List Lit :=
  [.s (.i 0), .s (.i 1), .s (.i (-3)), .s (.f false 5 2), .s (.f true 0 1), .s (.b true),
   .l (.i 1) [.i 2], .l (.f false 1 2) []]

def sibSet : List DType := [.float, .double, .float16, .int64, .int32, .uint8, .bool]

/-- Argument lists probing position `p` with literal `l`: the other positions are tensors of one dtype
(known or not to the builder), or absent, or the same literal. -/
def probes (n p : Nat) (l : Lit) : List (List Arg) :=
  let m := max n (p + 1)
  let mk (o : Arg) : List Arg := (List.range m).map (fun i => if i == p then .lit l else o)
  (sibSet.map (fun d => mk (.tensor d true))) ++ (sibSet.map (fun d => mk (.tensor d false)))
    ++ [mk .none, mk (.lit l)]

/-- The detour through the default dtype is exact for this element: an int inside a list that NumPy infers as DOUBLE
(a list mixing ints and floats) must be exactly a double. -/
def viaOk (d0 : DType) (e : Scalar) : Bool :=
  match e with
  | .i v => !(d0.beq .double) || decide (v.natAbs ≤ 9007199254740992)
  | _ => true

/-- Every element is representable in dtype `dt` (and survives the list's default dtype exactly).  Lists mixing
Python types are included since fa769b8. -/
def litRepresentable (l : Lit) (dt : DType) : Bool :=
  l.elems.all (fun e => representable e dt && viaOk (irDefault l) e)

/-- Every literal of an argument list is representable in the dtype the rule assigns to it. -/
def allRepresentable {κ : Type} [DecidableEq κ] (fs : List (Formal κ)) (args : List Arg) : Bool :=
  match assign fs args with
  | .error _ => true
  | .ok sa =>
    sa.all (fun p =>
      match p.2 with
      | .lit l => litRepresentable l (ruleDType sa p.1 l)
      | _ => true)

/-! Hand-written Boolean equalities (derived `DecidableEq` instances carry proof terms that make
kernel evaluation of the table check several times slower). -/

def intBeq (a b : Int) : Bool :=
  match a, b with
  | .ofNat m, .ofNat n => m == n
  | .negSucc m, .negSucc n => m == n
  | _, _ => false

def SVal.beq : SVal → SVal → Bool
  | .b x, .b y => x == y
  | .i x, .i y => intBeq x y
  | .f s n d v, .f s' n' d' v' => s == s' && n == n' && d == d' && v == v'
  | .unmodelled, .unmodelled => true
  | _, _ => false

def listBeq {α : Type} (eq : α → α → Bool) : List α → List α → Bool
  | [], [] => true
  | x :: xs, y :: ys => eq x y && listBeq eq xs ys
  | _, _ => false

def Out.beq : Out → Out → Bool
  | .none, .none => true
  | .pass a, .pass b => a.beq b
  | .const a l vs, .const b l' ws => a.beq b && l == l' && listBeq SVal.beq vs ws
  | _, _ => false

def Err.beq : Err → Err → Bool
  | .tooMany, .tooMany | .overflow, .overflow | .refused, .refused => true
  | _, _ => false

/-- Equality of two front-end results (same error, or the same operands). -/
def resEq (a b : Except Err (List Out)) : Bool :=
  match a, b with
  | .ok x, .ok y => listBeq Out.beq x y
  | .error x, .error y => x.beq y
  | _, _ => false

def optDtBeq : Option DType → Option DType → Bool
  | some a, some b => a.beq b
  | Option.none, Option.none => true
  | _, _ => false

/-- dtype-level agreement: the front end raised `OverflowError`, or produced the wanted dtypes. -/
def okOrOverflow (r : Except Err (List Out)) (want : Option (List (Option DType))) : Bool :=
  match r with
  | .error .overflow => true
  | r => match dtypes r, want with
    | some a, some b => listBeq optDtBeq a b
    | Option.none, Option.none => true
    | _, _ => false

/-- The three front ends (each with its own reading of the schema) agree with the rule on one argument
list: on dtype *and value* when every literal is representable, otherwise on dtypes (a front end may
instead raise on an out-of-range literal). -/
def agree3 (s : IShape) (args : List Arg) : Bool :=
  let e := expected s.sig args
  (listBeq Formal.beqNat s.sig s.raw || resEq e (expected s.raw args)) &&
  (if allRepresentable s.sig args then
    resEq (castStatic s.sig args) e && resEq (castDynamic s.sig args) e && resEq (castBuilder s.raw args) e
  else
    okOrOverflow (castStatic s.sig args) (dtypes e) && okOrOverflow (castDynamic s.sig args) (dtypes e)
      && okOrOverflow (castBuilder s.raw args) (dtypes e))

/-- Positions probed: every formal position, plus two tail positions when the last formal is variadic. -/
def positions {κ : Type} (fs : List (Formal κ)) : List Nat :=
  let n := fs.length
  match fs.getLast? with
  | some l => if l.variadic then List.range (n + 2) else List.range n
  | none => []

def agree3All (s : IShape) : Bool :=
  decide (s.sig.length = s.raw.length) &&
  (positions s.sig).all (fun p => litSet.all (fun l => (probes s.sig.length p l).all (agree3 s)))

end OV.Autocast
