import OV.Model.C06Match
/-
  OV.Model.C06Exc — C06: the matcher with its *exception channel*.

  `C06Match` restates `SimplePatternMatcher` as total functions `… → Bool × Stack`; the two places
  where the code raises out of `Pattern.match` (both in `merge_current_match`, finding C06-F9) are
  there "modelled as a failure".  Here the same functions are restated with `Except Exc`:

    * `MatchResult.merge_current_match`: `ValueError("No match to merge.")` (fewer than two partial
      matches), `ValueError("Current match is not successful.")` (the sub-match that was popped
      is failed — reachable because `_match_value` ignores the result of `bind(tag_var, i)` for
      an `OpIdDispatchOr`), and
    * `PartialMatchResult.merge`: `NotImplementedError("Merging failed matches is not yet
      supported.")` (the parent partial match is failed).

  Nothing between those raise sites and the caller of `Pattern.match` catches anything
  (`_match_value`, `_match_node`, `_multi_match`, the `itertools.product` loop of `match`,
  `Pattern.match` have no `try`), so an exception leaves `Pattern.match`.

  One more place differs from `C06Match` once a partial match is failed behind a `True` return value:
  `_match_node` tests the *truth value of the MatchResult* returned by `NodePattern.matches`, i.e. the success
  flag of the current partial match, so with a failed current partial match every new node is refused
  (`nodeStepX`).  `C06Match.nodeMatches` returns `True` there and goes on; both end in "no match", which is
  why the difference was invisible before the exception channel existed.

  Only the *committed* revision is restated (`fixF8 = true`: a clashing tag binding of the
  BacktrackingOr itself — `… and (tag_var is None or self._match.bind(tag_var, tag))` — abandons
  the alternative).  The other revision flags are read from `Env` as in `C06Match`.

  anchors: onnxscript/rewriter/_basics.py   MatchResult.merge_current_match, PartialMatchResult.merge
           onnxscript/rewriter/_matcher.py  SimplePatternMatcher._match_value (BacktrackingOr loop), .match
-/
namespace OV.C06

/-- what leaves `Pattern.match` -/
inductive Exc where
  | valueError
  | notImplemented
  deriving Repr, DecidableEq, Inhabited

abbrev RX := Except Exc R

/-- the exception, if one was raised -/
def excOf {α} : Except Exc α → Option Exc
  | .error e => some e
  | .ok _ => none

/-- `merge_current_match` with its raise sites, in the order of the code: pop, test the popped
sub-match, then `previous.merge(current)` tests the parent. -/
def mergeTopX (fix3 : Bool) : Stack → Except Exc Stack
  | cur :: prev :: r =>
    if !cur.ok then .error .valueError
    else if !prev.ok then .error .notImplemented
    else .ok ((if fix3 then prev.mergeAll cur else prev.merge cur) :: r)
  | _ => .error .valueError

/-- `_match_node_output` -/
def matchNodeOutputX (E : Env) (rec : NPId → NodeId → Stack → RX) (np : NPId) (idx : Nat)
    (x : ValueId) (st : Stack) : RX :=
  match E.g.producer x with
  | none => .ok (fail st)
  | some n => if E.g.index x != some idx then .ok (fail st) else rec np n st

/-- `tag_var is None or self._match.bind(tag_var, tag)` -/
def tagBindR (tagVar : Option String) (t : Int) (st : Stack) : R :=
  match tagVar with
  | some tv => bind st tv (.tag t)
  | none => (true, st)

mutual
/-- `_match_value` -/
def matchValueX (E : Env) (rec : NPId → NodeId → Stack → RX) (vp : VPat) (v : Option ValueId)
    (st : Stack) : RX :=
  if crossGraphBad E.g vp v then .ok (fail st)
  else
  match vp with
  | .any => .ok (true, st)
  | .var id name isVar canNone check =>
    let r := bindValue2 E.fixF2 E.p st (.var id name isVar canNone check) v
    if !r.1 then .ok r
    else if v.isNone && !canNone then .ok (fail r.2) else .ok r
  | .const id c =>
    let r := bindValue E.p st (.const id c) v
    if !r.1 then .ok r else
    match v with
    | none => .ok (fail r.2)
    | some x => .ok (matchConstant E c x r.2)
  | .out np idx =>
    let r := bindValue E.p st (.out np idx) v
    if !r.1 then .ok r else
    match v with
    | none => .ok (fail r.2)
    | some x => matchNodeOutputX E rec np idx x r.2
  | .orD id name tagVar alts =>
    let r := bindValue E.p st (.orD id name tagVar alts) v
    if !r.1 then .ok r else
    match v with
    | none => .ok (fail r.2)
    | some x =>
      match getDispatch E.g alts x with
      | none => .ok (fail r.2)
      | some a =>
        let r1 := bindValue E.p r.2 (.out a.np a.idx) v
        if !r1.1 then .ok r1 else
        match matchNodeOutputX E rec a.np a.idx x r1.2 with
        | .error e => .error e
        | .ok r2 =>
          if r2.1 then
            match tagVar with
            | some t => .ok (true, (bind r2.2 t (.tag a.tag)).2)   -- result of `bind` is ignored
            | none => .ok r2
          else .ok r2
  | .orB id name tagVar tags alts =>
    let r := bindValue E.p st (.orB id name tagVar tags alts) v
    if !r.1 then .ok r else matchAltsX E rec alts tags tagVar v r.2

/-- the BacktrackingOr loop: `enter_new_match`; `if _match_value(choice) and (tag_var is None or
bind(tag_var, tag)): merge_current_match(); return True`; `abandon_current_match()` -/
def matchAltsX (E : Env) (rec : NPId → NodeId → Stack → RX) (alts : List VPat) (tags : List Int)
    (tagVar : Option String) (v : Option ValueId) (st : Stack) : RX :=
  match alts with
  | [] => .ok (fail st)
  | a :: rest =>
    match matchValueX E rec a v (enter st) with
    | .error e => .error e
    | .ok r =>
      if r.1 then
        let rb := tagBindR tagVar (tags.headD 0) r.2
        if rb.1 then
          match mergeTopX E.fixF3 rb.2 with
          | .error e => .error e
          | .ok st' => .ok (true, st')
        else matchAltsX E rec rest tags.tail tagVar v (abandon rb.2)
      else matchAltsX E rec rest tags.tail tagVar v (abandon r.2)
end

def matchInputsX (mv : VPat → Option ValueId → Stack → RX) :
    List (Option ValueId × Option VPat) → Stack → RX
  | [], st => .ok (true, st)
  | (v, none) :: rest, st => if v.isNone then matchInputsX mv rest st else .ok (fail st)
  | (v, some vp) :: rest, st =>
    match mv vp v st with
    | .error e => .error e
    | .ok r => if !r.1 then .ok r else matchInputsX mv rest r.2

def nodeStepX (E : Env) (mv : VPat → Option ValueId → Stack → RX) (npid : NPId) (n : NodeId)
    (st : Stack) : RX :=
  match lookupNode st npid with
  | some m => if m == n then .ok (true, st) else .ok (fail st)
  | none =>
    match E.p.nodes[npid]?, E.g.nodes[n]? with
    | some np, some gn =>
      let r := nodeMatches np gn st
      -- `if not pattern_node.matches(node, match)`: `matches` returns the MatchResult itself, whose truth
      -- value is the success flag of the *current partial match* — after an ignored tag clash (C06-F9) it is
      -- falsy although nothing is wrong with this node
      if !(r.1 && topOk r.2) then .ok (fail r.2) else
      let st1 := bindNode r.2 npid n
      if gn.inputs.length > np.inputs.length && !np.allowOtherInputs then .ok (fail st1) else
      match matchInputsX mv (zipPad gn.inputs np.inputs) st1 with
      | .error e => .error e
      | .ok r2 =>
        if !r2.1 then .ok r2 else
        .ok (bindOutputs E.fixF1 E.p npid gn.outputs np.outputs 0 r2.2)
    | _, _ => .ok (fail st)

/-- `_match_node` -/
def matchNodeX (E : Env) : Nat → NPId → NodeId → Stack → RX
  | 0, _, _, st => .ok (fail st)
  | f + 1, npid, n, st => nodeStepX E (matchValueX E (matchNodeX E f)) npid n st

def matchOutputNodesX (E : Env) : List (NPId × NodeId) → Stack → RX
  | [], st => .ok (true, st)
  | (np, n) :: rest, st =>
    match matchNodeX E E.p.fuel np n st with
    | .error e => .error e
    | .ok r => if !r.1 then .ok r else matchOutputNodesX E rest r.2

def multiMatchX (E : Env) (rm : Bool) (combo : List NodeId) : Except Exc Result :=
  match matchOutputNodesX E (E.p.outputNodes.zip combo) [{}] with
  | .error e => .error e
  | .ok r => .ok (finish E rm r)

/-- the `itertools.product` loop of `match`: an exception ends it -/
def firstMatchX (E : Env) (rm : Bool) : List (List NodeId) → Option Result → Except Exc Result
  | [], last => .ok (last.getD Result.failed)
  | c :: cs, _ =>
    match multiMatchX E rm c with
    | .error e => .error e
    | .ok m => if m.ok then .ok m else firstMatchX E rm cs (some m)

/-- `SimplePatternMatcher.match` -/
def matcherMatchX (E : Env) (root : NodeId) (rm : Bool) : Except Exc Result :=
  match E.p.outputNodes with
  | [np] =>
    match matchNodeX E E.p.fuel np root [{}] with
    | .error e => .error e
    | .ok r => .ok (finish E rm r)
  | outs => firstMatchX E rm (product ([root] :: candidatesRest E outs.tail false)) none

/-- the part of `Pattern.match` after the matcher returned -/
def postMatch (E : Env) (r : Result) : Option Result :=
  if !r.ok then none else
  let r := { r with bindings := bindInputs E.p.inputs r.bindings }
  if !checksPass E.p r then none
  else if !valueChecksPass E.p r then none
  else if !E.p.cond then none
  else some r

/-- `Pattern.match`, exceptions included -/
def patternMatchX (E : Env) (root : NodeId) (rm : Bool) : Except Exc (Option Result) :=
  match matcherMatchX E root rm with
  | .error e => .error e
  | .ok r => .ok (postMatch E r)

end OV.C06
