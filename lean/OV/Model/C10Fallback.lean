/-!
# C10 — the C-API fallback route in detail

Transcribes `_c_api_utils.call_onnx_api` (initializers become extra graph inputs, those with more than
`_BIG_TENSOR_SIZE_LIMIT = 1000` elements are stripped for the call, everything is restored in `finally`) and the
part of `_ConvertVersionPassRequiresInline.call` after a successful C-API call (`from_proto`, initializer
recovery loop, input truncation).  Graph inputs and initializers are ordered (list / insertion-ordered dict).
Core Lean only.
-/
namespace OV.C10.Fallback

/-- `_BIG_TENSOR_SIZE_LIMIT` -/
def limit : Nat := 1000

/-- An initializer: name, number of elements, identity of its tensor value. -/
structure Init where
  name : String
  size : Nat
  val : Nat
  deriving DecidableEq, Repr

/-- The part of a graph the route touches: input names in order, the initializer dict in insertion order. -/
structure G where
  inputs : List String
  inits : List Init
  deriving DecidableEq, Repr

def names (l : List Init) : List String := l.map (·.name)

/-- dict assignment `d[name] = v`: an existing key keeps its position, a new key goes to the end -/
def register (d : List Init) (i : Init) : List Init :=
  if (names d).contains i.name then d.map (fun j => if j.name = i.name then i else j) else d ++ [i]

def registerAll (d : List Init) (l : List Init) : List Init := l.foldl register d

/-- `call_onnx_api`, up to `proto = serialize_model(model)`: every initializer that is not yet a graph input is
appended to the inputs; the big ones lose their value and leave the initializer dict.  Returns the serialized
view handed to the C API. -/
def prepare (g : G) : G :=
  { inputs := g.inputs ++ (names g.inits).filter (fun n => !g.inputs.contains n),
    inits := g.inits.filter (fun i => i.size ≤ limit) }

/-- The model *during* the call (what `finally` has to undo). -/
def during (g : G) : G := prepare g

/-- `finally`: every original initializer gets its value back and is registered again (the stripped ones re-enter
the dict at the end), the inputs are cut back to their original number. -/
def restore (orig : G) (cur : G) : G :=
  { inputs := cur.inputs.take orig.inputs.length,
    inits := registerAll cur.inits orig.inits }

/-- State of the model after `call_onnx_api` returned or raised. -/
def afterCall (g : G) : G := restore g (during g)

/-- Initializer recovery loop of `_ConvertVersionPassRequiresInline.call` on the graph rebuilt from the C API's
result: *every* graph input whose name is an original initializer gets the original value and is registered. -/
def recoverLoop (origInits : List Init) (conv : G) : List Init :=
  conv.inputs.foldl (fun d n => match origInits.find? (fun i => i.name = n) with
    | some i => register d i
    | none => d) conv.inits

/-- The seeded variant (C10-5): only the inputs after the user's inputs are scanned. -/
def recoverLoopAppendedOnly (orig : G) (conv : G) : List Init :=
  (conv.inputs.drop orig.inputs.length).foldl (fun d n => match orig.inits.find? (fun i => i.name = n) with
    | some i => register d i
    | none => d) conv.inits

/-- The model's graph after a successful fallback: `conv` is `from_proto(converted_proto)`. -/
def afterSuccess (orig : G) (conv : G) : G :=
  { inputs := conv.inputs.take orig.inputs.length,
    inits := recoverLoop orig.inits conv }

/-- Contract of the C API on inputs and initializers: it returns them as it was given them. -/
def CapiKeeps (given conv : G) : Prop := conv.inputs = given.inputs ∧ conv.inits = given.inits

end OV.C10.Fallback
