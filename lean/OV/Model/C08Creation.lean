import OV.Model.C08View
/-!
# C08 — creation family: arange (integer arguments), linspace length, full / zeros / ones (+ new_*, *_like)
-/
namespace OV.C08

namespace arange

/-- `aten_arange(end)`, `aten_arange_start(start,end)`, `aten_arange_start_step(start,end,step)` with
Python-int arguments and dtype unset or INT64: one `Range(start, end, step)`. -/
def modelLen (start stop step : Int) : Nat := rangeLen start stop step

def termEnd (stop : Int) (dtypeGiven : Bool) : String :=
  if dtypeGiven then tOp "Range" [tOp "Cast" ["0"] [("to", "7")], tOp "Cast" [tI stop] [("to", "7")], tOp "Cast" ["1"] [("to", "7")]]
  else tOp "Range" [tOp "CastLike" ["0.0:FLOAT", tI stop], tI stop, tOp "CastLike" ["1.0:FLOAT", tI stop]]

def termStart (start stop : Int) (dtypeGiven : Bool) : String :=
  if dtypeGiven then tOp "Range" [tOp "Cast" [tI start] [("to", "7")], tOp "Cast" [tI stop] [("to", "7")], tOp "Cast" ["1"] [("to", "7")]]
  else tOp "Range" [tI start, tI stop, tOp "CastLike" ["1.0:FLOAT", tI stop]]

def termStep (start stop step : Int) (dtypeGiven : Bool) : String :=
  if dtypeGiven then tOp "Range" [tOp "Cast" [tI start] [("to", "7")], tOp "Cast" [tI stop] [("to", "7")], tOp "Cast" [tI step] [("to", "7")]]
  else tOp "Range" [tI start, tI stop, tI step]

/-- Ceiling of `n / d` for any non-zero `d`. -/
def ceilDiv (n d : Int) : Int := -(Int.fdiv (-n) d)

/-- `torch.arange(start, end, step)` (RangeFactories.cpp): `step ≠ 0`, the bounds must be consistent
with the sign of `step`, length `ceil((end - start) / step)`. -/
def specLen (start stop step : Int) : Option Nat :=
  if step = 0 then none
  else if (step > 0 ∧ start > stop) ∨ (step < 0 ∧ start < stop) then none
  else some (ceilDiv (stop - start) step).toNat

end arange

namespace linspace

/-- Output length as emitted: `steps = 0` → `Expand(_, [0])`, `steps = 1` → `Expand(_, [1])`, else the
length of `Range(0, steps, 1)`. -/
def modelLen (steps : Int) : Option Nat :=
  if steps = 0 then expandOp [] [0] |>.map numel
  else if steps = 1 then expandOp [] [1] |>.map numel
  else some (rangeLen 0 steps 1)

def specLen (steps : Int) : Option Nat := if steps < 0 then none else some steps.toNat

end linspace

namespace full

/-- `aten_full/zeros/ones/new_*`: `Expand(scalar, size)`; `*_like`: `Expand(scalar, Shape(x))`. -/
def model (size : List Int) : Option Shape :=
  if size.any (· < 0) then none else expandOp [] (size.map Int.toNat)

def spec (size : List Int) : Option Shape :=
  if size.any (· < 0) then none else some (size.map Int.toNat)

end full

end OV.C08
