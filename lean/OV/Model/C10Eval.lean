import OV.Model.C10VersionConv
/-!
# C10 — evaluation-level model for straight-line graphs

The node-level model (`C10VersionConv`) says *which* nodes a conversion leaves; this file adds the
*wiring* of the rewrites and a semantics, so that "computes the same outputs" can be stated on
environments.

* Values: opaque tensors `D` (everything the operators are uninterpreted on), plus the small concrete
  fragment the adapters compute with: 1-D vectors of elements `E` (scale, bias), 2-D matrices, integer
  lists (shapes / the DFT axis).
* Operators: `Constant(value_int[s])`, `Reshape(v,[-1,1])`, `Expand(m,[1,k])`, `Reshape(m,[-1])`, `Shape` of a
  vector, integer `Div`, `Concat` of integer lists are interpreted from the ONNX specification (row-major);
  `Shape(x, start=1, end=2)` of an opaque tensor is `[chan x]` (law `shape`); every other application is
  `sem op version inputs` — an uninterpreted function indexed by (operator with attributes, opset version).
* A graph is a list of single-output nodes over natural-number names, evaluated left to right.
-/
namespace OV.C10


inductive Val (D E : Type)
  | data (d : D)
  | vec (l : List E)
  | mat (m : List (List E))
  | ints (l : List Int)

/-- Uninterpreted operator semantics, indexed by (operator with its attributes, opset version). -/
abbrev OpSem (D E : Type) := Op → Nat → List (Option (Val D E)) → Option (Val D E)

/-- The interpreted fragment, else `sem`. -/
def evalOp {D E} (sem : OpSem D E) (op : Op) (ver : Nat) (ins : List (Option (Val D E))) : Option (Val D E) :=
  match op, ins with
  | .const _ is, [] => some (.ints is)
  | .plain "Reshape", [some (.vec s), some (.ints [-1, 1])] => some (.mat (reshapeCol s))
  | .plain "Reshape", [some (.mat m), some (.ints [-1])] => some (.vec (flattenRows m))
  | .plain "Expand", [some (.mat m), some (.ints [1, k])] => some (.mat (expandRows k.toNat m))
  | .plain "Shape", [some (.vec s)] => some (.ints [(s.length : Int)])
  | .plain "Div", [some (.ints [a]), some (.ints [b])] => some (.ints [a / b])
  | .plain "Concat", [some (.ints a), some (.ints b)] => some (.ints (a ++ b))
  | _, _ => sem op ver ins

structure ENode where
  op : Op
  ver : Nat                      -- the opset the node is read at
  ins : List (Option Nat)       -- `none`: an omitted optional input
  out : Nat
  deriving Repr

abbrev Env (D E : Type) := Nat → Option (Val D E)

def Env.set {D E} (env : Env D E) (n : Nat) (v : Option (Val D E)) : Env D E :=
  fun m => if m = n then v else env m

def evalNode {D E} (sem : OpSem D E) (env : Env D E) (n : ENode) : Env D E :=
  env.set n.out (evalOp sem n.op n.ver (n.ins.map (fun i => i.bind env)))

def evalNodes {D E} (sem : OpSem D E) (env : Env D E) : List ENode → Env D E
  | [] => env
  | n :: ns => evalNodes sem (evalNode sem env n) ns

/-! ## The rewrites with their wiring (`f` is the first unused name) -/

/-- What `process_node` + `replace_nodes_and_values` put into the graph for a replacement at `v → v+1`:
the operators are exactly the node-level model's (`adapt`), here with inputs and outputs.  The last node
takes over the old output name; the others define fresh names `f, f+1, …`. -/
def rewriteE (n : ENode) (v : Nat) (f : Nat) : Option (List ENode × Nat) :=
  match n.op, adapt n.op v with
  | .gridSample .., .replaced [o] => some ([{ op := o, ver := v + 1, ins := n.ins, out := n.out }], f)
  | .dft .., .replaced [c, d] =>
    some ([{ op := c, ver := v + 1, ins := [], out := f },
           { op := d, ver := v + 1, ins := [n.ins.getD 0 none, n.ins.getD 1 none, some f], out := n.out }], f + 1)
  | .groupNorm _, .replaced [k1, k2, k3, r1, e1, r2, r3, e2, r4, g] =>
    let x := n.ins.getD 0 none
    let s := n.ins.getD 1 none
    let b := n.ins.getD 2 none
    some ([{ op := k1, ver := v + 1, ins := [], out := f },                       -- [-1, 1]
           { op := k2, ver := v + 1, ins := [], out := f + 1 },                   -- [-1]
           { op := k3, ver := v + 1, ins := [], out := f + 2 },                   -- [1, C/g]
           { op := r1, ver := v + 1, ins := [s, some f], out := f + 3 },
           { op := e1, ver := v + 1, ins := [some (f + 3), some (f + 2)], out := f + 4 },
           { op := r2, ver := v + 1, ins := [some (f + 4), some (f + 1)], out := f + 5 },
           { op := r3, ver := v + 1, ins := [b, some f], out := f + 6 },
           { op := e2, ver := v + 1, ins := [some (f + 6), some (f + 2)], out := f + 7 },
           { op := r4, ver := v + 1, ins := [some (f + 7), some (f + 1)], out := f + 8 },
           { op := g, ver := v + 1, ins := [x, some (f + 5), some (f + 8)], out := n.out }], f + 9)
  | .groupNorm _, .replaced [k1, k2, k3, sx, s1, d1, r1, c1, e1, r2, s2, d2, r3, c2, e2, r4, g] =>
    let x := n.ins.getD 0 none
    let s := n.ins.getD 1 none
    let b := n.ins.getD 2 none
    some ([{ op := k1, ver := v + 1, ins := [], out := f },                       -- [-1, 1]
           { op := k2, ver := v + 1, ins := [], out := f + 1 },                   -- [-1]
           { op := k3, ver := v + 1, ins := [], out := f + 2 },                   -- [1]
           { op := sx, ver := v + 1, ins := [x], out := f + 3 },                  -- Shape(x, 1, 2) = [C]
           { op := s1, ver := v + 1, ins := [s], out := f + 4 },                  -- Shape(scale)
           { op := d1, ver := v + 1, ins := [some (f + 3), some (f + 4)], out := f + 5 },   -- C / len
           { op := r1, ver := v + 1, ins := [s, some f], out := f + 6 },
           { op := c1, ver := v + 1, ins := [some (f + 2), some (f + 5)], out := f + 7 },   -- [1, C/len]
           { op := e1, ver := v + 1, ins := [some (f + 6), some (f + 7)], out := f + 8 },
           { op := r2, ver := v + 1, ins := [some (f + 8), some (f + 1)], out := f + 9 },
           { op := s2, ver := v + 1, ins := [b], out := f + 10 },
           { op := d2, ver := v + 1, ins := [some (f + 3), some (f + 10)], out := f + 11 },
           { op := r3, ver := v + 1, ins := [b, some f], out := f + 12 },
           { op := c2, ver := v + 1, ins := [some (f + 2), some (f + 11)], out := f + 13 },
           { op := e2, ver := v + 1, ins := [some (f + 12), some (f + 13)], out := f + 14 },
           { op := r4, ver := v + 1, ins := [some (f + 14), some (f + 1)], out := f + 15 },
           { op := g, ver := v + 1, ins := [x, some (f + 9), some (f + 15)], out := n.out }], f + 16)
  | _, _ => none

/-- Thread the fresh-name counter through a list. -/
def mapFresh (g : ENode → Nat → List ENode × Nat) : List ENode → Nat → List ENode × Nat
  | [], f => ([], f)
  | m :: ms, f =>
    let r := g m f
    let rs := mapFresh g ms r.2
    (r.1 ++ rs.1, rs.2)

/-- `leafSteps` with wiring: `k` steps remain, the next one is `v → v+1`. -/
def stepsE : Nat → Nat → ENode → Nat → List ENode × Nat
  | 0, _, n, f => ([n], f)
  | k + 1, v, n, f =>
    match adapt n.op v with
    | .raised => stepsE k (v + 1) n f
    | .noAdapter => stepsE k (v + 1) { n with ver := v + 1 } f
    | .retNone => stepsE k (v + 1) { n with ver := v + 1 } f
    | .replaced _ =>
      match rewriteE n v f with
      | some (news, f') => mapFresh (stepsE k (v + 1)) news f'
      | none => ([n], f)

/-- Conversion of a straight-line graph whose nodes are all read at `s`, to `t` (`s ≤ t`). -/
def convGraphE (s t : Nat) (ns : List ENode) (f : Nat) : List ENode × Nat :=
  mapFresh (stepsE (t - s) s) ns f

/-! ## Hypotheses about the run time (A-op), stated on `sem` -/

/-- The adapter laws as statements about the operator semantics. -/
structure Laws {D E} (sem : OpSem D E) (chan : D → Nat) : Prop where
  /-- an operator form that reads the same at two opsets behaves the same at both (a form valid at neither
  fails at both); for operators without adapters this is the converter's own assumption -/
  sameMeaning : ∀ (op : Op) (v v' : Nat) ins, op.meaning v = op.meaning v' → sem op v ins = sem op v' ins
  /-- `Shape(x, start=1, end=2)` of an opaque tensor is its channel count -/
  shape : ∀ (v : Nat) (x : D), sem (.plain "Shape") v [some (.data x)] = some (.ints [(chan x : Int)])
  /-- GridSample is determined by (interpolation, align_corners, padding_mode): 16-vocabulary at 19 = 20-vocabulary at 20 -/
  gridSample : ∀ (m a p m' a' p') ins,
    (Op.gridSample m a p).meaning 19 = (Op.gridSample m' a' p').meaning 20 → ((Op.gridSample m a p).meaning 19).isSome →
    sem (.gridSample m' a' p') 20 ins = sem (.gridSample m a p) 19 ins
  /-- DFT-20 with a constant `axis` input = DFT-17 with that `axis` attribute (default 1); a trailing omitted
  input is the same as an absent one -/
  dft : ∀ (axis inv one : Option Int) (hasLen : Bool) (rank : Nat) (ins : List (Option (Val D E))), ins.length ≤ 2 →
    sem (.dft none (some (inv.getD 0)) (some (one.getD 0)) hasLen (some (axis.getD 1)) rank) 20
        [ins.getD 0 none, ins.getD 1 none, some (.ints [axis.getD 1])]
      = sem (.dft axis inv one hasLen none rank) 19 ins
  /-- GroupNormalization-21 on per-channel scale/bias obtained by repeating each per-group entry `C/g` times
  = GroupNormalization-18 on the per-group scale/bias (same `num_groups`, `epsilon`) -/
  groupNorm : ∀ (n n' : GN) (g k : Nat) x (s b : List E), n.groups = some g → s.length = g → b.length = g →
    g * k = n.c → n'.groups = n.groups → n'.eps = n.eps → n'.c = n.c →
    n'.hasX = n.hasX → n'.hasScale = n.hasScale → n'.hasBias = n.hasBias →
    sem (.groupNorm n') 21 [x, some (.vec (expandScale k s)), some (.vec (expandScale k b))]
      = sem (.groupNorm n) 20 [x, some (.vec s), some (.vec b)]

/-- The facts a GroupNormalization node carries are true of the values it is evaluated on (A-shape). -/
def Truthful {D E} (chan : D → Nat) (env : Env D E) (n : ENode) : Prop :=
  match n.op with
  | .groupNorm gn =>
    n.ins.length = 3 ∧ gn.c / (gn.groups.getD 1) * (gn.groups.getD 1) = gn.c ∧
    (∃ s b : List E, (n.ins.getD 1 none).bind env = some (.vec s) ∧ (n.ins.getD 2 none).bind env = some (.vec b) ∧
      s.length = gn.sLen ∧ b.length = gn.bLen) ∧
    -- when the adapter has to look at the run-time shape of `x`: `x` is a tensor with `gn.c` channels
    ((gn.xVis = .known ∧ gn.sVis = .known ∧ gn.bVis = .known) ∨
      ∃ dx : D, (n.ins.getD 0 none).bind env = some (.data dx) ∧ chan dx = gn.c)
  | .dft .. => n.ins.length ≤ 2
  | _ => True

/-- Two environments agree on the names below `b` (the names of the source graph). -/
def Agree {D E} (b : Nat) (env env' : Env D E) : Prop := ∀ m, m < b → env m = env' m

/-- All names a node mentions are below `b`. -/
def ENode.Below (n : ENode) (b : Nat) : Prop := n.out < b ∧ ∀ i ∈ n.ins, ∀ m, i = some m → m < b

end OV.C10
