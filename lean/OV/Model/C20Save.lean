/-!
# C20 — model of `save_model_with_external_data` and of `ir.save(..., external_data=…)`

Core Lean only (the driver `drv_c20` is compiled from this file).

What is restated here, and from where:

* `save` — `/repo/onnxscript/_framework_apis/torch_2_5.py:67-108`: the uninitialised-initializer guard over
  `model.graph.initializers` (the **main graph only**; parameter `deep` = "the guard walks `model.graphs()`",
  `false` on the pinned tree) *before* anything else, `data_path = f"{destination_path.name}.data"`, the
  tqdm / non-tqdm branches (identical up to the progress callback, which performs no file-system call), and the
  call `ir.save(model, model_path, external_data=data_path[, callback=…])` — hence the default
  `size_threshold_bytes = 256`.
* `irSave` — `onnx_ir/_io.py:save` (third party, contract A-ir; transcribed because the tie executes the real
  one): remember `const_value` of every initializer of every graph → `try:` `unload_from_model`, `serialize_model`,
  `onnx.save` (`open(path,"wb")`, one `write`, close) → `finally:` put every `const_value` back.
* `unload` — `onnx_ir/external_data.py:unload_from_model` (single-file branch, `max_shard_size_bytes=None`):
  classify (`nbytes > 256` → becomes external; otherwise an `ExternalTensor` is loaded to memory), load the small
  external ones first, `convert_tensors_to_external`, then swap the `const_value`s.
* `convertToExternal` — `convert_tensors_to_external`: `os.path.exists(dest)`; every `ExternalTensor` whose file
  *is* the destination is read into memory and the original object is **invalidated** (`tensor.invalidate()`),
  stable sort by `nbytes`, offsets by `_compute_new_offset` (`_ALIGN_THRESHOLD = 1048576`, alignment
  `max(4096, 65536)`), `_write_external_data` (`with open(dest,"wb")`: per tensor the optional callback, zero padding
  up to the offset, `tensor.tofile(file)`), new `ExternalTensor`s, restored to the input order.
* `tofile` — the three ways a tensor reaches the file: `ir.Tensor` over an `ndarray` on a file with `fileno()`
  (`numpy.ndarray.tofile`: `file.flush()`, a C-level write through a dup'ed descriptor, `file.seek(pos)`),
  any other in-memory tensor (`file.write(tobytes())`), and `ExternalTensor.tofile` (`open(src,"rb")`, `seek(offset)`,
  1 MiB `read`/`write` chunks, close).
* Faults: the `k`-th file-system call (`open`, `write`, `flush`, `seek`, `read`, `close`; counted from 0) raises
  `OSError` *instead of* being performed.  `stat`-family calls (`os.path.exists`, `samefile`, `realpath`),
  `tell` and `fileno` are not fault points (their failures are swallowed by the code or they do not touch the disk).

Tensor objects live in a heap (`index = identity`); `cv` is the `const_value` pointer of each initializer.
-/
namespace OV.C20

abbrev Bytes := List Nat

/-- A tensor object. `np = true`: `ir.Tensor` backed by a NumPy array (the `ndarray.tofile` fast path);
`np = false`: any other in-memory tensor (`TorchTensor`, `TensorProtoTensor`, …: `file.write(tobytes())`).
`ext`: `ExternalTensor` whose (resolved) file is `file`. -/
inductive TRef
  | mem (b : Bytes) (np : Bool)
  | ext (file : String) (off len : Nat) (valid : Bool)
  deriving Repr, DecidableEq, Inhabited

def TRef.nbytes : TRef → Nat
  | .mem b _ => b.length
  | .ext _ _ len _ => len

/-- An initializer as it appears in the serialized model. -/
inductive PInit
  | inline (b : Bytes)
  | external (file : String) (off len : Nat)
  deriving Repr, DecidableEq, Inhabited

/-- name, "lives in a subgraph", payload. -/
abbrev Proto := List (String × Bool × PInit)

inductive Content
  | data (b : Bytes)
  | proto (p : Proto)
  deriving Repr, DecidableEq, Inhabited

abbrev FS := List (String × Content)

def FS.get? (fs : FS) (f : String) : Option Content := fs.lookup f

def FS.set : FS → String → Content → FS
  | [], f, c => [(f, c)]
  | (g, d) :: rest, f, c => if g = f then (g, c) :: rest else (g, d) :: FS.set rest f c

def FS.append (fs : FS) (f : String) (b : Bytes) : FS :=
  match fs.get? f with
  | some (.data old) => fs.set f (.data (old ++ b))
  | _ => fs.set f (.data b)

def slice (b : Bytes) (off len : Nat) : Bytes := (b.drop off).take len

/-- Read `len` bytes at `off` of a data file; `none` when the file is missing, not a data file, or too short.
An empty tensor never touches its file (`ExternalTensor._load`: `if self.size == 0: np.empty(...)`). -/
def FS.read (fs : FS) (f : String) (off len : Nat) : Option Bytes :=
  if len = 0 then some [] else
  match fs.get? f with
  | some (.data b) => if off + len ≤ b.length then some (slice b off len) else none
  | _ => none

inductive Err
  | valueError | osError | typeError
  deriving Repr, DecidableEq, Inhabited

inductive Op
  | openW (f : String) | openR (f : String) | write (f : String) (n : Nat) | flush (f : String)
  | seek (f : String) (pos : Nat) | read (f : String) | close (f : String)
  deriving Repr, DecidableEq, Inhabited

structure St where
  k : Option Nat              -- fault plan: the k-th FS call raises OSError
  calls : Nat := 0
  trace : List Op := []
  fs : FS
  heap : List TRef            -- tensor objects, index = identity
  cv : List (Option Nat)      -- const_value of each initializer (all graphs, in `model.graphs()` order)
  cb : List (String × Nat) := []   -- progress-callback log: (tensor name, offset)
  cbTotal : Option Nat := none
  wopened : List String := []      -- files successfully opened for writing so far (the handles writes go through)
  tn : List String := []           -- current `name` of each ORIGINAL tensor object (index = identity)
  deriving Repr, Inhabited

abbrev M (α : Type) := St → Except Err α × St

@[inline] def M.pure (a : α) : M α := fun s => (.ok a, s)
@[inline] def M.bind (x : M α) (f : α → M β) : M β := fun s =>
  match x s with
  | (.ok a, s') => f a s'
  | (.error e, s') => (.error e, s')

instance : Monad M where
  pure := M.pure
  bind := M.bind

def get : M St := fun s => (.ok s, s)
def modify (f : St → St) : M Unit := fun s => (.ok (), f s)
def throw (e : Err) : M α := fun s => (.error e, s)

/-- One file-system call: counted, traced, and failing when it is the planned fault. -/
def tick (op : Op) : M Unit := fun s =>
  let s' := { s with calls := s.calls + 1, trace := s.trace ++ [op] }
  if s.k = some s.calls then (.error .osError, s') else (.ok (), s')

/-- `try: body finally: fin` (the `finally` block here never raises). -/
def tryFinally (body : M α) (fin : St → St) : M α := fun s =>
  match body s with
  | (r, s') => (r, fin s')

/-- The body of `with open(f) as h:` — `h.close()` runs on both exits (and is itself an FS call). -/
def withClose (f : String) (body : M α) : M α := fun s =>
  match body s with
  | (.ok a, s1) =>
    (match tick (.close f) s1 with
     | (.ok _, s2) => (.ok a, s2)
     | (.error e, s2) => (.error e, s2))
  | (.error e, s1) =>
    (match tick (.close f) s1 with
     | (.ok _, s2) => (.error e, s2)
     | (.error e', s2) => (.error e', s2))

/-- Monadic map over a list, left to right (own definition: structural, easy to induct on). -/
def mapM' (f : α → M β) : List α → M (List β)
  | [] => pure []
  | a :: as => do
    let b ← f a
    let bs ← mapM' f as
    pure (b :: bs)

def forM' (f : α → M Unit) : List α → M Unit
  | [] => pure ()
  | a :: as => do f a; forM' f as

/-! ## File-system primitives -/

/-- Writing goes through a handle obtained by a successful `open(f, "wb")` (never violated by the transcribed
sequence; `EBADF` otherwise). -/
def needHandle (f : String) : M Unit := fun s =>
  if s.wopened.contains f then (.ok (), s) else (.error .osError, s)

def fsOpenW (f : String) : M Unit := do
  tick (.openW f)
  modify fun s => { s with fs := s.fs.set f (.data []), wopened := s.wopened ++ [f] }

def fsWrite (f : String) (b : Bytes) : M Unit := do
  needHandle f
  tick (.write f b.length)
  modify fun s => { s with fs := s.fs.append f b }

/-- C-level write of `ndarray.tofile` through a dup'ed descriptor: not interceptable, not a fault point. -/
def fsCWrite (f : String) (b : Bytes) : M Unit := do
  needHandle f
  modify fun s => { s with fs := s.fs.append f b }

def fsWriteProto (f : String) (p : Proto) : M Unit := do
  needHandle f
  tick (.write f 0)
  modify fun s => { s with fs := s.fs.set f (.proto p) }

/-- `open(f, "rb")`: a missing file is `FileNotFoundError` (an `OSError`). Returns the whole content. -/
def fsOpenR (f : String) : M Bytes := do
  tick (.openR f)
  match (← get).fs.get? f with
  | some (.data b) => pure b
  | some (.proto _) => throw .valueError
  | none => throw .osError

def fileLen (f : String) : M Nat := do
  match (← get).fs.get? f with
  | some (.data b) => pure b.length
  | _ => pure 0

/-! ## Tensor objects -/

def newObj (t : TRef) : M Nat := fun s => (.ok s.heap.length, { s with heap := s.heap ++ [t] })

def getObj (id : Nat) : M TRef := do
  match (← get).heap[id]? with
  | some t => pure t
  | none => throw .typeError

/-- `ExternalTensor.invalidate()` — mutates the object in place. -/
def invalidate (id : Nat) : M Unit :=
  modify fun s => { s with heap := s.heap.modify id fun
    | .ext f o l _ => .ext f o l false
    | t => t }

/-- `_external_tensor_to_memory_tensor`: `tensor.numpy().copy()` (`_check_validity`, then for a non-empty tensor
`open(path,"rb")` + `mmap` + close), `release()`, a fresh `ir.Tensor`. -/
def extToMem (id : Nat) : M Nat := do
  match (← getObj id) with
  | .mem _ _ => throw .typeError
  | .ext f off len valid =>
    if !valid then throw .valueError
    else if len = 0 then newObj (.mem [] true)
    else do
      let whole ← fsOpenR f
      let r ← withClose f (do
        if whole.length = 0 then throw .valueError          -- "cannot mmap an empty file"
        else pure ())
      let _ := r
      if off + len ≤ whole.length then newObj (.mem (slice whole off len) true)
      else throw .valueError                                  -- np.frombuffer: buffer is smaller than requested

/-! ## Layout -/

def alignThreshold : Nat := 1048576
def alignFactor : Nat := 65536
def sizeThreshold : Nat := 256
def chunkSize : Nat := 1048576

/-- `_compute_new_offset`. -/
def newOffset (cur size : Nat) : Nat :=
  if size > alignThreshold then (cur + alignFactor - 1) / alignFactor * alignFactor else cur

/-- Offsets and lengths for tensors of the given sizes written in this order starting at `cur`. -/
def layout (cur : Nat) : List Nat → List (Nat × Nat)
  | [] => []
  | n :: ns => (newOffset cur n, n) :: layout (newOffset cur n + n) ns

/-- Stable insertion (by size) used by `sortBySize`; an element is put *before* equal ones that follow it. -/
def insBySize (size : α → Nat) (x : α) : List α → List α
  | [] => [x]
  | y :: ys => if size x ≤ size y then x :: y :: ys else y :: insBySize size x ys

/-- `sorted(range(n), key=nbytes)`: stable, ascending. -/
def sortBySize (size : α → Nat) (l : List α) : List α := l.foldr (insBySize size) []

/-! ## Writing the data file -/

def zeros (n : Nat) : Bytes := List.replicate n 0

/-- Chunks read by `ExternalTensor.tofile` (`src.read(min(1 MiB, remaining))`). -/
def chunks (c : Nat) : Nat → Bytes → List Bytes
  | 0, _ => []
  | fuel + 1, l => if l.isEmpty then [] else l.take c :: chunks c fuel (l.drop c)

/-- `tensor.tofile(data_file)`. -/
def tofile (dest : String) (id : Nat) : M Unit := do
  match (← getObj id) with
  | .mem b true => do
    tick (.flush dest)
    fsCWrite dest b
    let n ← fileLen dest
    tick (.seek dest n)
  | .mem b false => fsWrite dest b
  | .ext f off len valid =>
    if !valid then throw .valueError
    else do
      let whole ← fsOpenR f
      withClose f (do
        tick (.seek f off)
        let avail := slice whole off len
        forM' (fun c => do tick (.read f); fsWrite dest c) (chunks chunkSize avail.length avail)
        if avail.length < len then do
          tick (.read f)          -- the read that returns b"" → OSError "shorter than expected"
          throw .osError
        else pure ())

/-- One iteration of the loop of `_write_external_data`. -/
def writeOne (dest : String) (verbose : Bool) (item : String × Nat × Nat) : M Unit := do
  let (name, id, off) := item
  if verbose then modify fun s => { s with cb := s.cb ++ [(name, off)] }
  let size ← fileLen dest            -- data_file.tell()
  if off > size then fsWrite dest (zeros (off - size))
  tofile dest id

/-- `_write_external_data`. -/
def writeExternalData (dest : String) (verbose : Bool) (items : List (String × Nat × Nat)) : M Unit := do
  fsOpenW dest
  withClose dest (do
    if verbose && !items.isEmpty then modify fun s => { s with cbTotal := some items.length }
    forM' (writeOne dest verbose) items)

/-- An entry handled by `convert_tensors_to_external`: position in the input list, initializer name, object id, size. -/
structure Ent where
  pos : Nat
  name : String
  id : Nat
  size : Nat
  deriving Repr, DecidableEq, Inhabited

def mkEnts (pos : Nat) : List String → List Nat → List Nat → List Ent
  | n :: ns, i :: is, z :: zs => { pos := pos, name := n, id := i, size := z } :: mkEnts (pos + 1) ns is zs
  | _, _, _ => []

def zipOffsets : List Ent → List (Nat × Nat) → List (Ent × Nat)
  | e :: es, (o, _) :: os => (e, o) :: zipOffsets es os
  | _, _ => []

/-- One step of `_materialize_external_tensors_for_destination_paths`: an `ExternalTensor` whose file is the
destination (which exists) is read into memory and the original object is invalidated. -/
def materializeOne (dest : String) (exists_ : Bool) (p : String × Nat) : M Nat := do
  if !exists_ then pure p.2
  else match (← getObj p.2) with
    | .ext f _ _ _ =>
      if f = dest then do
        let nid ← extToMem p.2
        invalidate p.2
        pure nid
      else pure p.2
    | .mem _ _ => pure p.2

def sizeOf (id : Nat) : M Nat := do pure (← getObj id).nbytes

/-- `_create_external_tensor` for one placed entry. -/
def makeExternal (dest : String) (p : Ent × Nat) : M (Nat × Nat) := do
  let nid ← newObj (.ext dest p.2 p.1.size true)
  pure (p.1.pos, nid)

/-- `[made[pos] for pos in i, i+1, …]` — the new tensors back in input order (`made` is keyed by input position). -/
def gather (made : List (Nat × Nat)) : Nat → Nat → Option (List Nat)
  | _, 0 => some []
  | i, fuel + 1 =>
    match made.lookup i, gather made (i + 1) fuel with
    | some v, some r => some (v :: r)
    | _, _ => none

/-- Sorting, offsets, writing, new objects, back to the input order (everything after materialisation). -/
def placeAndWrite (dest : String) (verbose : Bool) (names : List String) (ids : List Nat) : M (List Nat) := do
  let sizes ← mapM' sizeOf ids
  let ents := mkEnts 0 names ids sizes
  let sorted := sortBySize Ent.size ents
  let lay := layout 0 (sorted.map Ent.size)
  let placed := zipOffsets sorted lay
  writeExternalData dest verbose (placed.map fun (e, o) => (e.name, e.id, o))
  let made ← mapM' (makeExternal dest) placed                 -- in sorted order
  match gather made 0 names.length with                         -- back to the input order
  | some out => pure out
  | none => throw .typeError

/-- `convert_tensors_to_external(tensors, base_dir, relative_path, callback)`; `inp` = (name, object id) in input
order.  Returns the new `ExternalTensor` objects in input order. -/
def convertToExternal (dest : String) (verbose : Bool) (inp : List (String × Nat)) : M (List Nat) := do
  let exists_ := ((← get).fs.get? dest).isSome          -- os.path.exists(path)
  let ids ← mapM' (materializeOne dest exists_) inp
  placeAndWrite dest verbose (inp.map (·.1)) ids

/-- What `unload_from_model` does with an initializer: `ext` — `nbytes > 256`, (re)written to the data file;
`mem` — a small `ExternalTensor`, loaded to memory; `keep` — untouched (small in-memory tensor, or no `const_value`). -/
inductive Tag
  | ext | mem | keep
  deriving Repr, DecidableEq, Inhabited

def classify (thr : Nat) (heap : List TRef) : Option Nat → Tag
  | none => .keep
  | some id =>
    match heap[id]? with
    | none => .keep
    | some t =>
      if t.nbytes > thr then .ext
      else match t with
        | .ext _ _ _ _ => .mem
        | .mem _ _ => .keep

/-- `initializers_to_become_external` as (tensor name, tensor object), in `model.graphs()` order; `tnames[id]` is
the `name` of tensor object `id` (what the progress callback prints). -/
def extInputs (thr : Nat) (heap : List TRef) (tnames : List String) : List (Option Nat) → List (String × Nat)
  | some id :: cv =>
    if classify thr heap (some id) = .ext then (tnames.getD id "", id) :: extInputs thr heap tnames cv
    else extInputs thr heap tnames cv
  | none :: cv => extInputs thr heap tnames cv
  | [] => []

/-- `initializers_to_load_to_memory` (tensor objects), in order. -/
def memInputs (thr : Nat) (heap : List TRef) : List (Option Nat) → List Nat
  | some id :: cv => if classify thr heap (some id) = .mem then id :: memInputs thr heap cv else memInputs thr heap cv
  | none :: cv => memInputs thr heap cv
  | [] => []

/-- The two `for value, tensor in zip(values, tensors): value.const_value = tensor` loops: every `ext`-tagged
initializer takes the next new external tensor, every `mem`-tagged one the next loaded tensor. -/
def mergeCv (thr : Nat) (heap : List TRef) : List (Option Nat) → List Nat → List Nat → List (Option Nat)
  | [], _, _ => []
  | c :: cv, es, ms =>
    match classify thr heap c, es, ms with
    | .ext, e :: es', _ => some e :: mergeCv thr heap cv es' ms
    | .mem, _, m :: ms' => some m :: mergeCv thr heap cv es ms'
    | _, _, _ => c :: mergeCv thr heap cv es ms

/-- `unload_from_model(model, base_dir, relative_path, size_threshold_bytes=256)`; `tnames[id]` names tensor object `id`. -/
def unload (thr : Nat) (tnames : List String) (dest : String) (verbose : Bool) : M Unit := do
  let s ← get
  let memIds ← mapM' extToMem (memInputs thr s.heap s.cv)          -- convert_tensors_from_external, first
  let extIds ← convertToExternal dest verbose (extInputs thr s.heap tnames s.cv)
  modify fun s' => { s' with cv := mergeCv thr s.heap s.cv extIds memIds }

/-- `serde.serialize_model`: initializers without a `const_value` are dropped (a warning is logged). -/
def serializeAux (heap : List TRef) : List (String × Bool) → List (Option Nat) → Except Err Proto
  | (n, sub) :: sig, c :: cv =>
    match serializeAux heap sig cv with
    | .error e => .error e
    | .ok rest =>
      match c with
      | none => .ok rest
      | some id =>
        match heap[id]? with
        | some (.mem b _) => .ok ((n, sub, PInit.inline b) :: rest)
        | some (.ext f o l _) => .ok ((n, sub, PInit.external f o l) :: rest)
        | none => .error .typeError
  | _, _ => .ok []

def serialize (sig : List (String × Bool)) (s : St) : Except Err Proto := serializeAux s.heap sig s.cv

def joinPath (dir name : String) : String := if dir = "" then name else dir ++ "/" ++ name

/-- `serde._serialize_graph`: `value.const_value.name = value.name` for every initializer with a `const_value`, in
`model.graphs()` order (objects created during the save are not tracked: `List.set` beyond the end is a no-op). -/
def renameAll : List (String × Bool) → List (Option Nat) → List String → List String
  | (n, _) :: sig, some id :: cv, tn => renameAll sig cv (tn.set id n)
  | _ :: sig, none :: cv, tn => renameAll sig cv tn
  | _, _, tn => tn

/-- `ir.save(model, path, external_data=rel, callback=…)`. -/
def irSave (thr : Nat) (sig : List (String × Bool)) (tnames : List String) (dir name rel : String) (verbose : Bool) : M Unit := do
  let orig := (← get).cv                                  -- initialized_values / tensors
  tryFinally (do
      unload thr tnames (joinPath dir rel) verbose
      modify fun s => { s with tn := renameAll sig s.cv s.tn }   -- serialize_model renames the tensors it visits
      match serialize sig (← get) with
      | .error e => throw e
      | .ok p => do
        let mp := joinPath dir name
        fsOpenW mp                                          -- onnx.save → _save_bytes
        withClose mp (fsWriteProto mp p))
    (fun s => { s with cv := orig })                        -- finally: initializer.const_value = tensor

/-- Indices of initializers the guard of `save_model_with_external_data` complains about. -/
def guardHits (deep : Bool) (sig : List (String × Bool)) (cv : List (Option Nat)) : List String :=
  ((sig.zip cv).filter fun (x : (String × Bool) × Option Nat) => x.2.isNone && (deep || !x.1.2)).map (·.1.1)

/-- Which guards `save_model_with_external_data` has.  **The defaults are the code as it is** (pinned by the harness, no
probing): all four repairs are in /repo.  The `false` values describe the function before the respective commit and are kept
only so that the refutation theorems of the old behaviour remain stated.
`deep` — the uninitialized-initializer guard walks every graph (1c518f5; function bodies b7a9ed1 are outside the model);
`refuse` — the second guard refuses, before writing, a model one of whose initializers is an `ExternalTensor` stored in
the destination data file (56a0c3c, finding C20-D1);
`refuseModel` — the second guard also refuses an initializer stored as external data in the file at `model_path` ITSELF
(3d20cf2, finding C20-D5: `onnx.save` would overwrite the tensor's backing file);
`keepNames` — the names of the initializers' tensors are remembered and put back in a `finally` (657db39, finding C20-D4);
`tqdm` — `importlib.util.find_spec("tqdm") is not None` (environment, not code): the progress-bar branch with its callback
is taken iff `verbose and tqdm`;
`thr` — `size_threshold_bytes` of `ir.save` (the function passes none, so onnx_ir's default 256 applies): tensors of more
than `thr` bytes go to the data file, smaller external ones are loaded to memory, smaller in-memory ones stay inline. -/
structure Cfg where
  deep : Bool := true
  refuse : Bool := true
  keepNames : Bool := true
  refuseModel : Bool := true
  tqdm : Bool := true
  thr : Nat := 256
  deriving Repr, DecidableEq, Inhabited

/-- Initializers (by `const_value`) whose tensor is an `ExternalTensor` stored in `dest`
(`isinstance(value.const_value, ir.ExternalTensor) and _is_same_file(value.const_value.path, data_file)`). -/
def destHits (dest : String) (heap : List TRef) (cv : List (Option Nat)) : List Nat :=
  cv.filterMap fun c =>
    match c with
    | some id =>
      (match heap[id]? with
       | some (.ext f _ _ _) => if f = dest then some id else none
       | _ => none)
    | none => none

/-- `save_model_with_external_data(model, model_path, …)`; `model_path = dir/name`; `verbose` here is `use_tqdm`, the
branch condition (`runSave` computes it as `verbose and find_spec("tqdm") is not None`). -/
def save (cfg : Cfg) (sig : List (String × Bool)) (tnames : List String) (dir name : String) (verbose : Bool) : M Unit := do
  let s ← get
  if !(guardHits cfg.deep sig s.cv).isEmpty then throw .valueError
  else if (cfg.refuse && !(destHits (joinPath dir (name ++ ".data")) s.heap s.cv).isEmpty) ||
      (cfg.refuseModel && !(destHits (joinPath dir name) s.heap s.cv).isEmpty) then throw .valueError
  else if cfg.keepNames then
    tryFinally (irSave cfg.thr sig tnames dir name (name ++ ".data") verbose) (fun s' => { s' with tn := s.tn })
  else irSave cfg.thr sig tnames dir name (name ++ ".data") verbose

/-- A model in memory: initializer signature (name, in-subgraph), `const_value` pointers, tensor objects. -/
structure Model where
  sig : List (String × Bool)
  cv : List (Option Nat)
  heap : List TRef
  tnames : List String := []      -- `name` of each tensor object (only the progress callback looks at it)
  deriving Repr, Inhabited, DecidableEq

structure Result where
  res : Except Err Unit
  st : St
  deriving Inhabited

def init (m : Model) (fs : FS) (k : Option Nat) : St :=
  { k := k, fs := fs, heap := m.heap, cv := m.cv, tn := m.tnames }

/-- Run the save on model `m`, file system `fs`, fault plan `k`. -/
def runSave (cfg : Cfg) (m : Model) (dir name : String) (verbose : Bool) (fs : FS) (k : Option Nat) : Result :=
  match save cfg m.sig m.tnames dir name (verbose && cfg.tqdm) (init m fs k) with
  | (r, s) => { res := r, st := s }

/-- The model after the call: same signature, the state's pointers, the *original* objects' state. -/
def Result.model (r : Result) (m : Model) : Model :=
  { sig := m.sig, cv := r.st.cv, heap := r.st.heap.take m.heap.length, tnames := m.tnames }

/-- Bytes a tensor object denotes on a file system (`none`: invalidated, or unreadable). -/
def bytesOf (fs : FS) : TRef → Option Bytes
  | .mem b _ => some b
  | .ext f off len valid => if valid then fs.read f off len else none

/-- `ir.load(dir/name)` followed by reading every tensor: (name, in-subgraph, bytes). -/
def load (fs : FS) (dir name : String) : Option (List (String × Bool × Bytes)) :=
  match fs.get? (joinPath dir name) with
  | some (.proto p) => p.mapM fun (x : String × Bool × PInit) =>
      match x.2.2 with
      | .inline b => some (x.1, x.2.1, b)
      | .external f off len => (fs.read f off len).map fun b => (x.1, x.2.1, b)
  | _ => none

end OV.C20
